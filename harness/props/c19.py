"""C19 — hand-written derivatives are the true derivatives.

Tie: translator G5 (the forward / saved terms of RBFCovariance and MaternCovariance are regenerated from the
source and `Props/C19.lean` proves `HasDerivAt` about exactly those terms) AND correspondence:

  kernels      torch.autograd.grad through the public kernel call (fast path) vs
               (a) Σ go·saved of the generated saved term evaluated by the Lean driver (what the theorem is about),
               (b) float64 central differences of the Lean Spec value, (c) autograd of an independent dense
               re-implementation, (d) the generic (autograd) path of the same kernel: values and gradients;
  predictions  d(mean, variance)/d(test inputs) of an ExactGP vs central differences;
  LogNormalCDF backward vs mpmath φ/Φ on [-40, 10] incl. the branch boundaries, and vs central differences of forward;
  natural      _NaturalToMuVarSqrt / _TrilNaturalToMuVarSqrt backward vs autograd of the explicit map from the
               expectation parameters, and vs the exact Lean model (naturalBackward, choleskyBackward over Rat);
  CIQ          _NgdInterpTerms.backward vs autograd of the explicit dense map, and vs the Lean model (data terms).
wave 3:
  translator   g5_natgrad regenerates the matrix backward passes (Gen/NaturalGrad.lean); drivers/C19.lean executes the
               generated definitions next to the model (`GB`, `NGDX`): generated = model exactly, implementation = exact value
               of the PROVED expressions (tril tangent, all three CIQ gradients incl. the KL terms, forward values);
  inputs       d k / d x vs the proved closed forms G·(x1−x2)/ℓ² (RBF, Matérn 3/2, 5/2);
  histories    forward; in-place edit of an OUTPUT or an INPUT of the Function; backward (`output_inplace`).
"""
import json
import math
import os
import sys
import warnings

from lib import common as C
from props import c05 as K5

ID = "C19"
PROP_MODULES = ["GPVerif.Props.C19"]
BUILD_TARGETS = ["GPVerif.Props.C19", "GPVerif.Gen.Formulas", "GPVerif.Model.Kernels", "GPVerif.Model.NaturalGrad",
                 "GPVerif.Gen.NaturalGrad", "GPVerif.Model.NaturalGradDriver"]
RULE = ("random rows (incl. coincident points, dist = 0), lengthscales, upstream gradient tensors, batch shapes, "
        "nu in {1/2,3/2,5/2}; CDF arguments on a grid over [-40,10] plus both sides of every branch boundary; random "
        "SPD natural parameters; distinct = distinct (function, inputs); non-trivial = non-zero upstream gradient")
TRUSTED = ["translator harness/translate/g5_formulas.py", "translator harness/translate/g5_natgrad.py (differentially tested on "
           "every run: the driver executes the generated definitions next to the model, exact equality required)", "torch.autograd (used as the differentiation oracle of the "
           "independent dense re-implementations)", "mpmath normal pdf/cdf at 60 digits"]
ASSUMPTIONS = ["float64 only", "central differences with h = 1e-6 are accurate to 1e-6 relative on the smooth test functions",
               "linear_cg inside _NgdInterpTerms.forward converges to 1e-10 on the well-conditioned test problems "
               "(residual monitored; a larger residual is reported as an assumption failure of linear_operator)"]
EXHAUSTIVE = False

GEN = K5.GEN
GEN_NG = os.path.join(C.LEAN_DIR, "GPVerif", "Gen", "NaturalGrad.lean")


def _typecheck_candidate(text):
    """type-check a candidate Gen/NaturalGrad.lean (copy under lean/.audit) before it replaces the current file"""
    import subprocess
    d = os.path.join(C.LEAN_DIR, ".audit")
    os.makedirs(d, exist_ok=True)
    path = os.path.join(d, "NaturalGrad_candidate.lean")
    with open(path, "w") as fh:
        fh.write(text)
    try:
        r = subprocess.run(["lake", "env", "lean", os.path.join(".audit", "NaturalGrad_candidate.lean")], cwd=C.LEAN_DIR,
                           capture_output=True, text=True, timeout=900)
    finally:
        try:
            os.remove(path)
        except OSError:
            pass
    bad = [l for l in (r.stdout + r.stderr).splitlines() if ": error" in l]
    return None if r.returncode == 0 and not bad else "; ".join(bad[:3])[:600] or f"lean exited with {r.returncode}"


def generate(ctx):
    K5.generate(ctx)
    sys.path.insert(0, os.path.join(C.VERIF, "harness"))
    from translate import g5_natgrad
    ctx.notes["gen_natgrad_changed"] = g5_natgrad.generate(C.REPO, GEN_NG, check=_typecheck_candidate)


def _t(x, **kw):
    import torch
    return torch.tensor(x, dtype=torch.float64, **kw)


# ------------------------------------------------------------------------------------------- kernels

def _dense_ref(fam, nu2, X1, X2, ell, outputscale=None):
    """independent dense re-implementation (plain differences, no expansion), differentiable in ell"""
    import torch
    diff = (X1.unsqueeze(-2) - X2.unsqueeze(-3)) / ell.unsqueeze(-2)
    r2 = (diff ** 2).sum(-1)
    if fam == "rbf":
        k = torch.exp(-0.5 * r2)
    else:
        r = torch.sqrt(r2 + 0.0)
        # d sqrt at 0 is inf for autograd: use the closed forms in r2 where possible
        r = torch.where(r2 > 0, torch.sqrt(torch.where(r2 > 0, r2, torch.ones_like(r2))), torch.zeros_like(r2))
        s = math.sqrt(nu2) * r
        k = {1: 1.0, 3: 1 + s, 5: 1 + s + s * s / 3}[nu2] * torch.exp(-s)
    if outputscale is not None:
        k = outputscale.reshape(*outputscale.shape, 1, 1) * k
    return k


def kernel_gradients(ctx, rng, q):
    import numpy as np
    import torch
    import gpytorch
    import gpytorch.kernels as GK
    reps = 8 if ctx.quick else 60
    work = []
    for rep in range(reps):
        for fam, nu2 in (("rbf", None), ("matern", 1), ("matern", 3), ("matern", 5)):
            for batch in (None, 2):
                B = batch or 1
                d = rng.choice([x for x in (1, 2, 3, 4) if x != B])
                n1, n2 = rng.sample([x for x in (1, 2, 3, 4, 5, 6) if x not in (B, d)], 2)   # B, d, n1, n2 pairwise different
                x1 = [K5.rand_x(rng, n1, d) for _ in range(B)]
                x2 = [K5.rand_x(rng, n2, d) for _ in range(B)]
                mode = rng.choice(["distinct", "shared", "same"])
                if mode == "shared":
                    for b in range(B):
                        x2[b][0] = list(x1[b][0])            # coincident points: dist = 0 off the diagonal
                elif mode == "same":
                    x2 = None
                ells = [K5.logu(rng, 0.3, 3.0) for _ in range(B)]
                scales = [K5.logu(rng, 0.2, 5.0) for _ in range(B)]
                with_scale = rng.random() < 0.5
                name = "RBFCovariance" if fam == "rbf" else f"MaternCovariance(nu={nu2 / 2})"
                bs = torch.Size([B]) if batch else torch.Size([])

                def mk():
                    base = (GK.RBFKernel(batch_shape=bs) if fam == "rbf" else GK.MaternKernel(nu=nu2 / 2.0, batch_shape=bs)).double()
                    base.lengthscale = _t(ells).reshape(*bs, 1, 1)
                    k = base
                    if with_scale:
                        k = GK.ScaleKernel(base, batch_shape=bs).double()
                        k.outputscale = _t(scales).reshape(bs) if batch else _t(scales[0])
                    return k, base
                X1 = _t(x1) if batch else _t(x1[0])
                X2 = None if x2 is None else (_t(x2) if batch else _t(x2[0]))
                X2e = X1 if X2 is None else X2
                go = _t([K5.rand_x(rng, n1, X2e.shape[-2]) for _ in range(B)])
                go = go if batch else go[0]
                # ---- fast path (hand-written backward)
                k, base = mk()
                with warnings.catch_warnings():
                    warnings.simplefilter("ignore")
                    out = (k(X1, X2) if X2 is not None else k(X1)).to_dense()
                params = [base.raw_lengthscale] + ([k.raw_outputscale] if with_scale else [])
                g_fast = torch.autograd.grad(out, params, grad_outputs=go)
                # was the hand-written Function really used?
                fn = out.grad_fn
                used = _uses_function(fn, name.split("(")[0] + "Backward")
                # ---- generic path (inputs require grad -> autograd through covar_dist)
                k2, base2 = mk()
                X1g = X1.clone().requires_grad_(True)
                with warnings.catch_warnings():
                    warnings.simplefilter("ignore")
                    out2 = (k2(X1g, X2) if X2 is not None else k2(X1g)).to_dense()
                params2 = [base2.raw_lengthscale] + ([k2.raw_outputscale] if with_scale else [])
                g_gen = torch.autograd.grad(out2, params2, grad_outputs=go)
                # ---- independent dense re-implementation
                raw = base.raw_lengthscale.detach().clone().requires_grad_(True)
                ell_t = torch.nn.functional.softplus(raw)
                osr = None
                if with_scale:
                    osr = k.raw_outputscale.detach().clone().requires_grad_(True)
                ref = _dense_ref(fam, nu2, X1, X2e, ell_t, None if osr is None else torch.nn.functional.softplus(osr))
                g_ref = torch.autograd.grad(ref, [raw] + ([osr] if with_scale else []), grad_outputs=go)
                # ---- Lean: generated saved term, and Spec values at ell ± h
                ell_act = base.lengthscale.detach().reshape(-1).tolist()
                sc_act = k.outputscale.detach().reshape(-1).tolist() if with_scale else [1.0] * B
                hs = []
                for b in range(B):
                    xa = x1[b]
                    xb = x1[b] if x2 is None else x2[b]
                    mean = np.mean(np.array(xa), axis=0).tolist()
                    if fam == "rbf":
                        f = q.ask(f"F rbf 1 {K5.num(ell_act[b])} {K5.mat(xa)} {K5.mat(xb)}")
                        kern = "rbf 1 {}"
                    else:
                        f = q.ask(f"F matern {nu2} 1 {K5.num(ell_act[b])} {K5.vec(mean)} {K5.mat(xa)} {K5.mat(xb)}")
                        kern = f"matern {nu2} 1 {{}}"
                    h = 1e-6 * ell_act[b]
                    kp = q.ask(f"K {kern.format(K5.num(ell_act[b] + h))} {K5.mat(xa)} {K5.mat(xb)}")
                    km = q.ask(f"K {kern.format(K5.num(ell_act[b] - h))} {K5.mat(xa)} {K5.mat(xb)}")
                    hs.append((f, kp, km, h))
                dl_draw = torch.sigmoid(base.raw_lengthscale.detach()).reshape(-1).tolist()
                desc = {"fn": name, "x1": x1, "x2": x2, "ell": ells, "scale": scales if with_scale else None,
                        "batch": batch, "go": go.tolist()}
                ctx.case({"k": name, "x1": x1, "x2": x2, "l": ells, "b": batch, "s": with_scale},
                         sample={"function": name, "batch": batch, "mode": mode, "n1": n1, "with_scale": with_scale})
                ctx.count("fast_path_used" if used else "fast_path_not_used")
                spec = {"t": "rbf" if fam == "rbf" else "matern", "nu2": nu2, "ls": [0.0]}
                extra = np.stack([K5.slack(dict(spec, ls=[ell_act[b]]), x1[b], x1[b] if x2 is None else x2[b], True)[1] * sc_act[b]
                                  for b in range(B)])
                extra = extra if batch else extra[0]
                work.append((name, desc, hs, go.numpy().reshape(B, n1, -1), sc_act, dl_draw, extra,
                             [g.detach().numpy().reshape(-1) for g in g_fast],
                             [g.detach().numpy().reshape(-1) for g in g_gen],
                             [g.detach().numpy().reshape(-1) for g in g_ref],
                             out.detach().numpy(), out2.detach().numpy(), ref.detach().numpy()))

    def finish():
        for name, desc, hs, go, sc, dl, extra, gf, gg, gr, o1, o2, oref in work:
            B = len(hs)
            lean_g, fd_g = [], []
            have_lean = q.ok(hs[0][0])
            for b, (f, kp, km, h) in enumerate(hs if have_lean else []):
                mats = K5.parse_bits(q[f])
                lean_g.append(float((go[b] * mats[1]).sum()) * sc[b] * dl[b])
                Kp, Km = K5.parse_bits(q[kp])[0], K5.parse_bits(q[km])[0]
                fd_g.append(float((go[b] * (Kp - Km)).sum()) / (2 * h) * sc[b] * dl[b])
            lean_g, fd_g = np.array(lean_g), np.array(fd_g)
            sc_ = max(1.0, float(np.abs(lean_g if have_lean else gr[0]).max()))

            def bad(a, b, rtol, atol):
                return not np.allclose(a, b, rtol=rtol, atol=atol * sc_)
            if not have_lean:
                pass
            elif bad(gf[0], lean_g, 1e-8, 1e-10):
                ctx.fail(f"{name}.backward/lengthscale-grad",
                         f"{name}: d/d raw_lengthscale through the public call is {gf[0].tolist()}, the derivative of the "
                         f"forward term (Σ grad_output·d_output_d_input, Lean) is {lean_g.tolist()}", desc)
            elif bad(gf[0], fd_g, 1e-6, 1e-7):
                ctx.fail(f"{name}.backward/lengthscale-grad-vs-fd",
                         f"{name}: autograd {gf[0].tolist()} vs central differences of the documented kernel {fd_g.tolist()}", desc)
            if bad(gf[0], gr[0], 1e-8, 1e-10) or (len(gf) > 1 and bad(gf[1], gr[1], 1e-8, 1e-10)):
                ctx.fail(f"{name}.backward/vs-dense-reimplementation",
                         f"{name}: hyperparameter gradients {[g.tolist() for g in gf]} vs autograd of a dense "
                         f"re-implementation {[g.tolist() for g in gr]}", desc)
            vt = 1e-9 * np.maximum(1.0, np.abs(oref)) + 2 * extra     # sqrt-of-rounding on coincident rows (generic path)
            if (np.abs(o1 - o2) > vt).any() or (np.abs(o1 - oref) > vt).any():
                ctx.fail(f"{name}/fast-vs-generic-value", f"{name}: fast path and generic path values differ by "
                         f"{np.abs(o1 - o2).max():.3e} (vs dense {np.abs(o1 - oref).max():.3e})", desc)
            # the generic path has no diagonal zero-fill when inputs require grad: coincident rows are at distance
            # ~sqrt(rounding) instead of 0 there; first-order effect on the lengthscale gradient
            gslack = float((np.abs(go.reshape(extra.shape)) * extra).sum()) / min(abs(x) for x in desc["ell"]) * 4
            if any(not np.allclose(a, b, rtol=1e-7, atol=1e-8 * sc_ + gslack) for a, b in zip(gf, gg)):
                ctx.fail(f"{name}/fast-vs-generic-gradient",
                         f"{name}: hyperparameter gradients of the fast path {[g.tolist() for g in gf]} and of the generic "
                         f"path {[g.tolist() for g in gg]} differ", desc)
    return finish


def _uses_function(fn, cls_name, depth=0, seen=None):
    seen = seen if seen is not None else set()
    if fn is None or id(fn) in seen or depth > 40:
        return False
    seen.add(id(fn))
    if cls_name in type(fn).__name__:
        return True
    return any(_uses_function(nf, cls_name, depth + 1, seen) for nf, _ in getattr(fn, "next_functions", ()))


def input_gradients(ctx, rng):
    """Generic (autograd) kernel path: d k(x1, x2) / d x1 and / d x2 through the public call vs autograd of an
    independent dense re-implementation — for x2 a different point set, a point set sharing a row with x1, and a
    DIFFERENT tensor holding exactly the values of x1 (aliasing family: the derivative w.r.t. the second argument
    must be attributed to the second argument); gradient required on x1 only, x2 only, both."""
    import numpy as np
    import torch
    import gpytorch.kernels as GK
    reps = 4 if ctx.quick else 40
    for rep in range(reps):
        for fam in ("rbf", "matern3", "matern5", "rq", "periodic"):
            d = rng.randint(1, 3)
            ard = d > 1 and rng.random() < 0.5
            n1 = rng.choice([x for x in (2, 3, 4, 5) if x != d])
            ls = [K5.logu(rng, 0.4, 2.5) for _ in range(d if ard else 1)]
            alpha, per = K5.logu(rng, 0.3, 5.0), [K5.logu(rng, 0.8, 3.0) for _ in range(d if ard else 1)]
            with_scale = rng.random() < 0.4
            osc = K5.logu(rng, 0.3, 3.0)
            x1 = K5.rand_x(rng, n1, d)
            for mode in ("distinct", "shared-row", "equal-clone"):
                if mode == "distinct":
                    x2 = K5.rand_x(rng, rng.choice([x for x in (2, 3, 4, 5, 6) if x not in (n1, d)]), d)
                elif mode == "shared-row":
                    x2 = K5.rand_x(rng, n1 + 1, d)
                    x2[0] = list(x1[-1])
                else:
                    x2 = [list(r) for r in x1]
                for req in ("x1", "x2", "both"):
                    kw = {"ard_num_dims": d if ard else None}
                    if fam == "rbf":
                        base = GK.RBFKernel(**kw)
                    elif fam.startswith("matern"):
                        base = GK.MaternKernel(nu=int(fam[6:]) / 2.0, **kw)
                    elif fam == "rq":
                        base = GK.RQKernel(**kw)
                    else:
                        base = GK.PeriodicKernel(**({"ard_num_dims": d} if ard else {}))
                    base = base.double()
                    base.lengthscale = _t([ls])
                    if fam == "rq":
                        base.alpha = _t([alpha])
                    if fam == "periodic":
                        base.period_length = _t([per])
                    k = base
                    if with_scale:
                        k = GK.ScaleKernel(base).double()
                        k.outputscale = _t(osc)
                    X1 = _t(x1, requires_grad=req in ("x1", "both"))
                    X2 = _t(x2, requires_grad=req in ("x2", "both"))
                    go = _t(K5.rand_x(rng, len(x1), len(x2)))
                    with warnings.catch_warnings():
                        warnings.simplefilter("ignore")
                        out = k(X1, X2).to_dense()
                    ins = [t for t in (X1, X2) if t.requires_grad]
                    gs = torch.autograd.grad(out, ins, grad_outputs=go, allow_unused=True)
                    gs = [torch.zeros_like(t) if g is None else g for g, t in zip(gs, ins)]
                    # dense reference
                    R1 = _t(x1, requires_grad=req in ("x1", "both"))
                    R2 = _t(x2, requires_grad=req in ("x2", "both"))
                    lt = base.lengthscale.detach().reshape(-1)
                    diff = R1.unsqueeze(-2) - R2.unsqueeze(-3)
                    if fam == "periodic":
                        pt = base.period_length.detach().reshape(-1)
                        ref = torch.exp(-2.0 * ((torch.sin(math.pi * diff / pt) ** 2) / lt).sum(-1))
                    else:
                        r2 = ((diff / lt) ** 2).sum(-1)
                        if fam == "rbf":
                            ref = torch.exp(-0.5 * r2)
                        elif fam == "rq":
                            al = base.alpha.detach().reshape(())
                            ref = (1 + r2 / (2 * al)) ** (-al)
                        else:
                            nu2 = int(fam[6:])
                            r = torch.where(r2 > 0, torch.sqrt(torch.where(r2 > 0, r2, torch.ones_like(r2))), torch.zeros_like(r2))
                            sq = math.sqrt(nu2) * r
                            ref = ({3: 1 + sq, 5: 1 + sq + math.sqrt(nu2) ** 2 * r2 / 3}[nu2]) * torch.exp(-sq)
                    if with_scale:
                        ref = k.outputscale.detach() * ref
                    rins = [t for t in (R1, R2) if t.requires_grad]
                    rg = torch.autograd.grad(ref, rins, grad_outputs=go)
                    payload = {"kernel": fam, "ard": ard, "scale": osc if with_scale else None, "ls": ls, "alpha": alpha,
                               "period": per, "x1": x1, "x2": x2, "mode": mode, "requires_grad": req, "grad_output": go.tolist()}
                    ctx.case({"ig": payload}, sample={"function": "d kernel / d inputs (generic path)", "kernel": fam,
                                                      "mode": mode, "requires_grad": req})
                    ctx.count(f"input_grad_{mode}")
                    sc = max(1.0, max(float(g.abs().max()) for g in rg))
                    vt = 1e-8 if not fam.startswith("matern") else 1e-6       # sqrt-of-rounding at coincident rows
                    if not np.allclose(out.detach().numpy(), ref.detach().numpy(), rtol=1e-8, atol=vt):
                        ctx.fail(f"generic-path/value/{fam}/{mode}", f"{fam} ({mode}, grad on {req}): value differs from the dense "
                                 f"formula by {(out.detach() - ref.detach()).abs().max().item():.3e}", payload)
                    for nm, g, r_ in zip([t for t in ("x1", "x2") if req in (t, "both")], gs, rg):
                        if not np.allclose(g.numpy(), r_.numpy(), rtol=1e-6, atol=1e-7 * sc):
                            ctx.fail(f"generic-path/d-{nm}/{fam}/{mode}",
                                     f"{fam} ({mode}, grad required on {req}): d(Σ go·k)/d{nm} is {g.tolist()}, the dense formula "
                                     f"gives {r_.tolist()}", payload)
                    # closed forms PROVED in Props/C19 (`rbf_spec_input_gradient`, `matern_spec_input_gradient`):
                    # ∂k_ij/∂x1[i,c] = G_ij·(x1[i,c] − x2[j,c])/ℓ_c²,  G = −k | −3e^{−√3r} | −(5/3)(1+√5r)e^{−√5r}
                    if fam in ("rbf", "matern3", "matern5"):
                        A, Bm = np.array(x1), np.array(x2)
                        lv = np.array(ls if ard else ls * d)
                        dif = (A[:, None, :] - Bm[None, :, :]) / lv ** 2            # (n1, n2, d)
                        r_ = np.sqrt((((A[:, None, :] - Bm[None, :, :]) / lv) ** 2).sum(-1))
                        G = {"rbf": -np.exp(-0.5 * r_ ** 2), "matern3": -3.0 * np.exp(-math.sqrt(3) * r_),
                             "matern5": -(5.0 / 3.0) * (1 + math.sqrt(5) * r_) * np.exp(-math.sqrt(5) * r_)}[fam]
                        W = go.numpy() * G * (osc if with_scale else 1.0)
                        cf = {"x1": (W[:, :, None] * dif).sum(1), "x2": -(W[:, :, None] * dif).sum(0)}
                        ctx.count("input_grad_closed_form")
                        for nm, g in zip([t for t in ("x1", "x2") if req in (t, "both")], gs):
                            if not np.allclose(g.numpy(), cf[nm], rtol=1e-6, atol=1e-7 * sc):
                                ctx.fail(f"generic-path/d-{nm}/{fam}/{mode}/closed-form",
                                         f"{fam} ({mode}, grad required on {req}): d(Σ go·k)/d{nm} is {g.tolist()}, the proved "
                                         f"closed form G·(x1−x2)/ℓ² gives {cf[nm].tolist()}", payload)


# ------------------------------------------------------------------------------------------- in-place histories

_INPLACE_ERR = ("modified by an inplace operation", "a view of a leaf Variable", "is a view and is being modified inplace",
                "that requires grad is being used in an in-place operation")


def _inplace_refused(e):
    return any(t in str(e) for t in _INPLACE_ERR)


def output_inplace(ctx, rng, deep=False):
    """History class on ONE result of a hand-written autograd Function: forward, then (a) the OUTPUT tensor is
    post-processed in place (autograd-tracked `mul_`, `add_`: K *= outputscale, K += jitter) or (b) an INPUT tensor
    is modified in place, and only then backward runs.  The gradient must still be the derivative of what was computed
    (closed form / explicit dense map; for (a) the upstream factor becomes s·go), or autograd must refuse with its
    in-place error — never a silently different number.  Catches backward passes that read the forward's output or
    input OBJECTS (ctx attributes) instead of tensors saved with `save_for_backward`."""
    import numpy as np
    import torch
    import gpytorch
    import gpytorch.kernels as GK
    from gpytorch.functions import MaternCovariance, RBFCovariance
    from gpytorch.functions._log_normal_cdf import LogNormalCDF
    from gpytorch.kernels.kernel import dist, sq_dist
    from gpytorch.variational.natural_variational_distribution import _NaturalToMuVarSqrt
    from gpytorch.variational.tril_natural_variational_distribution import _TrilNaturalToMuVarSqrt
    from gpytorch.variational.ciq_variational_strategy import _NgdInterpTerms
    reps = (3 if ctx.quick else 20) * (3 if deep else 1)

    def judge(key, what, payload, run, ref, rtol=1e-8, atol=1e-10):
        """run() -> list of arrays (may raise autograd's in-place error), ref = list of arrays"""
        try:
            with warnings.catch_warnings():
                warnings.simplefilter("ignore")
                got = run()
        except RuntimeError as e:
            if _inplace_refused(e):
                ctx.count("inplace_refused_by_autograd")
                return
            ctx.fail(key + "/raises", f"{what}: raises {type(e).__name__}: {str(e)[:300]}", payload)
            return
        ctx.count("inplace_gradient_compared")
        sc = max([1.0] + [float(np.abs(r).max()) for r in ref if r.size])
        for g, r in zip(got, ref):
            if g.shape != r.shape or not np.allclose(g, r, rtol=rtol, atol=atol * sc):
                ctx.fail(key, f"{what}: gradient {np.asarray(g).reshape(-1).tolist()} but the derivative of what was computed is "
                         f"{np.asarray(r).reshape(-1).tolist()}", payload)
                return

    # ---- RBFCovariance / MaternCovariance: direct Function and public kernel call
    for rep in range(reps):
        for fam, nu2 in (("rbf", None), ("matern", 1), ("matern", 3), ("matern", 5)):
            name = "RBFCovariance" if fam == "rbf" else f"MaternCovariance(nu={nu2 / 2})"
            d = rng.randint(1, 3)
            n1, n2 = rng.sample([x for x in (2, 3, 4, 5) if x != d], 2)
            x1, x2 = K5.rand_x(rng, n1, d), K5.rand_x(rng, n2, d)
            same = rng.random() < 0.3
            if rng.random() < 0.4 and not same:
                x2[0] = list(x1[0])
            ell = K5.logu(rng, 0.4, 2.5)
            s_, c_ = K5.logu(rng, 0.3, 4.0) * rng.choice([-1, 1]), rng.uniform(-1, 1)
            go = _t(K5.rand_x(rng, n1, n1 if same else n2))
            for how in ("direct", "public"):
                for edit in ("output.mul_", "output.add_", "output.mul_.add_", "x1.mul_", "x2.add_", "lengthscale.mul_"):
                    if edit == "lengthscale.mul_" and how == "public":
                        continue
                    if edit == "x2.add_" and same:
                        continue
                    X1 = _t(x1)
                    X2 = X1 if same else _t(x2)
                    X1o, X2o = X1.clone(), X2.clone()
                    if how == "direct":
                        leaf = _t([[ell]], requires_grad=True)
                        ls = leaf * 1.0

                        def fwd():
                            if fam == "rbf":
                                return RBFCovariance.apply(X1, X2, ls, lambda a, b: sq_dist(a, b, False))
                            return MaternCovariance.apply(X1, X2, ls, nu2 / 2.0, lambda a, b: dist(a, b, False))
                        rleaf = _t([[ell]], requires_grad=True)
                        rell = rleaf
                    else:
                        base = (GK.RBFKernel() if fam == "rbf" else GK.MaternKernel(nu=nu2 / 2.0)).double()
                        base.lengthscale = _t([[ell]])
                        leaf, ls = base.raw_lengthscale, None

                        def fwd():
                            return (base(X1) if same else base(X1, X2)).to_dense()
                        rleaf = base.raw_lengthscale.detach().clone().requires_grad_(True)
                        rell = torch.nn.functional.softplus(rleaf)
                    seff, ceff = (s_ if "mul_" in edit and edit.startswith("output") else 1.0), \
                        (c_ if "add_" in edit and edit.startswith("output") else 0.0)
                    ref_K = _dense_ref(fam, nu2, X1o, X2o, rell) * seff + ceff
                    ref = [torch.autograd.grad(ref_K, rleaf, grad_outputs=go)[0].numpy()]
                    box = {}

                    def run():
                        K = fwd()
                        if edit.startswith("output"):
                            if "mul_" in edit:
                                K.mul_(s_)
                            if "add_" in edit:
                                K.add_(c_)
                        elif edit == "x1.mul_":
                            X1.mul_(1.5)
                        elif edit == "x2.add_":
                            X2.add_(0.7)
                        else:
                            ls.mul_(2.0)
                        box["K"] = K.detach().numpy().copy()
                        return [torch.autograd.grad(K, leaf, grad_outputs=go)[0].numpy()]
                    payload = {"function": name, "call": how, "edit": edit, "x1": x1, "x2": None if same else x2, "ell": ell,
                               "scale": s_, "shift": c_, "grad_output": go.tolist()}
                    ctx.case({"inplace": payload}, sample={"function": name, "history": "forward; " + edit + "; backward",
                                                           "call": how})
                    cls = "output-modified-in-place" if edit.startswith("output") else "input-modified-after-forward"
                    judge(f"{name}.backward/{cls}", f"{name} ({how} call; forward, then `{edit}`, then backward)", payload, run, ref)
                    if "K" in box and edit.startswith("output") and \
                            not np.allclose(box["K"], ref_K.detach().numpy(), rtol=1e-8, atol=1e-6 if fam == "matern" else 1e-9):
                        ctx.fail(f"{name}/value-after-in-place-edit", f"{name}: s·K + c computed in place differs from the dense formula",
                                 payload)

    # ---- LogNormalCDF
    import mpmath
    mpmath.mp.dps = 40
    for rep in range(reps):
        zs = [rng.uniform(-8, 4) for _ in range(6)] + [-1.0 - rng.random() * 1e-3, -1.0 + rng.random() * 1e-3]
        go = _t([rng.uniform(0.5, 2.0) * rng.choice([-1, 1]) for _ in zs])
        s_, c_ = K5.logu(rng, 0.3, 4.0), rng.uniform(-1, 1)
        for edit in ("output.mul_.add_", "input.mul_"):
            z = _t(zs, requires_grad=True)
            zz = z * 1.0

            def run():
                out = LogNormalCDF.apply(zz)
                if edit.startswith("output"):
                    out.mul_(s_).add_(c_)
                else:
                    zz.mul_(2.0)
                return [torch.autograd.grad(out, z, grad_outputs=go)[0].numpy()]
            f = s_ if edit.startswith("output") else 1.0
            ref = [np.array([float(mpmath.npdf(v) / mpmath.ncdf(v)) * f * g for v, g in zip(zs, go.tolist())])]
            payload = {"function": "LogNormalCDF", "edit": edit, "z": zs, "scale": s_, "shift": c_, "grad_output": go.tolist()}
            ctx.case({"inplace": payload}, sample={"function": "LogNormalCDF", "history": "forward; " + edit + "; backward"})
            judge("LogNormalCDF.backward/" + ("output-modified-in-place" if edit.startswith("output") else "input-modified-after-forward"),
                  f"LogNormalCDF (forward, then `{edit}`, then backward)", payload, run, ref, rtol=2e-3, atol=1e-9)

    # ---- natural / tril-natural / CIQ Functions
    for rep in range(reps):
        n = rng.randint(2, 4)
        Sig, mu = _rand_spd(rng, n), _t([rng.gauss(0, 1) for _ in range(n)])
        prec = torch.linalg.inv(Sig)
        gmu = _t([rng.gauss(0, 1) for _ in range(n)])
        gL = torch.tril(_t([[rng.gauss(0, 1) for _ in range(n)] for _ in range(n)]))
        s1, s2 = K5.logu(rng, 0.3, 3.0), K5.logu(rng, 0.3, 3.0) * rng.choice([-1, 1])
        cond = float(torch.linalg.cond(Sig))
        for fn_name in ("_NaturalToMuVarSqrt", "_TrilNaturalToMuVarSqrt"):
            for edit in ("mean.mul_", "chol.mul_", "both.mul_", "input1.mul_", "input2.mul_"):
                l1 = (prec @ mu).clone().requires_grad_(True)
                l2 = (-0.5 * prec if fn_name == "_NaturalToMuVarSqrt" else torch.linalg.inv(torch.linalg.cholesky(Sig))) \
                    .clone().requires_grad_(True)
                a, c = l1 * 1.0, l2 * 1.0
                f1 = s1 if edit in ("mean.mul_", "both.mul_") else 1.0
                f2 = s2 if edit in ("chol.mul_", "both.mul_") else 1.0

                def run():
                    F = _NaturalToMuVarSqrt if fn_name == "_NaturalToMuVarSqrt" else _TrilNaturalToMuVarSqrt
                    m_out, L_out = F.apply(a, c)
                    if f1 != 1.0:
                        m_out.mul_(s1)
                    if f2 != 1.0:
                        L_out.mul_(s2)
                    if edit == "input1.mul_":
                        a.mul_(2.0)
                    if edit == "input2.mul_":
                        c.mul_(2.0)
                    return [g.numpy() for g in torch.autograd.grad([m_out, L_out], [l1, l2], grad_outputs=[gmu, gL])]
                # reference: the same Function, upstream scaled, nothing modified in place (tied to the explicit
                # expectation-parameter map by the `natural` stream on every run)
                F = _NaturalToMuVarSqrt if fn_name == "_NaturalToMuVarSqrt" else _TrilNaturalToMuVarSqrt
                r1 = (prec @ mu).clone().requires_grad_(True)
                r2 = l2.detach().clone().requires_grad_(True)
                mo, Lo = F.apply(r1, r2)
                ref = [g.numpy() for g in torch.autograd.grad([mo, Lo], [r1, r2], grad_outputs=[f1 * gmu, f2 * gL])]
                payload = {"function": fn_name, "edit": edit, "Sigma": Sig.tolist(), "mu": mu.tolist(), "dout_dmu": gmu.tolist(),
                           "dout_dL": gL.tolist(), "s_mean": s1, "s_chol": s2}
                ctx.case({"inplace": payload}, sample={"function": fn_name, "history": "forward; " + edit + "; backward"})
                judge(f"{fn_name}.backward/" + ("input-modified-after-forward" if edit.startswith("input") else "output-modified-in-place"),
                      f"{fn_name} (forward, then `{edit}`, then backward)", payload, run, ref, rtol=1e-9 * cond, atol=1e-10 * cond)
        nb = rng.randint(1, 3)
        kk = _t([[rng.gauss(0, 1) for _ in range(nb)] for _ in range(n)])
        gm, gv, gk = _t([rng.gauss(0, 1) for _ in range(nb)]), _t([rng.gauss(0, 1) for _ in range(nb)]), _t(rng.gauss(0, 1))
        for edit in ("mean.mul_", "var.mul_.add_", "kl.add_", "interp_term.mul_", "natural_vec.mul_", "natural_mat.mul_"):
            li, lv, lm = kk.clone().requires_grad_(True), (prec @ mu).clone().requires_grad_(True), \
                (-0.5 * prec).clone().requires_grad_(True)
            ti, tv, tm = li * 1.0, lv * 1.0, lm * 1.0
            fm = s1 if edit == "mean.mul_" else 1.0
            fv = s2 if edit == "var.mul_.add_" else 1.0

            def cg():
                return gpytorch.settings.cg_tolerance(1e-13), gpytorch.settings.eval_cg_tolerance(1e-13), \
                    gpytorch.settings.max_cg_iterations(200)

            def run():
                a_, b_, c_ = cg()
                with a_, b_, c_:
                    im, iv, kl = _NgdInterpTerms.apply(ti, tv, tm)
                    if edit == "mean.mul_":
                        im.mul_(s1)
                    elif edit == "var.mul_.add_":
                        iv.mul_(s2).add_(0.3)
                    elif edit == "kl.add_":
                        kl.add_(1.0)
                    elif edit == "interp_term.mul_":
                        ti.mul_(2.0)
                    elif edit == "natural_vec.mul_":
                        tv.mul_(2.0)
                    else:
                        tm.mul_(2.0)
                    return [g.numpy() for g in torch.autograd.grad([im, iv, kl], [li, lv, lm], grad_outputs=[gm, gv, gk])]
            # reference: the explicit dense map of the expectation parameters (as in the `ciq` stream)
            k_ = kk.clone().requires_grad_(True)
            e1 = mu.clone().requires_grad_(True)
            e2 = (Sig + mu.unsqueeze(-1) @ mu.unsqueeze(-2)).clone().requires_grad_(True)
            S_ = e2 - e1.unsqueeze(-1) @ e1.unsqueeze(-2)
            mean_ = (k_.transpose(-1, -2) @ e1.unsqueeze(-1)).squeeze(-1)
            var_ = (k_ * (S_ @ k_)).sum(-2)
            kl_ = 0.5 * (-torch.logdet(S_) + e2.diagonal(dim1=-1, dim2=-2).sum(-1) - n)
            rr = torch.autograd.grad([mean_, var_, kl_], [k_, e1, e2], grad_outputs=[fm * gm, fv * gv, gk])
            ref = [rr[0].numpy(), rr[1].numpy(), (0.5 * (rr[2] + rr[2].T)).numpy()]
            payload = {"function": "_NgdInterpTerms", "edit": edit, "S": Sig.tolist(), "m": mu.tolist(), "k": kk.tolist(),
                       "gm": gm.tolist(), "gv": gv.tolist(), "gk": gk.item(), "s_mean": s1, "s_var": s2}
            ctx.case({"inplace": payload}, sample={"function": "_NgdInterpTerms", "history": "forward; " + edit + "; backward"})
            judge("_NgdInterpTerms.backward/" + ("output-modified-in-place" if edit.split(".")[0] in ("mean", "var", "kl")
                                                 else "input-modified-after-forward"),
                  f"_NgdInterpTerms (forward, then `{edit}`, then backward)", payload, run, ref, rtol=1e-7 * cond, atol=1e-8 * cond)


# ------------------------------------------------------------------------------------------- round 4: call forms, pairs, layouts

def _dense_call(fam, nu2, X1, X2, ls, osc, ldb, diag):
    """documented value of kernel(x1, x2, last_dim_is_batch=ldb, diag=diag) for lengthscales ls (…,1,d|1) and
    outputscales osc (…) — plain differences, differentiable in ls / osc"""
    import torch
    diff = (X1.unsqueeze(-2) - X2.unsqueeze(-3)) / ls.unsqueeze(-2)            # (…, n, m, d)
    r2 = (diff ** 2).movedim(-1, -3) if ldb else (diff ** 2).sum(-1)          # (…, d, n, m) | (…, n, m)
    if fam == "rbf":
        k = torch.exp(-0.5 * r2)
    else:
        r = torch.where(r2 > 0, torch.sqrt(torch.where(r2 > 0, r2, torch.ones_like(r2))), torch.zeros_like(r2))
        sq = math.sqrt(nu2) * r
        k = {1: 1.0, 3: 1 + sq, 5: 1 + sq + sq * sq / 3}[nu2] * torch.exp(-sq)
    if osc is not None:
        o = osc.reshape(*osc.shape, 1, 1)
        k = (o.unsqueeze(-1) if ldb else o) * k
    return k.diagonal(dim1=-1, dim2=-2) if diag else k


def public_call_forms(ctx, rng, deep=False):
    """Every fast path through every PUBLIC call form that can reach it: kernel family × ScaleKernel × kernel
    batch_shape × ARD × `last_dim_is_batch` × `diag` × x2 given / omitted × inputs batched / broadcast, with forced
    coincidences of sizes (b == d, b == n, d == n).  The gradient of EVERY parameter (raw lengthscale, raw outputscale)
    and the value are compared with the dense closed form (autograd of the plain-difference formula)."""
    import itertools
    import numpy as np
    import torch
    import gpytorch.kernels as GK
    cells = list(itertools.product((("rbf", None), ("matern", 1), ("matern", 3), ("matern", 5)), (None, 2, 3),
                                   (False, True), (False, True), (False, True), (False, True), (False, True), (False, True)))
    if ctx.quick and not deep:
        # all last_dim_is_batch cells with a kernel batch (the coincidence-prone family) + a sample of the rest
        must = [c for c in cells if c[1] and c[4] and not c[5]]
        rest = [c for c in cells if c not in must]
        cells = rng.sample(must, 48) + rng.sample(rest, 72)
    for (fam, nu2), batch, ard, scale, ldb, diag, same, xb in cells:
        coincide = rng.choice(["b==d", "b==n", "d==n", "none"])
        b = batch or 1
        d = b if (coincide == "b==d" and batch) else rng.choice([x for x in (2, 3, 4) if x != b])
        n = b if (coincide == "b==n" and batch) else (d if coincide == "d==n" else rng.choice([x for x in (2, 3, 4, 5) if x not in (b, d)]))
        m = n if (same or diag) else rng.choice([x for x in (2, 3, 4, 5) if x != n])
        bs = torch.Size([batch]) if batch else torch.Size([])
        xs = bs if xb else torch.Size([])
        name = "RBFKernel" if fam == "rbf" else f"MaternKernel(nu={nu2 / 2})"
        ls = [[K5.logu(rng, 0.4, 2.5) for _ in range(d if ard else 1)] for _ in range(b)]
        osc = [K5.logu(rng, 0.3, 3.0) for _ in range(b)]
        x1 = [K5.rand_x(rng, n, d) for _ in range(b if xb and batch else 1)]
        x2 = x1 if same else [K5.rand_x(rng, m, d) for _ in range(b if xb and batch else 1)]
        kw = dict(batch_shape=bs, ard_num_dims=d if ard else None)
        base = (GK.RBFKernel(**kw) if fam == "rbf" else GK.MaternKernel(nu=nu2 / 2.0, **kw)).double()
        base.lengthscale = _t(ls).reshape(*bs, 1, d if ard else 1)
        k = base
        if scale:
            k = GK.ScaleKernel(base, batch_shape=bs).double()
            k.outputscale = _t(osc).reshape(bs) if batch else _t(osc[0])
        X1 = _t(x1).reshape(*xs, n, d)
        X2 = X1 if same else _t(x2).reshape(*xs, m, d)
        form = f"kernel(x1{'' if same else ', x2'}{', last_dim_is_batch=True' if ldb else ''}{', diag=True' if diag else ''})"
        payload = {"kernel": name, "scale_kernel": scale, "kernel_batch": batch, "ard": ard, "call": form, "inputs_batched": xb,
                   "n": n, "m": m, "d": d, "coincidence": coincide, "lengthscale": ls, "outputscale": osc if scale else None,
                   "x1": x1, "x2": None if same else x2}
        ctx.case({"callform": payload}, sample={"function": name, "call": form, "kernel_batch": batch, "ard": ard, "d": d, "n": n,
                                                 "coincidence": coincide})
        ctx.count("call_forms" + ("_last_dim_is_batch" if ldb else "") + ("_diag" if diag else ""))
        params = [base.raw_lengthscale] + ([k.raw_outputscale] if scale else [])
        try:
            with warnings.catch_warnings():
                warnings.simplefilter("ignore")
                out = k(X1, last_dim_is_batch=ldb, diag=diag) if same else k(X1, X2, last_dim_is_batch=ldb, diag=diag)
                out = out if torch.is_tensor(out) else out.to_dense()
                go = _t(np.array([rng.gauss(0, 1) for _ in range(out.numel())]).reshape(out.shape).tolist())
                payload["grad_output"] = go.tolist()
                if out.requires_grad:
                    g = torch.autograd.grad(out, params, grad_outputs=go, allow_unused=True)
                else:
                    g = [None] * len(params)
                g = [torch.zeros_like(p_) if g_ is None else g_ for g_, p_ in zip(g, params)]
        except Exception as e:
            ctx.fail(f"{name}/public-call-form/raises", f"{name} {form} (kernel batch {batch}, n={n}, m={m}, d={d}, ard={ard}) raises "
                     f"{type(e).__name__}: {str(e)[:200]}", payload)
            continue
        raws = [p_.detach().clone().requires_grad_(True) for p_ in params]
        ref = _dense_call(fam, nu2, X1, X2, torch.nn.functional.softplus(raws[0]),
                          torch.nn.functional.softplus(raws[1]) if scale else None, ldb, diag)
        if tuple(ref.shape) != tuple(out.shape):
            try:
                ref = ref.expand(out.shape)
            except RuntimeError:
                ctx.fail(f"{name}/public-call-form/shape", f"{name} {form}: result shape {tuple(out.shape)}, documented "
                         f"{tuple(ref.shape)}", payload)
                continue
        gr = torch.autograd.grad(ref, raws, grad_outputs=go, allow_unused=True)
        gr = [torch.zeros_like(p_) if g_ is None else g_ for g_, p_ in zip(gr, raws)]
        vt = 1e-8 if fam == "rbf" else 1e-6
        if not np.allclose(out.detach().numpy(), ref.detach().numpy(), rtol=1e-8, atol=vt):
            ctx.fail(f"{name}/public-call-form/value", f"{name} {form}: value differs from the documented formula by "
                     f"{(out.detach() - ref.detach()).abs().max().item():.3e}", payload)
        for pn, a, r_ in zip(["raw_lengthscale", "raw_outputscale"], g, gr):
            sc = max(1.0, float(r_.abs().max()))
            if not np.allclose(a.numpy(), r_.numpy(), rtol=1e-6, atol=1e-7 * sc):
                ctx.fail(f"{name}/public-call-form/d-{pn}" + ("/last_dim_is_batch" if ldb else "") + ("/diag" if diag else ""),
                         f"{name} {form}, kernel batch {batch}, n={n}, m={m}, d={d}, ard={ard}: d/d{pn} is {a.reshape(-1).tolist()}, "
                         f"the closed form gives {r_.reshape(-1).tolist()}", payload)
                break


_STRATEGIES = ["VariationalStrategy", "UnwhitenedVariationalStrategy", "CiqVariationalStrategy"]
_DISTRIBUTIONS = ["CholeskyVariationalDistribution", "MeanFieldVariationalDistribution", "DeltaVariationalDistribution",
                  "NaturalVariationalDistribution", "TrilNaturalVariationalDistribution"]


def strategy_distribution_pairs(ctx, rng, deep=False):
    """Every (variational strategy × variational distribution) pair that constructs: the gradient each variational
    parameter receives from a loss Σw·mean + Σv·variance + c·KL must be the one its documented parameterisation
    prescribes, or the pair must be rejected.  The loss is treated as a black box L(μ, Σ) of q(u) and differentiated by
    central differences IN THE EXPECTATION PARAMETERS (η₁, η₂) = (μ, Σ + μμᵀ) (forward passes only):
      natural_vec.grad = ∂L/∂η₁;  natural_mat.grad = ∂L/∂η₂;  natural_tril_mat.grad = Φ(−2·LᵀGL)·T, G = ∂L/∂η₂, L = T⁻¹
      (the tangent proved in `tril_backward_tangent`);  ordinary parameters: central differences in the parameter itself.
    Where the forward does not compute the KL (CIQ's natural-gradient route returns 0) the closed form
    ½(−log det Σ + tr Σ + μᵀμ − n) of the whitened prior stands for it."""
    import numpy as np
    import torch
    import gpytorch
    from gpytorch import variational as V
    reps = (1 if ctx.quick else 4) * (2 if deep else 1)

    def phi(A):
        return torch.tril(A, -1) + torch.diag(A.diagonal() * 0.5)
    for rep in range(reps):
        n = rng.choice([2, 3])
        dd = rng.choice([1, 2])
        Z = _t(K5.rand_x(rng, n, dd))
        X = _t(K5.rand_x(rng, rng.choice([x for x in (3, 4, 5) if x != n]), dd))
        w = _t([rng.gauss(0, 1) for _ in range(X.shape[0])])
        v = _t([rng.gauss(0, 1) for _ in range(X.shape[0])])
        c = rng.uniform(0.3, 1.5)
        Sig, mu = _rand_spd(rng, n), _t([rng.gauss(0, 1) for _ in range(n)])
        signs = [rng.choice([-1.0, 1.0]) for _ in range(n)]
        for sname in _STRATEGIES:
            for dname in _DISTRIBUTIONS:
                payload = {"strategy": sname, "distribution": dname, "Z": Z.tolist(), "X": X.tolist(), "w": w.tolist(), "v": v.tolist(),
                           "c": c, "mu": mu.tolist(), "Sigma": Sig.tolist(), "tril_diagonal_signs": signs}
                ctx.case({"pair": payload}, sample={"function": f"{sname} × {dname}", "n": n})
                try:
                    class M(gpytorch.models.ApproximateGP):
                        def __init__(self):
                            strat = getattr(V, sname)(self, Z.clone(), getattr(V, dname)(n), learn_inducing_locations=False)
                            super().__init__(strat)
                            self.mean_module = gpytorch.means.ConstantMean()
                            self.covar_module = gpytorch.kernels.ScaleKernel(gpytorch.kernels.RBFKernel())

                        def forward(self, x):
                            return gpytorch.distributions.MultivariateNormal(self.mean_module(x), self.covar_module(x))
                    model = M().double()
                except Exception:
                    ctx.count("pair_rejected_at_construction")
                    continue
                model.covar_module.base_kernel.lengthscale = 0.9
                model.covar_module.outputscale = 1.3
                vs = model.variational_strategy
                vs.variational_params_initialized.fill_(1)
                dist = vs._variational_distribution
                Dg = _t(signs)

                def set_params(mu_, Sig_):
                    with torch.no_grad():
                        if dname == "CholeskyVariationalDistribution":
                            dist.variational_mean.copy_(mu_)
                            dist.chol_variational_covar.copy_(torch.linalg.cholesky(Sig_))
                        elif dname == "MeanFieldVariationalDistribution":
                            dist.variational_mean.copy_(mu_)
                            dist._variational_stddev.copy_(Sig_.diagonal().sqrt())
                        elif dname == "DeltaVariationalDistribution":
                            dist.variational_mean.copy_(mu_)
                        else:
                            P = torch.linalg.inv(Sig_)
                            P = 0.5 * (P + P.T)
                            dist.natural_vec.copy_(P @ mu_)
                            if dname == "NaturalVariationalDistribution":
                                dist.natural_mat.copy_(-0.5 * P)
                            else:
                                dist.natural_tril_mat.copy_(torch.tril(Dg.unsqueeze(-1) * torch.linalg.inv(torch.linalg.cholesky(Sig_))))

                def loss():
                    model.train()
                    if hasattr(vs, "_clear_cache"):
                        vs._clear_cache()
                    with gpytorch.settings.cg_tolerance(1e-13), gpytorch.settings.eval_cg_tolerance(1e-13), \
                            gpytorch.settings.max_cg_iterations(300), gpytorch.settings.num_contour_quadrature(30), \
                            gpytorch.settings.ciq_samples(False), warnings.catch_warnings():
                        warnings.simplefilter("ignore")
                        out = model(X)
                        kl = vs.kl_divergence().sum()
                    return (w * out.mean).sum() + (v * out.variance).sum(), kl
                try:
                    ngd = bool(getattr(vs, "_ngd", lambda: False)())
                    set_params(mu, Sig)
                    L_, kl_ = loss()
                    model.zero_grad()
                    (L_ + c * kl_).backward()
                    got = {k_: (torch.zeros_like(p_) if p_.grad is None else p_.grad.clone()) for k_, p_ in dist.named_parameters()}
                    now = {k_: p_.detach().clone() for k_, p_ in dist.named_parameters()}
                except Exception as e:
                    msg = str(e)
                    if isinstance(e, (NotImplementedError, AttributeError, TypeError)) or "not support" in msg:
                        ctx.count("pair_rejected")          # the pair is refused: allowed
                        continue
                    ctx.fail(f"{sname}×{dname}/raises", f"{sname} with {dname}: loss / backward raises {type(e).__name__}: {msg[:200]}",
                             payload)
                    continue
                natural = "Natural" in dname
                h = 1e-5

                def value(mu_=None, Sig_=None):
                    with torch.no_grad():
                        if mu_ is not None:
                            set_params(mu_, Sig_)
                        L2, kl2 = loss()
                        if ngd:     # the forward of the NGD route does not compute the KL term
                            d_ = vs._variational_distribution()
                            m_, S_ = d_.mean, d_.covariance_matrix
                            kl2 = 0.5 * (-torch.logdet(S_) + S_.diagonal().sum() + m_ @ m_ - n)
                        return float(L2 + c * kl2)
                ctx.count("pair_natural" if natural else "pair_ordinary")
                try:
                    if natural:
                        e1, e2 = mu.clone(), Sig + torch.outer(mu, mu)

                        def at(a, B_):
                            return value(a, B_ - torch.outer(a, a))
                        g1, G = torch.zeros(n, dtype=torch.float64), torch.zeros(n, n, dtype=torch.float64)
                        for i in range(n):
                            e = torch.zeros(n, dtype=torch.float64)
                            e[i] = h
                            g1[i] = (at(e1 + e, e2) - at(e1 - e, e2)) / (2 * h)
                            for j in range(i + 1):
                                E = torch.zeros(n, n, dtype=torch.float64)
                                E[i, j] += h / 2
                                E[j, i] += h / 2
                                G[i, j] = G[j, i] = (at(e1, e2 + E) - at(e1, e2 - E)) / (2 * h)
                        want = {"natural_vec": g1}
                        if dname == "NaturalVariationalDistribution":
                            want["natural_mat"] = G
                            got["natural_mat"] = 0.5 * (got["natural_mat"] + got["natural_mat"].T)
                        else:
                            T = now["natural_tril_mat"]
                            Lm = torch.linalg.inv(T)
                            want["natural_tril_mat"] = phi(-2.0 * Lm.T @ G @ Lm) @ T
                        rule = "the gradient w.r.t. the expectation parameters (natural gradient" + \
                            ("; for natural_tril_mat the tangent Φ(−2·LᵀGL)·T)" if "Tril" in dname else ")")
                    else:
                        want = {}
                        for k_, p_ in dist.named_parameters():
                            gfd = torch.zeros_like(p_)
                            flat = gfd.view(-1)
                            for idx in range(p_.numel()):
                                if k_ == "chol_variational_covar" and (idx // n) < (idx % n):
                                    flat[idx] = got[k_].view(-1)[idx]        # strictly-upper entries are masked by the forward
                                    continue
                                with torch.no_grad():
                                    p_.view(-1)[idx] += h
                                fp = value()
                                with torch.no_grad():
                                    p_.view(-1)[idx] -= 2 * h
                                fm = value()
                                with torch.no_grad():
                                    p_.view(-1)[idx] += h
                                flat[idx] = (fp - fm) / (2 * h)
                            want[k_] = gfd
                        rule = "the ordinary gradient (central differences in the parameter)"
                except Exception as e:
                    ctx.fail(f"{sname}×{dname}/raises", f"{sname} with {dname}: forward at a perturbed parameter raises "
                             f"{type(e).__name__}: {str(e)[:200]}", payload)
                    continue
                for k_, wv in want.items():
                    sc = max(1.0, float(wv.abs().max()))
                    if got[k_].shape != wv.shape or float((got[k_] - wv).abs().max()) > 1e-5 * sc:
                        ctx.fail(f"{sname}×{dname}/{k_}.grad",
                                 f"{sname} with {dname}" + (" (natural-gradient route)" if ngd else "") + f": {k_}.grad is "
                                 f"{got[k_].reshape(-1).tolist()}, the parameterisation prescribes {rule}: {wv.reshape(-1).tolist()}", payload)
                        break


def memory_layouts(ctx, rng, deep=False):
    """Memory layout is part of "for all inputs": every hand-written Function is fed dense non-contiguous (transposed /
    permuted), strided (every second element of a larger buffer) and expanded (stride 0) views of its inputs and of its
    cotangents.  The gradient must be the one obtained for contiguous copies of the same values (which the other streams
    tie to the closed forms; LogNormalCDF is also compared with mpmath here)."""
    import numpy as np
    import torch
    import mpmath
    import gpytorch
    from gpytorch.functions import MaternCovariance, RBFCovariance, log_normal_cdf
    from gpytorch.kernels.kernel import dist, sq_dist
    from gpytorch.variational.natural_variational_distribution import _NaturalToMuVarSqrt
    from gpytorch.variational.tril_natural_variational_distribution import _TrilNaturalToMuVarSqrt
    from gpytorch.variational.ciq_variational_strategy import _NgdInterpTerms
    reps = (2 if ctx.quick else 12) * (2 if deep else 1)

    def lay(t, kind):
        """a view with the values of t in another memory layout"""
        if kind == "contiguous" or t.dim() == 0:
            return t.clone()
        if kind == "transposed":
            if t.dim() < 2:
                kind = "strided"
            else:
                perm = list(range(t.dim()))[::-1]
                inv = [perm.index(i) for i in range(t.dim())]
                return t.permute(perm).contiguous().permute(inv)
        if kind == "strided":
            big = torch.zeros(*t.shape[:-1], 2 * t.shape[-1], dtype=t.dtype)
            big[..., ::2] = t
            return big[..., ::2]
        raise ValueError(kind)

    def compare(key, what, payload, run, kinds_in, kinds_go, rtol=1e-10):
        base = run("contiguous", "contiguous")
        for ki in kinds_in:
            for kg in kinds_go:
                if ki == kg == "contiguous":
                    continue
                ctx.case({"layout": [key, ki, kg, payload["id"]]}, sample={"function": key, "inputs": ki, "cotangents": kg})
                ctx.count("layout_cases")
                try:
                    with warnings.catch_warnings():
                        warnings.simplefilter("ignore")
                        got = run(ki, kg)
                except Exception as e:
                    ctx.fail(f"{key}/layout/raises", f"{what}: inputs {ki}, cotangents {kg}: raises {type(e).__name__}: {str(e)[:200]}",
                             dict(payload, inputs=ki, cotangents=kg))
                    continue
                for a, r_ in zip(got, base):
                    sc = max(1.0, float(np.abs(r_).max()))
                    if a.shape != r_.shape or not np.allclose(a, r_, rtol=rtol, atol=1e-12 * sc):
                        ctx.fail(f"{key}.backward/memory-layout",
                                 f"{what}: with {ki} inputs and {kg} cotangents the gradient is {np.asarray(a).reshape(-1).tolist()[:12]}, "
                                 f"with contiguous copies of the same values {np.asarray(r_).reshape(-1).tolist()[:12]}",
                                 dict(payload, inputs=ki, cotangents=kg))
                        break
        return base
    KI = ("contiguous", "transposed", "strided")
    for rep in range(reps):
        # ---- LogNormalCDF: 2-d and 3-d arguments; also the expanded cotangent of `.sum().backward()`
        for shape in ((3, 4), (2, 3, 2), (5,), (4, 1), (1, 3), (2, 2, 1, 2)):
          zs = np.array([rng.uniform(-6, 3) for _ in range(int(np.prod(shape)))]).reshape(shape)
          gos = np.array([rng.uniform(0.5, 2.0) * rng.choice([-1, 1]) for _ in range(zs.size)]).reshape(shape)
          pl = {"id": [rep, list(shape)], "function": "LogNormalCDF", "z": zs.tolist(), "grad_output": gos.tolist()}

          def run_l(ki, kg, expanded=False):
              leaf = _t(zs.tolist(), requires_grad=True)
              zv = lay(leaf, ki) if ki != "contiguous" else leaf * 1.0
              out = log_normal_cdf(zv)
              go = torch.ones((), dtype=torch.float64).expand(out.shape) if expanded else lay(_t(gos.tolist()), kg)
              return [torch.autograd.grad(out, leaf, grad_outputs=go)[0].numpy()]
          base = compare("LogNormalCDF", "LogNormalCDF", pl, run_l, KI, KI)
          mpmath.mp.dps = 30
          ref = np.array([float(mpmath.npdf(z_) / mpmath.ncdf(z_)) for z_ in zs.reshape(-1)]).reshape(shape) * gos
          for ki in KI:
              for expd in (False, True):
                  g = run_l(ki, "transposed", expd)[0]
                  r_ = ref / gos if expd else ref
                  if not np.allclose(g, r_, rtol=2e-3, atol=1e-9):
                      ctx.fail("LogNormalCDF.backward/memory-layout", f"LogNormalCDF with a {ki} argument" +
                               (" and the expanded cotangent of .sum()" if expd else "") + f": gradient {g.reshape(-1).tolist()[:8]}, "
                               f"φ/Φ·grad_output = {r_.reshape(-1).tolist()[:8]}", dict(pl, inputs=ki, expanded_cotangent=expd))
                      break
        # ---- RBFCovariance / MaternCovariance
        d = rng.randint(1, 3)
        n1, n2 = rng.sample([x for x in (2, 3, 4, 5) if x != d], 2)
        x1, x2, ell = K5.rand_x(rng, n1, d), K5.rand_x(rng, n2, d), K5.logu(rng, 0.4, 2.5)
        gk = K5.rand_x(rng, n1, n2)
        for fam, nu2 in (("rbf", None), ("matern", 1), ("matern", 3), ("matern", 5)):
            name = "RBFCovariance" if fam == "rbf" else f"MaternCovariance(nu={nu2 / 2})"
            pl = {"id": rep, "function": name, "x1": x1, "x2": x2, "ell": ell, "grad_output": gk}

            def run_k(ki, kg):
                leaf = _t([[ell]], requires_grad=True)
                X1, X2, go = lay(_t(x1), ki), lay(_t(x2), ki), lay(_t(gk), kg)
                if fam == "rbf":
                    K = RBFCovariance.apply(X1, X2, leaf * 1.0, lambda a, b: sq_dist(a, b, False))
                else:
                    K = MaternCovariance.apply(X1, X2, leaf * 1.0, nu2 / 2.0, lambda a, b: dist(a, b, False))
                return [torch.autograd.grad(K, leaf, grad_outputs=go)[0].numpy()]
            compare(name, name, pl, run_k, KI, KI, rtol=1e-9)
        # ---- natural / tril-natural / CIQ Functions
        n = rng.randint(2, 4)
        Sig, mu = _rand_spd(rng, n), _t([rng.gauss(0, 1) for _ in range(n)])
        prec = torch.linalg.inv(Sig)
        prec = 0.5 * (prec + prec.T)
        gmu = [rng.gauss(0, 1) for _ in range(n)]
        gL = torch.tril(_t([[rng.gauss(0, 1) for _ in range(n)] for _ in range(n)])).tolist()
        cond = float(torch.linalg.cond(Sig))
        for fn_name in ("_NaturalToMuVarSqrt", "_TrilNaturalToMuVarSqrt"):
            F = _NaturalToMuVarSqrt if fn_name == "_NaturalToMuVarSqrt" else _TrilNaturalToMuVarSqrt
            second = -0.5 * prec if fn_name == "_NaturalToMuVarSqrt" else torch.tril(torch.linalg.inv(torch.linalg.cholesky(Sig)))
            pl = {"id": rep, "function": fn_name, "Sigma": Sig.tolist(), "mu": mu.tolist(), "dout_dmu": gmu, "dout_dL": gL}

            def run_n(ki, kg):
                l1, l2 = (prec @ mu).clone().requires_grad_(True), second.clone().requires_grad_(True)
                a, c_ = (lay(l1, ki), lay(l2, ki)) if ki != "contiguous" else (l1 * 1.0, l2 * 1.0)
                mo, Lo = F.apply(a, c_)
                return [g.numpy() for g in torch.autograd.grad([mo, Lo], [l1, l2], grad_outputs=[lay(_t(gmu), kg), lay(_t(gL), kg)])]
            compare(fn_name, fn_name, pl, run_n, KI, KI, rtol=1e-9 * cond)
        nb = rng.randint(1, 3)
        kk = K5.rand_x(rng, n, nb)
        gm, gv, gk_ = [rng.gauss(0, 1) for _ in range(nb)], [rng.gauss(0, 1) for _ in range(nb)], rng.gauss(0, 1)
        pl = {"id": rep, "function": "_NgdInterpTerms", "S": Sig.tolist(), "m": mu.tolist(), "k": kk, "gm": gm, "gv": gv, "gk": gk_}

        def run_c(ki, kg):
            li, lv, lm = _t(kk, requires_grad=True), (prec @ mu).clone().requires_grad_(True), (-0.5 * prec).clone().requires_grad_(True)
            ti, tv, tm = (lay(li, ki), lay(lv, ki), lay(lm, ki)) if ki != "contiguous" else (li * 1.0, lv * 1.0, lm * 1.0)
            with gpytorch.settings.cg_tolerance(1e-13), gpytorch.settings.eval_cg_tolerance(1e-13), \
                    gpytorch.settings.max_cg_iterations(200):
                im, iv, kl = _NgdInterpTerms.apply(ti, tv, tm)
                return [g.numpy() for g in torch.autograd.grad([im, iv, kl], [li, lv, lm],
                                                               grad_outputs=[lay(_t(gm), kg), lay(_t(gv), kg), _t(gk_)])]
        compare("_NgdInterpTerms", "_NgdInterpTerms", pl, run_c, KI, KI, rtol=1e-7 * cond)


# ------------------------------------------------------------------------------------------- predictions

def prediction_gradients(ctx, rng):
    import numpy as np
    import torch
    import gpytorch
    reps = 8 if ctx.quick else 60
    for rep in range(reps):
        fam = rng.choice(["rbf", "matern1", "matern3", "matern5"])
        d, n, m = rng.randint(1, 3), rng.randint(3, 7), rng.randint(1, 3)
        ard = d > 1 and rng.random() < 0.4
        X = _t(K5.rand_x(rng, n, d))
        y = _t([rng.gauss(0, 1) for _ in range(n)])
        Xs = _t(K5.rand_x(rng, m, d))
        coincide = fam != "matern1" and rng.random() < 0.4     # test inputs EQUAL to training inputs (a different tensor)
        if coincide:
            Xs = X[:m].clone()
        ctx.count("pred_coincident_test_inputs" if coincide else "pred_generic_test_inputs")
        wm = _t([rng.gauss(0, 1) for _ in range(m)])
        wv = _t([rng.gauss(0, 1) for _ in range(m)])
        ell = [K5.logu(rng, 0.4, 2.0) for _ in range(d if ard else 1)]
        noise, os_ = K5.logu(rng, 0.05, 0.5), K5.logu(rng, 0.5, 3.0)

        class M(gpytorch.models.ExactGP):
            def __init__(self):
                lik = gpytorch.likelihoods.GaussianLikelihood().double()
                super().__init__(X, y, lik)
                self.mean_module = gpytorch.means.ConstantMean().double()
                base = (gpytorch.kernels.RBFKernel(ard_num_dims=d if ard else None) if fam == "rbf" else
                        gpytorch.kernels.MaternKernel(nu=int(fam[6:]) / 2.0, ard_num_dims=d if ard else None)).double()
                base.lengthscale = _t([ell])
                self.covar_module = gpytorch.kernels.ScaleKernel(base).double()
                self.covar_module.outputscale = _t(os_)
                lik.noise = _t([noise])

            def forward(self, x):
                return gpytorch.distributions.MultivariateNormal(self.mean_module(x), self.covar_module(x))
        model = M().double()
        model.eval()

        def f(xs):
            with warnings.catch_warnings():
                warnings.simplefilter("ignore")
                with gpytorch.settings.fast_pred_var(False):
                    model.train()
                    model.eval()     # fresh prediction strategy for every evaluation (C03's business otherwise)
                    p = model(xs)
                    return (wm * p.mean).sum() + (wv * p.variance).sum()
        xs = Xs.clone().requires_grad_(True)
        g, = torch.autograd.grad(f(xs), xs)
        h = 1e-6
        fd = torch.zeros_like(Xs)
        with torch.no_grad():
            for i in range(m):
                for j in range(d):
                    e = torch.zeros_like(Xs)
                    e[i, j] = h
                    fd[i, j] = (f(Xs + e) - f(Xs - e)) / (2 * h)
        ctx.case({"pred": fam, "X": X.tolist(), "Xs": Xs.tolist(), "ell": ell, "ard": ard},
                 sample={"function": "ExactGP prediction d/dx*", "kernel": fam, "n": n, "m": m, "d": d})
        sc = max(1.0, float(fd.abs().max()))
        if not np.allclose(g.numpy(), fd.numpy(), rtol=1e-5, atol=1e-6 * sc):
            ctx.fail(f"ExactGP-predict/d-test-inputs/{fam}" + ("/coincident" if coincide else ""),
                     f"gradient of Σw·mean+Σv·variance w.r.t. test inputs: autograd {g.tolist()} vs central differences {fd.tolist()}",
                     {"kernel": fam, "coincident_test_inputs": coincide, "X": X.tolist(), "y": y.tolist(), "Xs": Xs.tolist(), "ell": ell, "noise": noise,
                      "outputscale": os_, "wm": wm.tolist(), "wv": wv.tolist()})


# ------------------------------------------------------------------------------------------- LogNormalCDF

def lncdf(ctx, rng):
    import mpmath
    import torch
    from gpytorch.functions._log_normal_cdf import LogNormalCDF
    from gpytorch.functions import log_normal_cdf
    mpmath.mp.dps = 60
    zs = [-40.0, -35.0, -30.0, -25.0, -20.0, -15.0, -10.0, -7.5, -5.0, -4.0, -3.0, -2.5, -2.0, -1.75, -1.5, -1.25, -1.1,
          -1.01, -0.75, -0.5, -0.3, -0.1, -0.01, 0.0, 0.01, 0.1, 0.3, 0.5, 1.0, 1.5, 2.0, 3.0, 4.0, 5.0, 6.0, 8.0, 10.0]
    for bnd in (-1.0, -0.2, 0.2):      # branch boundaries: z < -1 ("small"), z^2 < 0.04 ("near zero")
        for eps in (0.0, 1e-12, 1e-9, 1e-6, 1e-3):
            zs += [bnd - eps, bnd + eps]
    zs += [rng.uniform(-40, 10) for _ in range(40 if ctx.quick else 2000)]
    zs += [rng.uniform(-1.3, 0.4) for _ in range(40 if ctx.quick else 2000)]
    z = _t(zs, requires_grad=True)
    go = _t([rng.uniform(0.5, 2.0) * rng.choice([-1, 1]) for _ in zs])
    out = log_normal_cdf(z)              # the public entry point (gpytorch.functions.log_normal_cdf)
    g, = torch.autograd.grad(out, z, grad_outputs=go)
    g_all, = torch.autograd.grad(LogNormalCDF.apply(z).sum(), z)
    worst = 0.0
    for zi, gi, goi, gai in zip(zs, g.tolist(), go.tolist(), g_all.tolist()):
        Z = mpmath.mpf(zi)
        ref = mpmath.npdf(Z) / mpmath.ncdf(Z)
        rel = float(abs(mpmath.mpf(gi) / mpmath.mpf(goi) - ref) / ref)
        worst = max(worst, rel)
        branch = "small(z<-1)" if zi < -1 else ("near-zero" if zi * zi < 0.04 else "ordinary")
        ctx.case({"lncdf": zi}, sample={"function": "LogNormalCDF.backward", "z": zi, "branch": branch})
        ctx.count(f"lncdf_{branch}")
        if not (rel <= 2e-3) or abs(gi / goi - gai) > 1e-12 * max(1.0, abs(gai)):
            ctx.fail(f"LogNormalCDF.backward/{branch}",
                     f"d log Φ(z)/dz at z={zi!r}: {gi / goi!r}, φ(z)/Φ(z) = {float(ref)!r} (relative error {rel:.3e} > 2e-3)",
                     {"z": zi})
    ctx.notes["lncdf_worst_relative_error"] = worst
    # derivative of the function actually computed: central differences of forward, inside each branch
    h = 1e-6
    for zi in zs:
        if zi > 3.0 or min(abs(zi + 1.0), abs(zi + 0.2), abs(zi - 0.2)) < 1e-4:
            continue
        with torch.no_grad():
            f = LogNormalCDF.apply(_t([zi - h, zi + h]))
        fd = (f[1] - f[0]).item() / (2 * h)
        gi = torch.autograd.grad(LogNormalCDF.apply(zt := _t([zi], requires_grad=True)).sum(), zt)[0].item()
        ctx.case({"lncdf_fd": zi}, sample=None)
        relfd = abs(fd - gi) / abs(gi)
        ctx.notes["lncdf_worst_vs_forward_differences"] = max(ctx.notes.get("lncdf_worst_vs_forward_differences", 0.0), relfd)
        # forward is a rational approximation with a 1e-3 relative value error on (-1.5,-1): its own derivative is
        # within 7e-3 of the returned one there; a wrong factor in a branch moves it by O(1)
        if abs(fd - gi) > 2e-2 * abs(gi) + 1e-7 * max(1.0, abs(zi)) ** 2:
            ctx.fail("LogNormalCDF.backward/vs-forward-differences",
                     f"z={zi!r}: backward {gi!r}, central differences of forward {fd!r}", {"z": zi})


# ------------------------------------------------------------------------------------------- natural parameterisations

def _rand_spd(rng, n, lo=0.5):
    import torch
    A = _t([[rng.gauss(0, 1) for _ in range(n)] for _ in range(n)])
    return A @ A.T / n + lo * torch.eye(n, dtype=torch.float64)


def natural(ctx, rng, q):
    import numpy as np
    import torch
    from gpytorch.variational.natural_variational_distribution import (_NaturalToMuVarSqrt, _cholesky_backward,
                                                                        NaturalVariationalDistribution)
    from gpytorch.variational.tril_natural_variational_distribution import (_TrilNaturalToMuVarSqrt,
                                                                             TrilNaturalVariationalDistribution)
    reps = 10 if ctx.quick else 100
    work, gwork = [], []
    for rep in range(reps):
        batch = rng.choice([None, 2, 3])
        B = batch or 1
        n = rng.choice([x for x in (1, 2, 3, 4, 5) if x != B or x == 1])
        for b_ in range(1):
            Sig = torch.stack([_rand_spd(rng, n) for _ in range(B)])
            mu = _t([[rng.gauss(0, 1) for _ in range(n)] for _ in range(B)])
            if not batch:
                Sig, mu = Sig[0], mu[0]
            prec = torch.linalg.inv(Sig)
            nat_mean = (prec @ mu.unsqueeze(-1)).squeeze(-1)
            nat_covar = -0.5 * prec
            gmu = _t([[rng.gauss(0, 1) for _ in range(n)] for _ in range(B)])
            gL = torch.tril(_t([[[rng.gauss(0, 1) for _ in range(n)] for _ in range(n)] for _ in range(B)]))
            if not batch:
                gmu, gL = gmu[0], gL[0]
            # ---- the Function (hand-written backward)
            a = nat_mean.clone().requires_grad_(True)
            c = nat_covar.clone().requires_grad_(True)
            m_out, L_out = _NaturalToMuVarSqrt.apply(a, c)
            g1, g2 = torch.autograd.grad([m_out, L_out], [a, c], grad_outputs=[gmu, gL])
            # ---- explicit map from the expectation parameters, differentiated by autograd
            eta1 = mu.clone().requires_grad_(True)
            eta2 = (Sig + mu.unsqueeze(-1) @ mu.unsqueeze(-2)).clone().requires_grad_(True)
            S_ = eta2 - eta1.unsqueeze(-1) @ eta1.unsqueeze(-2)
            L_ = torch.linalg.cholesky(S_)
            r1, r2 = torch.autograd.grad([eta1 * 1.0, L_], [eta1, eta2], grad_outputs=[gmu, gL])
            r2 = 0.5 * (r2 + r2.transpose(-1, -2))
            desc = {"n": n, "batch": batch, "Sigma": Sig.tolist(), "mu": mu.tolist(), "dout_dmu": gmu.tolist(),
                    "dout_dL": gL.tolist()}
            ctx.case({"nat": desc}, sample={"function": "_NaturalToMuVarSqrt.backward", "n": n, "batch": batch})
            scale = max(1.0, float(r1.abs().max()), float(r2.abs().max()))
            cond = float(torch.linalg.cond(Sig).max())
            tol = 1e-9 * cond * scale
            if not (torch.allclose(m_out, mu, atol=1e-9 * cond) and
                    torch.allclose(L_out @ L_out.transpose(-1, -2), Sig, atol=1e-9 * cond)):
                ctx.fail("_NaturalToMuVarSqrt.forward", "forward does not return (mu, chol Sigma) of the natural parameters", desc)
            if (g1 - r1).abs().max() > tol or (g2 - r2).abs().max() > tol:
                ctx.fail("_NaturalToMuVarSqrt.backward/expectation-gradient",
                         f"returned (d/deta1, d/deta2) differ from autograd of (eta1,eta2) -> (eta1, chol(eta2-eta1 eta1^T)) by "
                         f"{(g1 - r1).abs().max().item():.3e}, {(g2 - r2).abs().max().item():.3e} (tol {tol:.1e})", desc)
            # ---- only ONE of the two outputs is used downstream (variance-only / mean-only objectives): the
            #      covariance still contributes -2 (dl/dS) mu to the gradient w.r.t. eta1
            zero1, zero2 = torch.zeros_like(r1), torch.zeros_like(r2)
            for which, outs, gos, ref in (("covariance-only", [L_out], [gL], None), ("mean-only", [m_out], [gmu], (gmu, zero2))):
                a_ = nat_mean.clone().requires_grad_(True)
                c_ = nat_covar.clone().requires_grad_(True)
                mo, Lo = _NaturalToMuVarSqrt.apply(a_, c_)
                res = torch.autograd.grad([Lo] if which == "covariance-only" else [mo], [a_, c_], grad_outputs=gos,
                                          allow_unused=True)
                p1 = zero1 if res[0] is None else res[0]
                p2 = zero2 if res[1] is None else res[1]
                if ref is None:
                    e1 = mu.clone().requires_grad_(True)
                    e2 = (Sig + mu.unsqueeze(-1) @ mu.unsqueeze(-2)).clone().requires_grad_(True)
                    Lc = torch.linalg.cholesky(e2 - e1.unsqueeze(-1) @ e1.unsqueeze(-2))
                    q1, q2 = torch.autograd.grad(Lc, [e1, e2], grad_outputs=gL)
                    ref = (q1, 0.5 * (q2 + q2.transpose(-1, -2)))
                ctx.case({"nat-partial": which, "d": desc}, sample={"function": "_NaturalToMuVarSqrt.backward", "outputs_used": which})
                if (p1 - ref[0]).abs().max() > tol or (p2 - ref[1]).abs().max() > tol:
                    ctx.fail(f"_NaturalToMuVarSqrt.backward/{which}",
                             f"only the {which.split('-')[0]} output is used: returned (d/deta1, d/deta2) differ from the "
                             f"expectation-parameter gradient by {(p1 - ref[0]).abs().max().item():.3e}, "
                             f"{(p2 - ref[1]).abs().max().item():.3e}" + (" (d/deta1 is None)" if res[0] is None else ""),
                             dict(desc, outputs_used=which))
            # ---- Lean model on the very tensors the real backward sees
            Lr = L_out.detach()
            Cr = torch.linalg.solve_triangular(Lr, torch.eye(n, dtype=torch.float64).expand_as(Lr), upper=False)
            dS = _cholesky_backward(gL, Lr, Cr)
            for b in range(B):
                sel = (lambda t: t[b]) if batch else (lambda t: t)
                h1 = q.ask(f"CB {K5.mat(sel(gL).tolist())} {K5.mat(sel(Lr).tolist())} {K5.mat(sel(Cr).tolist())}")
                h2 = q.ask(f"NB {K5.mat([[v] for v in sel(gmu).tolist()])} {K5.mat(sel(dS).tolist())} "
                           f"{K5.mat([[v] for v in sel(m_out.detach()).tolist()])}")
                work.append((h1, h2, sel(dS).numpy(), sel(g1).numpy(), sel(g2).numpy(), cond, desc))
                # regenerated `_NaturalToMuVarSqrt._backward` (and the model) on the same tensors
                h3 = q.ask(f"GB {K5.mat([[v] for v in sel(gmu).tolist()])} {K5.mat(sel(gL).tolist())} "
                           f"{K5.mat([[v] for v in sel(m_out.detach()).tolist()])} {K5.mat(sel(Lr).tolist())} {K5.mat(sel(Cr).tolist())}")
                gwork.append(("_NaturalToMuVarSqrt", h3, sel(g1).numpy(), sel(g2).numpy(), None, None, cond, desc))
            # ---- tril-natural: same natural gradient for eta1; the second output is the tangent of
            #      theta_cov -> C (C^T C = -2 theta_cov, C lower) in the direction of the natural gradient
            #      natural_tril_mat = D·inv(chol Sigma) for ANY sign pattern D on the diagonal is a legal parameter
            #      (C^T C = Sigma^{-1}); the returned factor is then chol(Sigma)·D (negative diagonal entries)
            for signs in ("positive", "mixed"):
                Dg = torch.ones(n, dtype=torch.float64)
                if signs == "mixed":
                    for i in rng.sample(range(n), rng.randint(1, n)):
                        Dg[i] = -1.0
                Cm = Dg.unsqueeze(-1) * torch.linalg.inv(torch.linalg.cholesky(Sig))   # lower, C^T C = Sigma^{-1}
                a2 = nat_mean.clone().requires_grad_(True)
                c2 = Cm.clone().requires_grad_(True)
                try:
                    m2, L2 = _TrilNaturalToMuVarSqrt.apply(a2, c2)
                    t1, t2 = torch.autograd.grad([m2, L2], [a2, c2], grad_outputs=[gmu, gL])
                except Exception as e:
                    ctx.case({"tril-raises": [n, batch, rep, signs]}, sample=None)
                    ctx.fail("_TrilNaturalToMuVarSqrt/raises", f"_TrilNaturalToMuVarSqrt forward/backward raises {type(e).__name__}: "
                             f"{str(e)[:300]}", dict(desc, tril_diagonal_signs=Dg.tolist()))
                    continue
                # reference: explicit map (eta1, eta2) -> (eta1, chol(eta2 - eta1 eta1^T)·D)
                e1 = mu.clone().requires_grad_(True)
                e2 = (Sig + mu.unsqueeze(-1) @ mu.unsqueeze(-2)).clone().requires_grad_(True)
                Ld = torch.linalg.cholesky(e2 - e1.unsqueeze(-1) @ e1.unsqueeze(-2)) * Dg
                s1, s2 = torch.autograd.grad([e1 * 1.0, Ld], [e1, e2], grad_outputs=[gmu, gL])
                s2 = 0.5 * (s2 + s2.transpose(-1, -2))

                def C_of(theta, Dg=Dg):
                    return Dg.unsqueeze(-1) * torch.linalg.inv(torch.linalg.cholesky(torch.linalg.inv(-2.0 * theta)))
                _, jv = torch.autograd.functional.jvp(C_of, (nat_covar,), (s2,))
                dsc = dict(desc, tril_diagonal_signs=Dg.tolist())
                ctx.case({"tril": dsc}, sample={"function": "_TrilNaturalToMuVarSqrt.backward", "n": n, "batch": batch,
                                                "diagonal": signs})
                ctx.count(f"tril_diag_{signs}")
                tol2 = 1e-8 * cond ** 2 * max(1.0, float(jv.abs().max()))
                okf = torch.allclose(m2, mu, atol=1e-9 * cond) and \
                    torch.allclose(L2 @ L2.transpose(-1, -2), Sig, atol=1e-9 * cond)
                if not okf or (t1 - s1).abs().max() > tol or (t2 - jv).abs().max() > tol2:
                    ctx.fail(f"_TrilNaturalToMuVarSqrt.backward/{signs}-diagonal",
                             f"(forward ok: {okf}) (d/deta1, tangent of C) differ from the reference by "
                             f"{(t1 - s1).abs().max().item():.3e}, {(t2 - jv).abs().max().item():.3e} (tol {tol:.1e}, {tol2:.1e})", dsc)
                # the PROVED characterisation (`tril_backward_tangent`): dout_dtril is lower triangular and solves the
                # linearised constraint  Ċᵀ C + Cᵀ Ċ = −2 G  with G = the expectation gradient dout_dnat2 (= s2)
                lin = t2.transpose(-1, -2) @ Cm + Cm.transpose(-1, -2) @ t2 + 2.0 * s2
                up = torch.triu(t2, diagonal=1).abs().max().item() if n > 1 else 0.0
                lsc = max(1.0, float(s2.abs().max()), float(t2.abs().max()) * float(Cm.abs().max()))
                if up > 1e-12 * lsc or float(lin.abs().max()) > 1e-9 * cond * lsc:     # (torch.linalg.inv leaves 1e-17 above the diagonal of C)
                    ctx.fail("_TrilNaturalToMuVarSqrt.backward/second-output/linearised-constraint",
                             f"dout_dtril is not the tangent of theta -> C: strictly-upper part {up:.3e}, residual of "
                             f"Ċ^T C + C^T Ċ = -2 G: {float(lin.abs().max()):.3e} (tol {1e-9 * cond * lsc:.1e})", dsc)
                # exact Lean evaluation (generated code and model) on the very tensors the real backward sees
                L2d = L2.detach()
                for b in range(B):
                    sel = (lambda t: t[b]) if batch else (lambda t: t)
                    h4 = q.ask(f"GB {K5.mat([[v] for v in sel(gmu).tolist()])} {K5.mat(sel(gL).tolist())} "
                               f"{K5.mat([[v] for v in sel(m2.detach()).tolist()])} {K5.mat(sel(L2d).tolist())} {K5.mat(sel(Cm).tolist())}")
                    gwork.append(("_TrilNaturalToMuVarSqrt", h4, None, None, sel(t1).numpy(), sel(t2).numpy(), cond, dsc))
    # through the public modules: gradient of a loss of (mean, covariance) lands in natural_vec.grad / natural_mat.grad.
    # Objectives that use the mean only, the covariance only (weighted sum / trace / logdet / variance), or both;
    # tril parameterisation with positive and with mixed-sign diagonals.
    for rep in range(3 if ctx.quick else 15):
        n = rng.randint(2, 4)
        for cls in (NaturalVariationalDistribution, TrilNaturalVariationalDistribution):
            for objective in ("both", "covariance-weighted", "covariance-logdet", "variance-only", "mean-only"):
                signs = "mixed" if (cls is TrilNaturalVariationalDistribution and rng.random() < 0.5) else "positive"
                dist = cls(n).double()
                Sig, mu = _rand_spd(rng, n), _t([rng.gauss(0, 1) for _ in range(n)])
                prec = torch.linalg.inv(Sig)
                Dg = torch.ones(n, dtype=torch.float64)
                if signs == "mixed":
                    for i in rng.sample(range(n), rng.randint(1, n)):
                        Dg[i] = -1.0
                with torch.no_grad():
                    dist.natural_vec.copy_(prec @ mu)
                    if cls is NaturalVariationalDistribution:
                        dist.natural_mat.copy_(-0.5 * prec)
                    else:
                        dist.natural_tril_mat.copy_(Dg.unsqueeze(-1) * torch.linalg.inv(torch.linalg.cholesky(Sig)))
                w, W = _t([rng.gauss(0, 1) for _ in range(n)]), _rand_spd(rng, n, 0.0)
                p = dist()
                Sv = Sig.clone().requires_grad_(True)
                mv = mu.clone().requires_grad_(True)

                def obj(m_, S_):
                    if objective == "both":
                        return (w * m_).sum() + (W * S_).sum()
                    if objective == "covariance-weighted":
                        return (W * S_).sum()
                    if objective == "covariance-logdet":
                        return torch.logdet(S_) + S_.diagonal().sum()
                    if objective == "variance-only":
                        return (w * S_.diagonal()).sum()
                    return (w * m_).sum()
                loss = obj(p.mean, p.covariance_matrix if objective != "variance-only" else torch.diag_embed(p.variance))
                loss.backward()
                dm, dS = torch.autograd.grad(obj(mv, Sv), [mv, Sv], allow_unused=True)
                dm = torch.zeros_like(mu) if dm is None else dm
                dS = torch.zeros_like(Sig) if dS is None else 0.5 * (dS + dS.T)
                want = dm - 2 * (dS @ mu)          # expectation-parameter gradient: dl/dmu - 2 (dl/dSigma) mu
                got = dist.natural_vec.grad
                got = torch.zeros_like(mu) if got is None else got
                payload = {"module": cls.__name__, "objective": objective, "Sigma": Sig.tolist(), "mu": mu.tolist(),
                           "w": w.tolist(), "W": W.tolist(), "tril_diagonal_signs": Dg.tolist()}
                ctx.case(payload, sample={"function": cls.__name__ + ".forward/backward", "n": n, "objective": objective,
                                          "diagonal": signs})
                tolm = 1e-8 * float(torch.linalg.cond(Sig)) * max(1.0, float(want.abs().max()), float(dS.abs().max()))
                if (got - want).abs().max() > tolm:
                    ctx.fail(f"{cls.__name__}/natural_vec.grad/{objective}" + ("/negative-diagonal" if signs == "mixed" else ""),
                             f"natural_vec.grad {got.tolist()} is not the gradient w.r.t. the first expectation parameter "
                             f"{want.tolist()}" + (" (grad is None)" if dist.natural_vec.grad is None else ""), payload)
                if cls is NaturalVariationalDistribution:
                    g2_ = dist.natural_mat.grad
                    g2_ = torch.zeros_like(Sig) if g2_ is None else g2_
                    if (g2_ - dS).abs().max() > tolm:
                        ctx.fail(f"NaturalVariationalDistribution/natural_mat.grad/{objective}",
                                 "natural_mat.grad is not the gradient w.r.t. the second expectation parameter", payload)

    def finish():
        for h1, h2, dS, g1, g2, cond, desc in work:
            if not q.ok(h1):
                break
            cb = np.array(C.fmat_to_float(K5.parse_rat(q[h1])))
            parts = q[h2].split(";")
            nb1 = np.array(C.fmat_to_float(K5.parse_rat(parts[0]))).reshape(-1)
            sc = max(1.0, float(np.abs(cb).max()))
            if np.abs(cb - dS).max() > 1e-12 * sc * max(1.0, cond):
                ctx.fail("_cholesky_backward/model", f"_cholesky_backward differs from sym(L^-T Φ(L^T dout) L^-1) evaluated "
                         f"exactly on the same tensors by {np.abs(cb - dS).max():.3e}", desc)
            if np.abs(nb1 - g1).max() > 1e-12 * max(1.0, float(np.abs(nb1).max())) * max(1.0, cond):
                ctx.fail("_NaturalToMuVarSqrt._backward/model", f"dout_deta1 differs from dout_dmu - 2 dout_dSigma mu "
                         f"(exact) by {np.abs(nb1 - g1).max():.3e}", desc)
        mism = 0
        for fn, h, g1, g2, t1, t2, cond, desc in gwork:
            if not q.ok(h):
                break
            gen, model = _split_reply(q[h])
            m1, m2_, m3 = [np.array(C.fmat_to_float(K5.parse_rat(p))) for p in model]
            ctx.count("natgrad_exact_cases")
            if gen is not None and [gen[0], gen[1], gen[2], gen[3]] != [model[0], model[1], model[0], model[2]]:
                mism += 1
                if mism == 1:
                    ctx.broke("correspondence", "generated _backward / _TrilNaturalToMuVarSqrt.backward vs model",
                              f"Gen/NaturalGrad.lean and Model/NaturalGrad.lean differ on {json.dumps(desc)[:600]}")

            def off(a, b):
                return float(np.abs(np.asarray(a).reshape(b.shape) - b).max()) > 1e-11 * max(1.0, float(np.abs(b).max())) * max(1.0, cond)
            if fn == "_NaturalToMuVarSqrt":
                if off(g1, m1) or off(g2, m2_):
                    ctx.fail("_NaturalToMuVarSqrt.backward/exact", "returned (dout_deta1, dout_deta2) differ from the exact value of "
                             "(dout_dmu − 2·G·mu, G), G = sym(L^-T Φ(L^T dout_dL) L^-1), on the same saved tensors", desc)
            else:
                if off(t1, m1):
                    ctx.fail("_TrilNaturalToMuVarSqrt.backward/first-output/exact", "dout_dnat1 differs from the exact value of "
                             "dout_dmu − 2·G·mu on the same saved tensors", desc)
                if off(t2, m3):
                    ctx.fail("_TrilNaturalToMuVarSqrt.backward/second-output/exact",
                             f"dout_dtril differs from the exact value of Φ(−2·L^T G L)·C (the proved tangent) on the same saved "
                             f"tensors by {float(np.abs(t2 - m3).max()):.3e}", desc)
    return finish


def _split_reply(reply):
    """'gen ; … | model ; …' -> (list of gen parts or None when the fallback driver answered, list of model parts)"""
    g, m = reply.split("|")
    norm = lambda p: " ".join(p.split())
    return (None if g.strip() == "nogen" else [norm(p) for p in g.split(";")]), [norm(p) for p in m.split(";")]


# ------------------------------------------------------------------------------------------- CIQ

def ciq(ctx, rng, q):
    import numpy as np
    import torch
    import gpytorch
    from gpytorch.variational.ciq_variational_strategy import _NgdInterpTerms
    reps = 10 if ctx.quick else 100
    work, xwork, swork = [], [], []
    for rep in range(reps):
        batch = rng.choice([None, 2, 3])
        B = batch or 1
        n, nb = rng.sample([x for x in (1, 2, 3, 4, 5, 6) if x != B], 2)       # B, n, nb pairwise different
        S = torch.stack([_rand_spd(rng, n, 0.8) for _ in range(B)])
        m = _t([[rng.gauss(0, 1) for _ in range(n)] for _ in range(B)])
        kk = _t([[[rng.gauss(0, 1) for _ in range(nb)] for _ in range(n)] for _ in range(B)])
        gm = _t([[rng.gauss(0, 1) for _ in range(nb)] for _ in range(B)])
        gv = _t([[rng.gauss(0, 1) for _ in range(nb)] for _ in range(B)])
        gk = _t([rng.gauss(0, 1) for _ in range(B)])
        shared = bool(batch) and rng.random() < 0.4     # batched data, ONE variational distribution (broadcast)
        if not batch:
            S, m, kk, gm, gv, gk = S[0], m[0], kk[0], gm[0], gv[0], gk[0]
        elif shared:
            S, m = S[0], m[0]
        prec = torch.linalg.inv(S)
        prec = 0.5 * (prec + prec.transpose(-1, -2))     # exactly symmetric natural matrix (hypothesis of the theorems;
        #                                                  the exact generated-vs-model comparison needs it bit for bit)
        nat_vec = (prec @ m.unsqueeze(-1)).squeeze(-1)
        nat_mat = -0.5 * prec
        it = kk.clone().requires_grad_(True)
        nv = nat_vec.clone().requires_grad_(True)
        nm = nat_mat.clone().requires_grad_(True)
        try:
            with gpytorch.settings.cg_tolerance(1e-13), gpytorch.settings.eval_cg_tolerance(1e-13), \
                    gpytorch.settings.max_cg_iterations(200), warnings.catch_warnings():
                warnings.simplefilter("ignore")
                im, iv, kl = _NgdInterpTerms.apply(it, nv, nm)
                g_it, g_nv, g_nm = torch.autograd.grad([im, iv, kl], [it, nv, nm], grad_outputs=[gm, gv, gk])
        except Exception as e:                     # the real code refuses a legal input: a concrete failure
            ctx.case({"ciq-raises": [n, nb, batch, rep]}, sample=None)
            ctx.fail("_NgdInterpTerms/raises", f"_NgdInterpTerms forward/backward raises {type(e).__name__}: {str(e)[:300]} on "
                     f"n={n} inducing points, {nb} data points, batch {batch}",
                     {"n": n, "nb": nb, "batch": batch, "shared_params": shared, "nat_vec": nat_vec.tolist(),
                      "nat_mat": nat_mat.tolist(), "k": kk.tolist(), "gm": gm.tolist(), "gv": gv.tolist(), "gk": gk.tolist()})
            continue
        # forward values (CG contract): k^T m, k^T S k
        ref_mean = (kk.transpose(-1, -2) @ m.unsqueeze(-1)).squeeze(-1)
        ref_var = (kk * (S @ kk)).sum(-2)
        cond = float(torch.linalg.cond(S).max())
        resid = max(float((im.detach() - ref_mean).abs().max()), float((iv.detach() - ref_var).abs().max()))
        desc = {"n": n, "nb": nb, "batch": batch, "shared_params": shared, "S": S.tolist(), "m": m.tolist(), "k": kk.tolist(),
                "gm": gm.tolist(), "gv": gv.tolist(), "gk": gk.tolist()}
        ctx.case({"ciq": desc}, sample={"function": "_NgdInterpTerms.backward", "n": n, "data": nb, "batch": batch,
                                        "shared_params": shared})
        ctx.count("ciq_broadcast_params" if shared else "ciq_plain")
        # the same linear_cg call as in forward: all solves (also the natural_vec column, which only the backward uses)
        from linear_operator.utils.linear_cg import linear_cg
        P_ = -2.0 * nat_mat
        rhs_ = torch.cat([nat_vec.expand(*kk.shape[:-2], n).unsqueeze(-1), kk], dim=-1)
        with warnings.catch_warnings():
            warnings.simplefilter("ignore")
            sol_ = linear_cg(P_.matmul, rhs_, n_tridiag=0, max_iter=200, tolerance=1e-13, max_tridiag_iter=20,
                             preconditioner=lambda x: x / P_.diagonal(dim1=-1, dim2=-2).unsqueeze(-1))
        resid = max(resid, float((sol_ - S @ rhs_).abs().max()))
        if resid > 1e-9 * cond:
            ctx.assumption(f"linear_cg inside _NgdInterpTerms.forward: solve error {resid:.2e} (cond {cond:.1e}) at "
                           f"tolerance 1e-13 — linear_operator accuracy, case skipped")
            ctx.count("ciq_cg_not_converged")
            continue
        # explicit dense map of the expectation parameters, differentiated by autograd
        k_ = kk.clone().requires_grad_(True)
        e1 = m.clone().requires_grad_(True)
        e2 = (S + m.unsqueeze(-1) @ m.unsqueeze(-2)).clone().requires_grad_(True)
        S_ = e2 - e1.unsqueeze(-1) @ e1.unsqueeze(-2)
        mean_ = (k_.transpose(-1, -2) @ e1.unsqueeze(-1)).squeeze(-1)
        var_ = (k_ * (S_ @ k_)).sum(-2)
        kl_ = 0.5 * (-torch.logdet(S_) + e2.diagonal(dim1=-1, dim2=-2).sum(-1) - n)
        if shared:
            kl_ = kl_.expand(B)
        r_k, r_1, r_2 = torch.autograd.grad([mean_, var_, kl_], [k_, e1, e2], grad_outputs=[gm, gv, gk])
        r_2 = 0.5 * (r_2 + r_2.transpose(-1, -2))
        sc = max(1.0, float(r_k.abs().max()), float(r_1.abs().max()), float(r_2.abs().max()))
        tol = 1e-8 * cond * sc
        errs = [float((g_it - r_k).abs().max()), float((g_nv - r_1).abs().max()), float((g_nm - r_2).abs().max())]
        if max(errs) > tol:
            which = ["interp_term", "expec_vec", "expec_mat"][int(np.argmax(errs))]
            ctx.fail(f"_NgdInterpTerms.backward/{which}",
                     f"returned gradients differ from autograd of the explicit map (k, eta1, eta2) -> (k^T m, k^T S k, KL) by "
                     f"{errs} (tol {tol:.1e})", desc)
        # exact Lean evaluation of the REGENERATED forward + backward and of the model (all data points, KL terms
        # included — the expressions `ngd_backward_expec_hasDerivAt` / `_interp_hasDerivAt` are about)
        grp = []
        for b in range(B):
            sel = (lambda t: t[b]) if batch else (lambda t: t)
            par = (lambda t: t) if shared else sel          # ONE variational distribution for the whole batch
            hx = q.ask(f"NGDX {K5.mat(sel(kk).tolist())} {K5.mat([[v] for v in par(nat_vec).tolist()])} "
                       f"{K5.mat(par(nat_mat).tolist())} {K5.mat([[v] for v in sel(gm).tolist()])} "
                       f"{K5.mat([[v] for v in sel(gv).tolist()])} {K5.num(sel(gk).item())}")
            if shared:      # forward values and interp_term gradient per element; the parameter gradients are SUMS
                grp.append(hx)
                xwork.append((hx, [sel(im).detach().numpy(), sel(iv).detach().numpy(), sel(g_it).numpy()], cond, desc))
            else:
                xwork.append((hx, [sel(im).detach().numpy(), sel(iv).detach().numpy(), sel(g_it).numpy(), sel(g_nv).numpy(),
                                   sel(g_nm).numpy()], cond, desc))
        if shared:
            swork.append((grp, g_nv.numpy(), g_nm.numpy(), cond, desc))
        # Lean model: data terms only (one data point, no KL), exact
        for b in range(B):
            sel = (lambda t: t[b]) if batch else (lambda t: t)
            if shared:
                break
            j = rng.randrange(nb)
            kcol = sel(kk)[:, j].tolist()
            h = q.ask(f"NGD {K5.mat([[v] for v in kcol])} {K5.mat([[v] for v in sel(m).tolist()])} "
                      f"{K5.num(sel(gm)[j].item())} {K5.num(sel(gv)[j].item())}")
            # the real backward restricted to that data point and without KL
            it1 = sel(kk)[:, j:j + 1].clone().requires_grad_(True)
            nv1 = sel(nat_vec).clone().requires_grad_(True)
            nm1 = sel(nat_mat).clone().requires_grad_(True)
            with gpytorch.settings.cg_tolerance(1e-13), gpytorch.settings.eval_cg_tolerance(1e-13), \
                    gpytorch.settings.max_cg_iterations(200), warnings.catch_warnings():
                warnings.simplefilter("ignore")
                o = _NgdInterpTerms.apply(it1, nv1, nm1)
                _, b1, b2 = torch.autograd.grad(list(o), [it1, nv1, nm1],
                                                grad_outputs=[sel(gm)[j:j + 1], sel(gv)[j:j + 1], torch.zeros((), dtype=torch.float64)])
            work.append((h, b1.numpy(), b2.numpy(), cond, desc))

    def finish():
        for h, b1, b2, cond, desc in work:
            if not q.ok(h):
                break
            parts = q[h].split(";")
            v = np.array(C.fmat_to_float(K5.parse_rat(parts[0]))).reshape(-1)
            M = np.array(C.fmat_to_float(K5.parse_rat(parts[1])))
            sc = max(1.0, float(np.abs(v).max()), float(np.abs(M).max()))
            if np.abs(v - b1).max() > 1e-8 * cond * sc or np.abs(M - b2).max() > 1e-8 * cond * sc:
                ctx.fail("_NgdInterpTerms.backward/model", f"data-term gradients differ from (-2 gv (k^T m) k + gm k, gv k k^T) by "
                         f"{np.abs(v - b1).max():.3e}, {np.abs(M - b2).max():.3e}", desc)
        names = ["forward/interp_mean", "forward/interp_var", "backward/exact/interp_term", "backward/exact/expec_vec",
                 "backward/exact/expec_mat"]
        mism = 0
        for h, real, cond, desc in xwork:
            if not q.ok(h):
                break
            if q[h].strip() == "singular":
                ctx.count("ciq_exact_singular")
                continue
            gen, model = _split_reply(q[h])
            ctx.count("ciq_exact_cases")
            if gen is not None and gen != model:
                mism += 1
                if mism == 1:
                    ctx.broke("correspondence", "generated _NgdInterpTerms.forward/backward vs model",
                              f"Gen/NaturalGrad.lean and Model/NaturalGrad.lean differ on {json.dumps(desc)[:600]}")
            for nm, r_, part in zip(names, real, model):
                ex = np.array(C.fmat_to_float(K5.parse_rat(part))).reshape(r_.shape)
                sc = max(1.0, float(np.abs(ex).max()))
                if float(np.abs(ex - r_).max()) > 1e-8 * cond * sc:
                    ctx.fail(f"_NgdInterpTerms.{nm}", f"_NgdInterpTerms: {nm.split('/')[-1]} = {r_.reshape(-1).tolist()}, the exact "
                             f"value of the proved expression (all data points, KL terms included) is {ex.reshape(-1).tolist()}", desc)
                    break
        for grp, g_nv, g_nm, cond, desc in swork:       # broadcast parameters: autograd sums the batch
            if not all(q.ok(h) for h in grp) or any(q[h].strip() == "singular" for h in grp):
                continue
            parts = [_split_reply(q[h])[1] for h in grp]
            ev = sum(np.array(C.fmat_to_float(K5.parse_rat(p[3]))).reshape(g_nv.shape) for p in parts)
            em = sum(np.array(C.fmat_to_float(K5.parse_rat(p[4]))).reshape(g_nm.shape) for p in parts)
            ctx.count("ciq_exact_broadcast_cases")
            for nm, r_, ex in (("expec_vec", g_nv, ev), ("expec_mat", g_nm, em)):
                sc = max(1.0, float(np.abs(ex).max()))
                if float(np.abs(ex - r_).max()) > 1e-8 * cond * sc * len(grp):
                    ctx.fail(f"_NgdInterpTerms.backward/exact/{nm}/broadcast-parameters",
                             f"_NgdInterpTerms with ONE variational distribution for a batch of data: {nm} = {r_.reshape(-1).tolist()}, "
                             f"the sum over the batch of the exact proved expression is {ex.reshape(-1).tolist()}", desc)
                    break
    return finish


# ------------------------------------------------------------------------------------------- entry points

class Q2:
    """two drivers: kernel terms are served by drivers/C05.lean, linear algebra by drivers/C19.lean"""

    def __init__(self):
        self.k, self.l = K5.Q(), K5.Q()

    def ask(self, line):
        if line.split(" ", 1)[0] in ("NB", "CB", "NGD", "GB", "NGDX"):
            return ("l", self.l.ask(line))
        return ("k", self.k.ask(line))

    def run(self):
        """A driver that no longer builds / runs (e.g. a regenerated definition changed its signature) is a broken
        tie, not the end of the run: its Lean-side comparisons are skipped (`replies is None`), every comparison against
        closed forms / dense re-implementations still runs."""
        self.errors = []
        try:
            self.k.run()
        except RuntimeError as e:
            self.k.replies = None
            self.errors.append(("drivers/C05.lean (generated kernel terms)", str(e)[:600]))
        try:
            self.l.replies = C.run_driver("C19", self.l.lines) if self.l.lines else []
        except RuntimeError as e:
            self.errors.append(("drivers/C19.lean", str(e)[:600]))
            try:        # hand-written model only
                self.l.replies = C.run_driver("C19spec", self.l.lines) if self.l.lines else []
            except RuntimeError as e2:
                self.l.replies = None
                self.errors.append(("drivers/C19spec.lean", str(e2)[:600]))

    def ok(self, h):
        return (self.k if h[0] == "k" else self.l).replies is not None

    def __getitem__(self, h):
        return (self.k if h[0] == "k" else self.l)[h[1]]


def correspondence(ctx):
    import torch
    torch.set_num_threads(2)
    torch.manual_seed(ctx.rng("torch").torch_seed())
    q = Q2()
    fins = [kernel_gradients(ctx, ctx.rng("kernels"), q),
            natural(ctx, ctx.rng("natural"), q),
            ciq(ctx, ctx.rng("ciq"), q)]
    prediction_gradients(ctx, ctx.rng("pred"))
    input_gradients(ctx, ctx.rng("inputgrad"))
    output_inplace(ctx, ctx.rng("inplace"))
    public_call_forms(ctx, ctx.rng("callforms"))
    strategy_distribution_pairs(ctx, ctx.rng("pairs"))
    memory_layouts(ctx, ctx.rng("layouts"))
    lncdf(ctx, ctx.rng("lncdf"))
    q.run()
    ctx.count("driver_lines", len(q.k.lines) + len(q.l.lines))
    for which, err in q.errors:
        ctx.broke("driver", which, err)
    for f in fins:
        f()
    if ctx.counters.get("fast_path_not_used"):
        ctx.broke("correspondence", "public kernel call did not go through the hand-written Function",
                  f"{ctx.counters['fast_path_not_used']} case(s)")


def search(ctx, broken):
    """A proof or the translator broke: the correspondence above is already the search (it compares the real
    backward passes with central differences of the documented kernel and with independent re-implementations,
    none of which depends on the generated terms)."""
    if ctx.failures:
        return
    K5._search_gradients(ctx, ctx.rng("search"))
    if not ctx.failures:
        prediction_gradients(ctx, ctx.rng("search-pred"))
    if not ctx.failures:
        output_inplace(ctx, ctx.rng("search-inplace"), deep=True)
    if not ctx.failures:
        public_call_forms(ctx, ctx.rng("search-callforms"), deep=True)
    if not ctx.failures:
        memory_layouts(ctx, ctx.rng("search-layouts"), deep=True)
    if not ctx.failures:
        strategy_distribution_pairs(ctx, ctx.rng("search-pairs"), deep=True)


def replay(ctx, payload):
    import torch
    torch.set_num_threads(2)
    before = len(ctx.failures)
    c = payload.get("case", payload)
    if "z" in c and len(c) == 1:
        lncdf(ctx, ctx.rng("lncdf"))
    else:
        correspondence(ctx)
    key = payload.get("key")
    new = ctx.failures[before:]
    return not any(f["key"] == key for f in new) if key else not new

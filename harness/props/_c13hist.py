"""C13 — histories (private helper of props/c13.py).

Three classes of histories that single-call generators never reach; every case is a JSON-able *spec* that `run_*`
re-executes deterministically (the check, the failing-input search and `replay` all go through the same runner):

  backward-history   ONE autograd graph through `log_normal_cdf` (directly, through an affine map, or inside
                     `BernoulliLikelihood.expected_log_prob`) back-propagated several times (`retain_graph=True`; `autograd.grad`
                     and `.backward`, different upstream gradients, d/d mean then d/d variance): EVERY pass must return
                     g·phi/Phi (2e-3 relative for arguments < -1, rounding otherwise), passes must agree with each other to
                     rounding, and neither the forward value nor the inputs may change; a forward after the backwards too.
  object-history     ONE rule / likelihood object (built under float32 or float64 default dtype, optionally `.double()`ed)
                     used in sequence under several dtypes (float16 / bfloat16 / float32 / float64 distributions), with several
                     distribution kinds, batch shapes, observation batches and — Bernoulli — both accepted label encodings
                     ({0,1}; deprecated {-1,1}, incl. batches that happen to contain no -1): every float64 call is judged
                     (monomials against exact moments with the tolerance of the storage error measured AT CONSTRUCTION;
                     expected_log_prob / log_marginal / marginal against the N-point rule of the object's construction-time
                     table on the documented density at 30 digits), and after every call the object's state (node table,
                     parameters, buffers, every instance attribute) must be what it was before the call.
"""
import math
import warnings
from fractions import Fraction

from lib import common as C

EPS = 2.0 ** -52
DT = {"float16": "float16", "bfloat16": "bfloat16", "float32": "float32", "float64": "float64"}


def _dt(name):
    import torch
    return getattr(torch, name)


def _mills(z):
    import mpmath as mp
    z = mp.mpf(z)
    return mp.npdf(z) / mp.ncdf(z)


# ------------------------------------------------------------------ backward histories

def gen_backward_specs(rng, deep=False):
    specs = []

    def zs(n, mode):
        out = []
        for _ in range(n):
            r = mode if mode != "mixed" else rng.choice(["small", "small", "near", "ord", "edge"])
            if r == "small":
                out.append(-rng.choice([rng.uniform(1.0001, 3), rng.uniform(3, 12), rng.uniform(12, 38)]))
            elif r == "near":
                out.append(rng.uniform(-0.19, 0.19))
            elif r == "edge":
                out.append(rng.choice([-1.0, math.nextafter(-1.0, -math.inf), -1.0 - 1e-9, -0.2, 0.2, -0.9999]))
            else:
                out.append(rng.choice([rng.uniform(-0.99, -0.21), rng.uniform(0.21, 6)]))
        return out

    def upstream(n):
        k = rng.choice(["ones", "rand", "rand", "neg", "sparse"])
        if k == "ones":
            return [1.0] * n
        if k == "neg":
            return [-rng.uniform(0.5, 3) for _ in range(n)]
        if k == "sparse":
            return [rng.choice([0.0, rng.uniform(-2, 2)]) for _ in range(n)]
        return [rng.uniform(-2, 2) for _ in range(n)]

    reps = 12 if deep else 6
    for rep in range(reps):
        for graph in ("lncdf", "lncdf-affine"):
            shape = rng.choice([[7], [3, 4], [2, 2, 3], [1]])
            n = 1
            for s_ in shape:
                n *= s_
            mode = ["mixed", "mixed", "small", "ord"][rep % 4]
            a, b = (1.0, 0.0) if graph == "lncdf" else (rng.choice([-1.0, 2.0, -0.5, 1.5]), rng.uniform(-1, 1))
            arg = zs(n, mode)
            z = arg if graph == "lncdf" else [(x - b) / a for x in arg]
            npass = rng.choice([2, 3, 4] if not deep else [2, 3, 5, 8])
            passes = [{"how": rng.choice(["grad", "backward"]), "g": upstream(n)} for _ in range(npass)]
            passes[0]["g"] = [1.0] * n if rep % 2 == 0 else passes[0]["g"]
            specs.append({"kind": "backward-history", "graph": graph, "shape": shape, "z": z, "a": a, "b": b,
                          "passes": passes, "refwd": True})
    for rep in range(12 if deep else 6):
        n = rng.choice([3, 5])
        sgn = [float(rng.choice([0, 1])) for _ in range(n)]
        m = [rng.uniform(-2.5, 2.5) for _ in range(n)]
        # at least one entry where the label contradicts a confident prediction (arguments < -1 at most nodes)
        m[0] = (1 - 2 * sgn[0]) * rng.uniform(1.5, 3.0)
        v = [10 ** rng.uniform(-1.3, 0.5) for _ in range(n)]
        orders = [[["m"], ["v"]], [["v"], ["m"]], [["m", "v"], ["m"], ["v"]], [["m"], ["m"], ["v"], ["v"]]]
        specs.append({"kind": "backward-history", "graph": "bernoulli-elp", "m": m, "v": v, "y": sgn,
                      "N": rng.choice([5, 10, 20]), "dist": rng.choice(["dense", "diag", "normal"]),
                      "passes": [{"wrt": w, "g": upstream(n) if i else [1.0] * n} for i, w in enumerate(orders[rep % 4])]})
    return specs


def run_backward(spec):
    """-> (problems [(key, what)], records for the Lean `R` tie [(pass index, argument z, log Phi value, per-unit gradient)])"""
    import numpy as np
    import torch
    import gpytorch
    from gpytorch.functions import log_normal_cdf
    probs, recs = [], []
    graph = spec["graph"]
    if graph in ("lncdf", "lncdf-affine"):
        a, b = spec["a"], spec["b"]
        z = torch.tensor(spec["z"], dtype=torch.float64).reshape(spec["shape"]).requires_grad_(True)
        arg = z if graph == "lncdf" else a * z + b
        out = log_normal_cdf(arg)
        out0, z0, arg0 = out.detach().clone(), z.detach().clone(), arg.detach().clone()
        argl = arg0.reshape(-1).tolist()
        mills = [float(_mills(x)) for x in argl]
        unit = []
        for j, ps in enumerate(spec["passes"]):
            g = torch.tensor(ps["g"], dtype=torch.float64).reshape(spec["shape"])
            g_before = g.clone()
            try:
                if ps["how"] == "grad":
                    (gz,) = torch.autograd.grad(out, z, g, retain_graph=True)
                else:
                    z.grad = None
                    out.backward(g, retain_graph=True)
                    gz = z.grad.detach().clone()
            except Exception as e:
                probs.append((f"backward-history:raised:{graph}", f"backward pass #{j + 1} ({ps['how']}) through one graph raised "
                              f"{type(e).__name__}: {str(e)[:120]}"))
                break
            gl = gz.reshape(-1).tolist()
            unit.append(gl)
            for i, (x, ml, gi, got) in enumerate(zip(argl, mills, ps["g"], gl)):
                want = gi * a * ml
                rel = 2e-3 if x < -1 else 1e-12
                if not abs(got - want) <= rel * abs(want) + 1e-300:
                    probs.append((f"backward-history:value:{graph}", f"backward pass #{j + 1} of {len(spec['passes'])} through ONE graph "
                                  f"(retain_graph=True): d log_normal_cdf at argument {x!r} times upstream {gi * a!r} = {got!r}, "
                                  f"phi/Phi gives {want!r} (relative error {abs(got - want) / max(abs(want), 1e-300):.3e} > {rel:.0e})"))
                    break
                if gi != 0.0:
                    recs.append((j, x, out0.reshape(-1)[i].item(), got / (gi * a)))
            if j > 0:
                g0 = spec["passes"][0]["g"]
                for i, (x, u0, uj) in enumerate(zip(argl, unit[0], gl)):
                    if g0[i] != 0.0 and ps["g"][i] != 0.0:
                        p0, pj = u0 / g0[i], uj / ps["g"][i]
                        if not abs(p0 - pj) <= 16 * EPS * abs(p0) + 1e-300:
                            probs.append((f"backward-history:repeat:{graph}", f"the derivative of log_normal_cdf at {x!r} is {p0!r} in "
                                          f"the first backward pass and {pj!r} in pass #{j + 1} through the same graph"))
                            break
            if not (torch.equal(out.detach(), out0) and torch.equal(z.detach(), z0) and torch.equal(g, g_before)):
                probs.append((f"backward-history:mutated:{graph}", f"backward pass #{j + 1} changed " +
                              ("the forward value" if not torch.equal(out.detach(), out0) else
                               "its input" if not torch.equal(z.detach(), z0) else "the upstream gradient") + " in place"))
                break
        if spec.get("refwd"):
            with torch.no_grad():
                out2 = log_normal_cdf(arg0.clone())
            if not torch.equal(out2, out0):
                probs.append((f"backward-history:forward-after:{graph}", "log_normal_cdf of the same argument differs after the backward passes"))
        return probs, recs
    # ---- Bernoulli expected_log_prob: d/d mean, d/d variance in sequence through one graph
    import mpmath as mp
    mp.mp.dps = 30
    from linear_operator.operators import DiagLinearOperator
    from gpytorch.utils.quadrature import GaussHermiteQuadrature1D
    old = torch.get_default_dtype()
    torch.set_default_dtype(torch.float64)
    try:
        lik = gpytorch.likelihoods.BernoulliLikelihood()
        lik.quadrature = GaussHermiteQuadrature1D(spec["N"])
        m = torch.tensor(spec["m"]).requires_grad_(True)
        v = torch.tensor(spec["v"]).requires_grad_(True)
        y = torch.tensor(spec["y"])
        if spec["dist"] == "dense":
            dist = gpytorch.distributions.MultivariateNormal(m, torch.diag_embed(v))
        elif spec["dist"] == "diag":
            dist = gpytorch.distributions.MultivariateNormal(m, DiagLinearOperator(v))
        else:
            dist = torch.distributions.Normal(m, v.sqrt())
        with warnings.catch_warnings():
            warnings.simplefilter("ignore")
            elp = lik.expected_log_prob(y, dist)
        elp0, m0, v0 = elp.detach().clone(), m.detach().clone(), v.detach().clone()
        t_np, w_np = np.polynomial.hermite.hermgauss(spec["N"])
        n = len(spec["m"])
        ref = {"m": [], "v": []}
        tol = {"m": [], "v": []}
        for i in range(n):
            s = 2 * spec["y"][i] - 1
            sv = mp.sqrt(2 * mp.mpf(spec["v"][i]))
            dm = dv = tm = tv = mp.mpf(0)
            for t, w in zip(t_np, w_np):
                x = s * (sv * mp.mpf(float(t)) + spec["m"][i])
                gk = _mills(x) * mp.mpf(float(w)) / mp.sqrt(mp.pi)
                rel = mp.mpf(2.2e-3) if x < -1 else mp.mpf(1e-11)
                dm += s * gk
                dv += s * gk * mp.mpf(float(t)) / sv
                tm += rel * abs(gk)
                tv += rel * abs(gk * mp.mpf(float(t)) / sv)
            ref["m"].append(float(dm)); ref["v"].append(float(dv))
            tol["m"].append(float(tm) + 1e-12); tol["v"].append(float(tv) + 1e-12)
        first = {}
        for j, ps in enumerate(spec["passes"]):
            g = torch.tensor(ps["g"])
            wrt = [{"m": m, "v": v}[k] for k in ps["wrt"]]
            try:
                grads = torch.autograd.grad(elp, wrt, g, retain_graph=True)
            except Exception as e:
                probs.append(("backward-history:raised:bernoulli-elp", f"backward pass #{j + 1} (d/d{ps['wrt']}) raised {type(e).__name__}: {str(e)[:120]}"))
                break
            bad = False
            for k, gr in zip(ps["wrt"], grads):
                for i, got in enumerate(gr.tolist()):
                    want = ps["g"][i] * ref[k][i]
                    if not abs(got - want) <= abs(ps["g"][i]) * tol[k][i]:
                        name = {"m": "mean", "v": "variance"}[k]
                        probs.append(("backward-history:value:bernoulli-elp",
                                      f"d BernoulliLikelihood.expected_log_prob / d {name} as backward pass #{j + 1} of "
                                      f"{[p_['wrt'] for p_ in spec['passes']]} through ONE graph (retain_graph=True), entry {i} "
                                      f"(y={spec['y'][i]}, N({spec['m'][i]!r},{spec['v'][i]!r}), {spec['N']} nodes, {spec['dist']}): {got!r}; "
                                      f"the rule applied to s·phi/Phi gives {want!r} (tolerance {abs(ps['g'][i]) * tol[k][i]:.2e})"))
                        bad = True
                        break
                    if ps["g"][i] != 0.0:
                        u = got / ps["g"][i]
                        if (k, i) in first and not abs(u - first[(k, i)]) <= 64 * EPS * (abs(u) + tol[k][i]):
                            probs.append(("backward-history:repeat:bernoulli-elp", f"d ELP / d {k}[{i}] is {first[(k, i)]!r} in an earlier "
                                          f"pass and {u!r} in pass #{j + 1} through the same graph"))
                            bad = True
                            break
                        first.setdefault((k, i), u)
                if bad:
                    break
            if not (torch.equal(elp.detach(), elp0) and torch.equal(m.detach(), m0) and torch.equal(v.detach(), v0)):
                probs.append(("backward-history:mutated:bernoulli-elp", f"backward pass #{j + 1} changed the forward value or an input in place"))
                bad = True
            if bad:
                break
    finally:
        torch.set_default_dtype(old)
    return probs, recs


# ------------------------------------------------------------------ object histories

LIKS = ("Bernoulli", "Laplace", "StudentT", "Beta")
LOWP = ("float16", "bfloat16", "float32")


def _fp(x):
    """fingerprint of an attribute value (exact for tensors and plain python values)"""
    import torch
    if isinstance(x, torch.Tensor):
        return ("tensor", str(x.dtype), tuple(x.shape), x.detach().cpu().contiguous().reshape(-1).view(torch.uint8).numpy().tobytes()
                if x.numel() else b"")
    if x is None or isinstance(x, (bool, int, float, str)):
        return ("py", repr(x))
    if isinstance(x, (list, tuple)):
        return ("seq", type(x).__name__, tuple(_fp(e) for e in x))
    if isinstance(x, dict):
        return ("dict", tuple(sorted((repr(k), _fp(v) if isinstance(v, (torch.Tensor, bool, int, float, str, type(None))) else type(v).__name__)
                                     for k, v in x.items())))
    return ("obj", type(x).__name__)


def snapshot(obj):
    """every piece of state of a module tree that outlives a call: parameters, buffers, plain instance attributes"""
    snap = {}
    for name, mod in obj.named_modules():
        for k, val in vars(mod).items():
            if k in ("_modules", "training"):
                continue
            snap[f"{name}.{k}"] = _fp(val)
        for k, p in mod._parameters.items():
            snap[f"{name}.param:{k}"] = _fp(p)
        for k, p in mod._buffers.items():
            snap[f"{name}.buffer:{k}"] = _fp(p)
    return snap


def snapshot_diff(a, b):
    ks = [k for k in sorted(set(a) | set(b)) if a.get(k) != b.get(k)]
    out = []
    for k in ks:
        x, y = a.get(k), b.get(k)
        if x and y and x[0] == "tensor" and y[0] == "tensor":
            out.append(f"{k.lstrip('.')}: {x[1]}{list(x[2])} -> {y[1]}{list(y[2])}" + (" (values changed)" if x[1:3] == y[1:3] else ""))
        else:
            out.append(f"{k.lstrip('.')}: {x[1] if x else 'absent'} -> {y[1] if y else 'absent'}")
    return out


def gen_object_specs(rng, deep=False):
    specs = []

    def pts(n):
        return ([rng.uniform(-2, 2) for _ in range(n)], [10 ** rng.uniform(-1.2, 0.4) for _ in range(n)])

    def yfor(kind, m, enc="01"):
        if kind == "Bernoulli":
            return [float(rng.choice([0, 1])) for _ in m]
        if kind == "Beta":
            return [rng.uniform(0.1, 0.9) for _ in m]
        return [x + rng.gauss(0, 1) for x in m]

    def par():
        return {"noise": 10 ** rng.uniform(-0.5, 0.3), "df": rng.uniform(3, 9), "scale": 10 ** rng.uniform(0, 1)}

    def call(kind, op, dtype, dist=None, n=None, enc="01", y=None):
        n = n or rng.choice([1, 2, 3])
        m, v = pts(n)
        c = {"op": op, "dtype": dtype, "m": m, "v": v,
             "dist": dist or rng.choice(["normal", "diag"] if dtype in ("float16",) else ["normal"] if dtype == "bfloat16" else ["normal", "diag", "dense"])}
        if op == "poly":
            c["ks"] = None        # filled by the runner from the object's N: 0, 1, 2, 2N-1, …
        else:
            c["y"] = y if y is not None else yfor(kind, m)
            c["enc"] = enc
        return c

    def with_modes(ops, force=False):
        """insert `.eval()` / `.train()` switches (module mode is a configuration no value may depend on)"""
        if not (force or rng.random() < 0.5):
            return ops
        ops = list(ops)
        first = next((i for i, c_ in enumerate(ops) if c_["op"] != "double"), 0)
        i = first if force else rng.randrange(first, len(ops))
        ops.insert(i, {"op": "eval"})
        if rng.random() < 0.5 and i + 2 < len(ops):
            ops.insert(rng.randrange(i + 2, len(ops) + 1), {"op": "train"})
        return ops

    # (a) dtype families: one object, low-precision call(s), then float64 (rule-level and likelihood-level)
    for rep in range(6 if deep else 3):
        for lowp in ("float16", "bfloat16", "float32"):
            for built in ("float64", "float32"):
                N = rng.choice([5, 10, None])
                ops = [call("GHQ", "poly", "float64")] if rng.random() < 0.5 else []
                ops += [call("GHQ", "poly", lowp)]
                if rng.random() < 0.4:
                    ops += [call("GHQ", "poly", rng.choice(LOWP))]
                ops += [call("GHQ", "poly", "float64"), call("GHQ", "poly", "float64", dist="diag")]
                specs.append({"kind": "object-history", "object": "GHQ", "built_under": built, "N": N, "par": None, "ops": with_modes(ops)})
    for rep in range(5 if deep else 2):
        for kind in LIKS:
            lowp = rng.choice(["float16", "float16", "bfloat16", "float32"])
            built = rng.choice(["float64", "float64", "float32"])
            N = rng.choice([5, 10, None])
            ops = ([{"op": "double"}] if built == "float32" else [])
            first = rng.choice(["elp", "log_marginal"])
            ops += [call(kind, first, lowp)]
            if rng.random() < 0.5:
                ops += [call(kind, rng.choice(["elp", "log_marginal", "poly"]), rng.choice(LOWP))]
            ops += [call(kind, "elp", "float64"), call(kind, "log_marginal", "float64"), call(kind, "poly", "float64")]
            specs.append({"kind": "object-history", "object": kind, "built_under": built, "N": N, "par": par(), "ops": with_modes(ops)})
    # (b) label families: ONE BernoulliLikelihood fed both encodings / single-class first batches
    def labels(enc, cls, n):
        if cls == "mixed":
            s = [1, -1] + [rng.choice([-1, 1]) for _ in range(n - 2)]
            rng.shuffle(s)
        else:
            s = [1 if cls == "pos" else -1] * n
        return [float(x) if enc == "pm" else (x + 1) / 2.0 for x in s]
    fams = [[("01", "mixed"), ("pm", "mixed")], [("pm", "mixed"), ("01", "mixed")], [("pm", "pos"), ("pm", "mixed")],
            [("01", "pos"), ("pm", "mixed"), ("01", "mixed")], [("01", "neg"), ("pm", "neg"), ("01", "mixed")],
            [("pm", "neg"), ("01", "pos"), ("01", "neg")], [("01", "mixed"), ("01", "pos"), ("pm", "pos"), ("pm", "mixed")]]
    for _ in range(10 if deep else 4):
        fams.append([(rng.choice(["01", "pm"]), rng.choice(["mixed", "pos", "neg"])) for _ in range(rng.choice([3, 4, 5]))])
    for fi, fam in enumerate(fams):
        n = rng.choice([3, 4])
        ops = []
        for enc, cls in fam:
            ops.append(call("Bernoulli", "elp", "float64", n=n, enc=enc, y=labels(enc, cls, n)))
            if rng.random() < 0.3:
                ops.append(call("Bernoulli", rng.choice(["log_marginal", "marginal"]), "float64", n=n))
        specs.append({"kind": "object-history", "object": "Bernoulli", "built_under": "float64", "N": rng.choice([10, None]),
                      "par": par(), "ops": with_modes(ops, force=(fi % 3 == 2)),
                      "family": "labels:" + ">".join(f"{e}:{c}" for e, c in fam)})
    # (c) observation / shape / distribution-kind families in float64 on one object
    for rep in range(4 if deep else 2):
        for kind in LIKS:
            ops = [call(kind, rng.choice(["elp", "log_marginal", "marginal", "poly"]), "float64") for _ in range(rng.choice([3, 4]))]
            specs.append({"kind": "object-history", "object": kind, "built_under": "float64", "N": rng.choice([5, 20, None]),
                          "par": par(), "ops": with_modes(ops, force=(rep == 0))})
    # (d) use -> change a hyper-parameter (every public way) -> use again, in eval and in train mode; the second use is
    #     judged with the CURRENT hyper-parameters (shadow kept by the harness: the values it asked for)
    specs += gen_setter_specs(rng, deep)
    return specs


HYPER = {"Laplace": ["noise"], "StudentT": ["noise", "df"], "Beta": ["scale"], "Bernoulli": []}
WAYS = ("setter", "initialize", "initialize_raw", "raw_copy", "raw_data")


def gen_setter_specs(rng, deep=False):
    specs = []

    def pts(n):
        return ([rng.uniform(-2, 2) for _ in range(n)], [10 ** rng.uniform(-1.2, 0.4) for _ in range(n)])

    def newval(h):
        return {"noise": 10 ** rng.uniform(-0.8, 0.6), "df": rng.uniform(2.5, 12), "scale": 10 ** rng.uniform(-0.3, 1.3)}[h]

    def use(kind, op=None):
        n = rng.choice([1, 2, 3])
        m, v = pts(n)
        op = op or rng.choice(["elp", "log_marginal", "cond", "marginal"])
        y = [rng.uniform(0.1, 0.9) for _ in m] if kind == "Beta" else [x + rng.gauss(0, 1) for x in m]
        return {"op": op, "dtype": "float64", "m": m, "v": v, "dist": rng.choice(["normal", "diag", "dense"]), "y": y, "enc": "01"}

    for rep in range(3 if deep else 1):
        for kind in ("Laplace", "StudentT", "Beta"):
            for mode in ("eval", "train"):
                ways = list(WAYS)
                rng.shuffle(ways)
                ops = [{"op": mode}, use(kind, rng.choice(["elp", "log_marginal", "cond"]))]
                for wi, way in enumerate(ways if deep or rep == 0 else ways[:3]):
                    hs = HYPER[kind]
                    h = hs[(wi + rep) % len(hs)]
                    ops.append({"op": "set", "way": way, "hyper": h, "value": newval(h)})
                    ops.append(use(kind, ["elp", "log_marginal", "cond"][(wi + rep) % 3]))
                    if rng.random() < 0.4:
                        ops.append(use(kind))
                if mode == "eval" and rng.random() < 0.5:
                    ops += [{"op": "train"}, {"op": "eval"}, use(kind, "elp")]
                specs.append({"kind": "object-history", "object": kind, "built_under": "float64", "N": rng.choice([5, 10, None]),
                              "par": {"noise": newval("noise"), "df": newval("df"), "scale": newval("scale")}, "ops": ops,
                              "family": f"setters:{mode}"})
    return specs


def _apply_set(obj, kind, c):
    """change one hyper-parameter of the likelihood to c['value'] in the way c['way']"""
    import torch
    name = {"noise": "noise", "df": "deg_free", "scale": "scale"}[c["hyper"]]
    raw = getattr(obj, "raw_" + name)
    with warnings.catch_warnings():
        warnings.simplefilter("ignore")
        if c["way"] == "setter":
            setattr(obj, name, c["value"])
        elif c["way"] == "initialize":
            obj.initialize(**{name: c["value"]})
        else:
            rawv = getattr(obj, "raw_" + name + "_constraint").inverse_transform(torch.full_like(raw.detach(), c["value"]))
            if c["way"] == "initialize_raw":
                obj.initialize(**{"raw_" + name: rawv})
            elif c["way"] == "raw_copy":
                with torch.no_grad():
                    raw.copy_(rawv)
            else:
                raw.data = rawv.clone()


def _build(spec):
    import torch
    import gpytorch
    from gpytorch.utils.quadrature import GaussHermiteQuadrature1D
    L = gpytorch.likelihoods
    cls = {"GHQ": GaussHermiteQuadrature1D, "Bernoulli": L.BernoulliLikelihood, "Laplace": L.LaplaceLikelihood,
           "StudentT": L.StudentTLikelihood, "Beta": L.BetaLikelihood}[spec["object"]]
    old = torch.get_default_dtype()
    torch.set_default_dtype(_dt(spec["built_under"]))
    try:
        with warnings.catch_warnings():
            warnings.simplefilter("ignore")
            if spec["N"] is None:
                obj = cls()
            else:
                with gpytorch.settings.num_gauss_hermite_locs(spec["N"]):
                    obj = cls()
    finally:
        torch.set_default_dtype(old)
    return obj


def _set_par(obj, kind, par):
    with warnings.catch_warnings():
        warnings.simplefilter("ignore")
        if kind in ("Laplace", "StudentT"):
            obj.noise = par["noise"]
        if kind == "StudentT":
            obj.deg_free = par["df"]
        if kind == "Beta":
            obj.scale = par["scale"]


def _mkdist(c):
    import torch
    import gpytorch
    from linear_operator.operators import DiagLinearOperator
    dt = _dt(c["dtype"])
    m = torch.tensor(c["m"], dtype=torch.float64).to(dt)
    v = torch.tensor(c["v"], dtype=torch.float64).to(dt)
    if c["dist"] == "normal":
        return torch.distributions.Normal(m, v.sqrt(), validate_args=False)
    if c["dist"] == "diag":
        return gpytorch.distributions.MultivariateNormal(m, DiagLinearOperator(v))
    return gpytorch.distributions.MultivariateNormal(m, torch.diag_embed(v))


def run_object(spec, mp_logp):
    """-> (problems [(key, what)], state problems [(name, what)], exact-moment requests [(m, v, K, {k: (got, tol)})], counters)"""
    import mpmath as mp
    import numpy as np
    import torch
    mp.mp.dps = 30
    probs, state, mreq = [], [], []
    cnt = {"judged": 0, "lowprec_calls": 0, "lowprec_raised": 0}
    kind = spec["object"]
    obj = _build(spec)
    q = obj if kind == "GHQ" else obj.quadrature
    N = q.num_locs
    t_np, w_np = np.polynomial.hermite.hermgauss(N)
    t0 = q.locations.double().numpy().copy()
    w0 = q.weights.double().numpy().copy()
    dt0 = str(q.locations.dtype)
    ut = float(np.max(np.abs(t0 - t_np) / np.maximum(np.abs(t_np), 1e-300) * (np.abs(t_np) > 1e-12)))
    uw = float(np.max(np.abs(w0 - w_np) / np.abs(w_np)))
    if ut > 2.0 ** -23 or uw > 2.0 ** -23:
        probs.append(("object-history:nodes", f"a fresh {kind} object built under {spec['built_under']} stores nodes/weights that differ from "
                      f"numpy's hermgauss({N}) by {ut:.2e}/{uw:.2e} relative"))
        return probs, state, mreq, cnt
    old = torch.get_default_dtype()
    torch.set_default_dtype(torch.float64)
    code_fns = (lambda mm, s_: mm * s_ + 1, lambda mm, s_: (1 - mm) * s_ + 1)
    try:
        par_set = False
        if kind != "GHQ" and spec["built_under"] == "float64":
            _set_par(obj, kind, spec["par"])
            par_set = True
        snap = snapshot(obj)
        done = []
        cur = dict(spec["par"]) if spec["par"] else None      # shadow of the hyper-parameters: what the harness asked for
        for c in spec["ops"]:
            if c["op"] == "set":
                try:
                    _apply_set(obj, kind, c)
                except Exception as e:
                    probs.append((f"object-history:raised:{kind}:set", f"{kind}: setting {c['hyper']} by {c['way']} raised {type(e).__name__}: {str(e)[:120]}"))
                    break
                cur[c["hyper"]] = c["value"]
                snap = snapshot(obj)
                done.append(f"set[{c['hyper']}={c['value']:.4g} by {c['way']}]")
                continue
            if c["op"] in ("eval", "train"):
                getattr(obj, c["op"])()          # only the `training` flags may change (not part of the snapshot)
                now = snapshot(obj)
                if now != snap:
                    state.append((f"{kind}", f"{kind} object: .{c['op']}() changed " + "; ".join(snapshot_diff(snap, now)[:4])))
                    snap = now
                done.append(c["op"])
                continue
            label = c["op"] + ("" if c["op"] == "double" else f"[{c['dtype']},{c['dist']}" + (f",{c['enc']}" if c.get("enc") == "pm" else "") + "]")
            if c["op"] == "double":
                obj.double()
                if not (str(q.locations.dtype) == "torch.float64" and np.array_equal(q.locations.numpy(), t0)
                        and np.array_equal(q.weights.numpy(), w0)):
                    probs.append((f"object-history:double:{kind}", ".double() changed the values of the stored nodes / weights"))
                    break
                dt0 = "torch.float64"
                if not par_set and kind != "GHQ":
                    _set_par(obj, kind, spec["par"])
                    par_set = True
                snap = snapshot(obj)
                done.append(label)
                continue
            if c["op"] == "marginal" and kind != "Bernoulli" and c["dist"] == "normal":
                continue          # Monte-Carlo marginals need a MultivariateNormal
            lowp = c["dtype"] != "float64"
            n = len(c["m"])
            ks = None
            val = None
            try:
                with torch.no_grad(), warnings.catch_warnings():
                    warnings.simplefilter("ignore")
                    dist = _mkdist(c)
                    ms = dist.mean.detach().double().tolist()
                    vs = dist.variance.detach().double().tolist()
                    if c["op"] == "poly":
                        ks = sorted({0, 1, 2, 2 * N - 1, 2 * N - 2, (7 * len(done) + 3) % (2 * N)})
                        val = {k: q(lambda x, k=k: x ** k, dist).double().tolist() for k in ks}
                    elif c["op"] == "cond":
                        f_ = torch.tensor(c["m"], dtype=torch.float64)
                        d_ = obj(f_)
                        val = {"Laplace": lambda: [d_.loc.tolist(), d_.scale.expand_as(f_).tolist()],
                               "StudentT": lambda: [d_.loc.tolist(), d_.scale.expand_as(f_).tolist(), d_.df.expand_as(f_).tolist()],
                               "Beta": lambda: [d_.concentration1.tolist(), d_.concentration0.tolist()],
                               "Bernoulli": lambda: [d_.probs.tolist()]}[kind]()
                    else:
                        y = torch.tensor(c["y"], dtype=torch.float64).to(_dt(c["dtype"]))
                        if c["op"] == "elp":
                            val = obj.expected_log_prob(y, dist).double().tolist()
                        elif c["op"] == "log_marginal":
                            val = obj.log_marginal(y, dist).double().tolist()
                        else:
                            out = obj.marginal(dist) if c["dist"] == "normal" else obj(dist)
                            val = out.probs.double().tolist() if kind == "Bernoulli" else None
            except Exception as e:
                if lowp:
                    cnt["lowprec_raised"] += 1        # the unchanged code does not support every low-precision combination
                    val = None
                else:
                    probs.append((f"object-history:raised:{kind}:{c['op']}", f"{kind} object, history {done}: {label} raised "
                                  f"{type(e).__name__}: {str(e)[:120]}"))
                    break
            done.append(label)
            if lowp:
                cnt["lowprec_calls"] += 1
            # ---- the object is what it was before the call
            now = snapshot(obj)
            if now != snap:
                state.append((f"{kind}", f"{kind} object (built under {spec['built_under']}, {N} nodes), history {done}: the call {label} "
                              f"changed the object's state: " + "; ".join(snapshot_diff(snap, now)[:4])))
                snap = now
            if lowp or val is None:
                continue
            cnt["judged"] += 1
            desc = (f"{kind} object built under {spec['built_under']} default dtype ({N} nodes), as call #{len(done)} of the history "
                    f"{done} on that ONE object")
            if c["op"] == "poly":
                for j in range(n):
                    m, v = ms[j], vs[j]
                    cc = math.sqrt(2 * v)
                    x = cc * t0 + m
                    wt = w0 / math.sqrt(math.pi)
                    judged = {}
                    for k in ks:
                        A = float(np.sum(wt * np.abs(x) ** k))
                        B = float(np.sum(wt * np.abs(x) ** max(k - 1, 0) * np.abs(cc * t0))) * k
                        judged[k] = (val[k][j], 2.0 * (uw * A + ut * B) + 64 * (N + k) * EPS * (A + B) + 1e-300)
                    mreq.append((m, v, 2 * N - 1, judged, desc))
                continue
            if c["op"] == "cond":
                for j in range(n):
                    f_ = c["m"][j]
                    sg = 1 / (1 + math.exp(-f_))
                    want = {"Laplace": lambda: [f_, math.sqrt(cur["noise"])],
                            "StudentT": lambda: [f_, math.sqrt(cur["noise"]), cur["df"]],
                            "Beta": lambda: [sg * cur["scale"] + 1, (1 - sg) * cur["scale"] + 1],
                            "Bernoulli": lambda: [float(mp.ncdf(f_))]}[kind]()
                    got = [col[j] for col in val]
                    if not all(abs(a - b) <= 1e-10 * (1 + abs(b)) for a, b in zip(got, want)):
                        probs.append((f"object-history:value:{kind}:cond", f"{desc}: the conditional p(y|f={f_!r}) has parameters {got}; "
                                      f"documented parameters for the CURRENT hyper-parameters {cur}: {want}"))
                        break
                if probs:
                    break
                continue
            xs_all, ws = None, [mp.mpf(float(w)) / mp.sqrt(mp.pi) for w in w0]
            for j in range(n):
                m, v, yj = ms[j], vs[j], c["y"][j]
                if kind == "Bernoulli":
                    s = yj if c["enc"] == "pm" else 2 * yj - 1
                    y_spec = (s + 1) / 2.0
                else:
                    y_spec = yj
                p_ = cur
                if c["op"] == "marginal":
                    ref = float(mp.ncdf(mp.mpf(m) / mp.sqrt(1 + mp.mpf(v))))
                    ok = abs(val[j] - ref) <= 1e-12 + 8 * EPS * ref
                elif c["op"] == "log_marginal" and kind == "Bernoulli":
                    ref = float(mp.log(mp.ncdf((2 * y_spec - 1) * mp.mpf(m) / mp.sqrt(1 + mp.mpf(v)))))
                    ok = abs(val[j] - ref) <= 1e-10 * (1 + abs(ref)) + 1e-12 + 16 * EPS / math.exp(min(ref, 0.0))
                else:
                    xs = [mp.sqrt(2 * mp.mpf(v)) * mp.mpf(float(t)) + m for t in t0]
                    gx = [mp_logp(kind, p_, mp.mpf(y_spec), xx, code_fns) for xx in xs]
                    if c["op"] == "elp":
                        ref = float(sum(w * a for w, a in zip(ws, gx)))
                        sc = float(sum(w * abs(a) for w, a in zip(ws, gx)))
                        ok = abs(val[j] - ref) <= 1e-10 * (1 + sc) + (2e-3 if kind == "Bernoulli" else 0.0)
                    else:
                        ref = float(mp.log(sum(w * mp.exp(a) for w, a in zip(ws, gx))))
                        ok = abs(val[j] - ref) <= 1e-10 * (1 + abs(ref))
                if not ok:
                    opn = {"elp": "expected_log_prob", "log_marginal": "log_marginal", "marginal": "marginal().probs"}[c["op"]]
                    enc = " (labels in the deprecated {-1,1} encoding)" if c.get("enc") == "pm" else ""
                    probs.append((f"object-history:value:{kind}:{c['op']}", f"{desc}: {opn}(y={yj!r}{enc}, N({m!r},{v!r})) = {val[j]!r}; "
                                  f"the {N}-point rule of the object's construction-time table on the documented density"
                                  + (f" with the current hyper-parameters {cur}" if any(o_["op"] == "set" for o_ in spec["ops"]) else "")
                                  + f" gives {ref!r}"))
                    break
            if probs:
                break
    finally:
        torch.set_default_dtype(old)
    return probs, state, mreq, cnt


def exact_moments(m, v, K):
    mm, vv = C.frac(m), C.frac(v)
    M = [Fraction(1), mm]
    for k in range(K):
        M.append(mm * M[k + 1] + (k + 1) * vv * M[k])
    return M[:K + 1]


def judge_moments(spec, mreq, moments=None):
    """moments: list (aligned with mreq) of exact moment lists from the Lean driver; None -> the same recursion in Fractions"""
    probs = []
    for i, (m, v, K, judged, desc) in enumerate(mreq):
        M = moments[i] if moments is not None else exact_moments(m, v, K)
        for k, (got, tol) in judged.items():
            want = float(M[k])
            if not abs(got - want) <= tol:
                probs.append((f"object-history:value:{spec['object']}:poly", f"{desc}: x^{k} against N({m!r},{v!r}) gives {got!r}, exact moment "
                              f"{want!r} (|err| {abs(got - want):.3e} > tol {tol:.1e} from the storage error measured at construction)"))
                return probs
    return probs


# ------------------------------------------------------------------ certified moment equations (python mirror of the driver)

INV_SQRT_PI_LO = Fraction(56418958354775628694, 10 ** 20)
INV_SQRT_PI_HI = Fraction(56418958354775628695, 10 ** 20)


def moment_residuals_mirror(ts, ws):
    """the same rational computation as `Quadrature.momentResidualBound / momentAbsScale` (used when the driver is unavailable)"""
    T = [C.frac(t) for t in ts]
    W = [C.frac(w) for w in ws]
    n = len(T)
    M = exact_moments(0.0, 0.5, 2 * n - 1)
    out = []
    pw = [Fraction(1)] * n
    for k in range(2 * n):
        S = sum(w * p for w, p in zip(W, pw))
        Sa = sum(abs(w) * abs(p) for w, p in zip(W, pw))
        out.append((max(abs(INV_SQRT_PI_LO * S - M[k]), abs(INV_SQRT_PI_HI * S - M[k])), INV_SQRT_PI_HI * Sa))
        pw = [p * t for p, t in zip(pw, T)]
    return out

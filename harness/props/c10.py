"""C10 — MultivariateNormal is the distribution it claims to be.

Tie: translator G7 (harness/translate/g7_mvn.py regenerates lean/GPVerif/Gen/MVN.lean from the AST of
multivariate_normal.py on every run; the `gen_*` theorems of Props/C10.lean state that the regenerated definitions equal
the specifications; the driver evaluates the regenerated definitions) AND correspondence.  Every case runs the real `gpytorch.distributions.MultivariateNormal` (from $VERIF_REPO)
and the Lean model (`drivers/C10.lean`, exact in Q) on the same inputs (all inputs are low-bit dyadic
rationals, shipped exactly).  The specification the implementation is judged by is the exact value
(`quad`, `det`, trace term, marginal sub-matrix, `mu + L e`, normalised index positions); `log` is applied
to the exact determinant with mpmath (40 digits).  An independent exact implementation in Python
`fractions` (`py_reply`) mirrors every driver request: driver and mirror must agree *exactly* on every line
(else `ctx.broke`), and the mirror is the oracle of `search`/`replay` when the driver does not build.
"""
import itertools
import math
import os
import sys
import warnings
from fractions import Fraction

from lib import common as C

ID = "C10"
PROP_MODULES = ["GPVerif.Props.C10"]
BUILD_TARGETS = ["GPVerif.Props.C10", "GPVerif.Model.MVN", "GPVerif.Model.MVNShape", "GPVerif.Gen.MVN"]
RULE = ("getitem: exhaustive index expressions (ints incl. negative/out-of-range, slices start/stop in [-n-1,n+1] "
        "or None, step in {None,1,2,3,-1}, ellipsis, index lists/tensors/arrays, batch x event tuples, paired "
        "advanced indices) on event size <= 4, batch in {(),(2,),(2,3)} x covariance representations; log_prob: "
        "every broadcastable value batch shape x dist batch x representation x {torch-Cholesky, "
        "linear_operator-Cholesky, CG quad-only}; KL, rsample (all sample shapes, unit-vector stacking), affine "
        "ops, expand/unsqueeze/add_jitter, variance/stddev/confidence_region, Delta-KL on random low-bit dyadic "
        "inputs; op-then-use histories (uses before the op x negative/zero/tiny scalars and op chains x every consumer "
        "after it: log_prob on 3 paths, entropy, scale_tril, rsample, variance; operand unchanged); getitem on "
        "distributions with variances 1e-14/1e-12/0 and under settings.min_variance floors (covariance, variance, "
        "log_prob of the marginal); warm-then-derive histories (every cached quantity of a parent touched, then a child derived by "
        "getitem with every index form / expand / unsqueeze / + / * / / / add_jitter / to_data_independent_dist, every accessor "
        "of the child judged); __init__ on all 121 pairs of mean / covariance batch shapes x 6 representations.  distinct = distinct (kind, representation, shapes, index expression / op, config); "
        "non-trivial = the real code accepted the input and returned a distribution/tensor that was compared")
EXHAUSTIVE = True
TRUSTED = ["translator harness/translate/g7_mvn.py (Python ast -> Gen/MVN.lean)",
           "mpmath log of the exact rational determinant (40 digits)",
           "numpy/torch basic+advanced indexing of the dense mean as the meaning of `mean[idx]`",
           "modelled not verified: torch tensor primitives, linear_operator (Cholesky, CG, root_decomposition)"]
ASSUMPTIONS = ["float64 only; inputs are dyadic rationals with <= 8 fractional bits, condition number <= 1e4",
               "batch elements are independent replicas (also after duplication by expand / batch index lists)",
               "fast path with max_cholesky_size(0): the log-determinant is a stochastic Lanczos estimate; only the "
               "quadratic part is compared (settings.skip_logdet_forward) — the log-det of that path is NOT checked",
               "root_decomposition().root of linear_operator satisfies R R^T = Sigma (residual recorded per case; when it "
               "does not and rsample used exactly that root, an ASSUMPTION line is written instead of a violation)",
               "settings.min_variance clamps `.variance` (hence stddev / confidence_region) only; covariance_matrix, "
               "log_prob, rsample and marginals use the unclamped covariance",
               "CG quad-only path is exercised for covariance scales in [1e-3, 1e3] only (absolute thresholds inside "
               "linear_operator's CG)"]

RTOL, ATOL = 1e-8, 1e-9
GEN = os.path.join(C.LEAN_DIR, "GPVerif", "Gen", "MVN.lean")


def generate(ctx):
    """Translator G7: regenerate Gen/MVN.lean from $VERIF_REPO's multivariate_normal.py (TranslateError = broken tie)."""
    sys.path.insert(0, os.path.join(C.VERIF, "harness"))
    from translate import g7_mvn
    notes, changed = g7_mvn.generate(C.REPO, GEN)
    ctx.notes["gen_changed"] = changed
    ctx.notes["gen_notes"] = notes


# =============================================================== exact mirror of the driver (Python fractions)

def _F(x):
    return C.frac(x)


def _inv(M):
    n = len(M)
    A = [list(map(Fraction, r)) + [Fraction(int(i == j)) for j in range(n)] for i, r in enumerate(M)]
    for c in range(n):
        p = next((r for r in range(c, n) if A[r][c] != 0), None)
        if p is None:
            return None
        A[c], A[p] = A[p], A[c]
        pv = A[c][c]
        A[c] = [x / pv for x in A[c]]
        for r in range(n):
            if r != c and A[r][c] != 0:
                f = A[r][c]
                A[r] = [x - f * y for x, y in zip(A[r], A[c])]
    return [r[n:] for r in A]


def _det(M):
    n = len(M)
    A = [list(map(Fraction, r)) for r in M]
    d = Fraction(1)
    for c in range(n):
        p = next((r for r in range(c, n) if A[r][c] != 0), None)
        if p is None:
            return Fraction(0)
        if p != c:
            A[c], A[p] = A[p], A[c]
            d = -d
        d *= A[c][c]
        for r in range(c + 1, n):
            f = A[r][c] / A[c][c]
            if f != 0:
                A[r] = [x - f * y for x, y in zip(A[r], A[c])]
    return d


def _ldl_ok(M):
    """The Lean `ldl?` has no pivoting: it answers only when all leading principal minors are non-zero."""
    n = len(M)
    return all(_det([r[:k] for r in M[:k]]) != 0 for k in range(1, n + 1))


def _mm(A, B):
    return [[sum((a * b for a, b in zip(r, c)), Fraction(0)) for c in zip(*B)] for r in A] if B and B[0] else [[] for _ in A]


def _T(A):
    return [list(r) for r in zip(*A)] if A else []


def _show(rows):
    r = len(rows)
    c = len(rows[0]) if r else 0
    return f"{r} {c} " + " ".join(C.rat_str(v) for row in rows for v in row)


def _take(ts, pos):
    rows, pos = C.parse_mat(ts, pos)
    return rows, pos


def _opt(s):
    return None if s == "N" else int(s)


def parse_idx_tokens(ts):
    out, i = [], 0
    while i < len(ts):
        t = ts[i]
        if t == "I":
            out.append(int(ts[i + 1])); i += 2
        elif t == "S":
            st = _opt(ts[i + 3])
            out.append(slice(_opt(ts[i + 1]), _opt(ts[i + 2]), 1 if st is None else st)); i += 4
        elif t == "E":
            out.append(Ellipsis); i += 1
        elif t == "L":
            k = int(ts[i + 1])
            out.append([int(x) for x in ts[i + 2:i + 2 + k]]); i += 2 + k
        else:
            raise ValueError(t)
    return out


def py_index(shape, idx):
    """Meaning of an index tuple by *Python itself*: `slice.indices`, `range`, and list indexing of
    `range(n)` (negative ints, IndexError) — independent of the Lean arithmetic."""
    k = sum(1 for i in idx if i is not Ellipsis)
    e = len(idx) - k
    if k > len(shape) or e > 1:
        return None
    fill = [slice(None, None, 1)] * (len(shape) - k)
    full = []
    if e == 0:
        full = list(idx) + fill
    else:
        for i in idx:
            full += fill if i is Ellipsis else [i]
    sels = []
    for n, i in zip(shape, full):
        pos = list(range(n))
        try:
            if isinstance(i, int):
                sels.append(("D", pos[i]))
            elif isinstance(i, slice):
                if i.step is not None and i.step <= 0:
                    return None
                sels.append(("K", pos[i]))
            else:
                sels.append(("K", [pos[j] for j in i]))
        except IndexError:
            return None
    return sels


def _show_sels(sels):
    return ";".join(f"D {p}" if t == "D" else "K " + " ".join(map(str, [len(p)] + list(p))) for t, p in sels)


def py_reply(line):
    ts = line.split()
    cmd, ts = ts[0], ts[1:]
    if cmd == "logprob":
        S, p = _take(ts, 0); mu, p = _take(ts, p); v, p = _take(ts, p)
        X = _inv(S)
        if X is None or not _ldl_ok(S):
            return "singular"
        r = [[a[0] - b[0]] for a, b in zip(v, mu)]
        q = _mm(_T(r), _mm(X, r))[0][0]
        return f"quad={C.rat_str(q)};det={C.rat_str(_det(S))}"
    if cmd == "kl":
        Sp, p = _take(ts, 0); mup, p = _take(ts, p); Sq, p = _take(ts, p); muq, p = _take(ts, p)
        X = _inv(Sq)
        if X is None or not _ldl_ok(Sp) or not _ldl_ok(Sq):
            return "singular"
        n = len(Sp)
        dm = [[a[0] - b[0]] for a, b in zip(mup, muq)]
        tr = sum((_mm(X, Sp)[i][i] for i in range(n)), Fraction(0))
        quad = _mm(_T(dm), _mm(X, dm))[0][0]
        dp, dq = _det(Sp), _det(Sq)
        out = f"tr={C.rat_str(tr)};quad={C.rat_str(quad)};detratio={C.rat_str(dq / dp)};detp={C.rat_str(dp)};detq={C.rat_str(dq)}"
        if p < len(ts):
            R, p = _take(ts, p)
            M = [a + b for a, b in zip(dm, R)]
            G = _mm(_T(M), _mm(X, M))
            code = sum((G[i][i] for i in range(len(G))), Fraction(0))
            RRt = _mm(R, _T(R))
            res = max((abs(RRt[i][j] - Sp[i][j]) for i in range(n) for j in range(n)), default=Fraction(0))
            out += f";code={C.rat_str(code)};rres={C.rat_str(res)}"
        return out
    if cmd == "index":
        bar = ts.index("|")
        shape = [int(x) for x in ts[1:bar]]
        sels = py_index(shape, parse_idx_tokens(ts[bar + 1:]))
        return "reject" if sels is None else _show_sels(sels)
    if cmd == "slice":
        n, s, e, st = int(ts[0]), _opt(ts[1]), _opt(ts[2]), int(ts[3])
        if st == 0:
            return "reject"
        lo, hi, _ = slice(s, e, st).indices(n)
        ps = list(range(n))[slice(s, e, st)]
        return f"{lo} {hi} {len(ps)} |" + "".join(f" {p}" for p in ps)
    if cmd == "marg":
        S, p = _take(ts, 0); mu, p = _take(ts, p)
        ps = [int(x) for x in ts[p + 1:]]
        if any(q >= len(S) for q in ps):
            return "reject"
        return _show([[mu[a][0]] for a in ps]) + " | " + _show([[S[a][b] for b in ps] for a in ps])
    if cmd == "rsample":
        mu, p = _take(ts, 0); L, p = _take(ts, p); e, p = _take(ts, p)
        Le = _mm(L, e) if L and L[0] else [[Fraction(0)] for _ in mu]
        return _show([[a[0] + b[0]] for a, b in zip(mu, Le)])
    if cmd == "affine":
        a, b = Fraction(ts[0]), Fraction(ts[1])
        mu, p = _take(ts, 2); S, p = _take(ts, p)
        return _show([[a * m[0] + b] for m in mu]) + " | " + _show([[a * a * x for x in r] for r in S])
    if cmd == "sum":
        m1, p = _take(ts, 0); S1, p = _take(ts, p); m2, p = _take(ts, p); S2, p = _take(ts, p)
        return (_show([[a[0] + b[0]] for a, b in zip(m1, m2)]) + " | "
                + _show([[x + y for x, y in zip(r1, r2)] for r1, r2 in zip(S1, S2)]))
    if cmd == "jitter":
        e = Fraction(ts[0]); S, p = _take(ts, 1)
        return _show([[x + (e if i == j else 0) for j, x in enumerate(r)] for i, r in enumerate(S)])
    if cmd == "conf":
        mu, p = _take(ts, 0); sd, p = _take(ts, p)
        return (_show([[m[0] - 2 * s[0]] for m, s in zip(mu, sd)]) + " | "
                + _show([[m[0] + 2 * s[0]] for m, s in zip(mu, sd)]))
    if cmd == "bcast":
        bar = ts.index("|")
        ds = [int(x) for x in ts[1:bar]]
        cs = [int(x) for x in ts[bar + 2:]]
        pc = [1] * (len(ds) - len(cs)) + cs
        fs = [d // c for d, c in zip(ds, pc)]
        ok = len(pc) == len(ds) and all(f * c == d and all(i % c == (0 if c == 1 else i) for i in range(d))
                                        for d, c, f in zip(ds, pc, fs))
        return "factors" + "".join(f" {f}" for f in fs) + f" | ok={1 if ok else 0}"
    if cmd == "asmlp":
        q, ld, k, l = (Fraction(t) for t in ts)
        return C.rat_str(-Fraction(1, 2) * (q + ld + k * l))
    if cmd == "asmkl":
        ldq, ldp, tpq, k = (Fraction(t) for t in ts)
        return C.rat_str(Fraction(1, 2) * (tpq + ldq - ldp - k))
    if cmd == "gcov":
        S, p = _take(ts, 0)
        n = len(S)
        l, d, e = int(ts[p + 1]), int(ts[p + 2]), ts[p + 3] == "1"
        last = parse_idx_tokens(ts[p + 5:])[0]
        if l + 1 <= d and not e:
            return "br=batchOnly;nosel"
        if l > d:
            return "br=tooMany;nosel"
        if last is Ellipsis:
            br, ps = "ellipsis", list(range(n))
        else:
            br = "int" if isinstance(last, int) else ("slice" if isinstance(last, slice) else "advanced")
            sel = py_index([n], [last])
            if sel is None:
                return f"br={br};nosel"
            ps = [sel[0][1]] if sel[0][0] == "D" else list(sel[0][1])
        pos = " ".join(map(str, ps))
        return f"br={br};rows={pos};cols={pos};" + _show([[S[a][b] for b in ps] for a in ps])
    if cmd == "varclamp":
        fl, n = Fraction(ts[0]), int(ts[1])
        return " ".join(C.rat_str(max(Fraction(t), fl)) for t in ts[2:2 + n])
    if cmd == "perm":
        d = int(ts[0])
        pin, pout = list(range(1, d + 1)) + [0], [d] + list(range(d))
        return ("in: " + " ".join(map(str, pin)) + " | out: " + " ".join(map(str, pout)) +
                f" | roundtrip={1 if all(pin[pout[j]] == j for j in range(d + 1)) else 0}")
    if cmd == "unsq":
        nb, dim = int(ts[0]), int(ts[1])
        if dim > nb or dim < -nb - 1:
            return "reject"
        return str(dim if dim >= 0 else nb + dim + 1)
    if cmd == "divf":
        return C.rat_str(1 / Fraction(ts[0]))
    if cmd == "permidx":       # specified permutes of rsample: in = (1, …, d, 0), out = (d, 0, …, d-1)
        d = int(ts[0])
        o = [int(x) for x in ts[2:]]
        outs = []
        for perm in (list(range(1, d + 1)) + [0], [d] + list(range(d))):
            inp = [0] * (d + 1)
            for j, a in enumerate(perm):
                inp[a] = o[j]
            outs.append(" ".join(map(str, inp)))
        return f"in: {outs[0]} | out: {outs[1]}"
    if cmd == "initshape":     # specification: both stored with the broadcast batch shape
        bar = ts.index("|")
        ms, cs = [int(x) for x in ts[1:bar]], [int(x) for x in ts[bar + 2:]]
        try:
            bs = list(_np().broadcast_shapes(tuple(ms[:-1]), tuple(cs[:-2])))
        except ValueError:
            return "reject"
        f = lambda l: " ".join(map(str, l))
        return f"loc: {f(bs + ms[-1:])} | cov: {f(bs + cs[-2:])} | batch: {f(bs)}"
    if cmd == "gell":          # RECORDED behaviour (known finding getitem:multiple-ellipsis), not the specification
        S, p = _take(ts, 0)
        n = len(S)
        l, d, ne = int(ts[p + 1]), int(ts[p + 2]), int(ts[p + 3])
        x = parse_idx_tokens(ts[p + 5:])[0]
        if l > d and ne > 0:
            if l - ne < d:
                return "pre=reject"
            l = l - ne
        if l > d:
            return f"pre={l};br=tooMany;nosel"
        sel = py_index([n], [x])
        if sel is None:
            return f"pre={l};br=ellipsis;nosel"
        cs = [sel[0][1]] if sel[0][0] == "D" else list(sel[0][1])
        rs = list(range(n))
        return (f"pre={l};br=ellipsis;rows={' '.join(map(str, rs))};cols={' '.join(map(str, cs))};"
                + _show([[S[a][b] for b in cs] for a in rs]))
    if cmd == "gpair":         # RECORDED behaviour (known finding getitem:advanced-batch-event-pairing)
        n, b = int(ts[0]), int(ts[1])
        p, Ss = 3, []
        for _ in range(b):
            S, p = _take(ts, p)
            Ss.append(S)
        k = int(ts[p + 1])
        bs = [int(x) for x in ts[p + 2:p + 2 + k]]
        es = [int(x) for x in ts[p + 4 + k:p + 4 + 2 * k]]
        return _show([[Ss[bs[i]][es[i]][es[j]] for j in range(k)] for i in range(k)])
    return "bad-request"


# =============================================================== helpers (real side)

def _mp_log(fr):
    """log of an exact positive rational, to float."""
    try:
        import mpmath
        mpmath.mp.dps = 40
        return float(mpmath.log(mpmath.mpf(fr.numerator) / mpmath.mpf(fr.denominator)))
    except ImportError:  # big-int logs are correctly rounded to ~1 ulp
        return math.log(fr.numerator) - math.log(fr.denominator)


def _kv(reply):
    return {k: v for k, v in (item.split("=", 1) for item in reply.split(";"))}


def _close(a, b, scale=1.0):
    return abs(a - b) <= ATOL + RTOL * max(abs(a), abs(b), scale)


def _np():
    import numpy
    return numpy


def _allclose(A, B, scale=1.0):
    np = _np()
    A, B = np.asarray(A, dtype=float), np.asarray(B, dtype=float)
    if A.shape != B.shape:
        return False
    if A.size == 0:
        return True
    return bool(np.all(np.abs(A - B) <= ATOL + RTOL * max(float(np.max(np.abs(B))), scale)))


def _dyadic(rng, shape, lo=-16, hi=16, den=8):
    np = _np()
    size = int(np.prod(shape)) if len(shape) else 1
    return np.array([rng.randint(lo, hi) / den for _ in range(size)], dtype=float).reshape(shape)


def gen_params(rng, batch, n, r=None, kind="spd"):
    """Low-bit dyadic mean, root A (.. n x r) and covariance.  kind 'spd': S = A A^T + c I (exact in float64);
    'root': S = A A^T with a square (or given n x r) root; 'rootwide': full-rank covariance given by a WIDE root
    n x (n+1..n+2); 'diag': diagonal covariance (A = diag of the square-free entries, unused)."""
    np = _np()
    if kind == "rootwide":
        r = n + rng.randint(1, 2) if r is None else r
        kind = "root"
    if kind == "diag":
        dg = _dyadic(rng, tuple(batch) + (n,), 2, 24, 8)
        S = dg[..., :, None] * np.eye(n)
        return _dyadic(rng, tuple(batch) + (n,)), S.copy(), S
    r = n if r is None else r
    for _ in range(50):
        A = _dyadic(rng, tuple(batch) + (n, r), -8, 8, 8)
        if kind == "root":
            if r >= n:
                for i in range(n):
                    A[..., i, i] = np.abs(A[..., i, i]) + 1.5
            S = A @ np.swapaxes(A, -1, -2)
        else:
            S = A @ np.swapaxes(A, -1, -2) + np.eye(n) * (1 + rng.randint(0, 8) / 8)
        mu = _dyadic(rng, tuple(batch) + (n,))
        if kind == "root" and r < n:
            return mu, A, S
        if float(np.max(np.linalg.cond(S))) <= 1e4:
            return mu, A, S
    raise RuntimeError("could not generate a well-conditioned covariance")


REPS = ("dense", "lazy", "root", "addeddiag")
# also: covariance given by a wide (non-square) root, and by a DiagLinearOperator
REPS_ALL = REPS + ("rootwide", "diag")


def _kind(rep):
    return {"root": "root", "rootwide": "rootwide", "diag": "diag"}.get(rep, "spd")


def make_dist(rep, mu, S, A=None):
    """mu, S, A numpy arrays.  Returns the real distribution."""
    import torch
    from gpytorch.distributions import MultivariateNormal
    from linear_operator import to_linear_operator
    from linear_operator.operators import DiagLinearOperator, RootLinearOperator
    np = _np()
    tm, tS = torch.tensor(mu, dtype=torch.float64), torch.tensor(S, dtype=torch.float64)
    if rep == "dense":
        return MultivariateNormal(tm, tS)
    if rep == "lazy":
        return MultivariateNormal(tm, to_linear_operator(tS))
    if rep in ("root", "rootwide"):
        return MultivariateNormal(tm, RootLinearOperator(torch.tensor(A, dtype=torch.float64)))
    if rep == "diag":
        return MultivariateNormal(tm, DiagLinearOperator(torch.tensor(np.diagonal(S, axis1=-2, axis2=-1).copy(), dtype=torch.float64)))
    if rep == "addeddiag":
        n = S.shape[-1]
        dg = np.full(S.shape[:-1], 0.5)
        base = S - np.eye(n) * 0.5
        return MultivariateNormal(tm, to_linear_operator(torch.tensor(base, dtype=torch.float64))
                                  + DiagLinearOperator(torch.tensor(dg, dtype=torch.float64)))
    raise ValueError(rep)


def idx_tokens(idx):
    """Index tuple (ints / slices / Ellipsis / lists of ints) -> driver tokens; None when outside the model's
    vocabulary."""
    out = []
    for i in idx:
        if i is Ellipsis:
            out.append("E")
        elif isinstance(i, bool):
            return None
        elif isinstance(i, int):
            out.append(f"I {i}")
        elif isinstance(i, slice):
            f = lambda x: "N" if x is None else str(x)
            out.append(f"S {f(i.start)} {f(i.stop)} {f(i.step)}")
        elif isinstance(i, list) and all(isinstance(j, int) for j in i):
            out.append("L " + " ".join(map(str, [len(i)] + i)))
        else:
            return None
    return " ".join(out)


def idx_show(idx):
    def one(i):
        if i is Ellipsis:
            return "..."
        if isinstance(i, slice):
            f = lambda x: "" if x is None else str(x)
            return f"{f(i.start)}:{f(i.stop)}" + ("" if i.step is None else f":{i.step}")
        if isinstance(i, tuple):  # ("tensor"|"ndarray", list)
            return f"{i[0]}({i[1]})"
        return repr(i)
    return "[" + ", ".join(one(i) for i in idx) + "]"


def idx_real(idx):
    """Materialise ('tensor', [...]) / ('ndarray', [...]) entries."""
    import torch
    np = _np()
    out = []
    for i in idx:
        if isinstance(i, tuple) and i[0] == "tensor":
            out.append(torch.tensor(i[1], dtype=torch.long))
        elif isinstance(i, tuple) and i[0] == "ndarray":
            out.append(np.array(i[1], dtype=np.int64))
        else:
            out.append(i)
    return tuple(out)


def idx_plain(idx):
    """Same tuple with tensor/ndarray entries as plain lists (for numpy reference and driver tokens)."""
    return tuple(list(i[1]) if isinstance(i, tuple) else i for i in idx)


def idx_json(idx):
    out = []
    for i in idx:
        if i is Ellipsis:
            out.append("E")
        elif isinstance(i, slice):
            out.append({"s": [i.start, i.stop, i.step]})
        elif isinstance(i, tuple):
            out.append({i[0]: list(i[1])})
        else:
            out.append(i)
    return out


def idx_unjson(js):
    out = []
    for i in js:
        if i == "E":
            out.append(Ellipsis)
        elif isinstance(i, dict) and "s" in i:
            out.append(slice(*i["s"]))
        elif isinstance(i, dict):
            (k, v), = i.items()
            out.append((k, list(v)))
        else:
            out.append(i)
    return tuple(out)


# =============================================================== getitem

def _expand_ellipsis(idx, ndim):
    k = sum(1 for i in idx if i is not Ellipsis)
    e = len(idx) - k
    if k > ndim or e > 1:
        return None
    fill = [slice(None)] * (ndim - k)
    if e == 0:
        return list(idx) + fill
    out = []
    for i in idx:
        out += fill if i is Ellipsis else [i]
    return out


def _is_basic(i, n):
    if isinstance(i, bool):
        return False
    if isinstance(i, int):
        return -n <= i < n
    if isinstance(i, slice):
        return i.step is None or i.step >= 1
    return False


def must_accept(idx_p, shape):
    """Index forms the property certainly quantifies over: basic indices (in-range ints, slices with positive
    step, one ellipsis) plus at most one in-range index list, leaving at least one dimension."""
    full = _expand_ellipsis(idx_p, len(shape))
    if full is None:
        return False
    nl = 0
    for i, n in zip(full, shape):
        if isinstance(i, list):
            nl += 1
            if not i or not all(isinstance(j, int) and not isinstance(j, bool) and -n <= j < n for j in i):
                return False
        elif not _is_basic(i, n):
            return False
    if nl > 1:
        return False
    return any(not isinstance(i, int) for i in full)


def getitem_reference(mu, S, idx_p, idx_t=None):
    """(mean_ref, cov_ref, ambiguous_mask, b_sel, e_sel, case1) from the dense mean/covariance by plain numpy
    indexing of position tags.  Raises IndexError etc. when numpy rejects the index."""
    np = _np()
    B, n = mu.shape[:-1], mu.shape[-1]
    nb = int(np.prod(B)) if len(B) else 1
    bid = np.broadcast_to(np.arange(nb).reshape(B + (1,)), B + (n,))
    eid = np.broadcast_to(np.arange(n), B + (n,))
    import torch
    key = idx_real(idx_t if idx_t is not None else idx_p)   # torch semantics: this is what `mean[idx]` means in the code
    mean_ref = torch.tensor(mu)[key].numpy()
    b_sel, e_sel = torch.tensor(bid.copy())[key].numpy(), torch.tensor(eid.copy())[key].numpy()
    if mean_ref.ndim == 0:
        return mean_ref, None, None, b_sel, e_sel, False
    full = _expand_ellipsis(list(idx_p), mu.ndim)
    case1 = full is not None and isinstance(full[-1], int)
    Sf = S.reshape((nb, n, n))
    bs, bt = b_sel[..., :, None], b_sel[..., None, :]
    es, et = e_sel[..., :, None], e_sel[..., None, :]
    val = Sf[bs, es, et]
    k = mean_ref.shape[-1]
    eye = np.eye(k, dtype=bool)
    same = bs == bt
    if case1:
        cov = np.where(eye, val, 0.0)
        amb = np.zeros_like(same)
    else:
        row_same = np.all(b_sel == b_sel[..., :1], axis=-1)[..., None, None]
        cov = np.where(same, val, 0.0)
        amb = same & ~eye & ~row_same
    return mean_ref, cov, amb, b_sel, e_sel, case1


def run_getitem(case):
    """-> (lines, judge).  judge(replies) -> dict(status=..., fails=[(key, what)], broke=[...])."""
    import torch
    np = _np()
    mu, S, A, rep = np.array(case["mu"]), np.array(case["S"]), np.array(case["A"]), case["rep"]
    idx = idx_unjson(case["idx"])
    idx_p = idx_plain(idx)
    shape = list(mu.shape)
    res = {"status": None, "fails": [], "broke": []}
    # ---- reference
    try:
        mean_ref, cov_ref, amb, b_sel, e_sel, case1 = getitem_reference(mu, S, idx_p, idx)
    except Exception as e:
        mean_ref, ref_err = None, e
    # ---- real
    real_err = None
    try:
        with warnings.catch_warnings():
            warnings.simplefilter("ignore")
            d = make_dist(rep, np.array(case.get("mu_build", mu)), np.array(case.get("S_build", S)), A)
            r = d[idx_real(idx)]
            rm = r.mean.detach().numpy()
            rc = r.covariance_matrix.detach().numpy()
    except Exception as e:
        real_err = e
    toks = idx_tokens(idx_p)
    lines = [f"index {len(shape)} " + " ".join(map(str, shape)) + " | " + toks] if toks is not None else []
    gline = None
    if toks is not None and mean_ref is not None and mean_ref.ndim > 0 and mean_ref.size > 0 and "mu_build" not in case:
        if len(shape) == 1 and len(idx_p) == 1:
            gline = (f"gcov {C.mat_tokens(S)} | 1 1 0 | {toks}", cov_ref)
        elif len(shape) == 2 and len(idx_p) == 2 and idx_p[0] == slice(None) and isinstance(idx_p[1], int) \
                and not isinstance(idx_p[1], bool):
            gline = (f"gcov {C.mat_tokens(S[0])} | 2 2 0 | I {idx_p[1]}", cov_ref[:1, :1])
    if gline is not None:
        lines.append(gline[0])
    # the two recorded defects: what the GENERATED branch reads must be what the implementation returns (so that the
    # theorems gen_getitem_*_except_known are about the behaviour that is reported as a known finding)
    kline = None
    if toks is not None and real_err is None and "mu_build" not in case:
        if (len(shape) == 3 and len(idx_p) == 3 and idx_p[0] is Ellipsis and idx_p[2] is Ellipsis
                and isinstance(idx_p[1], (slice, list)) and rc.ndim == 4):
            b0 = (0,) * (len(shape) - 1)
            kline = (f"gell {C.mat_tokens(S[b0])} | 3 {len(shape)} 2 | {idx_tokens((idx_p[1],))}", rc[b0])
        elif (len(shape) == 2 and len(idx_p) == 2 and all(isinstance(i, list) and i for i in idx_p)
              and len(idx_p[0]) == len(idx_p[1]) and all(0 <= j < shape[0] for j in idx_p[0])
              and all(0 <= j < shape[1] for j in idx_p[1]) and rc.ndim == 2):
            kline = (f"gpair {shape[1]} {shape[0]} | " + " ".join(C.mat_tokens(S[b]) for b in range(shape[0]))
                     + f" | {len(idx_p[0])} " + " ".join(map(str, idx_p[0])) + f" | {len(idx_p[1])} " + " ".join(map(str, idx_p[1])),
                     rc)
    if kline is not None:
        lines.append(kline[0])
    _full = _expand_ellipsis(list(idx_p), len(shape))
    paired = (_full is not None and isinstance(_full[-1], list) and any(isinstance(i, list) for i in _full[:-1])) or \
        (_full is None and sum(1 for i in idx_p if isinstance(i, list)) >= 2)
    bc = "" if "mu_build" not in case else (":dense-broadcast" if rep == "dense" else ":lazy-broadcast")
    bnote = "" if not bc else (f" [mean batch {np.array(case['mu_build']).shape[:-1]}, covariance batch "
                               f"{np.array(case['S_build']).shape[:-2]}]")

    def judge(replies):
        sels = None
        if lines and replies[0] != "reject":
            sels = [(s.split()[0], [int(x) for x in s.split()[1:]]) for s in replies[0].split(";")]
        if mean_ref is None:
            res["status"] = "invalid-index" if real_err is not None else "invalid-index-accepted"
            if sels is not None and must_accept(idx_p, shape):
                res["broke"].append(("index-model", f"model accepts {idx_show(idx)} on {shape}, numpy rejects"))
            return res
        if mean_ref.ndim == 0:
            res["status"] = "excluded-0dim"
            return res
        if mean_ref.size == 0:
            res["status"] = "excluded-empty" if real_err is None else "excluded-empty-rejected"
            return res
        if real_err is not None:
            res["status"] = f"rejected:{type(real_err).__name__}"
            res["reject_msg"] = str(real_err)[:100]
            if must_accept(idx_p, shape) and not any(isinstance(i, tuple) and i[0] == "ndarray" for i in idx):
                res["fails"].append(("getitem:rejected-valid", f"{rep} batch={tuple(shape[:-1])} n={shape[-1]} "
                                     f"d{idx_show(idx)} raises {type(real_err).__name__}: {str(real_err)[:120]}"))
            return res
        res["status"] = "compared"
        where = f"{rep} batch={tuple(shape[:-1])} n={shape[-1]} d{idx_show(idx)}"
        if kline is not None:   # recorded-defect patterns: generated reading == observed covariance, exactly
            rp = replies[-1].split(";")[-1]
            try:
                rows_, _ = C.parse_mat(rp.split(), 0)
                G = np.array(C.fmat_to_float(rows_))
                okk = G.shape == kline[1].shape and _allclose(kline[1], G)   # dense: torch rebuilds Sigma from scale_tril
            except Exception:
                okk = False
            if not okk:
                res["broke"].append(("generated-getitem-known", f"{where}: the generated branch reads `{replies[-1][:160]}`, the "
                                     f"implementation returns {kline[1].tolist()} (a recorded defect changed: retire / revise the known finding)"))
        if gline is not None:   # the regenerated dispatch + covariance selection must denote the marginal
            parts = replies[(-2 if kline is not None else -1)].split(";")
            ok = len(parts) == 4
            if ok:
                rows_, _ = C.parse_mat(parts[3].split(), 0)
                G = np.array(C.fmat_to_float(rows_)).reshape(gline[1].shape) if len(rows_) * (len(rows_[0]) if rows_ else 0) == gline[1].size else None
                ok = G is not None and bool(np.all(G == gline[1]))
            if not ok:
                res["broke"].append(("generated-getitem", f"{where}: generated dispatch/selection gives `{replies[(-2 if kline is not None else -1)][:160]}`, "
                                     f"marginal covariance is {gline[1].tolist()}"))
        multi = sum(1 for i in idx_p if i is Ellipsis) > 1
        key_sfx = "multiple-ellipsis" if multi else ("advanced-batch-event-pairing" if paired else
                                                    ("int-event" if case1 else "event"))
        if rm.shape != mean_ref.shape or not _allclose(rm, mean_ref):
            res["fails"].append((f"getitem:mean:{key_sfx}", f"{where}.mean != mean{idx_show(idx)}: got shape "
                                 f"{rm.shape} want {mean_ref.shape}"))
        if rc.shape != cov_ref.shape:
            res["fails"].append((f"getitem:{key_sfx}", f"{where}.covariance_matrix has shape {rc.shape}, the "
                                 f"marginal of the selected components has shape {cov_ref.shape}"))
        else:
            if case.get("tiny"):
                dgr = np.abs(np.diagonal(cov_ref, axis1=-2, axis2=-1))
                tol_ = 1e-300 + RTOL * np.sqrt(dgr[..., :, None] * dgr[..., None, :])
            else:
                tol_ = ATOL + RTOL * max(1.0, float(np.max(np.abs(cov_ref))) if cov_ref.size else 1.0)
            bad = ~(np.abs(rc - cov_ref) <= tol_) & ~amb
            if bad.any():
                pos = tuple(int(x) for x in np.argwhere(bad)[0])
                asym = float(np.max(np.abs(rc - np.swapaxes(rc, -1, -2))))
                res["fails"].append((f"getitem:{key_sfx}", f"{where}.covariance_matrix{list(pos)} = {rc[pos]!r}, "
                                     f"covariance of the selected components is {cov_ref[pos]!r} "
                                     f"(max asymmetry of the returned matrix {asym:.3g})"))
        # ---- model tie: event-dimension positions from the Lean index model
        if sels is not None and not paired:
            t, ps = sels[-1]
            if t == "D":
                ok = bool(np.all(e_sel == ps[0]))
            else:
                ok = e_sel.shape[-1] == ps[0] and bool(np.all(e_sel == np.array(ps[1:]).reshape((1,) * (e_sel.ndim - 1) + (-1,)))) \
                    if not case1 else False
            if not ok:
                res["broke"].append(("index-model", f"event positions of {idx_show(idx)} on {shape}: model {sels[-1]}, "
                                     f"numpy {e_sel.reshape(-1, e_sel.shape[-1])[0].tolist()}"))
            if all(not isinstance(i, list) for i in idx_p):
                mshape = [p[0] for t_, p in sels if t_ == "K"]
                if mshape != list(mean_ref.shape):
                    res["broke"].append(("index-model", f"shape of {idx_show(idx)} on {shape}: model {mshape}, numpy "
                                         f"{list(mean_ref.shape)}"))
        elif sels is None and lines and must_accept(idx_p, shape):
            res["broke"].append(("index-model", f"model rejects {idx_show(idx)} on {shape}"))
        return res

    def judge_b(replies):
        r_ = judge(replies)
        r_["fails"] = [(k + bc, w + bnote) for k, w in r_["fails"]]
        return r_
    return lines, judge_b


def _event_entries(n, full):
    """Entries for the event dimension."""
    out = []
    if full:
        out += list(range(-n - 1, n + 1))
        bounds = [None] + list(range(-n - 1, n + 2))
        for st in (None, 1, 2, 3, -1):
            for a in bounds:
                for b in bounds:
                    out.append(slice(a, b, st))
        lists = [[j] for j in range(-n, n)] + [[a, b] for a in range(-n, n) for b in range(-n, n)]
        lists += [[n - 1, 0, 0], list(range(n)), list(range(n - 1, -1, -1)), [n], [-n - 1], [0, n]]
        for l in lists:
            out.append(l)
        for l in lists[::3]:
            out.append(("tensor", l))
        for l in lists[1::5]:
            out.append(("ndarray", l))
    else:
        out += [0, -1, n, slice(None), slice(1, None), slice(None, -1), slice(None, None, 2), slice(-100, 100),
                slice(None, None, -1), [n - 1, 0], ("tensor", [0, 0]), ("tensor", [-1]), ("ndarray", [0])]
    return out


def _batch_entries(sz, full):
    if full:
        return (list(range(-sz - 1, sz + 1)) + [slice(None), slice(1, None), slice(None, 1), slice(None, None, 2),
                slice(-1, None), slice(5, None), slice(None, None, -1), [0], [sz - 1, 0], [0, 0], ("tensor", [sz - 1, 0]),
                ("tensor", [-1]), ("ndarray", [0, sz - 1]), [sz]])
    return [0, -1, slice(None), slice(1, None), [sz - 1, 0], ("tensor", [0])]


def getitem_indices(batch, n, tier, rng, rep):
    """Index tuples for one (batch, n).  Exhaustive on the event dimension (combined with a small set of batch
    prefixes), exhaustive-small on the batch dimensions, plus ellipsis forms and paired advanced indices."""
    nb = len(batch)
    E_full, E_small = _event_entries(n, True), _event_entries(n, False)
    out = []
    heavy = rep in ("dense", "lazy") or (tier == "thorough" and rep in REPS)
    if nb == 0:
        for e in (E_full if heavy else E_small):
            out.append((e,))
        for e in E_small:
            out += [(Ellipsis, e), (e, Ellipsis)]
        out += [(Ellipsis,), (Ellipsis, Ellipsis), (0, 0), (slice(None), 0), (None,), (True,)]
        return out
    Bf = [_batch_entries(s, True) for s in batch]
    Bs = [_batch_entries(s, False) for s in batch]
    # batch-only
    for k in range(1, nb + 1):
        for pre in itertools.product(*Bf[:k]):
            out.append(tuple(pre))
    # full event set x few prefixes
    prefixes = list(itertools.product(*Bs))
    if tier == "quick":
        prefixes = [rng.choice(prefixes)] if heavy else prefixes[:1]
    for pre in prefixes:
        # quick: the full event set under a batch prefix for n in {2, 4} (n = 1, 3 are exhaustive for batch () every run)
        for e in (E_full if (heavy and (tier == "thorough" or n in (2, 4))) else E_small):
            out.append(tuple(pre) + (e,))
    # full batch sets x small event set
    bf = list(itertools.product(*Bf))
    if tier == "quick" and len(bf) > 30:
        bf = rng.sample(bf, 30)
    for pre in bf:
        for e in E_small:
            out.append(tuple(pre) + (e,))
    # ellipsis forms
    for e in E_small:
        out += [(Ellipsis, e), (Bs[0][0], Ellipsis, e), (Bs[0][3], Ellipsis, e), (Ellipsis, Bs[-1][1], e),
                (e, Ellipsis), (Ellipsis, e, Ellipsis)]
    out += [(Ellipsis,), (0, Ellipsis), (Ellipsis, 0, slice(None)), (Ellipsis, Ellipsis, 0), (None, 0), (0, None)]
    out += [tuple([0] * (nb + 2)), tuple([slice(None)] * (nb + 2)), (Ellipsis,) + tuple([0] * (nb + 1))]
    # paired advanced indices (batch x event)
    s = batch[-1]
    pairs = [([0, s - 1], [n - 1, 0]), ([s - 1, 0], [0, 0]), ([0, 0], [n - 1, 0]), ([0, 1 % s, 0], [0, n - 1, n // 2])]
    for lb, le in pairs:
        for wrap_b in ("list", "tensor"):
            for wrap_e in ("tensor", "list"):
                b = lb if wrap_b == "list" else ("tensor", lb)
                e = le if wrap_e == "list" else ("tensor", le)
                pre = tuple([slice(None)] * (nb - 1))
                out.append(pre + (b, e))
                if nb == 2:
                    out.append((0, b, e))
                    out.append((b, slice(None), e))
                    out.append(([0, 1], b, e) if len(lb) == 2 else (slice(1, None), b, e))
    return out


# =============================================================== log_prob

LP_CFGS = ("torch-chol", "lo-chol", "cg-quad")


def _cfg_ctx(cfg):
    import contextlib
    import gpytorch.settings as gs
    st = contextlib.ExitStack()
    if cfg == "torch-chol":
        st.enter_context(gs.fast_computations(log_prob=False))
    elif cfg == "lo-chol":
        st.enter_context(gs.fast_computations(log_prob=True))
    elif cfg == "cg-quad":
        st.enter_context(gs.fast_computations(log_prob=True))
        st.enter_context(gs.max_cholesky_size(0))
        st.enter_context(gs.cg_tolerance(1e-10))
        st.enter_context(gs.max_cg_iterations(200))
        st.enter_context(gs.skip_logdet_forward(True))
    return st


def _bshape(*shapes):
    np = _np()
    return tuple(np.broadcast_shapes(*[tuple(s) for s in shapes]))


def _elems(full, *arrs_with_tail):
    """Iterate over multi-indices of `full`; arrays are (array, tail_ndim) broadcast to full + tail."""
    np = _np()
    bro = [np.broadcast_to(a, full + a.shape[a.ndim - t:]) for a, t in arrs_with_tail]
    for o in itertools.product(*[range(s) for s in full]):
        yield o, [b[o] for b in bro]


def run_logprob(case):
    import torch
    np = _np()
    mu, S, A, v = (np.array(case[k]) for k in ("mu", "S", "A", "v"))
    rep, cfg = case["rep"], case["cfg"]
    n = mu.shape[-1]
    mb, cb, vb = mu.shape[:-1], S.shape[:-2], v.shape[:-1]
    full = _bshape(mb, cb, vb)
    cls = "lazy-broadcast" if (mb != cb and rep != "dense") else ("dense-broadcast" if mb != cb else
                                                                 ("value-broadcast" if vb != full or vb != mb else "same"))
    where = f"{rep} cfg={cfg} mean_batch={mb} cov_batch={cb} value_batch={vb} n={n}"
    err, lp = None, None
    try:
        with warnings.catch_warnings():
            warnings.simplefilter("ignore")
            d = make_dist(rep, mu, S, A)
            tv = torch.tensor(v, dtype=torch.float64)
            with _cfg_ctx(cfg):
                lp = d.log_prob(tv).detach().numpy()
            v_after = tv.numpy().copy()
    except Exception as e:
        err = e
    lines, slots = [], []
    for o, (m_, S_, v_) in _elems(full, (mu, 1), (S, 2), (v, 1)):
        lines.append(f"logprob {C.mat_tokens(S_)} {C.vec_tokens(m_)} {C.vec_tokens(v_)}")
        slots.append(o)

    def judge(replies):
        res = {"status": "compared", "fails": [], "broke": []}
        if err is not None:
            res["status"] = f"raised:{type(err).__name__}"
            res["fails"].append((f"logprob:raises:{cls}", f"{where}: log_prob raises {type(err).__name__}: {str(err)[:160]}"))
            return res
        exp = np.zeros(full)
        for o, rp in zip(slots, replies):
            if rp == "singular":
                res["status"] = "discarded-singular"
                return res
            kv = _kv(rp)
            quad, det = Fraction(kv["quad"]), Fraction(kv["det"])
            if det <= 0:
                res["status"] = "discarded-nonpd"
                return res
            ld = 0.0 if cfg == "cg-quad" else _mp_log(det)
            exp[o] = -0.5 * (float(quad) + ld + n * math.log(2 * math.pi))
            res.setdefault("asm", []).append((f"asmlp {C.rat_str(quad)} {C.rat_str(ld)} {n} {C.rat_str(math.log(2 * math.pi))}", exp[o]))
        if not np.array_equal(v_after, v):
            res["fails"].append((f"logprob:argument-modified:{cls}", f"{where}: log_prob changed its `value` argument in place"))
        if lp.shape != exp.shape:
            res["fails"].append((f"logprob:shape:{cls}", f"{where}: log_prob has shape {lp.shape}, expected {exp.shape}"))
            return res
        tol = (1e-6 if cfg == "cg-quad" else RTOL)
        bad = ~(np.abs(lp - exp) <= ATOL + tol * np.maximum(1.0, np.abs(exp)))   # NaN counts as a deviation
        if bad.any():
            o = tuple(int(x) for x in np.argwhere(bad)[0])
            res["fails"].append((f"logprob:value:{cfg}:{cls}", f"{where}: log_prob{list(o)} = {lp[o]!r}, Gaussian log "
                                 f"density is {exp[o]!r}"))
        return res
    return lines, judge


def logprob_cases(ctx, rng):
    np = _np()
    quick = ctx.tier == "quick"
    out = []
    batches = [(), (2,), (2, 3)]

    def vshapes(b):
        vs = {(), tuple(b), (2,) + tuple(b), (3, 2) + tuple(b), (1,) * len(b), (1,) + tuple(b)}
        if len(b) == 2:
            vs |= {(b[1],), (b[0], 1), (1, b[1]), (4, 1, b[1])}
        if len(b) == 1:
            vs |= {(3, 1)}
        return sorted(vs)
    for rep in REPS_ALL:
        for b in batches:
            for vb in vshapes(b):
                for cfg in LP_CFGS:
                    ns = [rng.randint(1, 5)] if quick else [1, 2, 3, 5]
                    for n in ns:
                        mu, A, S = gen_params(rng, b, n, kind=_kind(rep))
                        v = _dyadic(rng, tuple(vb) + (n,))
                        out.append({"kind": "logprob", "rep": rep, "cfg": cfg, "mu": mu, "S": S, "A": A, "v": v})
    # mean batch vs covariance batch (broadcast representation)
    bpairs = [((), (2,)), ((2,), ()), ((1,), (2,)), ((2, 1), (3,)), ((3,), (2, 3)), ((2, 3), (3,)), ((2, 1), (2, 3)),
              ((1, 3), (2, 1)), ((2, 3), ())]
    for rep in REPS_ALL:
        for mb, cb in bpairs:
            full = _bshape(mb, cb)
            for vb in [(), full, (2,) + full] + ([(1,) * len(full)] if len(full) else []):
                for cfg in (LP_CFGS if not quick else sorted({LP_CFGS[rng.randint(0, 2)], "lo-chol"})):
                    n = rng.randint(1, 4)
                    mu, _, _ = gen_params(rng, mb, n)
                    _, A, S = gen_params(rng, cb, n, kind=_kind(rep))
                    v = _dyadic(rng, tuple(vb) + (n,))
                    out.append({"kind": "logprob", "rep": rep, "cfg": cfg, "mu": mu, "S": S, "A": A, "v": v})
    # distribution batch shapes with size-1 dimensions (leading, inner, trailing; up to 3 batch dims) that broadcast against
    # larger value dimensions: every value row must meet the covariance of ITS batch member
    b1s = [(1,), (2, 1), (1, 3), (1, 1), (2, 1, 3), (1, 2, 1), (2, 2, 1)]
    for rep in REPS_ALL:
        for b in (b1s if not quick else rng.sample(b1s[1:3], 1) + rng.sample(b1s, 2)):
            fullA = tuple(3 if t == 1 else t for t in b)
            alt = tuple((4 if (t == 1 and i % 2 == 0) else t) for i, t in enumerate(b))
            vbs = {fullA, (5,) + fullA, alt, fullA[1:], fullA[-1:], tuple(b), (2,) + tuple(b), (2, 1) + fullA}
            for vb in (sorted(vbs) if not quick else rng.sample(sorted(vbs), 4) + [fullA, (5,) + fullA]):
                try:
                    _bshape(b, vb)
                except ValueError:
                    continue
                for cfg in (LP_CFGS if not quick else ("lo-chol", rng.choice(LP_CFGS))):
                    n = rng.randint(1, 4)
                    mu, A, S = gen_params(rng, b, n, kind=_kind(rep))
                    out.append({"kind": "logprob", "rep": rep, "cfg": cfg, "mu": mu, "S": S, "A": A,
                                "v": _dyadic(rng, tuple(vb) + (n,))})
    return out


# =============================================================== KL, Delta-KL

def run_kl(case):
    """kl_divergence(p, q) per batch element vs closed form; code form with the root the code actually used."""
    import torch
    from torch.distributions import kl_divergence
    np = _np()
    P, Q = case["p"], case["q"]
    mup, Sp, Ap = (np.array(P[k]) for k in ("mu", "S", "A"))
    muq, Sq, Aq = (np.array(Q[k]) for k in ("mu", "S", "A"))
    n = mup.shape[-1]
    same = case.get("same", False)
    where = f"p={P['rep']}{mup.shape[:-1]} q={Q['rep']}{muq.shape[:-1]} n={n} fast={case['fast']}"
    err, kl, root = None, None, None
    try:
        import gpytorch.settings as gs
        with warnings.catch_warnings():
            warnings.simplefilter("ignore")
            p = make_dist(P["rep"], mup, Sp, Ap)
            q = p if same else make_dist(Q["rep"], muq, Sq, Aq)
            with gs.fast_computations(log_prob=case["fast"], covar_root_decomposition=case["fast"], solves=case["fast"]):
                kl = kl_divergence(p, q).detach().numpy()
                full = _bshape(mup.shape[:-1], muq.shape[:-1])
                pe = p.expand(torch.Size(full)) if tuple(p.batch_shape) != full else p
                root = pe.lazy_covariance_matrix.root_decomposition().root.to_dense().detach().numpy()
    except Exception as e:
        err = e
    full = _bshape(mup.shape[:-1], muq.shape[:-1])
    lines, slots = [], []
    for o, (mp_, Sp_, mq_, Sq_) in _elems(full, (mup, 1), (Sp, 2), (muq, 1), (Sq, 2)):
        ln = f"kl {C.mat_tokens(Sp_)} {C.vec_tokens(mp_)} {C.mat_tokens(Sq_)} {C.vec_tokens(mq_)}"
        if root is not None and root.shape[:-2] == full:
            ln += " " + C.mat_tokens(root[o])
        lines.append(ln)
        slots.append(o)

    def judge(replies):
        res = {"status": "compared", "fails": [], "broke": [], "rres": 0.0}
        if err is not None:
            res["status"] = f"raised:{type(err).__name__}"
            res["fails"].append(("kl:raises", f"{where}: kl_divergence raises {type(err).__name__}: {str(err)[:160]}"))
            return res
        exp, expc = np.zeros(full), np.full(full, np.nan)
        for o, rp in zip(slots, replies):
            if rp == "singular":
                res["status"] = "discarded-singular"
                return res
            kv = _kv(rp)
            ratio = Fraction(kv["detratio"])
            if ratio <= 0 or Fraction(kv["detp"]) <= 0:
                res["status"] = "discarded-nonpd"
                return res
            ld = _mp_log(ratio)
            exp[o] = 0.5 * (float(Fraction(kv["tr"])) + float(Fraction(kv["quad"])) - n + ld)
            res.setdefault("asm", []).append((f"asmkl {C.rat_str(ld)} 0 {C.rat_str(Fraction(kv['tr']) + Fraction(kv['quad']))} {n}", exp[o]))
            if "code" in kv:
                expc[o] = 0.5 * (float(Fraction(kv["code"])) - n + ld)
                res["rres"] = max(res["rres"], float(Fraction(kv["rres"])))
        if kl.shape != exp.shape:
            res["fails"].append(("kl:shape", f"{where}: kl has shape {kl.shape}, expected {exp.shape}"))
            return res
        bad = ~(np.abs(kl - exp) <= ATOL + RTOL * np.maximum(1.0, np.abs(exp)))   # NaN counts as a deviation
        if bad.any():
            o = tuple(int(x) for x in np.argwhere(bad)[0])
            # gpytorch's own algebra given the root the primitive returned
            if not np.isnan(expc[o]) and abs(kl[o] - expc[o]) <= ATOL + RTOL * max(1.0, abs(expc[o])):
                res["assumption"] = (f"linear_operator root_decomposition residual {res['rres']:.3g} explains KL deviation "
                                     f"{abs(kl[o] - exp[o]):.3g} ({where})")
            else:
                res["fails"].append(("kl:self-nonzero" if same else "kl:value", f"{where}: kl{list(o)} = {kl[o]!r}, closed form "
                                     f"is {exp[o]!r}"))
        if same and np.any(np.abs(exp) > 1e-12):
            res["broke"].append(("kl-model", f"closed form of KL(p,p) is {exp.reshape(-1)[0]!r}, not 0"))
        return res
    return lines, judge


def run_delta(case):
    import torch
    from torch.distributions import kl_divergence
    np = _np()
    mu, S, A, v = (np.array(case[k]) for k in ("mu", "S", "A", "v"))
    rep, n = case["rep"], mu.shape[-1]
    full = _bshape(mu.shape[:-1], v.shape[:-1])
    where = f"Delta{v.shape[:-1]} vs {rep}{mu.shape[:-1]} n={n}"
    err, kl = None, None
    try:
        from gpytorch.distributions import Delta
        with warnings.catch_warnings():
            warnings.simplefilter("ignore")
            d = make_dist(rep, mu, S, A)
            kl = kl_divergence(Delta(torch.tensor(v, dtype=torch.float64), event_dim=1), d).detach().numpy()
    except Exception as e:
        err = e
    lines, slots = [], []
    for o, (m_, S_, v_) in _elems(full, (mu, 1), (S, 2), (v, 1)):
        lines.append(f"logprob {C.mat_tokens(S_)} {C.vec_tokens(m_)} {C.vec_tokens(v_)}")
        slots.append(o)

    def judge(replies):
        res = {"status": "compared", "fails": [], "broke": []}
        if err is not None:
            res["status"] = f"raised:{type(err).__name__}"
            res["fails"].append(("delta-kl:raises", f"{where}: raises {type(err).__name__}: {str(err)[:160]}"))
            return res
        exp = np.zeros(full)
        for o, rp in zip(slots, replies):
            if rp == "singular":
                res["status"] = "discarded-singular"
                return res
            kv = _kv(rp)
            exp[o] = 0.5 * (float(Fraction(kv["quad"])) + _mp_log(Fraction(kv["det"])) + n * math.log(2 * math.pi))
        if kl.shape != exp.shape or not _allclose(kl, exp):
            res["fails"].append(("delta-kl:value", f"{where}: KL(delta_v || N) = {kl.reshape(-1)[:3].tolist()}, -log N(v) = "
                                 f"{exp.reshape(-1)[:3].tolist()}"))
        return res
    return lines, judge


def kl_cases(ctx, rng):
    quick = ctx.tier == "quick"
    out = []
    bpairs = [((), ()), ((2,), (2,)), ((2, 3), (2, 3)), ((), (2,)), ((2,), ()), ((2, 3), (3,)), ((3,), (2, 3)), ((2, 1), (1, 3))]
    for rp in REPS_ALL:
        for rq in REPS_ALL:
            for bp, bq in (bpairs if not quick else [bpairs[0]] + rng.sample(bpairs[1:], 2)):
                for fast in (True, False):
                    n = rng.randint(1, 5)
                    mup, Ap, Sp = gen_params(rng, bp, n, kind=_kind(rp))
                    muq, Aq, Sq = gen_params(rng, bq, n, kind=_kind(rq))
                    out.append({"kind": "kl", "fast": fast, "p": {"rep": rp, "mu": mup, "S": Sp, "A": Ap},
                                "q": {"rep": rq, "mu": muq, "S": Sq, "A": Aq}})
    for rp in REPS_ALL:
        for b in [(), (2,), (2, 3), (2, 1)]:
            for fast in (True, False):
                n = rng.randint(1, 5)
                mu, A, S = gen_params(rng, b, n, kind=_kind(rp))
                P = {"rep": rp, "mu": mu, "S": S, "A": A}
                out.append({"kind": "kl", "fast": fast, "same": True, "p": P, "q": P})
                # equal parameters, different representation object
                out.append({"kind": "kl", "fast": fast, "p": P, "q": {"rep": "dense", "mu": mu, "S": S, "A": A}})
    for rp in REPS_ALL:
        for b, vb in [((), ()), ((2,), (2,)), ((2, 3), (2, 3)), ((2,), ()), ((), (3,))]:
            n = rng.randint(1, 5)
            mu, A, S = gen_params(rng, b, n, kind=_kind(rp))
            out.append({"kind": "delta", "rep": rp, "mu": mu, "S": S, "A": A, "v": _dyadic(rng, tuple(vb) + (n,))})
    return out


# =============================================================== rsample

def run_rsample(case):
    import torch
    np = _np()
    mu, S, A, e = (np.array(case[k]) for k in ("mu", "S", "A", "e"))
    rep, ss = case["rep"], tuple(case["ss"])
    n = mu.shape[-1]
    mb, cb = mu.shape[:-1], S.shape[:-2]
    B = _bshape(mb, cb)
    cls = ":lazy-broadcast" if (mb != cb and rep != "dense") else (":dense-broadcast" if mb != cb else "")
    where = f"{rep} mean_batch={mb} cov_batch={cb} sample_shape={ss} n={n} k={e.shape[-1]}"
    err, out = None, {}
    try:
        with warnings.catch_warnings():
            warnings.simplefilter("ignore")
            d = make_dist(rep, mu, S, A)
            k = int(d.base_sample_shape[-1])
            out["k"] = k
            out["bs_shape"] = tuple(d.get_base_samples(torch.Size(ss)).shape)
            out["free_shape"] = tuple(d.rsample(torch.Size(ss)).shape)
            cols = []
            mu_full = np.broadcast_to(mu, B + (n,))
            for j in range(k):
                u = np.zeros(B + (k,))
                u[..., j] = 1.0
                cols.append(d.rsample(base_samples=torch.tensor(u)).detach().numpy() - mu_full)
            out["X"] = np.stack(cols, -1) if k else np.zeros(B + (n, 0))
            te = torch.tensor(e, dtype=torch.float64)
            out["x"] = d.rsample(base_samples=te).detach().numpy()
            out["e_after"] = te.numpy().copy()
    except Exception as ex:
        err = ex
    lines, slots = [], []
    if err is None and e.shape == ss + B + (out["k"],) and out["X"].shape == B + (n, out["k"]):
        mu_full = np.broadcast_to(mu, B + (n,))
        for s in itertools.product(*[range(t) for t in ss]):
            for b in itertools.product(*[range(t) for t in B]):
                lines.append(f"rsample {C.vec_tokens(mu_full[b])} {C.mat_tokens(out['X'][b])} {C.vec_tokens(e[s + b])}")
                slots.append(s + b)

    def judge(replies):
        res = {"status": "compared", "fails": [], "broke": []}
        if err is not None:
            res["status"] = f"raised:{type(err).__name__}"
            res["fails"].append((f"rsample:raises{cls}", f"{where}: raises {type(err).__name__}: {str(err)[:160]}"))
            return res
        k = out["k"]
        if out["bs_shape"] != ss + B + (k,):
            res["fails"].append((f"rsample:base-sample-shape{cls}", f"{where}: get_base_samples has shape {out['bs_shape']}, "
                                 f"expected sample_shape + batch_shape + ({k},) = {ss + B + (k,)}"))
        if out["free_shape"] != ss + B + (n,):
            res["fails"].append((f"rsample:shape{cls}", f"{where}: rsample(sample_shape) has shape {out['free_shape']}, "
                                 f"expected {ss + B + (n,)}"))
        X = out["X"]
        if X.shape != B + (n, k):
            res["fails"].append((f"rsample:shape{cls}", f"{where}: unit-vector outputs have shape {X.shape[:-1]}"))
            return res
        S_full = np.broadcast_to(S, B + (n, n))
        XXt = X @ np.swapaxes(X, -1, -2)
        if not _allclose(XXt, S_full):
            dev = float(np.max(np.abs(XXt - S_full)))
            res["fails"].append((f"rsample:root-second-moment{cls}", f"{where}: stacking rsample(e_j) - mean gives X with "
                                 f"max|X X^T - Sigma| = {dev:.3g}"))
        if not np.array_equal(out["e_after"], e):
            res["fails"].append((f"rsample:argument-modified{cls}", f"{where}: rsample changed `base_samples` in place"))
        x = out["x"]
        if x.shape != ss + B + (n,):
            res["fails"].append((f"rsample:shape{cls}", f"{where}: rsample(base_samples) has shape {x.shape}, expected "
                                 f"{ss + B + (n,)}"))
            return res
        for o, rp in zip(slots, replies):
            rows, _ = C.parse_mat(rp.split(), 0)
            want = np.array([float(r[0]) for r in rows])
            if not np.all(np.abs(x[o] - want) <= 1e-10 + 1e-10 * np.max(np.abs(want), initial=1.0)):
                res["fails"].append((f"rsample:pipeline{cls}", f"{where}: rsample(base_samples=e){list(o)} = {x[o].tolist()}, "
                                     f"mean + X e = {want.tolist()} (X = stacked unit-vector responses)"))
                break
        return res
    return lines, judge


def rsample_cases(ctx, rng):
    quick = ctx.tier == "quick"
    out = []
    sss = [(), (1,), (3,), (2, 2)]
    for rep in REPS_ALL:
        for b in [(), (2,), (2, 3)] + ([(2, 1, 2)] if (not quick or rep in ("lazy", "rootwide")) else []):
            for ss in sss:
                for n in ([rng.randint(1, 4)] if quick else [1, 2, 4]):
                    mu, A, S = gen_params(rng, b, n, kind=_kind(rep))
                    out.append({"kind": "rsample", "rep": rep, "mu": mu, "S": S, "A": A, "ss": list(ss),
                                "e": _dyadic(rng, tuple(ss) + tuple(b) + ((A.shape[-1] if rep in ("root", "rootwide") else n),))})
    # roots with r != n (rank-deficient and wide)
    for b in [(), (2,), (2, 3)]:
        for ss in sss:
            for n, r in [(3, 2), (2, 4), (4, 1)]:
                mu, A, S = gen_params(rng, b, n, r=r, kind="root")
                out.append({"kind": "rsample", "rep": "root", "mu": mu, "S": S, "A": A, "ss": list(ss),
                            "e": _dyadic(rng, tuple(ss) + tuple(b) + (r,))})
    # mean batch != covariance batch
    for rep in ("dense", "lazy", "root"):
        for mb, cb in [((), (2,)), ((2,), ()), ((1,), (2,)), ((3,), (2, 3)), ((2, 3), (3,)), ((2, 1), (1, 3))]:
            full = _bshape(mb, cb)
            for ss in ([(), (3,)] if quick else sss):
                n = rng.randint(1, 4)
                mu, _, _ = gen_params(rng, mb, n)
                _, A, S = gen_params(rng, cb, n, kind=_kind(rep))
                out.append({"kind": "rsample", "rep": rep, "mu": mu, "S": S, "A": A, "ss": list(ss),
                            "e": _dyadic(rng, tuple(ss) + full + (n,))})
    return out


# =============================================================== variance / stddev / confidence_region / affine ops / expand / unsqueeze / add_jitter

def _parse2(reply):
    a, b = reply.split(" | ")
    np = _np()
    ra, _ = C.parse_mat(a.split(), 0)
    rb, _ = C.parse_mat(b.split(), 0)
    return np.array(C.fmat_to_float(ra)), np.array(C.fmat_to_float(rb))


def run_op(case):
    import torch
    np = _np()
    mu, S, A = (np.array(case[k]) for k in ("mu", "S", "A"))
    rep, op = case["rep"], case["op"]
    n = mu.shape[-1]
    mb, cb = mu.shape[:-1], S.shape[:-2]
    B = _bshape(mb, cb)
    cls = ":lazy-broadcast" if (mb != cb and rep != "dense") else (":dense-broadcast" if mb != cb else "")
    mu_f, S_f = np.broadcast_to(mu, B + (n,)), np.broadcast_to(S, B + (n, n))
    arg = case.get("arg")
    where = f"{rep} mean_batch={mb} cov_batch={cb} n={n} op={op} arg={arg if not isinstance(arg, dict) else arg.get('rep')}"
    err, out = None, {}
    try:
        with warnings.catch_warnings():
            warnings.simplefilter("ignore")
            d = make_dist(rep, mu, S, A)
            if op == "moments":
                out["var"] = d.variance.detach().numpy()
                out["sd"] = d.stddev.detach().numpy()
                lo, hi = d.confidence_region()
                out["lo"], out["hi"] = lo.detach().numpy(), hi.detach().numpy()
                out["mean"] = d.mean.detach().numpy()
                out["sd2"] = d.stddev.detach().numpy()     # confidence_region must not have modified the distribution
            else:
                if op == "add_scalar":
                    r = d + arg
                elif op == "radd_scalar":
                    r = arg + d
                elif op == "mul":
                    r = d * arg
                elif op == "div":
                    r = d / arg
                elif op == "sum":
                    o = make_dist(arg["rep"], np.array(arg["mu"]), np.array(arg["S"]), np.array(arg["A"]))
                    r = d + o
                elif op == "expand":
                    r = d.expand(torch.Size(arg))
                elif op == "unsqueeze":
                    r = d.unsqueeze(arg)
                elif op == "jitter":
                    r = d.add_jitter(arg) if arg is not None else d.add_jitter()
                out["mean"] = r.mean.detach().numpy()
                out["cov"] = r.covariance_matrix.detach().numpy()
                out["batch"] = tuple(r.batch_shape)
                out["lazy_cov"] = r.lazy_covariance_matrix.to_dense().detach().numpy()
                out["var"] = r.variance.detach().numpy()
    except Exception as e:
        err = e
    lines, slots = [], []
    if op == "moments" and err is None and out["sd"].shape == B + (n,) and out["lo"].shape == B + (n,):
        for b in itertools.product(*[range(t) for t in B]):
            lines.append(f"conf {C.vec_tokens(mu_f[b])} {C.vec_tokens(out['sd'][b])}")
            slots.append(b)
    elif op in ("add_scalar", "radd_scalar", "mul", "div"):
        sa = float(arg) if isinstance(arg, bool) else arg      # True / False are the ints 1 / 0
        a_, b_ = {"add_scalar": (1, sa), "radd_scalar": (1, sa), "mul": (sa, 0),
                  "div": ((1.0 / sa) if sa != 0 else 0, 0)}[op]
        for b in itertools.product(*[range(t) for t in B]):
            lines.append(f"affine {C.rat_str(a_)} {C.rat_str(b_)} {C.vec_tokens(mu_f[b])} {C.mat_tokens(S_f[b])}")
            slots.append(b)
    elif op == "sum":
        mu2, S2 = np.array(arg["mu"]), np.array(arg["S"])
        B2 = _bshape(B, mu2.shape[:-1], S2.shape[:-2])
        m1, s1 = np.broadcast_to(mu_f, B2 + (n,)), np.broadcast_to(S_f, B2 + (n, n))
        m2, s2 = np.broadcast_to(mu2, B2 + (n,)), np.broadcast_to(S2, B2 + (n, n))
        for b in itertools.product(*[range(t) for t in B2]):
            lines.append(f"sum {C.vec_tokens(m1[b])} {C.mat_tokens(s1[b])} {C.vec_tokens(m2[b])} {C.mat_tokens(s2[b])}")
            slots.append(b)
    elif op == "jitter":
        for b in itertools.product(*[range(t) for t in B]):
            lines.append(f"jitter {C.rat_str(arg if arg is not None else 1e-4)} {C.mat_tokens(S_f[b])}")
            slots.append(b)
    elif op == "unsqueeze":
        lines.append(f"unsq {len(B)} {arg}")
    if op == "moments" and lines:
        lines.append(f"varclamp {C.rat_str(_min_var())} {n} " + " ".join(C.rat_str(x) for x in np.diagonal(S_f[slots[0]])))

    def judge(replies):
        res = {"status": "compared", "fails": [], "broke": []}
        if op == "unsqueeze" and replies and replies[-1] == "reject":
            res["status"] = "rejected" if isinstance(err, IndexError) else "compared"
            if not isinstance(err, IndexError):
                res["fails"].append((f"unsqueeze:out-of-range-accepted{cls}", f"{where}: dim outside [-nb-1, nb] is not an IndexError"))
            return res
        if err is not None:
            res["status"] = f"raised:{type(err).__name__}"
            res["fails"].append((f"{op}:raises{cls}", f"{where}: raises {type(err).__name__}: {str(err)[:160]}"))
            return res
        if op == "unsqueeze" and replies:
            gd = int(replies[-1])
            if out["batch"] != B[:gd] + (1,) + B[gd:]:
                res["fails"].append((f"unsqueeze:batch-shape{cls}", f"{where}: batch_shape {out['batch']}, the generated dimension "
                                     f"arithmetic inserts the new axis at {gd}"))
        if op == "moments" and lines:
            want = np.array([float(Fraction(t)) for t in replies[-1].split()])
            if not _relclose(out["var"][slots[0]], want, np.abs(want)):
                res["fails"].append((f"variance{cls}", f"{where}: variance{list(slots[0])} = {out['var'][slots[0]].tolist()}, generated "
                                     f"clamp of the diagonal gives {want.tolist()}"))
        if op == "moments":
            dg = np.diagonal(S_f, axis1=-2, axis2=-1)
            if not _allclose(out["var"], dg):
                res["fails"].append((f"variance{cls}", f"{where}: variance {out['var'].shape} != diag(Sigma) {dg.shape}"))
            if not _allclose(out["sd"] ** 2, dg) or not _allclose(out["sd2"], out["sd"]):
                res["fails"].append((f"stddev{cls}", f"{where}: stddev^2 != diag(Sigma) (or stddev changed after "
                                     f"confidence_region)"))
            try:   # `mean` may be stored un-expanded; it must broadcast to the given mean
                mean_ok = _allclose(np.broadcast_to(out["mean"], mu_f.shape), mu_f)
            except ValueError:
                mean_ok = False
            if not mean_ok:
                res["fails"].append((f"mean{cls}", f"{where}: mean {out['mean'].shape} != given mean broadcast to {mu_f.shape}"))
            if lines:
                for b, rp in zip(slots, replies):
                    lo, hi = _parse2(rp)
                    if not (_allclose(out["lo"][b], lo[:, 0]) and _allclose(out["hi"][b], hi[:, 0])):
                        res["fails"].append((f"confidence_region{cls}", f"{where}: confidence_region{list(b)} = "
                                             f"({out['lo'][b].tolist()}, {out['hi'][b].tolist()}), mean -/+ 2 stddev = "
                                             f"({lo[:, 0].tolist()}, {hi[:, 0].tolist()})"))
                        break
            elif out["lo"].shape != B + (n,):
                res["fails"].append((f"confidence_region{cls}", f"{where}: shape {out['lo'].shape}"))
            return res
        # expected mean / covariance
        if op in ("expand", "unsqueeze"):
            if op == "expand":
                tb = tuple(arg)
                em, ec = np.broadcast_to(mu_f, tb + (n,)), np.broadcast_to(S_f, tb + (n, n))
            else:
                dim = arg if arg >= 0 else len(B) + arg + 1
                tb = B[:dim] + (1,) + B[dim:]
                em, ec = np.expand_dims(mu_f, dim), np.expand_dims(S_f, dim)
        else:
            full = B if op != "sum" else _bshape(B, np.array(arg["mu"]).shape[:-1], np.array(arg["S"]).shape[:-2])
            tb = full
            em, ec = np.zeros(full + (n,)), np.zeros(full + (n, n))
            for b, rp in zip(slots, replies):
                if op == "jitter":
                    rows, _ = C.parse_mat(rp.split(), 0)
                    ec[b] = np.array(C.fmat_to_float(rows))
                    em[b] = mu_f[b]
                else:
                    m_, c_ = _parse2(rp)
                    em[b], ec[b] = m_[:, 0], c_
        if out["batch"] != tuple(tb):
            res["fails"].append((f"{op}:batch-shape{cls}", f"{where}: batch_shape {out['batch']}, expected {tuple(tb)}"))
        if not _allclose(out["mean"], em):
            res["fails"].append((f"{op}:mean{cls}", f"{where}: mean (shape {out['mean'].shape}) differs from the mean of the "
                                 f"transformed random vector (shape {em.shape})"))
        for nm in ("cov", "lazy_cov"):
            if not (_allclose(out[nm], ec) and (op != "jitter" or _relclose(out[nm], ec, _cov_scale(ec) + 1e-30, 1e-7))):
                res["fails"].append((f"{op}:covariance{cls}", f"{where}: {nm} (shape {out[nm].shape}) differs from the covariance "
                                     f"of the transformed random vector (shape {ec.shape})"))
                break
        if not _allclose(out["var"], np.diagonal(ec, axis1=-2, axis2=-1)):
            res["fails"].append((f"{op}:variance{cls}", f"{where}: variance of the result differs from diag of its covariance"))
        return res
    return lines, judge


def op_cases(ctx, rng):
    quick = ctx.tier == "quick"
    out = []
    scal = [2, -3, 0.5, -0.75, 1, 1.0, 0, 0.0, 4.0, True, False]
    for rep in REPS_ALL:
        for b in [(), (2,), (2, 3)] + ([(2, 1, 2)] if (not quick or rep in ("lazy", "rootwide")) else []):
            def P(n=None, bb=b, rp=rep):
                n = n or rng.randint(1, 4)
                mu, A, S = gen_params(rng, bb, n, kind=_kind(rp))
                return {"rep": rp, "mu": mu, "S": S, "A": A}
            out.append(dict(P(), kind="op", op="moments"))
            for s in (scal if not quick else rng.sample(scal, 3)):
                out.append(dict(P(), kind="op", op="add_scalar", arg=s))
                out.append(dict(P(), kind="op", op="mul", arg=s))
                if s != 0:
                    out.append(dict(P(), kind="op", op="div", arg=s))
            out.append(dict(P(), kind="op", op="radd_scalar", arg=rng.choice([0, 2, -1.5])))
            for rep2 in (REPS_ALL if not quick else rng.sample(REPS_ALL, 2)):
                for b2 in ([b] if quick else sorted({b, ()})):
                    n = rng.randint(1, 4)
                    p1 = P(n)
                    out.append(dict(p1, kind="op", op="sum", arg=P(n, b2, rep2)))
            # sum with broadcasting batch shapes
            n = rng.randint(1, 3)
            out.append(dict(P(n), kind="op", op="sum", arg=P(n, (), rng.choice(REPS_ALL))))
            if b == (2,):
                out.append(dict(P(n), kind="op", op="sum", arg=P(n, (3, 1), rng.choice(REPS_ALL))))
            for tb in [b, (3,) + b, (2, 1) + b] + ([(4,)] if b == () else []):
                out.append(dict(P(), kind="op", op="expand", arg=list(tb)))
            for dim in range(-len(b) - 2, len(b) + 2):
                out.append(dict(P(), kind="op", op="unsqueeze", arg=dim))
            for e in (0.25, 1e-4, 0, 0.0, None, 3):    # None = add_jitter() with its default
                out.append(dict(P(), kind="op", op="jitter", arg=e))
    # mean batch != covariance batch
    for rep in ("dense", "lazy", "root"):
        for mb, cb in [((), (2,)), ((2,), ()), ((1,), (2,)), ((2, 1), (1, 3))]:
            n = rng.randint(1, 3)
            mu, _, _ = gen_params(rng, mb, n)
            _, A, S = gen_params(rng, cb, n, kind=_kind(rep))
            P = {"rep": rep, "mu": mu, "S": S, "A": A}
            full = _bshape(mb, cb)
            out.append(dict(P, kind="op", op="moments"))
            out.append(dict(P, kind="op", op="mul", arg=2))
            out.append(dict(P, kind="op", op="add_scalar", arg=1.5))
            out.append(dict(P, kind="op", op="expand", arg=list((2,) + full)))
            out.append(dict(P, kind="op", op="unsqueeze", arg=0))
            out.append(dict(P, kind="op", op="jitter", arg=0.25))
    return out


# =============================================================== sample moments (thorough)

def run_moments(case):
    import torch
    np = _np()
    mu, S, A = (np.array(case[k]) for k in ("mu", "S", "A"))
    rep, N = case["rep"], case["N"]
    n = mu.shape[-1]
    where = f"{rep} batch={mu.shape[:-1]} n={n} N={N}"
    err, xs = None, None
    try:
        with warnings.catch_warnings():
            warnings.simplefilter("ignore")
            torch.manual_seed(case["seed"])
            xs = make_dist(rep, mu, S, A).rsample(torch.Size([N])).detach().numpy()
    except Exception as e:
        err = e

    def judge(replies):
        res = {"status": "compared", "fails": [], "broke": []}
        if err is not None:
            res["fails"].append(("sample-moments:raises", f"{where}: {type(err).__name__}: {str(err)[:160]}"))
            return res
        m = xs.mean(0)
        xc = xs - m
        cov = np.einsum("s...i,s...j->...ij", xc, xc) / (N - 1)
        dg = np.diagonal(S, axis1=-2, axis2=-1)
        se_m = np.sqrt(dg / N)
        se_c = np.sqrt((dg[..., :, None] * dg[..., None, :] + S ** 2) / N)
        if np.any(np.abs(m - mu) > 6 * se_m) or np.any(np.abs(cov - S) > 6 * se_c):
            res["fails"].append(("sample-moments", f"{where}: sample mean/covariance deviate more than 6 standard errors "
                                 f"(max mean dev {np.max(np.abs(m - mu) / se_m):.2f} se, cov dev "
                                 f"{np.max(np.abs(cov - S) / se_c):.2f} se)"))
        return res
    return [], judge


def moments_cases(ctx, rng):
    out = []
    N = 4000 if ctx.tier == "quick" else 20000
    for rep in REPS:
        for b in ([()] if ctx.tier == "quick" else [(), (2,), (2, 3)]):
            n = rng.randint(1, 4)
            mu, A, S = gen_params(rng, b, n, kind=_kind(rep))
            out.append({"kind": "moments", "rep": rep, "mu": mu, "S": S, "A": A, "N": N, "seed": rng.torch_seed()})
    return out


# =============================================================== pure model lines (index / slice / bcast): driver vs Python itself

def model_lines(ctx, rng):
    lines = []
    top = 6 if ctx.tier == "quick" else 9
    for n in range(0, top):
        bounds = ["N"] + [str(x) for x in range(-n - 2, n + 3)]
        for st in (1, 2, 3, 5, -1, -2, -4):
            for a in bounds:
                for b in bounds:
                    lines.append(f"slice {n} {a} {b} {st}")
    for _ in range(300 if ctx.tier == "quick" else 3000):
        n = rng.randint(0, 40)
        f = lambda: "N" if rng.random() < 0.2 else str(rng.randint(-60, 60))
        lines.append(f"slice {n} {f()} {f()} {rng.choice([1, 2, 3, 7, 13, -1, -2, -5, -11])}")
    for ds, cs in [([3, 2], [2]), ([1], [3]), ([2, 3], [2, 3]), ([2, 3], [1, 3]), ([4, 2, 3], [2, 1]), ([2, 1], [2, 3]), ([], []),
                   ([5], []), ([2], [2, 2])]:
        lines.append("bcast " + " ".join(map(str, [len(ds)] + ds)) + " | " + " ".join(map(str, [len(cs)] + cs)))
    for d in range(0, 7):
        lines.append(f"perm {d}")
    for nb in range(0, 4):
        for dim in range(-nb - 3, nb + 3):
            lines.append(f"unsq {nb} {dim}")
    for c in ("2", "-4", "1/3", "-7/8", "1/1048576"):
        lines.append(f"divf {c}")
    for d in range(1, 6):                      # multi-indices read through the generated permutes, ranks 1..5 (0..4 batch dims)
        for _ in range(6):
            lines.append(f"permidx {d} | " + " ".join(str(rng.randint(0, 9)) for _ in range(d + 1)))
    for mb in INIT_BATCHES + [(4, 1, 2, 3), (5,)]:
        for cb in INIT_BATCHES + [(3, 1), (1, 1, 1)]:
            lines.append("initshape " + " ".join(map(str, [len(mb) + 1] + list(mb) + [3])) + " | "
                         + " ".join(map(str, [len(cb) + 2] + list(cb) + [3, 3])))
    for _ in range(40):
        n = rng.randint(1, 5)
        fl = rng.choice(["1/10000000000", "1/1000", "1/2", "0"])
        vs = [rng.choice(["0", "1/70368744177664", "1/1099511627776", "1/4096", "1/2", "3", "1/1000", "1/10000000000"]) for _ in range(n)]
        lines.append(f"varclamp {fl} {n} " + " ".join(vs))
    return lines


# =============================================================== orchestration

RUNNERS = {"getitem": run_getitem, "logprob": run_logprob, "kl": run_kl, "delta": run_delta, "rsample": run_rsample,
           "op": run_op, "moments": run_moments}


def _desc(case):
    np = _np()
    k = case["kind"]
    if k == "getitem":
        return f"getitem {case['rep']} {np.array(case['mu']).shape} {idx_show(idx_unjson(case['idx']))}"
    if k == "logprob":
        return (f"logprob {case['rep']} {case['cfg']} mean{np.array(case['mu']).shape} cov{np.array(case['S']).shape} "
                f"value{np.array(case['v']).shape}")
    if k == "kl":
        return (f"kl p={case['p']['rep']}{np.array(case['p']['mu']).shape} q={case['q']['rep']}{np.array(case['q']['mu']).shape} "
                f"fast={case['fast']} same={case.get('same', False)} #{case.get('serial')}")
    if k == "delta":
        return f"delta-kl {case['rep']} mean{np.array(case['mu']).shape} v{np.array(case['v']).shape}"
    if k == "rsample":
        return f"rsample {case['rep']} mean{np.array(case['mu']).shape} cov{np.array(case['S']).shape} A{np.array(case['A']).shape} ss={case['ss']}"
    if k == "op":
        a = case.get("arg")
        return (f"op {case['op']} {case['rep']} mean{np.array(case['mu']).shape} cov{np.array(case['S']).shape} "
                f"arg={a if not isinstance(a, dict) else (a['rep'], np.array(a['mu']).shape)}")
    if k == "fsample":
        return (f"fsample {case['rep']} mean{np.array(case['mu']).shape} ss={case['ss']} before={case['pre']} derive={case.get('derive')}")
    if k == "init":
        return f"init {case['rep']} mean{np.array(case['mu']).shape} cov{np.array(case['S']).shape}"
    if k == "hist":
        return (f"hist {case['rep']} mean{np.array(case['mu']).shape} before={case['pre']} "
                f"ops={[(o[0], o[1] if not isinstance(o[1], dict) else (o[1]['rep'],)) for o in case['ops']]}")
    if k == "getitem-var":
        return (f"getitem-var {case['rep']} {np.array(case['mu']).shape} scales={case['scales']} floor={case.get('floor')} "
                f"{idx_show(idx_unjson(case['idx']))}")
    return f"{k} {case.get('rep')} mean{np.array(case['mu']).shape}"


def _getitem_cases(ctx, rng):
    np = _np()
    quick = ctx.tier == "quick"
    out = []
    for rep in REPS_ALL:
        for batch in [(), (2,), (2, 3)]:
            for n in ((1, 2, 3, 4) if (not quick or rep in REPS) else (rng.choice((1, 2, 3)), 4)):
                mu, A, S = gen_params(rng, batch, n, kind=_kind(rep))
                for idx in getitem_indices(batch, n, ctx.tier, rng, rep):
                    out.append({"kind": "getitem", "rep": rep, "mu": mu, "S": S, "A": A, "idx": idx_json(idx)})
    # mean batch != covariance batch
    for rep in ("dense", "lazy", "root"):
        for mb, cb in [((), (2,)), ((2,), ()), ((1,), (2,)), ((2, 1), (1, 3))]:
            n = 3
            mu, _, _ = gen_params(rng, mb, n)
            _, A, S = gen_params(rng, cb, n, kind=_kind(rep))
            full = _bshape(mb, cb)
            for idx in [(0,), (slice(None), 0) if len(full) else (Ellipsis, slice(0, 2)), (Ellipsis, slice(1, None)),
                        (Ellipsis, [2, 0]), (-1, Ellipsis)]:
                out.append({"kind": "getitem", "rep": rep, "mu": np.broadcast_to(mu, full + (n,)).copy(),
                            "S": np.broadcast_to(S, full + (n, n)).copy(), "A": A, "mu_build": mu, "S_build": S,
                            "idx": idx_json(idx)})
    return out


def all_cases(ctx):
    cases = []
    cases += _getitem_cases(ctx, ctx.rng("getitem"))
    cases += [c for c in logprob_cases(ctx, ctx.rng("logprob")) if not (c["rep"] == "diag" and c["cfg"] == "cg-quad")]
    kc = kl_cases(ctx, ctx.rng("kl"))
    for i, c in enumerate(kc):
        c["serial"] = i
    cases += kc
    cases += rsample_cases(ctx, ctx.rng("rsample"))
    cases += op_cases(ctx, ctx.rng("op"))
    cases += moments_cases(ctx, ctx.rng("moments"))
    cases += hist_cases(ctx, ctx.rng("hist"))
    cases += warm_cases(ctx, ctx.rng("warm"))
    cases += init_cases(ctx, ctx.rng("init"))
    cases += fsample_cases(ctx, ctx.rng("fsample"))
    cases += getitem_var_cases(ctx, ctx.rng("getitem-var"))
    return cases


def _payload(case):
    return C.jsonable({k: (v if not hasattr(v, "tolist") else v.tolist()) for k, v in case.items()})


def _drive(ctx, lines):
    """Driver replies (Lean) for all lines, plus the Python mirror; any disagreement is a broken tie."""
    py = [py_reply(l) for l in lines]
    if not lines:
        return py, True
    try:
        lean = C.run_driver("C10", lines)
    except Exception as e:
        ctx.broke("correspondence", "driver C10", str(e)[-1500:])
        return py, False
    mism = [(l, a, b) for l, a, b in zip(lines, lean, py) if a != b]
    ctx.count("driver_lines", len(lines))
    ctx.count("driver_vs_python_exact_mismatches", len(mism))
    for l, a, b in mism[:3]:
        ctx.broke("correspondence", "model-vs-python:" + l.split()[0], f"request `{l[:200]}`\nlean:   {a[:300]}\npython: {b[:300]}")
    if mism:
        # the tie is broken (reported above); the implementation is judged by the specification = the exact Python mirror
        lean = [b if a != b else a for a, b in zip(lean, py)]
    return lean, True


def _execute(ctx, cases, use_driver=True):
    import torch
    torch.set_num_threads(2)
    torch.set_default_dtype(torch.float64)
    statuses, rej_msgs, rres_max, prim, asm = {}, {}, 0.0, {}, []
    pend, lines = [], []
    for case in cases:
        ls, judge = RUNNERS[case["kind"]](case)
        pend.append((case, len(lines), len(ls), judge))
        lines += ls
    extra = model_lines(ctx, ctx.rng("model-lines")) if use_driver else []
    nl = len(lines)
    if use_driver:
        replies, _ = _drive(ctx, lines + extra)
    else:
        replies = [py_reply(l) for l in lines]
    for case, lo, k, judge in pend:
        res = judge(replies[lo:lo + k])
        st = f"{case['kind']}:{res['status']}"
        statuses[st] = statuses.get(st, 0) + 1
        if "reject_msg" in res:
            key = f"{res['status']}: {res['reject_msg']}"
            key = "".join(ch if not ch.isdigit() else "#" for ch in key)[:110]
            rej_msgs[key] = rej_msgs.get(key, 0) + 1
        rres_max = max(rres_max, res.get("rres", 0.0))
        asm.extend(res.get("asm", []))
        if "assumption" in res:
            if "prim" in res:
                prim[res["prim"]] = prim.get(res["prim"], 0) + 1
                if prim[res["prim"]] == 1:
                    ctx.assumption("ASSUMPTION " + res["assumption"])
            else:
                ctx.assumption(res["assumption"])
        compared = res["status"] == "compared" or res["status"].startswith("raised") or res["status"].startswith("rejected")
        ctx.case(_desc(case), nontrivial=(res["status"] == "compared"),
                 sample={"case": _desc(case), "status": res["status"]} if res["status"] == "compared" else None)
        for key, what in res["fails"]:
            ctx.fail(key, what, _payload(case))
        for name, detail in res["broke"]:
            ctx.broke("correspondence", name, detail)
    # second pass: the regenerated assembly formulas (log_prob: -0.5*sum([...]); kl: 0.5*sum([...])) evaluated by the driver
    # on the exact pieces must reproduce the value every comparison above used
    if use_driver and asm:
        seen, alines, avals = set(), [], []
        for ln, val in asm:
            if ln not in seen and len(alines) < (2000 if ctx.tier == "quick" else 20000):
                seen.add(ln)
                alines.append(ln)
                avals.append(val)
        areps, ok = _drive(ctx, alines)
        bad_ = 0
        for ln, val, rp in zip(alines, avals, areps):
            try:
                got = float(Fraction(rp))
            except Exception:
                got = float("nan")
            if not abs(got - val) <= 1e-11 * max(1.0, abs(val)):
                bad_ += 1
                if bad_ <= 3:
                    ctx.broke("correspondence", "generated-assembly:" + ln.split()[0],
                              f"`{ln[:200]}` -> {rp[:80]}; the harness formula (the specification) gives {val!r}")
        ctx.count("generated_assembly_lines", len(alines))
        ctx.count("generated_assembly_mismatches", bad_)
    ctx.notes["case_status_counts"] = dict(sorted(statuses.items()))
    ctx.notes["getitem_rejection_reasons"] = dict(sorted(rej_msgs.items(), key=lambda kv: -kv[1])[:25])
    ctx.notes["max_root_decomposition_residual"] = rres_max
    ctx.notes["linear_operator_primitive_contract_failures"] = prim
    ctx.notes["model_only_lines"] = len(extra)
    if rres_max > 1e-9:
        ctx.assumption(f"linear_operator root_decomposition residual max|R R^T - Sigma| = {rres_max:.3g} (> 1e-9)")


def _only_known_failures(ctx):
    import fnmatch
    known = C.known_findings(ID)
    return not any(not any(fnmatch.fnmatch(f["key"], k["match"]) for k in known) for f in ctx.failures)


def correspondence(ctx):
    _execute(ctx, all_cases(ctx), use_driver=True)
    # run.py starts `search` only when there is no failure at all, and C10's two known findings fire on every run: when
    # something broke and nothing but the known findings failed, the deep search is started here
    if ctx.broken and _only_known_failures(ctx):
        ctx.notes["deep_search"] = "started by correspondence (something broke, only known findings failed)"
        _deep_search(ctx, ctx.broken)


GETITEM_TOKENS = ("getitem", "dispatch", "new_cov", "last_idx", "rest_idx", "scale_tril", "new_mean", "covSel", "index tuple")


def _deep_search(ctx, broken):
    """Deeper generators for what broke.  A broken translation / proof about `__getitem__` (or any translator error — the
    message names one statement only): the full product of warm-up x index form of the "warm then derive" histories."""
    txt = " ".join(f"{k} {n} {d}" for k, n, d in broken)
    if any(k == "translator" for k, _, _ in broken) or any(t in txt for t in GETITEM_TOKENS):
        saved = {k: ctx.notes.get(k) for k in ("case_status_counts", "getitem_rejection_reasons")}
        _execute(ctx, warm_cases(ctx, ctx.rng("warm-deep"), deep=True), use_driver=False)
        ctx.notes["deep_search_case_status_counts"] = ctx.notes.get("case_status_counts")
        ctx.notes.update({k: v for k, v in saved.items() if v is not None})


def search(ctx, broken):
    """A proof or the driver tie broke: the implementation is judged against the independent exact Python
    mirror (`py_reply`), which does not depend on the Lean side."""
    if not _only_known_failures(ctx):
        return
    _execute(ctx, all_cases(ctx), use_driver=False)
    if _only_known_failures(ctx):
        _deep_search(ctx, broken)


def replay(ctx, payload):
    """Re-run one recorded case against the exact Python mirror; True when it no longer fails."""
    import torch
    torch.set_num_threads(2)
    torch.set_default_dtype(torch.float64)
    case = payload["case"]
    lines, judge = RUNNERS[case["kind"]](case)
    res = judge([py_reply(l) for l in lines])
    for k, w in res["fails"]:
        print(f"  {k}: {w}"[:400])
    return not res["fails"]


# =============================================================== op-then-use histories (cached factors must follow the ops)

USES = ("lp-torch", "lp-lo", "rsample", "scale_tril", "variance", "entropy", "cov")


def _relclose(A, B, scale, rtol=RTOL):
    """Entrywise |A-B| <= rtol*scale (scale broadcastable, >= 0) + 1e-300; NaN/inf never close; shapes must agree."""
    np = _np()
    A, B = np.asarray(A, dtype=float), np.asarray(B, dtype=float)
    if A.shape != B.shape:
        return False
    if A.size == 0:
        return True
    return bool(np.all(np.abs(A - B) <= rtol * np.broadcast_to(scale, B.shape) + 1e-300))


def _cov_scale(S):
    np = _np()
    dg = np.abs(np.diagonal(S, axis1=-2, axis2=-1))
    return np.sqrt(dg[..., :, None] * dg[..., None, :])


def _min_var():
    import torch
    import gpytorch.settings as gs
    return float(gs.min_variance.value(torch.float64))


def _sclass(a):
    if not isinstance(a, (int, float)):
        return ""
    if a == 0:
        return "(zero)"
    t = "tiny" if abs(a) < 1e-3 else ""
    return f"({'neg' if a < 0 else 'pos'}{t})"


def _use(d, what, v, k):
    """Exercise one consumer of the distribution (result discarded)."""
    import torch
    import gpytorch.settings as gs
    if what == "lp-torch":
        with gs.fast_computations(log_prob=False):
            return d.log_prob(v)
    if what == "lp-lo":
        with gs.fast_computations(log_prob=True):
            return d.log_prob(v)
    if what == "rsample":
        return d.rsample(base_samples=torch.ones(tuple(d.batch_shape) + (k,), dtype=torch.float64))
    if what == "scale_tril":
        return d.scale_tril
    if what == "variance":
        return d.variance
    if what == "entropy":
        return d.entropy()
    if what == "cov":
        return d.covariance_matrix
    if what == "stddev":
        return d.stddev
    if what == "confidence_region":
        return d.confidence_region()
    if what == "precision":
        return d.precision_matrix
    if what == "rsample-free":
        return d.rsample(torch.Size([2]))
    if what in ("cholesky", "root", "root_inv"):
        # caches that live on the LinearOperator (linear_operator, outside /repo): a refusal of the primitive is not judged
        try:
            lc = d.lazy_covariance_matrix
            return {"cholesky": lc.cholesky, "root": lc.root_decomposition, "root_inv": lc.root_inv_decomposition}[what]()
        except Exception:
            return None
    raise ValueError(what)


# every quantity a MultivariateNormal (or its covariance operator) caches, touched in this order by the "warm" histories
WARMERS = ("scale_tril", "lp-torch", "lp-lo", "rsample", "rsample-free", "variance", "stddev", "confidence_region", "cov",
           "entropy", "precision", "cholesky", "root", "root_inv")


def _getitem_class(idx_p, shape):
    """Stable class name of an index expression (for failure keys): which batch entries are not `:` and what the event
    entry is (leading unit-step slice / offset slice / stepped slice / index list / int)."""
    full = _expand_ellipsis(list(idx_p), len(shape))
    if full is None:
        return "other"
    bk = sorted({("int" if isinstance(i, int) else "list" if isinstance(i, list) else "slice")
                 for i in full[:-1] if i != slice(None)})
    ev, n = full[-1], shape[-1]
    if isinstance(ev, int):
        ek = "int"
    elif isinstance(ev, list):
        ek = "list"
    else:
        lo, hi, st = ev.indices(n)
        ek = "step" if st != 1 else ("offset" if lo != 0 else ("all" if hi >= n else "leading"))
    parts = (["batch-" + "+".join(bk)] if bk else []) + ([] if ek == "all" else ["event-" + ek])
    return ",".join(parts) or "all"


def _root_split(dist, X, S2, rtol=1e-7):
    """Assume/guarantee split for `rsample(base_samples)`.  X: stacked unit-vector responses (numpy), S2: expected
    covariance.  Returns (verdict, residual): 'ok' (X X^T = S2); 'primitive' (X is exactly the root that
    linear_operator's `root_decomposition()` returned, but that root violates R R^T = covariance — an assumption
    failure of linear_operator, outside /repo); 'gpytorch' (X X^T != S2 and X is not the primitive's root)."""
    np = _np()
    G = X @ np.swapaxes(X, -1, -2)
    if _relclose(G, S2, _cov_scale(S2), rtol):
        return "ok", 0.0
    resid = float(np.max(np.abs(G - S2))) if G.shape == S2.shape else float("nan")
    try:
        R = dist.lazy_covariance_matrix.root_decomposition().root.to_dense().detach().numpy()
        R = np.broadcast_to(R, X.shape[:-2] + R.shape[-2:])
        if R.shape == X.shape and _relclose(X, R, np.maximum(np.abs(R), np.sqrt(np.abs(np.diagonal(S2, axis1=-2, axis2=-1)))[..., None]), 1e-9):
            return "primitive", resid
    except Exception:
        pass
    return "gpytorch", resid


def _hist_consume(r, rep, out, v2, S2, B2, n2, sc, singular):
    """Every consumer of the result `r` of a history (filled into `out`)."""
    import torch
    np = _np()
    out["cov"] = r.covariance_matrix.detach().numpy()
    out["var"] = r.variance.detach().numpy()
    out["sd"] = r.stddev.detach().numpy()
    out["floor"] = _min_var()
    if not singular:
        tv2 = torch.tensor(v2, dtype=torch.float64)
        # CG on a covariance scaled far away from 1 is limited by absolute thresholds inside linear_operator's
        # CG (outside /repo): the quad-only CG path is exercised for moderate scales only
        # (DiagLinearOperator has an exact inv_quad_logdet of its own that ignores skip_logdet_forward)
        from linear_operator.operators import DiagLinearOperator
        is_diag = rep == "diag" or isinstance(r.lazy_covariance_matrix, DiagLinearOperator)   # e.g. the child of d[..., i]
        out["cfgs"] = [c for c in LP_CFGS if c != "cg-quad" or (1e-3 <= sc <= 1e3 and not is_diag)]
        for cfg in out["cfgs"]:
            try:
                with _cfg_ctx(cfg):
                    out["lp:" + cfg] = r.log_prob(tv2).detach().numpy()
            except Exception as e:
                out["lp:" + cfg] = e
        try:
            out["entropy"] = r.entropy().detach().numpy()
        except Exception as e:
            out["entropy"] = e
        try:
            out["tril"] = r.scale_tril.detach().numpy()
        except Exception as e:
            out["tril"] = e
        try:
            kr = int(r.base_sample_shape[-1])
            cols = []
            for j in range(kr):
                u = np.zeros(B2 + (kr,))
                u[..., j] = 1.0
                cols.append(r.rsample(base_samples=torch.tensor(u)).detach().numpy() - out["mean"])
            out["X"] = np.stack(cols, -1)
            out["Xverdict"] = _root_split(r, out["X"], S2) if out["X"].shape[:-1] == B2 + (n2,) else ("gpytorch", float("nan"))
        except Exception as e:
            out["X"] = e
            try:   # did the primitive break its contract (R R^T = A, for a non-root operator an n x n root)?
                R = r.lazy_covariance_matrix.root_decomposition().root.to_dense().detach().numpy()
                Rb = np.broadcast_to(R, B2 + R.shape[-2:])
                if not _relclose(Rb @ np.swapaxes(Rb, -1, -2), S2, _cov_scale(S2), 1e-7):
                    out["Xprim"] = float(np.max(np.abs(Rb @ np.swapaxes(Rb, -1, -2) - S2)))
            except Exception:
                pass


def _hist_source_checks(res, fail, out, src_mean, src_cov, mu, S, src_exp):
    """The operand of a history must be what it was (mean, covariance, Cholesky-path log_prob)."""
    np = _np()
    if not (_allclose(out["src_mean"], src_mean) and _allclose(out["src_cov"], src_cov)
            and _allclose(src_mean, mu) and _allclose(src_cov, S)):
        fail("source-changed", "the operand distribution's mean/covariance changed")
    got = out["src_lp"]
    if isinstance(got, Exception) or got.shape != src_exp.shape or \
            not np.all(np.abs(got - src_exp) <= ATOL + RTOL * np.maximum(1.0, np.abs(src_exp))):
        fail("source-changed", f"log_prob of the operand after the operation = "
             f"{got if isinstance(got, Exception) else got.reshape(-1)[:3].tolist()}, expected {src_exp.reshape(-1)[:3].tolist()}")
    return res


def run_hist(case):
    import torch
    import gpytorch.settings as gs
    np = _np()
    mu, S, A, z = (np.array(case[k]) for k in ("mu", "S", "A", "z"))
    rep, pre, ops = case["rep"], case["pre"], case["ops"]
    n = mu.shape[-1]
    B = mu.shape[:-1]
    indep = bool(ops) and ops[-1][0] == "indep"      # terminal: to_data_independent_dist()
    pre_s = "ALL-CACHES" if list(pre) == list(WARMERS) else pre
    where = (f"{rep} batch={B} n={n} uses-before={pre_s} ops="
             f"{[(o[0], o[1] if not isinstance(o[1], (dict, list)) else (o[1]['rep'] if isinstance(o[1], dict) else (idx_show(idx_unjson(o[1])) if o[0] == 'getitem' else o[1]))) for o in ops]}")
    # ---- expected parameters, by the same operations on the random vector
    m2, S2, sc = mu.copy(), S.copy(), 1.0
    names = []
    for name, arg in ops:
        names.append(name + (_sclass(arg) if name != "getitem" else
                             "(" + _getitem_class(idx_plain(idx_unjson(arg)), m2.shape) + ")"))
        if isinstance(arg, bool):
            arg = int(arg)
        if name == "mul":
            m2, S2, sc = m2 * arg, S2 * (arg * arg), sc * abs(arg)
        elif name == "div":
            c = 1.0 / arg
            m2, S2, sc = m2 * c, S2 * (c * c), sc * abs(c)
        elif name in ("add_scalar", "radd_scalar"):
            m2 = m2 + arg
        elif name == "sum":
            m2, S2 = m2 + np.array(arg["mu"]), S2 + np.array(arg["S"])
        elif name == "expand":
            c = m2.shape[-1]
            m2, S2 = np.broadcast_to(m2, tuple(arg) + (c,)), np.broadcast_to(S2, tuple(arg) + (c, c))
        elif name == "unsqueeze":
            dim = arg if arg >= 0 else m2.ndim - 1 + arg + 1
            m2, S2 = np.expand_dims(m2, dim), np.expand_dims(S2, dim)
        elif name == "jitter":
            S2 = S2 + arg * np.eye(m2.shape[-1])
        elif name == "getitem":   # any index form that leaves >= 1 dimension and has at most one index list (no pairing):
            # the marginal of the selected components, by torch indexing of position tags (an int in the event position
            # makes the former last batch dimension the event dimension, with a diagonal covariance)
            gi = idx_unjson(arg)
            m2, S2, amb_ = getitem_reference(np.array(m2), np.array(S2), idx_plain(gi), gi)[:3]
            assert S2 is not None and not amb_.any(), "history generator: 0-dim or paired index"
        elif name in ("use", "indep"):
            pass
    opsname = "+".join(names)
    m2, S2 = np.array(m2), np.array(S2)
    if m2.size == 0:       # empty selections are outside the property's quantifier (never generated on purpose)
        return [], (lambda replies: {"status": "excluded-empty", "fails": [], "broke": []})
    B2, n2 = m2.shape[:-1], m2.shape[-1]
    singular = sc == 0.0
    sd2 = np.sqrt(np.abs(np.diagonal(S2, axis1=-2, axis2=-1)))
    z2 = z[..., :n2] if (z.shape[:-1] == B2 and n2 <= n) else np.broadcast_to(np.resize(z.reshape(-1), n2), B2 + (n2,))
    v0 = mu + z
    v2 = m2 + sc * z2
    err, out, stage = None, {}, "construct"
    try:
        with warnings.catch_warnings():
            warnings.simplefilter("ignore")
            d = make_dist(rep, mu, S, A)
            k = int(d.base_sample_shape[-1])
            tv0 = torch.tensor(v0, dtype=torch.float64)
            stage = "use-before"
            for u in pre:
                _use(d, u, tv0, k)
            src_mean, src_cov = d.mean.detach().numpy().copy(), d.covariance_matrix.detach().numpy().copy()
            r = d
            for name, arg in ops:
                stage = f"op:{name}"
                if name == "mul":
                    r = r * arg
                elif name == "div":
                    r = r / arg
                elif name == "add_scalar":
                    r = r + arg
                elif name == "radd_scalar":
                    r = arg + r
                elif name == "sum":
                    o = make_dist(arg["rep"], np.array(arg["mu"]), np.array(arg["S"]), np.array(arg["A"]))
                    for u in pre:
                        _use(o, u, torch.tensor(np.array(arg["mu"])), int(o.base_sample_shape[-1]))
                    r = r + o
                elif name == "expand":
                    r = r.expand(torch.Size(arg))
                elif name == "unsqueeze":
                    r = r.unsqueeze(arg)
                elif name == "jitter":
                    r = r.add_jitter(arg)
                elif name == "getitem":
                    r = r[idx_real(idx_unjson(arg))]
                elif name == "use":
                    _use(r, arg, r.mean, int(r.base_sample_shape[-1]))
                elif name == "indep":
                    r = r.to_data_independent_dist()
            stage = "use-after"
            out["batch"] = tuple(r.batch_shape)
            out["mean"] = r.mean.detach().numpy()
            if indep:
                out["floor"] = _min_var()
                out["sd"] = r.stddev.detach().numpy()
                out["ilp"] = r.log_prob(torch.tensor(v2, dtype=torch.float64)).detach().numpy()
            else:
                _hist_consume(r, rep, out, v2, S2, B2, n2, sc, singular)
            # the source distribution must be what it was
            out["src_mean"], out["src_cov"] = d.mean.detach().numpy(), d.covariance_matrix.detach().numpy()
            try:
                with gs.fast_computations(log_prob=False):
                    out["src_lp"] = d.log_prob(tv0).detach().numpy()
            except Exception as e:
                out["src_lp"] = e
    except Exception as e:
        err = e
    lines, slots = [], []
    if not singular and not indep:
        for b in itertools.product(*[range(t) for t in B2]):
            lines.append(f"logprob {C.mat_tokens(S2[b])} {C.vec_tokens(m2[b])} {C.vec_tokens(v2[b])}")
            slots.append(("r", b))
    for b in itertools.product(*[range(t) for t in B]):
        lines.append(f"logprob {C.mat_tokens(S[b])} {C.vec_tokens(mu[b])} {C.vec_tokens(v0[b])}")
        slots.append(("s", b))

    def judge(replies):
        res = {"status": "compared", "fails": [], "broke": []}

        def fail(obs, msg):
            res["fails"].append((f"history:{opsname}:{obs}", f"{where}: {msg}"))
        if err is not None:
            res["status"] = f"raised:{type(err).__name__}"
            fail("raises", f"raises at {stage}: {type(err).__name__}: {str(err)[:160]}")
            return res
        lp_exp, ent_exp, src_exp = np.zeros(B2), np.zeros(B2), np.zeros(B)
        for (w, b), rp in zip(slots, replies):
            if rp == "singular":
                res["status"] = "discarded-singular"
                return res
            kv = _kv(rp)
            quad, det = float(Fraction(kv["quad"])), Fraction(kv["det"])
            if det <= 0:
                res["status"] = "discarded-nonpd"
                return res
            ld = _mp_log(det)
            if w == "r":
                lp_exp[b] = -0.5 * (quad + ld + n2 * math.log(2 * math.pi))
                ent_exp[b] = 0.5 * (n2 * (1 + math.log(2 * math.pi)) + ld)
            else:
                src_exp[b] = -0.5 * (quad + ld + n * math.log(2 * math.pi))
        if out["batch"] != tuple(B2) + ((n2,) if indep else ()):
            fail("batch-shape", f"batch_shape {out['batch']}, expected {tuple(B2) + ((n2,) if indep else ())}")
            return res
        if not _relclose(out["mean"], m2, np.maximum(np.abs(m2), sd2)):
            fail("mean", "mean of the result differs from the mean of the transformed random vector")
        if indep:      # Normal(mean, stddev) with stddev^2 = max(diag(covariance), min_variance), componentwise
            var_i = np.maximum(np.diagonal(S2, axis1=-2, axis2=-1), out["floor"])
            if not _relclose(out["sd"] ** 2, var_i, np.abs(var_i)):
                fail("stddev", f"stddev^2 of the independent Normal differs from max(diag(covariance), min_variance={out['floor']})")
            want = -0.5 * ((v2 - m2) ** 2 / var_i + np.log(var_i) + math.log(2 * math.pi))
            got = out["ilp"]
            if got.shape != want.shape or not np.all(np.abs(got - want) <= ATOL + RTOL * np.maximum(1.0, np.abs(want))):
                fail("logprob", f"log_prob of the independent Normal = {got.reshape(-1)[:3].tolist()}, componentwise Gaussian "
                     f"log density {want.reshape(-1)[:3].tolist()}")
            return _hist_source_checks(res, fail, out, src_mean, src_cov, mu, S, src_exp)
        if not _relclose(out["cov"], S2, _cov_scale(S2)):
            fail("covariance", f"covariance_matrix of the result differs from the transformed covariance "
                 f"(max dev {np.max(np.abs(out['cov'] - S2)) if out['cov'].shape == S2.shape else 'shape'})")
        var_exp = np.maximum(np.diagonal(S2, axis1=-2, axis2=-1), out["floor"])
        if not _relclose(out["var"], var_exp, np.abs(var_exp)):
            fail("variance", f"variance differs from max(diag(covariance), min_variance={out['floor']})")
        if not _relclose(out["sd"] ** 2, var_exp, np.abs(var_exp)):
            fail("stddev", "stddev^2 differs from variance")
        if not singular:
            for cfg in out["cfgs"]:
                got = out["lp:" + cfg]
                if isinstance(got, Exception):
                    fail(f"logprob:{cfg}", f"log_prob raises {type(got).__name__}: {str(got)[:120]}")
                    continue
                # cg-quad: quadratic part only (skip_logdet_forward): add back 0.5*log det = ent - 0.5*n*(1+log 2 pi)
                want = lp_exp if cfg != "cg-quad" else lp_exp + (ent_exp - 0.5 * n2 * (1 + math.log(2 * math.pi)))
                tol = 1e-6 if cfg == "cg-quad" else RTOL
                if got.shape != want.shape or not np.all(np.abs(got - want) <= ATOL + tol * np.maximum(1.0, np.abs(want))):
                    o = tuple(int(x) for x in np.argwhere(~(np.abs(got - want) <= ATOL + tol * np.maximum(1.0, np.abs(want))))[0]) \
                        if got.shape == want.shape else ()
                    fail(f"logprob:{cfg}", f"log_prob{list(o)} = {got[o] if got.shape == want.shape else got.shape!r}, Gaussian log "
                         f"density of the transformed vector is {want[o] if got.shape == want.shape else want.shape!r}")
            got = out["entropy"]
            if isinstance(got, Exception):
                fail("entropy", f"entropy raises {type(got).__name__}: {str(got)[:120]}")
            elif got.shape != ent_exp.shape or not np.all(np.abs(got - ent_exp) <= ATOL + RTOL * np.maximum(1.0, np.abs(ent_exp))):
                fail("entropy", f"entropy = {got.reshape(-1)[:3].tolist()}, 0.5*log det(2 pi e Sigma) = {ent_exp.reshape(-1)[:3].tolist()}")
            L = out["tril"]
            if isinstance(L, Exception):
                fail("scale_tril", f"scale_tril raises {type(L).__name__}: {str(L)[:120]}")
            else:
                Lb = np.broadcast_to(L, B2 + (n2, n2)) if L.shape != B2 + (n2, n2) else L
                if (not _relclose(Lb @ np.swapaxes(Lb, -1, -2), S2, _cov_scale(S2), 1e-7)
                        or not np.all(np.diagonal(Lb, axis1=-2, axis2=-1) > 0) or np.any(np.triu(Lb, 1) != 0)):
                    fail("scale_tril", "scale_tril is not the lower Cholesky factor (positive diagonal, L L^T = covariance) "
                         f"of the result; min diagonal {np.min(np.diagonal(Lb, axis1=-2, axis2=-1)):.3g}")
            X = out["X"]
            if isinstance(X, Exception) and "Xprim" in out:
                res["assumption"] = (f"linear_operator root_decomposition() of {opsname} result ({rep}) violates R R^T = A "
                                     f"(max dev {out['Xprim']:.3g}); rsample(base_samples) raised {type(X).__name__}")
                res["prim"] = f"root_decomposition:{rep}:{opsname}"
            elif isinstance(X, Exception):
                fail("rsample", f"rsample(base_samples) raises {type(X).__name__}: {str(X)[:120]}")
            elif out["Xverdict"][0] == "gpytorch":
                fail("rsample", f"stacked unit-vector responses X of the result do not satisfy X X^T = covariance (max dev "
                     f"{out['Xverdict'][1]:.3g}) and X is not the root returned by root_decomposition()")
            elif out["Xverdict"][0] == "primitive":
                res["assumption"] = (f"linear_operator root_decomposition() of {opsname} result ({rep}) violates R R^T = A "
                                     f"(max dev {out['Xverdict'][1]:.3g}); rsample used exactly that root")
                res["prim"] = f"root_decomposition:{rep}:{opsname}"
        return _hist_source_checks(res, fail, out, src_mean, src_cov, mu, S, src_exp)
    return lines, judge


def hist_cases(ctx, rng):
    quick = ctx.tier == "quick"
    out = []
    scal = [-2, -0.5, -1, -1.0, 3, 0.25, 2.0 ** -20, -(2.0 ** -20), 0, -3.0]
    pres = [[], ["lp-torch"], ["lp-lo"], ["rsample"], ["scale_tril"], ["entropy"], ["variance", "cov"],
            ["lp-lo", "lp-torch", "rsample"]]
    for rep in REPS_ALL:
        for b in [(), (2,), (2, 3)] + ([(2, 1, 2)] if (not quick or rep in ("lazy", "rootwide")) else []):
            def P(n, bb=b, rp=rep):
                mu, A, S = gen_params(rng, bb, n, kind=_kind(rp))
                return {"rep": rp, "mu": mu, "S": S, "A": A}
            for pre in (pres if not quick else [pres[0]] + rng.sample(pres[1:], 2)):
                for s in (scal if not quick else rng.sample(scal[:4], 2) + rng.sample(scal[4:], 2)):
                    n = rng.randint(1, 4)
                    base = dict(P(n), kind="hist", pre=pre, z=_dyadic(rng, tuple(b) + (n,), -12, 12, 8))
                    out.append(dict(base, ops=[["mul", s]]))
                    if s != 0 and rng.random() < (0.5 if quick else 1.0):
                        n = rng.randint(1, 4)
                        base = dict(P(n), kind="hist", pre=pre, z=_dyadic(rng, tuple(b) + (n,), -12, 12, 8))
                        out.append(dict(base, ops=[["div", s]]))
                n = rng.randint(1, 4)
                base = lambda: dict(P(n), kind="hist", pre=pre, z=_dyadic(rng, tuple(b) + (n,), -12, 12, 8))
                neg = rng.choice([-2, -0.5, -3.0])
                others = [
                    [["add_scalar", -1.5]], [["radd_scalar", 2]], [["mul", neg], ["mul", rng.choice([-0.5, 4])]],
                    [["mul", neg], ["use", "lp-torch"], ["div", -2]], [["mul", neg], ["add_scalar", 0.5], ["use", "entropy"]],
                    [["expand", list((2,) + b)], ["mul", neg]], [["mul", neg], ["expand", list((3,) + b)]],
                    [["unsqueeze", 0], ["mul", neg]], [["mul", neg], ["unsqueeze", -1]],
                    [["jitter", 0.25], ["mul", neg]], [["mul", neg], ["jitter", 0.25]], [["jitter", 0.0]], [["jitter", 0], ["mul", neg]],
                    [["add_scalar", 0]], [["mul", True]], [["add_scalar", 0.0], ["mul", neg]],
                    [["sum", P(n, b, rng.choice(REPS_ALL))], ["mul", neg]], [["mul", neg], ["sum", P(n, b, rng.choice(REPS_ALL))]],
                    [["expand", list((2,) + b)], ["use", "lp-torch"], ["div", neg]],
                ]
                if len(b):
                    others += [[["getitem", idx_json((0,))], ["mul", neg]], [["mul", neg], ["getitem", idx_json((-1,))]],
                               [["mul", neg], ["getitem", idx_json((Ellipsis, slice(0, max(1, n - 1))))]]]
                else:
                    others += [[["mul", neg], ["getitem", idx_json((slice(0, max(1, n - 1)),))]],
                               [["getitem", idx_json(([n - 1, 0],))], ["mul", neg]]]
                for ops in (others if not quick else rng.sample(others, 6)):
                    out.append(dict(base(), ops=ops))
    return out


# =============================================================== "warm then derive" histories
#
# On a PARENT object first touch every cached quantity (scale_tril / Cholesky-path log_prob / fast log_prob / rsample with and
# without base samples / variance / stddev / covariance_matrix / entropy / precision_matrix / the operator's cholesky,
# root_decomposition, root_inv_decomposition), THEN derive a child by every operation (`__getitem__` with every index form,
# expand, unsqueeze, `+` scalar / MVN, `*`, `/`, add_jitter, to_data_independent_dist) and judge every accessor of the
# CHILD (run_hist: mean, covariance, variance, stddev, log_prob on three paths, entropy, scale_tril, rsample unit-vector
# stack) against the dense marginal / transformed distribution; the parent must be unchanged.  A cached factor of the
# parent that is carried over to the child (as expand / unsqueeze legitimately do) must be a factor of the CHILD's covariance.

def _warm_getitem_indices(batch, n, rng, deep):
    """Index expressions (no pairing of advanced indices, >= 1 dimension left, non-empty, no repeated event component):
    every event form {leading / offset / stepped / negative-bound slices, index lists and tensors in any order, ints} x
    batch prefixes {int, negative int, `:`, offset slice, index list}, batch-only forms, ellipsis forms."""
    nb = len(batch)
    ev_sl = [slice(None), slice(None, n - 1), slice(1, None), slice(1, n - 1), slice(None, None, 2), slice(1, None, 2),
             slice(-2, None), slice(None, None, 3), slice(n - 1, None)]
    ev_li = [[n - 1, 0], [1], ("tensor", [2, 0, 1]), ("tensor", [0, n - 1]), list(range(n - 1, -1, -1)), [-1, 1]]
    ev_int = [0, -1, n - 2]

    def bpre(s):
        return [0, -1, slice(None), slice(1, None), [s - 1, 0], ("tensor", [0])]
    out = []
    if nb == 0:
        out += [(e,) for e in ev_sl + ev_li] + [(Ellipsis, e) for e in (ev_sl[2], ev_sl[4], ev_li[0])] + [(ev_sl[3], Ellipsis)]
        return out      # n >= 4: every form above is non-empty
    pres = list(itertools.product(*[bpre(s) for s in batch]))
    # at most one advanced index in the whole expression
    pres_basic = [p for p in pres if not any(isinstance(i, (list, tuple)) for i in p)]
    pres_one = [p for p in pres if sum(isinstance(i, (list, tuple)) for i in p) == 1]
    # batch-only
    for k in range(1, nb + 1):
        for p in (pres_basic + pres_one if deep else rng.sample(pres_basic, min(4, len(pres_basic))) + rng.sample(pres_one, 2)):
            out.append(tuple(p[:k]))
    out += [(Ellipsis,), (0, Ellipsis), (Ellipsis, slice(None))]
    for j, e in enumerate(ev_sl + ev_li + ev_int):
        adv = isinstance(e, (list, tuple))
        pool = pres_basic if adv else pres_basic + pres_one
        if isinstance(e, int):      # an int in the event position: keep at least one batch dimension
            pool = [p for p in pool if any(not isinstance(i, int) for i in p)]
        chosen = pool if deep else [pool[(j * 5 + 1) % len(pool)], rng.choice(pool)]
        for p in chosen:
            if isinstance(e, int) and not any(not isinstance(i, int) for i in p):
                continue
            out.append(tuple(p) + (e,))
        out.append((Ellipsis, e))
        if nb == 2 and (deep or j % 3 == 0):
            out.append((0, Ellipsis, e))
    import torch
    probe = torch.zeros(tuple(batch) + (n,))
    seen, uniq = set(), []
    for i in out:
        k = repr(idx_json(i))
        if k in seen:
            continue
        seen.add(k)
        sh = tuple(probe[idx_real(i)].shape)
        if len(sh) >= 1 and 0 not in sh:       # the property quantifies over non-empty results with >= 1 dimension
            uniq.append(i)
    return uniq


def warm_cases(ctx, rng, deep=False):
    """quick: full index-form list (two batch prefixes + the ellipsis form per event form) under the ALL-caches warm-up for
    `dense` and `lazy`, samples for the other representations and for single warm-ups; thorough: additionally every single
    warm-up (sampled index forms), 4 batch shapes, the full prefix x event product for `dense` / `lazy` with <= 1 batch
    dimension; deep (started by `search` / `correspondence` when a proof or the translation of `__getitem__` broke): the
    full prefix x event product for `dense` / `lazy` up to 2 batch dimensions, 25 index forms per single warm-up."""
    quick = ctx.tier == "quick" and not deep
    out = []
    ALL = list(WARMERS)
    singles = [[w] for w in WARMERS]
    for rep in REPS_ALL:
        heavy = rep in ("dense", "lazy")
        batches = [(), (2,), (2, 3)] + ([(2, 1, 2)] if not quick else [])
        if quick and not heavy:
            batches = [(), rng.choice([(2,), (2, 3)])]
        for b in batches:
            def P(n, bb=b, rp=rep):
                mu, A, S = gen_params(rng, bb, n, kind=_kind(rp))
                return {"rep": rp, "mu": mu, "S": S, "A": A}

            def base(n, pre):
                return dict(P(n), kind="hist", pre=pre, z=_dyadic(rng, tuple(b) + (n,), -12, 12, 8))
            if deep:
                pres = [ALL] + singles
            elif quick:
                pres = [ALL] + rng.sample(singles[:3], 1) + (rng.sample(singles[3:], 1) if heavy else [])
            else:
                pres = [ALL] + singles
            for pi, pre in enumerate(pres):
                n = rng.choice((4, 5))
                full_product = pi == 0 and heavy and len(b) <= 2 and (deep or (not quick and len(b) <= 1))
                idxs = _warm_getitem_indices(b, n, rng, full_product)
                if pi > 0:
                    idxs = rng.sample(idxs, min((25 if heavy else 5) if deep else ((6 if heavy else 4) if quick else 3), len(idxs)))
                elif quick and not heavy:
                    idxs = rng.sample(idxs, min(10, len(idxs)))
                for idx in idxs:
                    out.append(dict(base(n, pre), ops=[["getitem", idx_json(idx)]]))
                if pi > 0 and (not deep or pi > 2):
                    continue
                neg = rng.choice([-2, -0.5, -3.0])
                n = rng.randint(3, 4)
                derive = [[["expand", list((2,) + b)]], [["expand", list((3, 1) + b)]], [["unsqueeze", 0]], [["unsqueeze", -1]],
                          [["add_scalar", -1.5]], [["radd_scalar", 2]], [["mul", neg]], [["mul", 3]], [["div", neg]],
                          [["jitter", 0.25]], [["sum", P(n, b, rng.choice(REPS_ALL))]], [["sum", P(n, b, rep)]], [["indep", None]],
                          [["getitem", idx_json((Ellipsis, slice(1, None)))], ["indep", None]],
                          [["getitem", idx_json((Ellipsis, slice(1, None)))], ["use", "scale_tril"],
                           ["getitem", idx_json((Ellipsis, slice(1, None)))]],
                          [["expand", list((2,) + b)], ["getitem", idx_json((Ellipsis, slice(None, None, 2)))]],
                          [["unsqueeze", 0], ["getitem", idx_json((0, Ellipsis, [n - 1, 0]))]],
                          [["mul", neg], ["getitem", idx_json((Ellipsis, slice(1, None)))]]]
                for ops in (derive if (heavy or not quick) else rng.sample(derive, 6)):
                    out.append(dict(base(n, pre), ops=ops))
    return out


# =============================================================== rsample() WITHOUT base_samples, made deterministic

def run_fsample(case):
    """`torch.manual_seed(s); z = d.rsample(sample_shape)` on a cold or warmed (optionally expanded / unsqueezed) object.
    The standard-normal draw the sampler consumed is recovered by re-seeding (`torch.randn(*batch, k, S)`, the layout of
    linear_operator's `zero_mean_mvn_samples`; `(S, *batch, k)` for a DiagLinearOperator) and put into the public layout
    `sample_shape + batch + (k,)` (the permutation of `gen_rsample_entry_map`).  Required: z == mean + R eps exactly (driver,
    generated `rsampleCore`, R = the root the object uses), z == `rsample(base_samples=eps)` of a fresh twin, and
    z == the seeded `rsample()` of a cold twin (sampling does not depend on what was computed on the object before)."""
    import torch
    np = _np()
    mu, S, A = (np.array(case[k]) for k in ("mu", "S", "A"))
    rep, ss, pre, derive, seed = case["rep"], tuple(case["ss"]), case["pre"], case.get("derive"), case["seed"]
    n, B = mu.shape[-1], mu.shape[:-1]
    pre_s = "ALL-CACHES" if list(pre) == list(WARMERS) else pre
    where = f"{rep} batch={B} n={n} sample_shape={ss} uses-before={pre_s} derive={derive}"
    Sn = int(np.prod(ss)) if ss else 1

    def der(x):
        if derive is None:
            return x
        return x.expand(torch.Size((2,) + B)) if derive == "expand" else x.unsqueeze(0)
    err, out = None, {}
    try:
        with warnings.catch_warnings():
            warnings.simplefilter("ignore")
            d = make_dist(rep, mu, S, A)
            k = int(d.base_sample_shape[-1])
            for u in pre:
                _use(d, u, torch.tensor(mu, dtype=torch.float64), k)
            r = der(d)
            B2 = tuple(r.batch_shape)
            torch.manual_seed(seed)
            out["z"] = r.rsample(torch.Size(ss)).detach().numpy()
            cold = der(make_dist(rep, mu, S, A))
            torch.manual_seed(seed)
            out["zc"] = cold.rsample(torch.Size(ss)).detach().numpy()
            torch.manual_seed(seed)
            if rep == "diag":
                eps = torch.randn(Sn, *B2, k).view(*ss, *B2, k)
            else:
                eps = torch.randn(*B2, k, Sn).permute(-1, *range(len(B2) + 1)).contiguous().view(*ss, *B2, k)
            twin = der(make_dist(rep, mu, S, A))
            out["ref"] = twin.rsample(base_samples=eps).detach().numpy()
            R = twin.lazy_covariance_matrix.root_decomposition().root.to_dense().detach().numpy()
            out["R"] = np.broadcast_to(R, B2 + R.shape[-2:])
            out["eps"], out["B2"] = eps.numpy(), B2
            out["mean"] = np.broadcast_to(twin.mean.detach().numpy(), B2 + (n,))
    except Exception as e:
        err = e
    lines, slots = [], []
    if err is None and out["R"].shape[-1] == out["eps"].shape[-1] and out["R"].shape[-2] == n:
        for s_ in list(itertools.product(*[range(t) for t in ss]))[:2]:
            for b in itertools.product(*[range(t) for t in out["B2"]]):
                lines.append(f"rsample {C.vec_tokens(out['mean'][b])} {C.mat_tokens(out['R'][b])} {C.vec_tokens(out['eps'][s_ + b])}")
                slots.append(s_ + b)

    def judge(replies):
        res = {"status": "compared", "fails": [], "broke": []}
        cls = "cold" if not pre else "warm"

        def fail(obs, msg):
            res["fails"].append((f"rsample-free:{obs}:{cls}" + (f":{derive}" if derive else ""), f"{where}: {msg}"))
        if err is not None:
            res["status"] = f"raised:{type(err).__name__}"
            fail("raises", f"raises {type(err).__name__}: {str(err)[:160]}")
            return res
        z = out["z"]
        want_shape = ss + out["B2"] + (n,)
        if z.shape != want_shape:
            fail("shape", f"rsample(sample_shape) has shape {z.shape}, expected {want_shape}")
            return res
        sc = np.maximum(1.0, np.abs(out["ref"]))
        if out["ref"].shape != z.shape or not np.all(np.abs(z - out["ref"]) <= 1e-9 * sc):
            dev = float(np.max(np.abs(z - out["ref"]))) if out["ref"].shape == z.shape else float("nan")
            fail("pipeline", f"seeded rsample() differs from rsample(base_samples=eps) of a fresh twin for the recovered draw eps (max dev {dev:.3g}): "
                 f"the sample is not mean + R eps for the root R the distribution uses")
        if out["zc"].shape != z.shape or not np.all(np.abs(z - out["zc"]) <= 1e-9 * sc):
            dev = float(np.max(np.abs(z - out["zc"]))) if out["zc"].shape == z.shape else float("nan")
            fail("history", f"same seed, same parameters: rsample() of this object differs from rsample() of a cold twin (max dev {dev:.3g})")
        for o, rp in zip(slots, replies):
            rows, _ = C.parse_mat(rp.split(), 0)
            want = np.array([float(r_[0]) for r_ in rows])
            if not np.all(np.abs(z[o] - want) <= 1e-9 * np.max(np.abs(want), initial=1.0)):
                fail("value", f"rsample(){list(o)} = {z[o].tolist()}, mean + R eps = {want.tolist()} (R = root_decomposition().root, eps = the recovered draw)")
                break
        return res
    return lines, judge


def fsample_cases(ctx, rng):
    quick = ctx.tier == "quick"
    out = []
    ALL = list(WARMERS)
    singles = [[w] for w in WARMERS]
    sss = [(), (3,), (2, 2)]
    for rep in REPS_ALL:
        for b in [(), (2,), (2, 3)]:
            def mk(pre, ss, derive=None):
                n = rng.randint(2, 4)
                mu, A, S = gen_params(rng, b, n, kind=_kind(rep))
                return {"kind": "fsample", "rep": rep, "mu": mu, "S": S, "A": A, "ss": list(ss), "pre": pre, "derive": derive,
                        "seed": rng.randint(0, 10 ** 6)}
            for ss in sss:
                out.append(mk([], ss))
                out.append(mk(ALL, ss))
            for pre in (singles if not quick else rng.sample(singles, 2)):
                out.append(mk(pre, rng.choice(sss)))
            for derive in ("expand", "unsqueeze"):
                out.append(mk(ALL, rng.choice(sss), derive))
                if not quick:
                    out.append(mk([], rng.choice(sss), derive))
                    out.append(mk(["scale_tril"], rng.choice(sss), derive))
    return out


RUNNERS["fsample"] = run_fsample


# =============================================================== __init__: mean / covariance batch broadcast

INIT_BATCHES = [(), (1,), (2,), (3,), (1, 1), (2, 1), (1, 3), (2, 3), (1, 2, 3), (2, 1, 3), (2, 1, 1)]


def run_init(case):
    """The constructed object must be the batch of Gaussians N(mean[b], K[b]) over b in broadcast(mean batch, covariance
    batch): batch_shape, the stored mean / covariance (shape AND values), variance.  Generated `__init__` shapes (driver
    `initshape`) must be the stored shapes of the lazy branch."""
    np = _np()
    mu, S, A, rep = np.array(case["mu"]), np.array(case["S"]), np.array(case["A"]), case["rep"]
    n = mu.shape[-1]
    mb, cb = mu.shape[:-1], S.shape[:-2]
    try:
        full = _bshape(mb, cb)
    except ValueError:
        full = None
    cls = "same" if mb == cb else ("dense-broadcast" if rep == "dense" else "lazy-broadcast")
    where = f"{rep} mean_batch={mb} cov_batch={cb} n={n}"
    err, out = None, {}
    try:
        with warnings.catch_warnings():
            warnings.simplefilter("ignore")
            d = make_dist(rep, mu, S, A)
            out["batch"] = tuple(d.batch_shape)
            out["event"] = tuple(d.event_shape)
            out["loc_shape"] = tuple(d.loc.shape)
            out["covar_shape"] = tuple(d._covar.shape) if rep != "dense" else None
            out["mean"] = d.mean.detach().numpy()
            out["lazy_cov"] = d.lazy_covariance_matrix.to_dense().detach().numpy()
            out["cov"] = d.covariance_matrix.detach().numpy()
            out["var"] = d.variance.detach().numpy()
    except Exception as e:
        err = e
    lines = []
    if rep != "dense":
        f = lambda l: " ".join(map(str, [len(l)] + list(l)))
        lines.append(f"initshape {f(mu.shape)} | {f(S.shape)}")

    def judge(replies):
        res = {"status": "compared", "fails": [], "broke": []}
        if full is None:
            res["status"] = "rejected" if err is not None else "compared"
            if err is None:
                res["fails"].append((f"init:accepted-nonbroadcast:{cls}", f"{where}: batch shapes do not broadcast, constructor returned "
                                     f"batch_shape {out['batch']}"))
            if replies and replies[0] != "reject":
                res["broke"].append(("generated-init", f"{where}: generated __init__ shapes `{replies[0]}` for non-broadcastable batch shapes"))
            return res
        if err is not None:
            res["status"] = f"raised:{type(err).__name__}"
            res["fails"].append((f"init:raises:{cls}", f"{where}: constructor / accessor raises {type(err).__name__}: {str(err)[:160]}"))
            return res
        if replies:
            f = lambda l: " ".join(map(str, l))
            obs = f"loc: {f(out['loc_shape'])} | cov: {f(out['covar_shape'])} | batch: {f(out['batch'])}"
            if replies[0].strip() != obs.strip():
                res["broke"].append(("generated-init", f"{where}: generated __init__ gives `{replies[0]}`, the object stores `{obs}`"))
        if out["batch"] != full or out["event"] != (n,):
            res["fails"].append((f"init:batch-shape:{cls}", f"{where}: batch_shape {out['batch']} event_shape {out['event']}, expected "
                                 f"{full} / {(n,)}"))
        mu_f, S_f = np.broadcast_to(mu, full + (n,)), np.broadcast_to(S, full + (n, n))
        if not _allclose(out["mean"], mu_f):
            res["fails"].append((f"init:mean:{cls}", f"{where}: mean has shape {out['mean'].shape}, expected the given mean broadcast to {mu_f.shape}"))
        for nm in ("lazy_cov", "cov"):
            if not _allclose(out[nm], S_f):
                res["fails"].append((f"init:covariance:{cls}", f"{where}: {nm} has shape {out[nm].shape}, expected the given covariance "
                                     f"broadcast to {S_f.shape} (one covariance per batch member)"))
                break
        if rep != "dense" and (out["loc_shape"] != full + (n,) or out["covar_shape"] != full + (n, n)):
            res["fails"].append((f"init:stored-shape:{cls}", f"{where}: stored loc {out['loc_shape']} / covariance operator {out['covar_shape']}, "
                                 f"expected {full + (n,)} / {full + (n, n)}"))
        if not _allclose(out["var"], np.diagonal(S_f, axis1=-2, axis2=-1)):
            res["fails"].append((f"init:variance:{cls}", f"{where}: variance (shape {out['var'].shape}) != diag of the broadcast covariance"))
        return res
    return lines, judge


def init_cases(ctx, rng):
    quick = ctx.tier == "quick"
    out = []
    pairs = [(a, b) for a in INIT_BATCHES for b in INIT_BATCHES]
    for rep in REPS_ALL:
        ps = pairs if (not quick or rep in ("dense", "lazy")) else rng.sample(pairs, 30)
        for mb, cb in ps:
            n = rng.randint(1, 3)
            mu, _, _ = gen_params(rng, mb, n)
            _, A, S = gen_params(rng, cb, n, kind=_kind(rep))
            out.append({"kind": "init", "rep": rep, "mu": mu, "S": S, "A": A})
    return out


RUNNERS["init"] = run_init


# =============================================================== getitem on distributions with tiny / zero / user-floored variances

def run_getitem_var(case):
    """`settings.min_variance` documents a clamp of `.variance` only: the marginal's covariance, its log_prob
    and the parent's covariance must be the exact ones; `.variance` is max(diag, floor)."""
    import contextlib
    import torch
    import gpytorch.settings as gs
    np = _np()
    mu, S, A, z = (np.array(case[k]) for k in ("mu", "S", "A", "z"))
    rep, floor = case["rep"], case.get("floor")
    idx = idx_unjson(case["idx"])
    idx_p = idx_plain(idx)
    shape = list(mu.shape)
    where = (f"{rep} batch={tuple(shape[:-1])} n={shape[-1]} component sd scales={case['scales']} "
             f"min_variance={'default' if floor is None else floor} d{idx_show(idx)}")
    try:
        mean_ref, cov_ref, amb, b_sel, e_sel, case1 = getitem_reference(mu, S, idx_p, idx)
    except Exception:
        mean_ref = None
    err, out = None, {}
    if mean_ref is not None and mean_ref.ndim > 0 and mean_ref.size > 0:
        dg = np.diagonal(cov_ref, axis1=-2, axis2=-1)
        v = mean_ref + np.sqrt(np.abs(dg)) * np.broadcast_to(np.resize(z.reshape(-1), mean_ref.shape[-1]), mean_ref.shape)
        try:
            with warnings.catch_warnings():
                warnings.simplefilter("ignore")
                with (gs.min_variance(double_value=floor) if floor is not None else contextlib.nullcontext()):
                    out["floor"] = _min_var()
                    d = make_dist(rep, mu, S, A)
                    out["pvar"] = d.variance.detach().numpy()
                    r = d[idx_real(idx)]
                    out["mean"] = r.mean.detach().numpy()
                    out["cov"] = r.covariance_matrix.detach().numpy()
                    out["var"] = r.variance.detach().numpy()
                    out["pcov"] = d.covariance_matrix.detach().numpy()
                    if np.all(dg > 0) and not amb.any():
                        for cfg in ("torch-chol", "lo-chol"):
                            try:
                                with _cfg_ctx(cfg):
                                    out["lp:" + cfg] = r.log_prob(torch.tensor(v, dtype=torch.float64)).detach().numpy()
                            except Exception as e:
                                out["lp:" + cfg] = e
                # the same object, used again after the settings block ended: the floor in force NOW applies
                out["floor_after"] = _min_var()
                out["pvar_after"] = d.variance.detach().numpy()
        except Exception as e:
            err = e
    lines, slots = [], []
    if err is None and "lp:lo-chol" in out:
        for o in itertools.product(*[range(t) for t in mean_ref.shape[:-1]]):
            lines.append(f"logprob {C.mat_tokens(cov_ref[o])} {C.vec_tokens(mean_ref[o])} {C.vec_tokens(v[o])}")
            slots.append(o)
    vline = None
    if err is None and "pvar" in out and out["pvar"].shape == mu.shape:
        b0 = tuple(0 for _ in mu.shape[:-1])
        vline = b0
        lines.append(f"varclamp {C.rat_str(out['floor'])} {mu.shape[-1]} " + " ".join(C.rat_str(x) for x in np.diagonal(S[b0])))

    def judge(replies):
        res = {"status": "compared", "fails": [], "broke": []}
        sfx = "int-event" if (mean_ref is not None and case1) else "event"

        def fail(obs, msg):
            res["fails"].append((f"getitem-variance-floor:{sfx}:{obs}", f"{where}: {msg}"))
        if mean_ref is None or mean_ref.ndim == 0 or mean_ref.size == 0:
            res["status"] = "excluded"
            return res
        if err is not None:
            res["status"] = f"rejected:{type(err).__name__}"
            if must_accept(idx_p, shape):
                fail("raises", f"raises {type(err).__name__}: {str(err)[:140]}")
            return res
        fl = out["floor"]
        if not _relclose(out["pcov"], S, _cov_scale(S)):
            fail("parent-covariance", "covariance_matrix of the indexed distribution is not the given covariance")
        pv = np.maximum(np.diagonal(S, axis1=-2, axis2=-1), fl)
        if not _relclose(out["pvar"], pv, pv):
            fail("parent-variance", f"variance != max(diag, min_variance={fl})")
        pva = np.maximum(np.diagonal(S, axis1=-2, axis2=-1), out["floor_after"])
        if not _relclose(out["pvar_after"], pva, pva):
            fail("parent-variance-after-block", f"variance of the same object after the min_variance block != max(diag, {out['floor_after']})")
        if vline is not None:
            want = np.array([float(Fraction(t)) for t in replies[-1].split()])
            if not _relclose(out["pvar"][vline], want, np.abs(want)):
                fail("parent-variance", f"variance{list(vline)} = {out['pvar'][vline].tolist()}, generated clamp gives {want.tolist()}")
        if not _relclose(out["mean"], mean_ref, np.maximum(np.abs(mean_ref), 1e-30)):
            fail("mean", f"mean (shape {out['mean'].shape}) != mean{idx_show(idx)} (shape {mean_ref.shape})")
        if out["cov"].shape != cov_ref.shape:
            fail("covariance", f"covariance shape {out['cov'].shape}, marginal has {cov_ref.shape}")
            return res
        tol = 1e-300 + RTOL * _cov_scale(cov_ref)
        bad = ~(np.abs(out["cov"] - cov_ref) <= tol) & ~amb
        if bad.any():
            pos = tuple(int(x) for x in np.argwhere(bad)[0])
            fail("covariance", f"covariance_matrix{list(pos)} = {out['cov'][pos]!r}, covariance of the selected components is "
                 f"{cov_ref[pos]!r} (the min_variance clamp is documented for `.variance` only)")
        mv = np.maximum(np.diagonal(cov_ref, axis1=-2, axis2=-1), fl)
        if not _relclose(out["var"], mv, mv):
            fail("variance", f"variance of the marginal != max(diag of the marginal covariance, min_variance={fl})")
        if slots:
            k = mean_ref.shape[-1]
            exp = np.zeros(mean_ref.shape[:-1])
            for o, rp in zip(slots, replies):
                if rp == "singular":
                    return res
                kv = _kv(rp)
                det = Fraction(kv["det"])
                if det <= 0:
                    return res
                exp[o] = -0.5 * (float(Fraction(kv["quad"])) + _mp_log(det) + k * math.log(2 * math.pi))
            for cfg in ("torch-chol", "lo-chol"):
                got = out["lp:" + cfg]
                if isinstance(got, Exception):
                    fail(f"logprob:{cfg}", f"log_prob of the marginal raises {type(got).__name__}: {str(got)[:120]}")
                elif got.shape != exp.shape or not np.all(np.abs(got - exp) <= ATOL + 1e-7 * np.maximum(1.0, np.abs(exp))):
                    fail(f"logprob:{cfg}", f"log_prob of the marginal = {got.reshape(-1)[:3].tolist()}, exact marginal density "
                         f"{exp.reshape(-1)[:3].tolist()}")
        return res
    return lines, judge


def getitem_var_cases(ctx, rng):
    np = _np()
    quick = ctx.tier == "quick"
    out = []
    T14, T12 = 2.0 ** -23, 2.0 ** -20          # sd scales: variances ~1.4e-14, ~9.1e-13 (x Sigma_ii)
    configs = [(None, [1.0, T14, T12, 1.0]), (None, [T12, 1.0, T14, T14]), (None, [1.0, 0.0, T14, 1.0]),
               (None, [0.0, 0.0, 1.0, T12]), (1e-3, [1.0, 2.0 ** -7, 1.0, 2.0 ** -6]), (1e-3, [2.0 ** -7, 2.0 ** -7, 2.0 ** -23, 1.0]),
               (0.5, [1.0, 0.25, 0.5, 0.125]), (1e-3, [1.0, 0.0, 2.0 ** -7, 1.0])]
    for rep in ("dense", "lazy", "root"):
        for batch in [(), (2,), (2, 3)]:
            for floor, scales in configs:
                if rep == "dense" and 0.0 in scales:
                    continue       # torch's dense constructor needs a positive definite matrix
                for n in ((4,) if quick else (2, 3, 4)):
                    sc = np.array(scales[:n])
                    mu, A, S = gen_params(rng, batch, n, kind=_kind(rep))
                    A2 = A * sc[:, None]
                    S2 = S * sc[:, None] * sc[None, :]
                    ev = list(range(-n, n)) + [slice(None), slice(1, None), slice(None, None, 2), slice(0, 2), [n - 1, 0],
                                               ("tensor", [1, 1]), [1], Ellipsis]
                    nb = len(batch)
                    idxs = []
                    if nb == 0:
                        idxs = [(e,) for e in ev if not isinstance(e, int)] + [(Ellipsis, slice(1, 3))]
                    else:
                        pres = list(itertools.product(*[[0, -1, slice(None), slice(1, None)][:(4 if s > 2 else 3)] for s in batch]))
                        for pre in (pres if not quick else [rng.choice(pres), tuple([slice(None)] * nb)]):
                            for e in ev:
                                idxs.append(tuple(pre) + (e,))
                        idxs += [(Ellipsis, e) for e in ev] + [(0,), (-1,), (slice(None),)]
                    for idx in idxs:
                        out.append({"kind": "getitem-var", "rep": rep, "mu": mu, "S": S2, "A": A2, "floor": floor,
                                    "scales": [float(x) for x in sc], "idx": idx_json(idx), "tiny": True,
                                    "z": _dyadic(rng, (n,), -12, 12, 8)})
    return out


RUNNERS["hist"] = run_hist
RUNNERS["getitem-var"] = run_getitem_var

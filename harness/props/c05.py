"""C05 — kernel values equal the documented covariance functions and derivatives.

Tie: translator G5 (Gen/Formulas.lean: RBFCovariance / MaternCovariance forward+backward, _fmax/_get_cov)
AND correspondence: `kernel(x1, x2).to_dense()` / `kernel(x, diag=True)` of the real gpytorch classes
(float64) against the Lean `Spec` functions of Model/Kernels.lean evaluated in Lean `Float` by
drivers/C05.lean (exact `Rat` for the polynomial kernels).  The Lean value *is* the documented formula,
so a disagreement beyond tolerance is a `ctx.fail`.

A case is a JSON-able dict {kern: [spec per batch element], x1, x2, flags}; `run_case` rebuilds the real
kernel from it through the public setters, reads the parameters back through the public getters and ships
exactly those (as rationals) to the driver.
"""
import math
import os
import struct
import sys
import warnings

from lib import common as C

ID = "C05"
PROP_MODULES = ["GPVerif.Props.C05"]
BUILD_TARGETS = ["GPVerif.Props.C05", "GPVerif.Gen.Formulas", "GPVerif.Gen.KernelFormulas", "GPVerif.Gen.KernelAxes",
                 "GPVerif.Model.Kernels"]
RULE = ("per exported kernel class: random parameter values across their ranges (public setters), d in 1..4, "
        "n1 != n2, x2 absent / different / sharing rows with x1 / duplicated rows, ARD and non-ARD, batch; every "
        "path selector on and off (inputs.requires_grad, params.requires_grad, diag, trace_mode, lazy evaluation); "
        "distinct = distinct (kernel spec, inputs, flags); non-trivial = the expected matrix is not constant; "
        "stream object_reuse: ONE kernel object per family evaluated on a sequence of calls whose shapes (n1, n2, d, "
        "batch) change with coinciding n*d / n*(d+1) / n*(2d+1) / n1*n2 / B*n, alternating full / diag / x1-only / eager / "
        "last_dim_is_batch, train()/eval() and parameter re-sets in between; every call compared with the Spec")
TRUSTED = ["translator harness/translate/g5_formulas.py (Python ast -> scalar terms; in-place aliasing semantics)",
           "translators harness/translate/g5_kernels.py (per-pair tensor classes) and g5_axes.py (tensors as index functions "
           "over symbolic shapes; data-dependent tests are configuration inputs; one batch element)",
           "libm-class exp/sqrt/sin/cos/pow of Lean Float and of torch agree to 1e-10 relative",
           "modelled not verified: torch tensor primitives, torch.cdist, linear_operator to_dense()"]
ASSUMPTIONS = ["float64 only; tolerance 1e-10 relative + 1e-12*scale + first-order bound of the rounding of the "
               "quadratic-expansion sq_dist (cancellation for nearly coincident rows)",
               "Cylindrical kernel inputs have no exactly-zero coordinate (the eps jitter of zeros is not modelled)",
               "RFF / SpectralDelta are checked for the frequencies actually held by the module (random draw fixed)"]
EXHAUSTIVE = False

GEN = os.path.join(C.LEAN_DIR, "GPVerif", "Gen", "Formulas.lean")
GENK = os.path.join(C.LEAN_DIR, "GPVerif", "Gen", "KernelFormulas.lean")
GENA = os.path.join(C.LEAN_DIR, "GPVerif", "Gen", "KernelAxes.lean")
EPS = 2.0 ** -52
RTOL, ATOL = 1e-10, 1e-12


def generate(ctx):
    sys.path.insert(0, os.path.join(C.VERIF, "harness"))
    from translate import g5_axes, g5_formulas, g5_kernels
    ctx.notes["gen_changed"] = g5_formulas.generate(C.REPO, GEN)
    ctx.notes["gen_kernels_changed"] = g5_kernels.generate(C.REPO, GENK)
    ctx.notes["gen_axes_changed"] = g5_axes.generate(C.REPO, GENA)


# ------------------------------------------------------------------------------------------- wire format

def num(x):
    return C.rat_str(float(x))


def vec(v):
    v = [float(x) for x in v]
    return f"{len(v)} " + " ".join(num(x) for x in v)


def mat(M):
    rows = [[float(x) for x in r] for r in M]
    c = len(rows[0]) if rows else 0
    return f"{len(rows)} {c} " + " ".join(num(x) for r in rows for x in r)


def parse_bits(reply):
    """'r c b…' (possibly several matrices separated by ';') -> list of numpy arrays"""
    import numpy as np
    out = []
    for part in reply.split(";"):
        t = part.split()
        r, c = int(t[0]), int(t[1])
        vals = struct.unpack(f"<{r * c}d", struct.pack(f"<{r * c}Q", *[int(x) for x in t[2:2 + r * c]]))
        out.append(np.array(vals, dtype=np.float64).reshape(r, c))
    return out


def parse_rat(reply):
    import numpy as np
    t = reply.split()
    rows, _ = C.parse_mat(t)
    return rows


class Q:
    """Deferred driver requests: every stream registers its lines, one driver process answers all of them."""

    def __init__(self):
        self.lines, self.idx, self.replies = [], {}, None

    def ask(self, line):
        if line not in self.idx:
            self.idx[line] = len(self.lines)
            self.lines.append(line)
        return self.idx[line]

    def run(self):
        self.replies = C.run_driver("C05", self.lines) if self.lines else []

    def __getitem__(self, i):
        return self.replies[i]


# ------------------------------------------------------------------------------------------- kernel specs

STATIONARY = {"rbf": ("sq", 1.0), "matern": ("dist", 3.0), "rq": ("sq", 1.0), "periodic": ("sq", 4.0),
              "cosine": ("dist", 4.0), "pp": ("dist", 60.0)}


def _T(vals, batched):
    import torch
    t = torch.tensor(vals, dtype=torch.float64)
    return t if batched else t[0]


class CannotReparam(Exception):
    pass


def build(specs, batched, into=None):
    """specs: one spec dict per batch element (same structure).  Returns the gpytorch kernel (float64).

    `into`: an EXISTING kernel object of the same structure — nothing is constructed, only the parameter values of
    `specs` are written through the public setters (history step "set parameters between two calls")."""
    import torch
    import gpytorch.kernels as K
    s0 = specs[0]
    t = s0["t"]
    if into is not None:
        class _Reuse:                      # every constructor call below returns the existing object instead
            def __getattr__(self, _name):
                return lambda *a, **kw: into
        K = _Reuse()
    bs = torch.Size([len(specs)]) if batched else torch.Size([])
    kw = {"batch_shape": bs}
    if s0.get("active") is not None:
        kw["active_dims"] = tuple(s0["active"])

    def ard(key="ls"):
        if s0.get("ard1") and len(s0[key]) == 1:
            return 1                      # explicit ard_num_dims=1 (legal, rarely used)
        return len(s0[key]) if len(s0[key]) > 1 else None

    def P(key, shape=None):
        v = [sp[key] for sp in specs]
        x = torch.tensor(v, dtype=torch.float64)
        if shape is not None:
            x = x.reshape(tuple(bs) + tuple(shape))
        elif not batched:
            x = x[0]
        return x

    def setls(k, key="ls"):
        L = len(s0[key])
        k.lengthscale = P(key, (1, L))
        return k

    if t == "rbf":
        k = setls(K.RBFKernel(ard_num_dims=ard(), **kw))
    elif t == "matern":
        k = setls(K.MaternKernel(nu=s0["nu2"] / 2.0, ard_num_dims=ard(), **kw))
    elif t == "rq":
        k = setls(K.RQKernel(ard_num_dims=ard(), **kw))
        k.alpha = P("alpha", (1,))
    elif t == "periodic":
        if ard() is None:
            k = K.PeriodicKernel(**kw)
        else:
            k = K.PeriodicKernel(ard_num_dims=ard(), **kw)
        setls(k)
        k.period_length = P("ps", (1, len(s0["ps"])))
    elif t == "cosine":
        k = K.CosineKernel(**kw)
        k.period_length = P("p", (1, 1))
    elif t == "linear":
        k = K.LinearKernel(ard_num_dims=(len(s0["v"]) if len(s0["v"]) > 1 else None), **kw)
        k.variance = P("v", (1, len(s0["v"])))
    elif t == "poly":
        k = K.PolynomialKernel(power=s0["p"], **kw)
        k.offset = P("c", (1,))
    elif t == "pp":
        k = setls(K.PiecewisePolynomialKernel(q=s0["q"], ard_num_dims=ard(), **kw))
    elif t == "const":
        kw.pop("batch_shape")
        k = K.ConstantKernel(batch_shape=bs, active_dims=kw.get("active_dims"))
        k.constant = P("c", (1,))
    elif t == "sm":
        Q, d = len(s0["w"]), len(s0["mus"])
        k = K.SpectralMixtureKernel(num_mixtures=Q, ard_num_dims=d, **kw)
        k.mixture_weights = P("w", (Q,))
        # spec stores [dimension][mixture]; the module wants (Q, 1, d)
        k.mixture_means = torch.tensor([[[[sp["mus"][l][q] for l in range(d)]] for q in range(Q)] for sp in specs],
                                       dtype=torch.float64).reshape(*bs, Q, 1, d)
        k.mixture_scales = torch.tensor([[[[sp["scs"][l][q] for l in range(d)]] for q in range(Q)] for sp in specs],
                                        dtype=torch.float64).reshape(*bs, Q, 1, d)
    elif t == "sdelta":
        S, d = len(s0["Z"]), len(s0["Z"][0])
        k = K.SpectralDeltaKernel(num_dims=d, num_deltas=S, ard_num_dims=ard(), **kw)
        setls(k)
        k.Z = P("Z", (S, d))
    elif t == "rff":
        D, d = len(s0["W"]), len(s0["W"][0])
        k = K.RFFKernel(num_samples=D, num_dims=d, ard_num_dims=ard(), **kw).double()
        setls(k)
        # the frequencies are a buffer drawn at construction; fix them to the spec's values
        k.randn_weights.copy_(torch.tensor([[list(col) for col in zip(*sp["W"])] for sp in specs],
                                           dtype=torch.float64).reshape(*bs, d, D))
    elif t == "hamming":
        kw.pop("active_dims", None)
        k = K.HammingIMQKernel(vocab_size=s0["vocab"], batch_shape=bs)
        k.alpha = P("alpha", (1,))
        k.beta = P("beta", (1,))
    elif t == "gskl":
        k = K.GaussianSymmetrizedKLKernel(**kw)
        k.lengthscale = P("l", (1, 1))
    elif t == "arc":
        base = build([sp["base"] for sp in specs], False, None if into is None else into.base_kernel)
        k = K.ArcKernel(base, ard_num_dims=ard(), **kw)
        setls(k)
        k.angle = P("angle", (1, len(s0["angle"])))
        k.radius = P("radius", (1, len(s0["radius"])))
    elif t == "arcm":
        base = build([sp["base"] for sp in specs], False, None if into is None else into.base_kernel)
        thr = torch.tensor(s0["thr"], dtype=torch.float64)
        k = K.ArcKernel(base, delta_func=lambda x: (x > thr).to(x.dtype), ard_num_dims=ard(), **kw)
        setls(k)
        k.angle = P("angle", (1, len(s0["angle"])))
        k.radius = P("radius", (1, len(s0["radius"])))
    elif t == "cyl":
        radial = build([sp["radial"] for sp in specs], batched, None if into is None else into.radial_base_kernel)
        k = K.CylindricalKernel(num_angular_weights=len(s0["w"]), radial_base_kernel=radial, eps=s0["eps"], **kw)
        k.angular_weights = P("w", (len(s0["w"]),))
        k.alpha = P("alpha", (1,))
        k.beta = P("beta", (1,))
    elif t == "scale":
        k = K.ScaleKernel(build([sp["k"] for sp in specs], batched, None if into is None else into.base_kernel),
                          batch_shape=bs)
        k.outputscale = P("s", ())
    elif t in ("add", "mul"):
        if into is not None:
            if len(into.kernels) != len(s0["ks"]):
                raise CannotReparam("the library flattened this expression")
            for i in range(len(s0["ks"])):
                build([sp["ks"][i] for sp in specs], batched, into.kernels[i])
            return into
        parts = [build([sp["ks"][i] for sp in specs], batched) for i in range(len(s0["ks"]))]
        k = parts[0]
        for p in parts[1:]:
            k = (k + p) if t == "add" else (k * p)
    elif t in ("addstruct", "prodstruct", "ng"):
        base = build([sp["k"] for sp in specs], batched, None if into is None else into.base_kernel)
        d = s0["d"]
        with warnings.catch_warnings():
            warnings.simplefilter("ignore")
            if t == "addstruct":
                k = K.AdditiveStructureKernel(base, num_dims=d)
            elif t == "prodstruct":
                k = K.ProductStructureKernel(base, num_dims=d)
            else:
                k = K.NewtonGirardAdditiveKernel(base, d, max_degree=None if s0.get("md_none") else len(s0["s"]),
                                                 batch_shape=bs)
                k.outputscale = P("s", (len(s0["s"]),))
    else:
        raise ValueError(f"unknown kernel spec {t}")
    return k.double()


class StructureMismatch(Exception):
    pass


def tokens_by_spec(spec):
    """Lean expression following the *spec* (the expression the user wrote), every leaf built on its own — used
    when the composite object the library built does not have the structure of the expression."""
    t = spec["t"]
    if t in ("add", "mul"):
        parts = [tokens_by_spec(sp) for sp in spec["ks"]]
        s = parts[-1]
        for p in reversed(parts[:-1]):
            s = f"{t} {p} {s}"
        return s
    if t == "scale":
        k = build([spec], False)
        return f"scale {num(getp(k.outputscale, 0, False)[0])} {tokens_by_spec(spec['k'])}"
    return tokens(spec, build([spec], False), 0, False)


def getp(tensor, b, batched):
    x = tensor.detach()
    if batched:
        x = x[b]
    return x.reshape(-1).tolist()


def tokens(spec, k, b, batched):
    """Lean kernel expression for batch element b, parameters READ BACK from the real module k."""
    t = spec["t"]
    g = lambda x: getp(x, b, batched)  # noqa: E731
    pre = ""
    if spec.get("active") is not None:
        a = [int(i) for i in k.active_dims.tolist()]
        pre = f"active {len(a)} " + " ".join(map(str, a)) + " "
    if t == "rbf":
        s = f"rbf {vec(g(k.lengthscale))}"
    elif t == "matern":
        s = f"matern {int(spec['nu2'])} {vec(g(k.lengthscale))}"   # nu, q, power, vocab: as REQUESTED, not read back
    elif t == "rq":
        s = f"rq {vec(g(k.lengthscale))} {num(g(k.alpha)[0])}"
    elif t == "periodic":
        s = f"periodic {vec(g(k.lengthscale))} {vec(g(k.period_length))}"
    elif t == "cosine":
        s = f"cosine {num(g(k.period_length)[0])}"
    elif t == "linear":
        s = f"linear {vec(g(k.variance))}"
    elif t == "poly":
        s = f"poly {num(g(k.offset)[0])} {int(spec['p'])}"
    elif t == "pp":
        s = f"pp {int(spec['q'])} {vec(g(k.lengthscale))}"
    elif t == "const":
        s = f"const {num(g(k.constant)[0])}"
    elif t == "sm":
        mm = k.mixture_means.detach()
        ms = k.mixture_scales.detach()
        if batched:
            mm, ms = mm[b], ms[b]
        Q, d = mm.shape[0], mm.shape[-1]
        mus = [[mm[q, 0, l].item() for q in range(Q)] for l in range(d)]
        scs = [[ms[q, 0, l].item() for q in range(Q)] for l in range(d)]
        s = f"sm {vec(g(k.mixture_weights))} {mat(mus)} {mat(scs)}"
    elif t == "sdelta":
        Z = k.Z.detach()
        s = f"sdelta {vec(g(k.lengthscale))} {mat((Z[b] if batched else Z).tolist())}"
    elif t == "rff":
        W = k.randn_weights.detach()
        W = (W[b] if batched else W).t().tolist()
        s = f"rff {vec(g(k.lengthscale))} {mat(W)}"
    elif t == "hamming":
        s = f"hamming {int(spec['vocab'])} {num(g(k.alpha)[0])} {num(g(k.beta)[0])}"
    elif t == "gskl":
        s = f"gskl {num(g(k.lengthscale)[0])}"
    elif t == "arc":
        s = (f"arc {tokens(spec['base'], k.base_kernel, 0, False)} {vec(g(k.lengthscale))} "
             f"{vec(g(k.angle))} {vec(g(k.radius))}")
    elif t == "arcm":
        s = (f"arcm {tokens(spec['base'], k.base_kernel, 0, False)} {vec(g(k.lengthscale))} "
             f"{vec(g(k.angle))} {vec(g(k.radius))}")
    elif t == "cyl":
        s = (f"cyl {tokens(spec['radial'], k.radial_base_kernel, b, batched)} {vec(g(k.angular_weights))} "
             f"{num(g(k.alpha)[0])} {num(g(k.beta)[0])} {num(spec['eps'])}")
    elif t == "scale":
        s = f"scale {num(g(k.outputscale)[0])} {tokens(spec['k'], k.base_kernel, b, batched)}"
    elif t in ("add", "mul"):
        if len(k.kernels) != len(spec["ks"]):
            raise StructureMismatch(f"{type(k).__name__} holds {len(k.kernels)} parts, the expression has {len(spec['ks'])}")
        parts = [tokens(sp, kk, b, batched) for sp, kk in zip(spec["ks"], k.kernels)]
        s = parts[-1]
        for p in reversed(parts[:-1]):
            s = f"{t} {p} {s}"
    elif t in ("addstruct", "prodstruct", "ng"):
        d = spec["d"]
        parts = " ".join(tokens_dim(spec["k"], k.base_kernel, b, batched, l) for l in range(d))
        s = f"{t} {d} {parts}"
        if t == "ng":
            s += f" {vec(g(k.outputscale))}"
    else:
        raise ValueError(t)
    return pre + s


def tokens_dim(spec, k, b, batched, l):
    """the one-dimensional kernel that a structure wrapper applies to input dimension l"""
    t = spec["t"]
    g = lambda x: getp(x, b, batched)  # noqa: E731
    pick = lambda v: [v[l]] if len(v) > 1 else v  # noqa: E731
    if t == "rbf":
        return f"rbf {vec(pick(g(k.lengthscale)))}"
    if t == "matern":
        return f"matern {int(spec['nu2'])} {vec(pick(g(k.lengthscale)))}"
    if t == "rq":
        return f"rq {vec(pick(g(k.lengthscale)))} {num(g(k.alpha)[0])}"
    if t == "periodic":
        return f"periodic {vec(pick(g(k.lengthscale)))} {vec(pick(g(k.period_length)))}"
    if t == "linear":
        return f"linear {vec(pick(g(k.variance)))}"
    if t == "scale":
        return f"scale {num(g(k.outputscale)[0])} {tokens_dim(spec['k'], k.base_kernel, b, batched, l)}"
    if t == "cosine":
        return f"cosine {num(g(k.period_length)[0])}"
    if t == "poly":
        return f"poly {num(g(k.offset)[0])} {int(spec['p'])}"
    if t == "const":
        return f"const {num(g(k.constant)[0])}"
    raise ValueError(f"no per-dimension slice for {t}")


def slack(spec, X1, X2, same):
    """(bound on |k|, matrix of extra tolerance) from the rounding of the distance computation.

    sq_dist is formed by quadratic expansion: absolute error <= ~ 8(d+3) eps (|a'|^2+|b'|^2); kernels that are
    functions of the *distance* inherit sqrt of it for nearly coincident rows.  First-order bound only — it
    widens the tolerance by less than 1e-6 everywhere, three orders below a realistic defect."""
    import numpy as np
    t = spec["t"]
    n1, n2 = len(X1), len(X2)
    Z = np.zeros((n1, n2))
    A, B = np.array(X1, dtype=float), np.array(X2, dtype=float)
    if spec.get("active") is not None:
        A, B = A[:, spec["active"]], B[:, spec["active"]]
    if t in STATIONARY:
        cls, L = STATIONARY[t]
        if t == "cosine":
            ls = np.array([spec["p"]])
            L = L * 1.0
        elif t == "periodic":
            ls = np.array(spec["ps"]) / math.pi
            L = L / min(spec["ls"])
        else:
            ls = np.array(spec["ls"])
        c = A.mean(0, keepdims=True)
        a, bb = (A - c) / ls, (B - c) / ls
        d = A.shape[1]
        na, nb = (a * a).sum(1)[:, None], (bb * bb).sum(1)[None, :]
        dsq = 16 * (d + 3) * EPS * (na + nb + 1e-300)
        D = np.sqrt(np.maximum(((a[:, None, :] - bb[None, :, :]) ** 2).sum(-1), 0))
        # x / lengthscale is rounded BEFORE the centring: absolute error eps*|x/l| per coordinate (matters for
        # inputs with a huge common offset such as time stamps)
        din = 8 * EPS * math.sqrt(d) * max(float(np.abs(A / ls).max()), float(np.abs(B / ls).max()), 1.0)
        dsq = dsq + 2 * D * din + din * din
        if cls == "sq":
            return 1.0, L * dsq
        dd = np.minimum(np.sqrt(dsq), dsq / (2 * np.maximum(D, 1e-300))) + 4e-15 + 8 * EPS * D + din
        return 1.0, L * dd
    if t == "linear":
        v = max(abs(x) for x in spec["v"])
        m = v * np.abs(A).sum(1).max() * np.abs(B).max() + 1e-300
        return m, Z
    if t == "poly":
        m = (np.abs(A).sum(1).max() * np.abs(B).max() + abs(spec["c"])) ** spec["p"]
        return m, Z
    if t == "const":
        return abs(spec["c"]), Z
    if t == "sm":
        return sum(abs(w) for w in spec["w"]) ** len(spec["mus"]), Z
    if t in ("sdelta", "rff", "gskl"):
        return 1.0, Z
    if t == "hamming":
        return ((1 + spec["alpha"]) / spec["alpha"]) ** spec["beta"], Z
    if t == "arc":
        e = lambda X: np.concatenate([np.array(spec["radius"]) * np.sin(math.pi * np.array(spec["angle"]) * X / np.array(spec["ls"])),  # noqa: E731,E501
                                      np.array(spec["radius"]) * np.cos(math.pi * np.array(spec["angle"]) * X / np.array(spec["ls"]))], 1)
        return slack(spec["base"], e(A), e(B), same)
    if t == "arcm":
        thr = np.array(spec["thr"])

        def e(X):
            m = (X > thr).astype(float)
            u = math.pi * np.array(spec["angle"]) * X / np.array(spec["ls"])
            return np.concatenate([np.array(spec["radius"]) * np.sin(u) * m, np.array(spec["radius"]) * np.cos(u) * m], 1)
        return slack(spec["base"], e(A), e(B), same)
    if t == "cyl":
        ra, rb = np.linalg.norm(A, axis=1, keepdims=True), np.linalg.norm(B, axis=1, keepdims=True)
        ku = lambda r: 1 - (1 - r ** spec["alpha"] + spec["eps"]) ** spec["beta"]  # noqa: E731
        bnd, ex = slack(spec["radial"], ku(ra), ku(rb), same)
        w = sum(abs(x) for x in spec["w"])
        return bnd * w, ex * w
    if t == "scale":
        bnd, ex = slack(spec["k"], X1, X2, same)
        return abs(spec["s"]) * bnd, abs(spec["s"]) * ex
    if t == "add":
        rs = [slack(s, X1, X2, same) for s in spec["ks"]]
        return sum(r[0] for r in rs), sum(r[1] for r in rs)
    if t == "mul":
        rs = [slack(s, X1, X2, same) for s in spec["ks"]]
        bnd = math.prod(r[0] for r in rs)
        return bnd, sum(r[1] * bnd / max(r[0], 1e-300) for r in rs)
    if t in ("addstruct", "prodstruct", "ng"):
        d = spec["d"]
        per = []
        for l in range(d):
            sl = dim_spec(spec["k"], l)
            per.append(slack(sl, A[:, l:l + 1].tolist(), B[:, l:l + 1].tolist(), same))
        b1 = max(p[0] for p in per)
        ex = sum(p[1] for p in per)
        if t == "addstruct":
            return d * b1, ex
        if t == "prodstruct":
            return b1 ** d, ex * max(1.0, b1) ** d
        S = sum(abs(x) for x in spec["s"])
        return S * (1 + b1) ** d, ex * S * (1 + b1) ** d
    raise ValueError(t)


def dim_spec(spec, l):
    s = dict(spec)
    for key in ("ls", "ps", "v"):
        if key in s and len(s[key]) > 1:
            s[key] = [s[key][l]]
    if s["t"] == "scale":
        s["k"] = dim_spec(s["k"], l)
    return s


# ------------------------------------------------------------------------------------------- generators

def logu(rng, lo, hi):
    return math.exp(rng.uniform(math.log(lo), math.log(hi)))


def rand_leaf(rng, fam, d, ard=False, for_struct=False):
    L = d if ard else 1
    ls = [logu(rng, 0.25, 4.0) for _ in range(L)]
    if fam == "rbf":
        return {"t": "rbf", "ls": ls}
    if fam.startswith("matern"):
        return {"t": "matern", "nu2": int(fam[6:]), "ls": ls}
    if fam == "rq":
        return {"t": "rq", "ls": ls, "alpha": logu(rng, 0.05, 20.0)}
    if fam == "periodic":
        return {"t": "periodic", "ls": ls, "ps": [logu(rng, 0.3, 5.0) for _ in range(L)]}
    if fam == "cosine":
        return {"t": "cosine", "p": logu(rng, 0.3, 5.0)}
    if fam == "linear":
        return {"t": "linear", "v": [logu(rng, 0.05, 5.0) for _ in range(L)]}
    if fam.startswith("poly"):
        return {"t": "poly", "c": logu(rng, 0.01, 3.0), "p": int(fam[4:])}
    if fam.startswith("pp"):
        return {"t": "pp", "q": int(fam[2:]), "ls": [logu(rng, 1.5, 6.0) for _ in range(L)]}
    if fam == "const":
        return {"t": "const", "c": logu(rng, 0.01, 10.0)}
    if fam == "sm":
        Q = rng.choice([1, 2, 3])
        return {"t": "sm", "w": [logu(rng, 0.05, 2.0) for _ in range(Q)],
                "mus": [[logu(rng, 0.02, 1.5) for _ in range(Q)] for _ in range(d)],
                "scs": [[logu(rng, 0.02, 0.8) for _ in range(Q)] for _ in range(d)]}
    if fam == "sdelta":
        S = rng.choice([1, 3, 5])
        return {"t": "sdelta", "ls": ls, "Z": [[logu(rng, 0.02, 1.5) for _ in range(d)] for _ in range(S)]}
    if fam == "rff":
        D = rng.choice([1, 2, 4, 7])
        return {"t": "rff", "ls": ls, "W": [[rng.gauss(0, 1) for _ in range(d)] for _ in range(D)]}
    if fam == "hamming":
        return {"t": "hamming", "vocab": None, "alpha": logu(rng, 0.05, 5.0), "beta": logu(rng, 0.1, 4.0)}
    if fam == "gskl":
        return {"t": "gskl", "l": logu(rng, 0.3, 5.0)}
    raise ValueError(fam)


def rand_x(rng, n, d, lo=-2.0, hi=2.0):
    return [[rng.uniform(lo, hi) for _ in range(d)] for _ in range(n)]


def input_variants(rng, d, mk=rand_x):
    """(tag, x1, x2) — x2 None means the kernel is called with x1 only."""
    n1, n2 = rng.randint(2, 6), rng.randint(1, 6)
    if n2 == n1:
        n2 = n1 + 1 if n1 < 6 else n1 - 1
    x1 = mk(rng, n1, d)
    out = [("x1-only", x1, None), ("n1!=n2", x1, mk(rng, n2, d))]
    shared = mk(rng, n2, d)
    shared[rng.randrange(n2)] = list(x1[rng.randrange(n1)])
    out.append(("shared-row", x1, shared))
    dup = [list(r) for r in x1]
    dup[-1] = list(dup[0])
    out.append(("duplicate-row", dup, None))
    out.append(("single-row", mk(rng, 1, d), None))
    out.append(("equal-clone", x1, [list(r) for r in x1]))           # a DIFFERENT tensor holding the same values
    return out


def large_offset_inputs(rng, d, step):
    """two point sets of EQUAL shape that differ by half a grid step on top of a huge common offset (time stamps):
    |x1 - x2| / |x| < 1e-5 although the points are far apart in units of the lengthscale"""
    n = rng.randint(2, 5)
    off = [rng.choice([1.0e7, 3.0e8, 1.7e9]) * rng.choice([1, -1]) for _ in range(d)]
    x1 = [[off[j] + step * (i + rng.choice([0, 1, 2]) * (j > 0)) for j in range(d)] for i in range(n)]
    x2 = [[v + step * rng.choice([0.5, 0.25, 1.5]) for v in r] for r in x1]
    return x1, x2


FLAGSETS = [
    {},                                         # default: lazy evaluation on, params require grad
    {"lazy": False},
    {"diag": True},
    {"x_grad": True},                           # inputs require grad -> generic autograd path
    {"param_grad": False},                      # fast path without saved tensors
    {"trace": True},
    {"diag": True, "x_grad": True},
    {"param_grad": False, "lazy": False},
]

LEAVES = ["rbf", "matern1", "matern3", "matern5", "rq", "periodic", "cosine", "linear", "poly1", "poly2", "poly3",
          "pp0", "pp1", "pp2", "pp3", "const", "sm", "sdelta", "rff"]
NO_ARD = {"cosine", "poly1", "poly2", "poly3", "const", "sm"}
STRUCT_BASES = ["rbf", "matern5", "rq", "periodic", "linear"]     # incl. a kernel whose diagonal is NOT constant


def distinct_sizes(rng, dmax=4):
    """(B, d, n1, n2) pairwise different, so that no axis can be mistaken for another unnoticed"""
    B = rng.choice([2, 3])
    d = rng.choice([x for x in range(1, dmax + 1) if x != B])
    n1, n2 = rng.sample([x for x in (2, 3, 4, 5, 6) if x not in (B, d)], 2)
    return B, d, n1, n2


def gen_cases(ctx, rng):
    quick = ctx.quick
    reps = 3 if quick else 25
    cases = []

    def emit(desc, specs, batched, x1, x2, flags, xbatch=None):
        cases.append({"desc": desc, "kern": specs, "batched": batched, "x1": x1, "x2": x2, "flags": flags,
                      "xbatch": xbatch})

    # --- leaves x inputs x flags
    for fam in LEAVES:
        for rep in range(reps):
            for ardflag in ([False, True] if fam not in NO_ARD else [False]):
                d = rng.randint(2, 4) if ardflag or fam == "sm" else rng.randint(1, 4)
                if fam == "sm" and rng.random() < 0.3:
                    d = 1
                spec = rand_leaf(rng, fam, d, ardflag)
                variants = input_variants(rng, d)
                for i, (tag, x1, x2) in enumerate(variants):
                    fl = FLAGSETS if (i < 2 or not quick) else [FLAGSETS[(i + rep) % len(FLAGSETS)], {"diag": True}]
                    for flags in fl:
                        if flags.get("diag") and x2 is not None:
                            continue
                        emit(f"{fam}{'/ard' if ardflag else ''}/{tag}", [spec], False, x1, x2, flags)
        # batch: kernel batch_shape [2] with per-batch parameters, and a non-batch kernel on batched inputs
        d = rng.randint(1, 3)
        ardflag = fam not in NO_ARD and rng.random() < 0.5 and d > 1
        if fam == "sm":
            d = 2
        sp2 = [rand_leaf(rng, fam, d, ardflag) for _ in range(2)]
        if fam == "sm":
            sp2[1] = dict(rand_leaf(rng, fam, d, ardflag))
            while len(sp2[1]["w"]) != len(sp2[0]["w"]):
                sp2[1] = rand_leaf(rng, fam, d, ardflag)
        if fam in ("sdelta", "rff"):
            key = "Z" if fam == "sdelta" else "W"
            while len(sp2[1][key]) != len(sp2[0][key]):
                sp2[1] = rand_leaf(rng, fam, d, ardflag)
        n1, n2 = rng.randint(2, 4), rng.randint(2, 5)
        xb1 = [rand_x(rng, n1, d) for _ in range(2)]
        xb2 = [rand_x(rng, n2, d) for _ in range(2)]
        for flags in [{}, {"diag": True}, {"lazy": False}]:
            emit(f"{fam}/kernel-batch", sp2, True, xb1, None if flags.get("diag") else xb2, flags, xbatch=2)
            emit(f"{fam}/input-batch", [sp2[0]], False, xb1, None if flags.get("diag") else xb2, flags, xbatch=2)
        # the same with pairwise different B, d, n1, n2 (no shape coincidence can hide an axis mix-up)
        for rep in range(reps if quick else 4):
            B, d, n1, n2 = distinct_sizes(rng)
            if fam == "sm" and d == 1 and rng.random() < 0.5:
                B, d, n1, n2 = distinct_sizes(rng)
            ardflag = fam not in NO_ARD and d > 1 and rng.random() < 0.5
            spB = [rand_leaf(rng, fam, d, ardflag)]
            while len(spB) < B:
                cand = rand_leaf(rng, fam, d, ardflag)
                if all(len(cand.get(k_, [])) == len(spB[0].get(k_, [])) for k_ in ("w", "Z", "W")):
                    spB.append(cand)
            xb1 = [rand_x(rng, n1, d) for _ in range(B)]
            xb2 = [rand_x(rng, n2, d) for _ in range(B)]
            for flags in [{}, {"diag": True}]:
                emit(f"{fam}/kernel-batch/distinct-shapes", spB, True, xb1, None if flags.get("diag") else xb2, flags, xbatch=B)
                emit(f"{fam}/input-batch/distinct-shapes", [spB[0]], False, xb1, None if flags.get("diag") else xb2, flags, xbatch=B)

    # --- blind-spot families (round 2): aliasing, near-equal point sets, falsy / unusual-but-legal arguments
    STAT = ["rbf", "matern1", "matern3", "matern5", "rq", "periodic", "cosine", "pp0", "pp1", "pp2", "pp3"]
    for rep in range(reps):
        for fam in STAT:
            # (i) equal shapes, different points, huge common offset (|x1-x2|/|x| < 1e-5): must NOT be treated as x1 == x2
            d = rng.randint(1, 3)
            step = rng.choice([1800.0, 3600.0, 1.0, 0.5])
            ardflag = fam not in NO_ARD and d > 1 and rng.random() < 0.5
            spec = rand_leaf(rng, fam, d, ardflag)
            for key in ("ls", "ps"):
                if key in spec:
                    spec[key] = [v * step for v in spec[key]]
            if "p" in spec and spec["t"] == "cosine":
                spec["p"] = spec["p"] * step
            x1, x2 = large_offset_inputs(rng, d, step)
            variants = [(f"{fam}/large-offset", [spec])]
            if rng.random() < 0.5:
                variants.append((f"scale({fam})/large-offset", [{"t": "scale", "s": logu(rng, 0.2, 5.0), "k": spec}]))
            for name, sp in variants:
                for flags in [{}, {"lazy": False}, {"param_grad": False}]:
                    emit(name, sp, False, x1, x2, flags)
                emit(name, sp, False, x1, None, {"diag": True})
            # (ii) `x2 is x1` passed explicitly; explicit ard_num_dims=1; active_dims=[0]
            d = rng.randint(1, 3)
            spec = rand_leaf(rng, fam, d, False)
            x1 = rand_x(rng, rng.randint(2, 5), d)
            emit(f"{fam}/x2-is-x1", [spec], False, x1, None, {"same_obj": True})
            emit(f"{fam}/x2-is-x1", [spec], False, x1, None, {"same_obj": True, "x_grad": True})
            if fam not in NO_ARD:
                sp1 = dict(rand_leaf(rng, fam, 1, False), ard1=True)
                xa, xb = rand_x(rng, rng.randint(2, 4), 1), rand_x(rng, rng.randint(5, 6), 1)
                emit(f"{fam}/ard_num_dims=1", [sp1], False, xa, xb, {})
                emit(f"{fam}/ard_num_dims=1", [sp1], False, xa, None, {"diag": True})
            dd = rng.randint(2, 4)
            sp0 = dict(rand_leaf(rng, fam, 1, False), active=[0])
            xa, xb = rand_x(rng, rng.randint(2, 4), dd), rand_x(rng, rng.randint(5, 6), dd)
            emit(f"{fam}/active_dims=[0]", [sp0], False, xa, xb, {})
        # (iii) two batch dimensions on the inputs, sizes pairwise different
        for fam in rng.sample(LEAVES, 4 if quick else len(LEAVES)):
            d = rng.choice([1, 4]) if fam != "sm" else 4
            spec = rand_leaf(rng, fam, d, False)
            n1, n2 = 5, 7
            xb1 = [rand_x(rng, n1, d) for _ in range(6)]
            xb2 = [rand_x(rng, n2, d) for _ in range(6)]
            cases.append({"desc": f"{fam}/input-batch[2,3]", "kern": [spec], "batched": False, "x1": xb1, "x2": xb2,
                          "flags": {}, "xbatch": 6, "bview": [2, 3]})
            cases.append({"desc": f"{fam}/input-batch[2,3]", "kern": [spec], "batched": False, "x1": xb1, "x2": None,
                          "flags": {"diag": True}, "xbatch": 6, "bview": [2, 3]})

    # --- composites
    for rep in range(2 * reps):
        d = rng.randint(2, 4)
        a = rand_leaf(rng, rng.choice(["rbf", "matern3", "rq", "periodic"]), d, rng.random() < 0.5)
        b = rand_leaf(rng, rng.choice(["linear", "poly2", "matern5", "cosine", "const"]), d, False)
        c = rand_leaf(rng, rng.choice(["rbf", "matern1", "pp1"]), d, False)
        sa = {"t": "scale", "s": logu(rng, 0.05, 20.0), "k": a}
        comps = [
            ("scale", sa),
            ("add", {"t": "add", "ks": [a, b]}),
            ("mul", {"t": "mul", "ks": [a, b]}),
            ("add3", {"t": "add", "ks": [sa, b, c]}),
            ("mul3", {"t": "mul", "ks": [a, b, c]}),
            ("scale(add(mul))", {"t": "scale", "s": logu(rng, 0.1, 5.0),
                                 "k": {"t": "add", "ks": [{"t": "mul", "ks": [a, b]}, c]}}),
        ]
        comps += [
            ("a*(b+c)", {"t": "mul", "ks": [a, {"t": "add", "ks": [b, c]}]}),
            ("(a+b)*c", {"t": "mul", "ks": [{"t": "add", "ks": [a, b]}, c]}),
            ("a+(b*c)", {"t": "add", "ks": [a, {"t": "mul", "ks": [b, c]}]}),
            ("(a*b)+c", {"t": "add", "ks": [{"t": "mul", "ks": [a, b]}, c]}),
            ("(a+b)*(c+sa)", {"t": "mul", "ks": [{"t": "add", "ks": [a, b]}, {"t": "add", "ks": [c, sa]}]}),
            ("(a*b)+(c*sa)", {"t": "add", "ks": [{"t": "mul", "ks": [a, b]}, {"t": "mul", "ks": [c, sa]}]}),
            ("scale(scale)", {"t": "scale", "s": logu(rng, 0.1, 5.0), "k": sa}),
        ]
        act = sorted(rng.sample(range(d), rng.randint(1, d - 1)))
        a_act = dict(rand_leaf(rng, "rbf", len(act), len(act) > 1), active=act)
        b_act = dict(rand_leaf(rng, "matern5", 1, False), active=[rng.randrange(d)])
        comps.append(("active-dims", {"t": "add", "ks": [a_act, b_act]}))
        comps.append(("active-dims-prod", {"t": "mul", "ks": [a_act, b_act]}))
        for name, sp in comps:
            for tag, x1, x2 in input_variants(rng, d)[:3]:
                for flags in ([{}, {"diag": True}, {"lazy": False}, {"x_grad": True}] if not quick or rep == 0
                              else [{}, {"diag": True}]):
                    if flags.get("diag") and x2 is not None:
                        continue
                    emit(f"{name}/{tag}", [sp], False, x1, x2, flags)
    # batched scale kernel with per-batch outputscale
    for rep in range(reps):
        d = rng.randint(1, 3)
        sp2 = [{"t": "scale", "s": logu(rng, 0.05, 20.0), "k": rand_leaf(rng, "rbf", d, False)} for _ in range(2)]
        xb1 = [rand_x(rng, 3, d) for _ in range(2)]
        xb2 = [rand_x(rng, 2, d) for _ in range(2)]
        for flags in [{}, {"diag": True}]:
            emit("scale/kernel-batch", sp2, True, xb1, None if flags.get("diag") else xb2, flags, xbatch=2)

    # --- structure wrappers
    for rep in range(reps):
        for base in STRUCT_BASES:
            d = rng.randint(2, 4)
            ardflag = rng.random() < 0.5
            b0 = rand_leaf(rng, base, d, ardflag)
            if rng.random() < 0.5:
                b0 = {"t": "scale", "s": logu(rng, 0.3, 3.0), "k": b0}
            R = rng.randint(1, d)
            wr = [("addstruct", {"t": "addstruct", "d": d, "k": b0}),
                  ("prodstruct", {"t": "prodstruct", "d": d, "k": b0}),
                  ("ng", {"t": "ng", "d": d, "k": b0, "s": [logu(rng, 0.05, 3.0) for _ in range(R)]}),
                  ("ng-max_degree=None", {"t": "ng", "d": d, "k": b0, "md_none": True,
                                          "s": [logu(rng, 0.05, 3.0) for _ in range(d)]})]
            for name, sp in wr:
                for tag, x1, x2 in input_variants(rng, d)[:3]:
                    for flags in [{}, {"diag": True}]:
                        if flags.get("diag") and x2 is not None:
                            continue
                        emit(f"{name}({base}{'/ard' if ardflag else ''})/{tag}", [sp], False, x1, x2, flags)

    # structure wrappers in batch mode, pairwise different B, d, n1, n2
    for rep in range(reps):
        for base in STRUCT_BASES:
            B, d, n1, n2 = distinct_sizes(rng)
            while d < 2:
                B, d, n1, n2 = distinct_sizes(rng)
            ardflag = rng.random() < 0.5
            R = rng.randint(1, d)
            bB = [rand_leaf(rng, base, d, ardflag) for _ in range(B)]
            sB = [[logu(rng, 0.05, 3.0) for _ in range(R)] for _ in range(B)]
            xb1 = [rand_x(rng, n1, d) for _ in range(B)]
            xb2 = [rand_x(rng, n2, d) for _ in range(B)]
            for name in ("addstruct", "prodstruct", "ng"):
                spB = [dict({"t": name, "d": d, "k": bB[b]}, **({"s": sB[b]} if name == "ng" else {})) for b in range(B)]
                for flags in [{}, {"diag": True}]:
                    x2 = None if flags.get("diag") else xb2
                    emit(f"{name}({base})/input-batch/distinct-shapes", [spB[0]], False, xb1, x2, flags, xbatch=B)
                    emit(f"{name}({base})/kernel-batch/distinct-shapes", spB, True, xb1, x2, flags, xbatch=B)

    # --- special-input kernels
    for rep in range(2 * reps):
        # Hamming on one-hot sequences
        V, Tn = rng.randint(2, 4), rng.randint(1, 4)
        sp = rand_leaf(rng, "hamming", V * Tn)
        sp["vocab"] = V

        def onehot(r, n, _d, V=V, Tn=Tn):
            rows = []
            for _ in range(n):
                row = []
                for _t in range(Tn):
                    c = r.randrange(V)
                    row += [1.0 if i == c else 0.0 for i in range(V)]
                rows.append(row)
            return rows
        for tag, x1, x2 in input_variants(rng, V * Tn, mk=onehot)[:4]:
            for flags in [{}, {"diag": True}, {"lazy": False}]:
                if flags.get("diag") and x2 is not None:
                    continue
                emit(f"hamming/{tag}", [sp], False, x1, x2, flags)
        # Hamming with a kernel batch_shape (per-batch alpha / beta) and on batched inputs; n == B on purpose in one cell
        Bh = rng.choice([2, 3])
        spB = [dict(rand_leaf(rng, "hamming", V * Tn), vocab=V) for _ in range(Bh)]
        for n1h, n2h in (tuple(rng.sample([x for x in (1, 2, 3, 4, 5) if x != Bh], 2)), (Bh, Bh + 1)):
            xb1 = [onehot(rng, n1h, 0) for _ in range(Bh)]
            xb2 = [onehot(rng, n2h, 0) for _ in range(Bh)]
            for flags in [{}, {"diag": True}, {"lazy": False}]:
                x2 = None if flags.get("diag") else xb2
                emit("hamming/kernel-batch", spB, True, xb1, x2, flags, xbatch=Bh)
                emit("hamming/input-batch", [spB[0]], False, xb1, x2, flags, xbatch=Bh)
        # symmetrised KL on [means ++ log-variances]
        dd = rng.randint(1, 3)
        sp = rand_leaf(rng, "gskl", 2 * dd)
        for tag, x1, x2 in input_variants(rng, 2 * dd, mk=lambda r, n, d: rand_x(r, n, d, -1.5, 1.5))[:4]:
            for flags in [{}, {"diag": True}]:
                if flags.get("diag") and x2 is not None:
                    continue
                emit(f"gskl/{tag}", [sp], False, x1, x2, flags)
        # Arc
        d = rng.randint(1, 3)
        ardflag = d > 1 and rng.random() < 0.5
        L = d if ardflag else 1
        base = {"t": rng.choice(["matern", "rbf"]), "ls": [1.0]}
        if base["t"] == "matern":
            base["nu2"] = rng.choice([1, 3, 5])
        sp = {"t": "arc", "base": base, "ls": [logu(rng, 0.5, 4.0) for _ in range(L)],
              "angle": [rng.uniform(0.12, 0.88) for _ in range(L)], "radius": [logu(rng, 0.2, 3.0) for _ in range(L)]}
        for tag, x1, x2 in input_variants(rng, d)[:3]:
            for flags in [{}, {"diag": True}]:
                if flags.get("diag") and x2 is not None:
                    continue
                emit(f"arc({base['t']})/{tag}", [sp], False, x1, x2, flags)
        # Arc with a custom delta_func (conditional dimensions): δ_i(x) = (x_i > thr_i)
        spm = dict(sp, t="arcm", thr=[rng.uniform(-1.0, 1.0) for _ in range(d)])
        for tag, x1, x2 in input_variants(rng, d)[:3]:
            for flags in [{}, {"diag": True}]:
                if flags.get("diag") and x2 is not None:
                    continue
                emit(f"arc-delta_func({base['t']})/{tag}", [spm], False, x1, x2, flags)
        # Cylindrical: points strictly inside the unit ball, no zero coordinates
        d = rng.randint(2, 4)
        radial = rand_leaf(rng, rng.choice(["matern5", "rbf", "matern3"]), 1, False)
        sp = {"t": "cyl", "radial": radial, "w": [logu(rng, 0.05, 2.0) for _ in range(rng.randint(1, 4))],
              "alpha": logu(rng, 0.3, 3.0), "beta": logu(rng, 0.3, 3.0), "eps": 1e-6}

        def ball(r, n, d):
            rows = []
            for _ in range(n):
                v = [r.uniform(0.05, 1.0) * r.choice([-1, 1]) for _ in range(d)]
                s = r.uniform(0.1, 0.95) / math.sqrt(sum(x * x for x in v))
                rows.append([x * s for x in v])
            return rows
        for tag, x1, x2 in input_variants(rng, d, mk=ball)[:3]:
            for flags in [{}, {"diag": True}]:
                if flags.get("diag") and x2 is not None:
                    continue
                emit(f"cyl({radial['t']})/{tag}", [sp], False, x1, x2, flags)
    return cases


# ------------------------------------------------------------------------------------------- running a case

def family_of(spec):
    t = spec["t"]
    names = {"rbf": "RBFKernel", "matern": "MaternKernel", "rq": "RQKernel", "periodic": "PeriodicKernel",
             "cosine": "CosineKernel", "linear": "LinearKernel", "poly": "PolynomialKernel",
             "pp": "PiecewisePolynomialKernel", "const": "ConstantKernel", "sm": "SpectralMixtureKernel",
             "sdelta": "SpectralDeltaKernel", "rff": "RFFKernel", "hamming": "HammingIMQKernel",
             "gskl": "GaussianSymmetrizedKLKernel", "arc": "ArcKernel", "arcm": "ArcKernel", "cyl": "CylindricalKernel",
             "scale": "ScaleKernel", "add": "AdditiveKernel", "mul": "ProductKernel",
             "addstruct": "AdditiveStructureKernel", "prodstruct": "ProductStructureKernel",
             "ng": "NewtonGirardAdditiveKernel"}
    n = names[t]
    if t == "matern":
        n += f"(nu={spec['nu2'] / 2})"
    if t == "pp":
        n += f"(q={spec['q']})"
    return n


def classes_in(spec, acc):
    acc.add(family_of(spec).split("(")[0])
    for key in ("k", "base", "radial"):
        if key in spec:
            classes_in(spec[key], acc)
    for s in spec.get("ks", []):
        classes_in(s, acc)
    if spec["t"] == "gskl":
        acc.add("DistributionalInputKernel")
    return acc


def eval_real(case, k=None):
    """Returns (list over batch of numpy arrays [matrix or diag vector], kernel, path tag) — or raises.
    `k`: an existing kernel object to be (re)used for this call instead of a freshly built one."""
    import torch
    import gpytorch
    fl = case["flags"]
    if k is None:
        k = build(case["kern"], case["batched"])
        if fl.get("param_grad") is False:
            for p in k.parameters():
                p.requires_grad_(False)
    else:
        for p in k.parameters():
            p.requires_grad_(fl.get("param_grad") is not False)
    x1 = torch.tensor(case["x1"], dtype=torch.float64)
    x2 = None if case["x2"] is None else torch.tensor(case["x2"], dtype=torch.float64)
    if fl.get("same_obj"):
        x2 = x1                                # `x2 is x1`, passed explicitly
    bview = case.get("bview")
    if bview:                                  # >= 2 batch dimensions on the inputs
        x1 = x1.reshape(*bview, *x1.shape[-2:])
        x2 = None if x2 is None else x2.reshape(*bview, *x2.shape[-2:])
    if fl.get("x_grad"):
        x1.requires_grad_(True)
        if x2 is not None:
            x2.requires_grad_(True)
    with warnings.catch_warnings():
        warnings.simplefilter("ignore")
        with gpytorch.settings.lazily_evaluate_kernels(fl.get("lazy", True)), \
                gpytorch.settings.trace_mode(fl.get("trace", False)):
            if fl.get("diag"):
                out = k(x1, diag=True)
            else:
                out = k(x1, x2) if x2 is not None else k(x1)
                out = out.to_dense()
    out = out.detach()
    if bview:
        out = out.reshape(case["xbatch"], *out.shape[len(bview):])
    if case.get("xbatch"):
        res = [out[b].numpy() for b in range(case["xbatch"])]
    else:
        res = [out.numpy()]
    return res, k


def lean_lines(case, k):
    B = case.get("xbatch") or 1
    lines = []
    for b in range(B):
        X1 = case["x1"][b] if case.get("xbatch") else case["x1"]
        X2src = case["x2"] if case["x2"] is not None else case["x1"]
        X2 = X2src[b] if case.get("xbatch") else X2src
        spec = case["kern"][b if case["batched"] else 0]
        try:
            tk = tokens(spec, k, b, case["batched"])
        except StructureMismatch:
            tk = tokens_by_spec(spec)
        aug = (lambda X: [list(r) + [1.0 if v > t_ else 0.0 for v, t_ in zip(r, spec["thr"])] for r in X]) \
            if spec["t"] == "arcm" else (lambda X: X)
        lines.append((f"K {tk} {mat(aug(X1))} {mat(aug(X2))}", spec, X1, X2))
    return lines


def compare(ctx, case, real, expected, specs_x, key_prefix=None, suffix="", payload=None, what=""):
    """real / expected: lists over batch.  Returns number of failures reported."""
    import numpy as np
    fails = 0
    for b, (got, exp, (spec, X1, X2)) in enumerate(zip(real, expected, specs_x)):
        same = case["x2"] is None
        bound, extra = slack(spec, X1, X2, same)
        if case["flags"].get("diag"):
            exp_c, extra_c = np.diagonal(exp), np.diagonal(extra)
        else:
            exp_c, extra_c = exp, extra
        if got.shape != exp_c.shape:
            ctx.fail(f"{family_of(spec)}/shape{suffix}", f"{case['desc']}: output shape {got.shape}, expected {exp_c.shape}{what}",
                     payload or {"case": case})
            fails += 1
            continue
        scale = max(1.0, float(np.abs(exp).max()) if exp.size else 1.0, bound if math.isfinite(bound) else 1.0)
        tol = RTOL * np.abs(exp_c) + ATOL * scale + extra_c
        err = np.abs(got - exp_c)
        bad = ~(err <= tol)
        if bad.any():
            idx = np.unravel_index(np.argmax(np.where(bad, err / np.maximum(tol, 1e-300), 0)), err.shape)
            mode = "diag" if case["flags"].get("diag") else "full"
            ctx.fail(f"{family_of(spec)}/{mode}{suffix}",
                     f"{case['desc']} flags={case['flags']}: entry {tuple(int(i) for i in idx)} is {got[idx]!r}, "
                     f"documented formula gives {exp_c[idx]!r} (|diff| {err[idx]:.3e}, tol {tol[idx]:.1e}){what}",
                     payload or {"case": case, "batch_index": b})
            fails += 1
    return fails


def run_cases(ctx, cases, q):
    """Phase 1: run the real code, register driver requests.  Returns the phase-2 closure (compare)."""
    import numpy as np
    pending = []
    paths = {}
    for case in cases:
        try:
            real, k = eval_real(case)
        except Exception as e:  # the real code rejects an input the property quantifies over
            spec = case["kern"][0]
            mode = "diag" if case["flags"].get("diag") else "full"
            ctx.case({"d": case["desc"], "k": case["kern"], "x1": case["x1"], "x2": case["x2"], "f": case["flags"]})
            ctx.fail(f"{family_of(spec)}/{mode}/raises",
                     f"{case['desc']} flags={case['flags']}: {type(e).__name__}: {str(e)[:200]}", {"case": case})
            continue
        ll = lean_lines(case, k)
        pending.append((case, real, [(q.ask(l[0]), l[1], l[2], l[3]) for l in ll]))
        for fkey in case["flags"] or {"default": 1}:
            paths[fkey] = paths.get(fkey, 0) + 1
    ctx.notes.setdefault("flag_distribution", {})
    for k_, v in paths.items():
        ctx.notes["flag_distribution"][k_] = ctx.notes["flag_distribution"].get(k_, 0) + v

    def finish():
        for case, real, ll in pending:
            exp = []
            ok = True
            for (h, spec, X1, X2) in ll:
                rep = q[h]
                if rep == "bad-request":
                    ctx.broke("correspondence", "driver rejected request", q.lines[h][:300])
                    ok = False
                    break
                exp.append(parse_bits(rep)[0])
            if not ok:
                continue
            nontriv = any(float(np.ptp(e)) > 1e-9 for e in exp if e.size)
            ctx.case({"d": case["desc"], "k": case["kern"], "x1": case["x1"], "x2": case["x2"], "f": case["flags"]},
                     nontrivial=nontriv,
                     sample={"kernel": case["desc"], "flags": case["flags"], "n1": len(case["x1"]),
                             "expected00": float(exp[0].flat[0]) if exp[0].size else None})
            compare(ctx, case, real, exp, [(s, a, b) for (_, s, a, b) in ll])
    return finish


# ------------------------------------------------------------------------------------------- other streams

def _grad_module(r, k=None):
    """`k`: an existing derivative-kernel object to be reused (its parameters are read back), else a fresh one"""
    import torch
    import gpytorch.kernels as K
    d = len(r["x1"][0])
    ard = d if r["ard"] else None
    cls = {"rbfgrad": K.RBFKernelGrad, "m52grad": K.Matern52KernelGrad, "rbfgradgrad": K.RBFKernelGradGrad}.get(r["kind"])
    if cls is None:
        if k is None:
            k = K.PolynomialKernelGrad(power=r["p"]).double()
            k.offset = torch.tensor([r["c"]], dtype=torch.float64)
        head = f"G polygrad {num(k.offset.item())} {r['p']}"
    else:
        if k is None:
            k = cls(ard_num_dims=ard).double()
            k.lengthscale = torch.tensor([r["ls"]], dtype=torch.float64)
        head = f"G {r['kind']} {vec(k.lengthscale.detach().reshape(-1).tolist())}"
    line = f"{head} {mat(r['x1'])} {mat(r['x2'] if r['x2'] is not None else r['x1'])}"
    return k, line


def _grad_eval(k, r, lazy=True):
    import torch
    import gpytorch
    X1 = torch.tensor(r["x1"], dtype=torch.float64)
    X2 = None if r["x2"] is None else torch.tensor(r["x2"], dtype=torch.float64)
    with warnings.catch_warnings():
        warnings.simplefilter("ignore")
        with gpytorch.settings.lazily_evaluate_kernels(lazy):
            if r["tag"] == "diag":
                return k(X1, diag=True).detach().numpy()
            return (k(X1, X2) if X2 is not None else k(X1)).to_dense().detach().numpy()


def _grad_compare(ctx, r, got, exp, suffix="", payload=None, what=""):
    import numpy as np
    cname = r["cname"]
    scale = max(1.0, float(np.abs(exp).max()))
    e = np.diagonal(exp) if r["tag"] == "diag" else exp
    payload = payload or {"grad_case": {k_: v for k_, v in r.items() if k_ not in ("got", "auto", "h")}}
    if got.shape != e.shape:
        ctx.fail(f"{cname}/{r['tag']}/shape{suffix}", f"shape {got.shape}, expected {e.shape}{what}", payload)
        return
    err = np.abs(got - e)
    tol = RTOL * np.abs(e) + 1e-11 * scale
    if (err > tol).any():
        idx = np.unravel_index(np.argmax(err - tol), err.shape)
        d = len(r["x1"][0])
        m = (2 * d + 1) if r["kind"] == "rbfgradgrad" else (d + 1)
        comp = tuple(min(int(i) % m, 1) if r["kind"] != "rbfgradgrad" else min((int(i) % m + d - 1) // d, 2) for i in idx)
        ctx.fail(f"{cname}/{'diag' if r['tag'] == 'diag' else 'full'}/block{comp}{suffix}",
                 f"{cname} ({r['tag']}) entry {tuple(int(i) for i in idx)} is {got[idx]!r}, the partial derivative of the "
                 f"base kernel is {e[idx]!r} (|diff| {err[idx]:.3e}){what}", payload)


def grad_kernel_cases(ctx, rng, q):
    """RBFKernelGrad, Matern52KernelGrad, PolynomialKernelGrad, RBFKernelGradGrad: implementation vs Lean entry
    formulas (1e-10); the Lean entry formulas vs autograd of an independent dense base kernel (1e-8)."""
    import numpy as np
    reps = 5 if ctx.quick else 40
    recs = []
    for rep in range(reps):
        for kind in ("rbfgrad", "m52grad", "polygrad", "rbfgradgrad"):
            for ardflag in (False, True):
                if kind == "polygrad" and ardflag:
                    continue
                d = rng.randint(2, 3) if ardflag else rng.randint(1, 3)
                n1, n2 = rng.randint(1, 4), rng.randint(1, 4)
                if n1 == n2:
                    n2 = n1 + 1
                if rep % 2 == 1:      # no coincidence between row counts and d, d+1, 2d+1
                    n1, n2 = rng.sample([x for x in range(1, 7) if x not in (d, d + 1, 2 * d + 1)], 2)
                ls = [logu(rng, 0.5, 3.0) for _ in range(d if ardflag else 1)]
                x1, x2 = rand_x(rng, n1, d, -1.5, 1.5), rand_x(rng, n2, d, -1.5, 1.5)
                shared = [list(r) for r in x2]
                shared[0] = list(x1[0])
                p, c = rng.randint(1, 4), logu(rng, 0.05, 2.0)
                for tag, X1, X2 in (("n1!=n2", x1, x2), ("x1-only", x1, None), ("shared-row", x1, shared),
                                    ("diag", x1, None)):
                    recs.append({"kind": kind, "ls": ls, "ard": ardflag, "x1": X1, "x2": X2, "tag": tag, "p": p, "c": c})
    for r in recs:
        k, line = _grad_module(r)
        r["cname"] = type(k).__name__
        r["h"] = q.ask(line)
        ctx.case({"g": r["kind"], "x1": r["x1"], "x2": r["x2"], "tag": r["tag"], "ls": r["ls"], "p": r["p"]},
                 sample={"kernel": r["cname"], "tag": r["tag"], "d": len(r["x1"][0])})
        try:
            r["got"] = _grad_eval(k, r, lazy=rng.random() < 0.5)
        except Exception as e:
            r["got"] = None
            n2 = len(r["x2"]) if r["x2"] is not None else len(r["x1"])
            ctx.fail(f"{r['cname']}/{'n1!=n2' if n2 != len(r['x1']) else r['tag']}/raises",
                     f"{r['cname']} d={len(r['x1'][0])} n1={len(r['x1'])} n2={n2}: {type(e).__name__}: {str(e)[:160]}",
                     {"grad_case": {k_: v for k_, v in r.items() if k_ not in ("got", "h")}})
        r["auto"] = _autograd_matrix(r["kind"], r, len(r["x1"][0])) if r["tag"] in ("n1!=n2", "shared-row") else None
    # ---- batch mode: kernel batch_shape [2] with per-batch parameters, inputs (2, n, d)
    import torch
    import gpytorch
    import gpytorch.kernels as GK
    for rep in range(max(1, reps // 2)):
        for kind in ("rbfgrad", "m52grad", "polygrad", "rbfgradgrad"):
            B, d, n1, n2 = distinct_sizes(rng, 3)
            while len({B, d, d + 1, n1, n2}) < 5 and rng.random() < 0.9:
                B, d, n1, n2 = distinct_sizes(rng, 3)
            ardflag = kind != "polygrad" and d > 1 and rng.random() < 0.5
            lsb = [[logu(rng, 0.5, 3.0) for _ in range(d if ardflag else 1)] for _ in range(B)]
            xb1 = [rand_x(rng, n1, d, -1.5, 1.5) for _ in range(B)]
            xb2 = [rand_x(rng, n2, d, -1.5, 1.5) for _ in range(B)]
            p, cb = rng.randint(1, 4), [logu(rng, 0.05, 2.0) for _ in range(B)]
            bs = torch.Size([B])
            cls = {"rbfgrad": GK.RBFKernelGrad, "m52grad": GK.Matern52KernelGrad, "rbfgradgrad": GK.RBFKernelGradGrad}.get(kind)
            if cls is None:
                k = GK.PolynomialKernelGrad(power=p, batch_shape=bs).double()
                k.offset = torch.tensor(cb, dtype=torch.float64).reshape(B, 1)
            else:
                k = cls(ard_num_dims=d if ardflag else None, batch_shape=bs).double()
                k.lengthscale = torch.tensor(lsb, dtype=torch.float64).reshape(B, 1, -1)
            for tag, X2 in (("n1!=n2", xb2), ("diag", None)):
                X1t = torch.tensor(xb1, dtype=torch.float64)
                try:
                    with warnings.catch_warnings():
                        warnings.simplefilter("ignore")
                        with gpytorch.settings.lazily_evaluate_kernels(rng.random() < 0.5):
                            if tag == "diag":
                                got = k(X1t, diag=True).detach().numpy()
                            else:
                                got = k(X1t, torch.tensor(X2, dtype=torch.float64)).to_dense().detach().numpy()
                except Exception as e:
                    got = None
                    ctx.fail(f"{type(k).__name__}/batch/{tag}/raises", f"{type(k).__name__} batch_shape=[{B}] d={d}: "
                             f"{type(e).__name__}: {str(e)[:160]}", {"kind": kind, "x1": xb1, "x2": X2, "ls": lsb, "p": p, "c": cb})
                for b in range(B):
                    if cls is None:
                        head = f"G polygrad {num(k.offset.detach()[b].item())} {p}"
                    else:
                        head = f"G {kind} {vec(k.lengthscale.detach()[b].reshape(-1).tolist())}"
                    r = {"kind": kind, "ls": lsb[b], "ard": ardflag, "x1": xb1[b], "x2": None if X2 is None else X2[b],
                         "tag": tag, "p": p, "c": cb[b], "cname": type(k).__name__ + "[batch]", "auto": None,
                         "got": None if got is None else got[b]}
                    r["h"] = q.ask(f"{head} {mat(xb1[b])} {mat(xb1[b] if X2 is None else X2[b])}")
                    ctx.case({"gb": kind, "x1": xb1[b], "x2": r["x2"], "tag": tag, "ls": lsb[b], "p": p, "b": b},
                             sample={"kernel": r["cname"], "tag": tag, "d": d})
                    recs.append(r)
    ctx.count("grad_kernel_cases", len(recs))

    def finish():
        for r in recs:
            exp = parse_bits(q[r["h"]])[0]
            scale = max(1.0, float(np.abs(exp).max()))
            # the Lean entry formulas against autograd of the base kernel: validates the *model* independently
            if r["auto"] is not None and not np.allclose(exp, r["auto"], rtol=1e-8, atol=1e-9 * scale):
                ctx.broke("correspondence", f"Lean {r['kind']} entries vs autograd of the base kernel",
                          f"max diff {np.abs(exp - r['auto']).max():.3e}")
            if r["got"] is not None:
                _grad_compare(ctx, r, r["got"], exp)
    return finish


def _autograd_matrix(kind, r, d):
    import numpy as np
    import torch
    ls = torch.tensor(r["ls"] if len(r["ls"]) == d else r["ls"] * d, dtype=torch.float64)
    s5 = math.sqrt(5.0)

    def base(a, b):
        if kind in ("rbfgrad", "rbfgradgrad"):
            return torch.exp(-0.5 * (((a - b) / ls) ** 2).sum())
        if kind == "m52grad":
            rr = torch.sqrt((((a - b) / ls) ** 2).sum())
            return (1 + s5 * rr + 5.0 / 3.0 * rr * rr) * torch.exp(-s5 * rr)
        return ((a * b).sum() + r["c"]) ** r["p"]
    X1 = r["x1"]
    X2 = r["x2"] if r["x2"] is not None else r["x1"]
    m = 2 * d + 1 if kind == "rbfgradgrad" else d + 1
    out = np.zeros((len(X1) * m, len(X2) * m))
    zero = torch.zeros((), dtype=torch.float64)

    def op(f, var, idx):
        if idx == 0:
            return f
        if not (torch.is_tensor(f) and f.requires_grad):
            return zero
        g, = torch.autograd.grad(f, var, create_graph=True, allow_unused=True)
        if g is None:
            return zero
        if idx <= d:
            return g[idx - 1]
        if not g.requires_grad:
            return zero
        g2, = torch.autograd.grad(g[idx - d - 1], var, create_graph=True, allow_unused=True)
        return zero if g2 is None else g2[idx - d - 1]
    for i, ra in enumerate(X1):
        for j, rb in enumerate(X2):
            coincide = kind == "m52grad" and ra == rb
            for kk in range(m):
                for ll in range(m):
                    if coincide:
                        # r = 0: the Matern-5/2 kernel is twice differentiable there; limits of the closed form
                        if kk == 0 and ll == 0:
                            v = 1.0
                        elif kk > 0 and kk == ll:
                            v = 5.0 / 3.0 / float(ls[kk - 1]) ** 2
                        else:
                            v = 0.0
                        out[i * m + kk, j * m + ll] = v
                        continue
                    a = torch.tensor(ra, dtype=torch.float64, requires_grad=True)
                    b = torch.tensor(rb, dtype=torch.float64, requires_grad=True)
                    v = op(op(base(a, b), a, kk), b, ll)
                    out[i * m + kk, j * m + ll] = v.item()
    return out


def fd_of_spec(ctx, rng, q):
    """Central differences of the Lean base Spec against the Lean entry formulas (first-derivative blocks and the
    mixed second-derivative block) — an independent check of the model's entry formulas, incl. Matern-5/2."""
    import numpy as np
    reps = 6 if ctx.quick else 40
    h = 1e-4
    work = []
    for rep in range(reps):
        for kind, leaf in (("rbfgrad", "rbf"), ("m52grad", "matern 5"), ("polygrad", None)):
            d = rng.randint(1, 3)
            ls = [logu(rng, 0.6, 2.5) for _ in range(d)]
            a, b = rand_x(rng, 1, d, -1, 1)[0], rand_x(rng, 1, d, -1, 1)[0]
            p, c = rng.randint(1, 4), logu(rng, 0.1, 2.0)
            if leaf is None:
                kern, head = f"poly {num(c)} {p}", f"G polygrad {num(c)} {p}"
            else:
                kern, head = f"{leaf} {vec(ls)}", f"G {kind} {vec(ls)}"
            pts = []
            for k in range(d):
                for l in range(d):
                    for sa in (+1, -1):
                        for sb in (+1, -1):
                            aa, bb = list(a), list(b)
                            aa[k] += sa * h
                            bb[l] += sb * h
                            pts.append((aa, bb))
            for k in range(d):
                for s in (+1, -1):
                    aa = list(a)
                    aa[k] += s * h
                    pts.append((aa, b))
                    bb = list(b)
                    bb[k] += s * h
                    pts.append((a, bb))
            hs = [q.ask(f"{head} {mat([a])} {mat([b])}")] + [q.ask(f"K {kern} {mat([x])} {mat([y])}") for x, y in pts]
            work.append((kind, d, hs))
            ctx.case({"fd": kind, "a": a, "b": b, "ls": ls, "p": p}, sample=None)
    ctx.count("fd_checks_of_lean_entries", len(work))

    def finish():
        for kind, d, hs in work:
            E = parse_bits(q[hs[0]])[0]
            it = iter([parse_bits(q[i])[0][0, 0] for i in hs[1:]])
            scale = max(1.0, np.abs(E).max())
            for k in range(d):
                for l in range(d):
                    pp_, pm, mp, mm = next(it), next(it), next(it), next(it)
                    fd = (pp_ - pm - mp + mm) / (4 * h * h)
                    if abs(fd - E[k + 1, l + 1]) > 2e-5 * scale:
                        ctx.broke("correspondence", f"Lean {kind} mixed block vs central differences of Spec",
                                  f"k={k} l={l} fd={fd} entry={E[k + 1, l + 1]}")
            for k in range(d):
                ap, bp, am, bm = next(it), next(it), next(it), next(it)
                if abs((ap - am) / (2 * h) - E[k + 1, 0]) > 1e-6 * scale or \
                        abs((bp - bm) / (2 * h) - E[0, k + 1]) > 1e-6 * scale:
                    ctx.broke("correspondence", f"Lean {kind} first-derivative block vs central differences of Spec", f"k={k}")
    return finish


def generated_terms(ctx, rng, q):
    """Translator test: the G5-generated terms driven against the Functions they were generated from
    (RBFCovariance / MaternCovariance .apply + autograd), and generated _fmax·_get_cov against the documented
    polynomial (`ppOfDist`) — where a wrong coefficient in the source shows as a model-level disagreement even
    before the theorem `ppCov_gen_eq_spec` fails to build."""
    import numpy as np
    import torch
    from gpytorch.functions import MaternCovariance, RBFCovariance
    from gpytorch.kernels.kernel import dist, sq_dist
    reps = 8 if ctx.quick else 50
    work = []
    for rep in range(reps):
        d = rng.randint(1, 4)
        n1, n2 = rng.randint(1, 5), rng.randint(1, 5)
        x1, x2 = rand_x(rng, n1, d), rand_x(rng, n2, d)
        if rng.random() < 0.5:
            x2[0] = list(x1[0])
        ell = logu(rng, 0.3, 3.0)
        X1, X2 = torch.tensor(x1, dtype=torch.float64), torch.tensor(x2, dtype=torch.float64)
        go = torch.tensor(rand_x(rng, n1, n2), dtype=torch.float64)
        mean = X1.mean(0).tolist()
        for fn, nu2 in (("rbf", None), ("matern", 1), ("matern", 3), ("matern", 5)):
            for needs in (False, True):
                l = torch.tensor([[ell]], dtype=torch.float64, requires_grad=needs)
                if fn == "rbf":
                    out = RBFCovariance.apply(X1, X2, l, lambda a, b: sq_dist(a, b, False))
                    line = f"F rbf {int(needs)} {num(ell)} {mat(x1)} {mat(x2)}"
                else:
                    out = MaternCovariance.apply(X1, X2, l, nu2 / 2.0, lambda a, b: dist(a, b, False))
                    line = f"F matern {nu2} {int(needs)} {num(ell)} {vec(mean)} {mat(x1)} {mat(x2)}"
                key = f"{'RBFCovariance' if fn == 'rbf' else f'MaternCovariance(nu={nu2 / 2})'}.forward/needs_grad={needs}"
                g = torch.autograd.grad(out, l, grad_outputs=go)[0].item() if needs else None
                work.append((key, q.ask(line), out.detach().numpy(), g, go.numpy()))
                ctx.case({"gen": key, "x1": x1, "x2": x2, "l": ell}, sample=None)
    pw = []
    for qq in range(4):
        for j in range(qq + 1, qq + 4):
            rs = [0.0, 1.0, 1.5] + [rng.uniform(0, 1.2) for _ in range(6)]
            pw.append((qq, j, rs, q.ask(f"P {qq} {j} {vec(rs)}"), q.ask(f"PS {qq} {j} {vec(rs)}")))
            ctx.case({"ppgen": qq, "j": j, "r": rs}, sample=None)

    def finish():
        for key, h, o, g, go in work:
            mats = parse_bits(q[h])
            if not np.allclose(o, mats[0], rtol=1e-10, atol=1e-12):
                ctx.broke("correspondence", f"generated term vs {key}", f"max diff {np.abs(o - mats[0]).max():.3e}")
            if g is not None:
                b = float((go * mats[1]).sum())     # backward = grad_output * saved, summed by autograd
                if not np.isclose(g, b, rtol=1e-9, atol=1e-11):
                    ctx.broke("correspondence", f"generated saved term vs {key}", f"lengthscale grad {g} vs {b}")
        for qq, j, rs, h1, h2 in pw:
            gen, doc = parse_bits(q[h1])[0][0], parse_bits(q[h2])[0][0]
            if not np.allclose(gen, doc, rtol=1e-12, atol=1e-14):
                k = int(np.argmax(np.abs(gen - doc)))
                ctx.broke("correspondence", f"generated _get_cov(q={qq}) vs documented polynomial",
                          f"j={j} r={rs[k]}: code {gen[k]!r}, documented {doc[k]!r}")
    return finish


def task_kernels(ctx, rng, q):
    """IndexKernel / MultitaskKernel / LCMKernel: lookup table BBᵀ+diag(v) and Kronecker layout."""
    import numpy as np
    import torch
    import gpytorch
    import gpytorch.kernels as K
    reps = 6 if ctx.quick else 40
    work = []
    for rep in range(reps):
        T, rank = rng.randint(2, 4), rng.randint(1, 2)
        B = [[rng.gauss(0, 1) for _ in range(rank)] for _ in range(T)]
        v = [logu(rng, 0.05, 2.0) for _ in range(T)]
        ik = K.IndexKernel(num_tasks=T, rank=rank).double()
        ik.initialize(covar_factor=torch.tensor(B, dtype=torch.float64))
        ik.var = torch.tensor(v, dtype=torch.float64)
        i1 = [rng.randrange(T) for _ in range(rng.randint(1, 5))]
        i2 = [rng.randrange(T) for _ in range(rng.randint(1, 5))]
        with gpytorch.settings.lazily_evaluate_kernels(rng.random() < 0.5):
            got = ik(torch.tensor(i1).unsqueeze(-1), torch.tensor(i2).unsqueeze(-1)).to_dense().detach().numpy()
            got_d = ik(torch.tensor(i1).unsqueeze(-1), diag=True).detach().numpy()
        Bt, vt = ik.covar_factor.detach().tolist(), ik.var.detach().tolist()
        h = q.ask(f"IX {mat(Bt)} {vec(vt)} {len(i1)} {' '.join(map(str, i1))} {len(i2)} {' '.join(map(str, i2))}")
        hd = q.ask(f"IX {mat(Bt)} {vec(vt)} {len(i1)} {' '.join(map(str, i1))} {len(i1)} {' '.join(map(str, i1))}")
        ctx.case({"index": [B, v, i1, i2]}, sample={"kernel": "IndexKernel", "T": T})
        work.append(("IndexKernel", "lookup", h, got, {"B": B, "v": v, "i1": i1, "i2": i2}))
        work.append(("IndexKernel", "diag", hd, got_d, {"B": B, "v": v, "i1": i1, "i2": i1, "diag": True}))
        # Multitask / LCM
        d = rng.randint(1, 3)
        nparts = rng.randint(1, 3)
        # data kernels: stationary AND non-stationary ones (Linear, Polynomial, sums containing them) — with a constant
        # data-kernel diagonal a diag path that mixes up the point index is invisible
        def data_spec():
            fam = rng.choice(["rbf", "matern5", "rq", "linear", "poly2", "linear", "sum"])
            if fam == "sum":
                return {"t": "add", "ks": [rand_leaf(rng, rng.choice(["rbf", "matern3"]), d, False),
                                           rand_leaf(rng, rng.choice(["linear", "poly2"]), d, False)]}
            return rand_leaf(rng, fam, d, fam == "linear" and d > 1 and rng.random() < 0.5)
        specs = [data_spec() for _ in range(nparts)]
        if rep % 2 == 0:
            specs[0] = rand_leaf(rng, rng.choice(["linear", "poly2"]), d, False)
        bases = [build([s], False) for s in specs]
        na, nb_ = rng.sample([x for x in range(2, 7) if x not in (T, d)], 2)     # T, d, n1, n2 pairwise different, n > 1
        x1, x2 = rand_x(rng, na, d), rand_x(rng, nb_, d)
        if nparts == 1:
            mk = K.MultitaskKernel(bases[0], num_tasks=T, rank=rank).double()
            mods = [mk]
            name = "MultitaskKernel"
        else:
            mk = K.LCMKernel(bases, num_tasks=T, rank=rank).double()
            mods = list(mk.covar_module_list)
            name = "LCMKernel"
        parts = []
        for m, s in zip(mods, specs):
            Bm = [[rng.gauss(0, 1) for _ in range(rank)] for _ in range(T)]
            m.task_covar_module.initialize(covar_factor=torch.tensor(Bm, dtype=torch.float64))
            m.task_covar_module.var = torch.tensor([logu(rng, 0.05, 2.0) for _ in range(T)], dtype=torch.float64)
            parts.append(f"{tokens(s, m.data_covar_module, 0, False)} "
                         f"{mat(m.task_covar_module.covar_factor.detach().tolist())} "
                         f"{vec(m.task_covar_module.var.detach().tolist())}")
        for tag, X2 in (("n1!=n2", x2), ("x1-only", None)):
            X1t = torch.tensor(x1, dtype=torch.float64)
            with gpytorch.settings.lazily_evaluate_kernels(rng.random() < 0.5):
                out = mk(X1t, torch.tensor(X2, dtype=torch.float64)) if X2 is not None else mk(X1t)
                got = out.to_dense().detach().numpy()
            h = q.ask(f"MT {nparts} {' '.join(parts)} {mat(x1)} {mat(X2 if X2 is not None else x1)}")
            ctx.case({"mt": name, "x1": x1, "x2": X2, "specs": specs, "T": T}, sample={"kernel": name, "T": T, "tag": tag})
            work.append((name, tag, h, got, {"specs": specs, "x1": x1, "x2": X2, "T": T}))
            if X2 is None:
                # the diag path and the lazy `.diagonal()` = the diagonal of the full matrix (interleaved: position i*T + s)
                for dtag, fn in (("diag", lambda: mk(X1t, diag=True)), ("lazy-diagonal", lambda: mk(X1t).diagonal(dim1=-1, dim2=-2))):
                    try:
                        with gpytorch.settings.lazily_evaluate_kernels(True):
                            gd = fn().detach().numpy()
                    except Exception as e:
                        ctx.fail(f"{name}/{dtag}/raises", f"{name} {dtag}: {type(e).__name__}: {str(e)[:160]}",
                                 {"specs": specs, "x1": x1, "x2": None, "T": T})
                        continue
                    ctx.case({"mt": name, "x1": x1, "specs": specs, "T": T, "tag": dtag}, sample=None)
                    work.append((name, dtag, h, gd, {"specs": specs, "x1": x1, "x2": None, "T": T, "diag": dtag}))

    def finish():
        for name, tag, h, got, payload in work:
            if name == "IndexKernel":
                exp = np.array(C.fmat_to_float(parse_rat(q[h])))
            else:
                exp = parse_bits(q[h])[0]
            if payload.get("diag"):
                exp = np.diagonal(exp)
            if got.shape != exp.shape or not np.allclose(got, exp, rtol=1e-10, atol=1e-12 * max(1.0, float(np.abs(exp).max()))):
                ctx.fail(f"{name}/{tag}", f"{name} differs from " +
                         ("(BBᵀ+diag v)[i,j]" if name == "IndexKernel" else "Σ K_data ⊗ K_task in the interleaved layout"),
                         payload)
    return finish


def misc_checks(ctx, rng, q):
    """Things the per-pair model does not express: sum_interaction_terms (documented default / values), and the
    coded Newton–Girard recursion of the model against the defining recursion (also a theorem)."""
    import torch
    from gpytorch.utils.sum_interaction_terms import sum_interaction_terms
    work = []
    for _ in range(6 if ctx.quick else 40):
        z = [rng.uniform(0.1, 1.0) for _ in range(rng.randint(1, 6))]
        s = [rng.uniform(0.1, 2.0) for _ in range(rng.randint(1, len(z)))]
        ctx.case({"ng": z, "s": s}, sample=None)
        work.append(("ng", q.ask(f"NG {vec(z)} {vec(s)}"), None, None))
        D = len(z)
        covs = torch.tensor([[[zi * (1 + 0.1 * i + 0.01 * j) for j in range(2)] for i in range(2)] for zi in z],
                            dtype=torch.float64)
        for M in range(1, D + 1):
            got = sum_interaction_terms(covs, max_degree=M).numpy()
            for i in range(2):
                for j in range(2):
                    zz = [zi * (1 + 0.1 * i + 0.01 * j) for zi in z]
                    work.append(("sit", q.ask(f"NG {vec(zz)} {vec([1.0] * M)}"), float(got[i, j]), {"z": zz, "max_degree": M}))
    covs = torch.tensor([[[0.5, 0.2], [0.2, 0.7]], [[0.3, 0.1], [0.1, 0.9]]], dtype=torch.float64)
    ctx.case("sum_interaction_terms default max_degree", sample=None)
    try:
        got = sum_interaction_terms(covs)
        want = covs[0] + covs[1] + covs[0] * covs[1]
        if not torch.allclose(got, want, rtol=1e-12):
            ctx.fail("sum_interaction_terms/max_degree=None", "default max_degree does not sum all degrees",
                     {"covars": covs.tolist(), "call": "sum_interaction_terms(covars)"})
    except Exception as e:
        ctx.fail("sum_interaction_terms/max_degree=None",
                 f"documented default `max_degree=None` (\"will default to D\") raises {type(e).__name__}: {str(e)[:120]}",
                 {"covars": covs.tolist(), "call": "sum_interaction_terms(covars)"})

    def finish():
        for kind, h, got, payload in work:
            a, b = parse_bits(q[h])[0][0]
            if kind == "ng":
                if abs(a - b) > 1e-12 * max(1, abs(b)):
                    ctx.broke("correspondence", "Newton–Girard recursion vs elementary symmetric polynomials (Lean)", f"{a} vs {b}")
            elif abs(got - b) > 1e-10 * max(1, abs(b)):
                ctx.fail("sum_interaction_terms/value", f"sum_interaction_terms(D={len(payload['z'])}, "
                         f"max_degree={payload['max_degree']}) = {got!r}, Σ e_k = {b!r}", payload)
    return finish


def generated_kernels(ctx, rng, q):
    """Translator test for `Gen/KernelFormulas.lean`: every regenerated kernel forward / distance helper is driven
    (a) against the hand-written Spec in Lean (both in `Float`; the theorems `*_gen_eq_spec` say they are equal over ℝ)
    and (b) against the real kernel it was generated from."""
    import numpy as np
    import torch
    import gpytorch
    from gpytorch.kernels.kernel import dist as real_dist, sq_dist as real_sq_dist
    reps = 2 if ctx.quick else 15
    work = []
    fams = ["rbf", "matern1", "matern3", "matern5", "rq", "periodic", "cosine", "linear", "poly1", "poly2", "poly3",
            "pp0", "pp1", "pp2", "pp3", "const"]
    for rep in range(reps):
        for fam in fams:
            _B, d, n1, n2 = distinct_sizes(rng)
            ardflag = fam not in NO_ARD and d > 1 and rng.random() < 0.5
            spec = rand_leaf(rng, fam, d, ardflag)
            x1, x2 = rand_x(rng, n1, d), rand_x(rng, n2, d)
            k = build([spec], False)
            full = lambda v: [float(t) for t in (v if len(v) == d else list(v) * d)]  # noqa: E731
            g = lambda x: getp(x, 0, False)  # noqa: E731
            mean = np.mean(np.array(x1), axis=0).tolist()
            t = spec["t"]
            if t == "rbf":
                heads = [f"rbf {vec(full(g(k.lengthscale)))}", f"rbfgen {vec(full(g(k.lengthscale)))} "
                         f"{vec((np.array(mean) / np.array(full(g(k.lengthscale)))).tolist())}"]
            elif t == "matern":
                heads = [f"matern {spec['nu2']} {vec(full(g(k.lengthscale)))} {vec(mean)}"]
            elif t == "rq":
                heads = [f"rq {vec(full(g(k.lengthscale)))} {num(g(k.alpha)[0])}"]
            elif t == "periodic":
                heads = [f"periodic {vec(full(g(k.lengthscale)))} {vec(full(g(k.period_length)))}"]
            elif t == "cosine":
                heads = [f"cosine {num(g(k.period_length)[0])}"]
            elif t == "linear":
                heads = [f"linear {vec(full(g(k.variance)))}", f"linearsame {vec(full(g(k.variance)))}"]
            elif t == "poly":
                heads = [f"{h} {num(g(k.offset)[0])} {int(spec['p'])}" for h in ("poly", "polyb", "polyd")]
            elif t == "pp":
                heads = [f"pp {int(spec['q'])} {vec(full(g(k.lengthscale)))}"]
            else:
                heads = [f"const {num(g(k.constant)[0])}"]
            hs = [q.ask(f"GK {h} {mat(x1)} {mat(x2)}") for h in heads]
            hspec = q.ask(f"K {tokens(spec, k, 0, False)} {mat(x1)} {mat(x2)}")
            with warnings.catch_warnings():
                warnings.simplefilter("ignore")
                real = k(torch.tensor(x1, dtype=torch.float64), torch.tensor(x2, dtype=torch.float64)).to_dense().detach().numpy()
            ctx.case({"gk": fam, "x1": x1, "x2": x2, "spec": spec}, sample={"generated": heads[0].split()[0], "d": d})
            work.append((fam, heads, hs, hspec, real, slack(spec, x1, x2, False)))
        # distance helpers against the real functions
        _B, d, n1, n2 = distinct_sizes(rng)
        x1, x2 = rand_x(rng, n1, d), rand_x(rng, n2, d)
        X1, X2 = torch.tensor(x1, dtype=torch.float64), torch.tensor(x2, dtype=torch.float64)
        mean = X1.mean(0).tolist()
        for head, real in (("sqdist", real_sq_dist(X1, X2, False)), ("dist", real_dist(X1, X2, False)),
                           ("sqdistsame", real_sq_dist(X1, X1.clone(), True)), ("distsame", real_dist(X1, X1.clone(), True))):
            same = head.endswith("same")
            h = q.ask(f"GK {head} {vec(mean)} {mat(x1)} {mat(x1 if same else x2)}")
            ctx.case({"gk": head, "x1": x1, "x2": None if same else x2}, sample={"generated": head, "d": d})
            work.append((head, [head], [h], None, real.numpy(), None))

    def finish():
        for fam, heads, hs, hspec, real, sl in work:
            spec = parse_bits(q[hspec])[0] if hspec is not None else None
            for head, h in zip(heads, hs):
                gen = parse_bits(q[h])[0]
                if spec is not None and not np.allclose(gen, spec, rtol=1e-11, atol=1e-13 * max(1.0, np.abs(spec).max())):
                    ctx.broke("correspondence", f"generated `{head.split()[0]}` term vs hand-written Spec (Lean)",
                              f"max diff {np.abs(gen - spec).max():.3e}")
                if sl is not None:
                    tol = RTOL * np.abs(gen) + ATOL * max(1.0, sl[0]) + sl[1]
                    bad = np.abs(real - gen) > tol
                elif head.startswith("dist"):
                    off = ~np.eye(*gen.shape, dtype=bool) if head.endswith("same") else np.ones(gen.shape, dtype=bool)
                    bad = (np.abs(real - gen) > 1e-7) & off          # sqrt of rounding; the zero-filled diagonal is a separate term
                else:
                    off = ~np.eye(*gen.shape, dtype=bool) if head.endswith("same") else np.ones(gen.shape, dtype=bool)
                    bad = (np.abs(real - gen) > 1e-11 * (1 + np.abs(gen))) & off
                if bad.any():
                    ctx.broke("correspondence", f"generated `{head.split()[0]}` term vs the real function",
                              f"max diff {np.abs(real - gen).max():.3e}")
    return finish


def interaction_terms(ctx, rng, q):
    """`gpytorch.utils.sum_interaction_terms` against Σ_{k=1..min(max_degree, D)} e_k(z) (Lean `esymm`), for every
    legal `dim` (-3, -4, -5) with the batch dimensions before and/or after the kernel axis, max_degree in
    {None, 1..D, > D}, and pairwise different D, batch sizes, N, M (no shape coincidence can hide an axis mix-up).
    Sampled positions go to the Lean driver; the whole tensor is also compared with the defining sum over subsets."""
    import itertools
    import numpy as np
    import torch
    from gpytorch.utils.sum_interaction_terms import sum_interaction_terms
    work = []
    reps = 3 if ctx.quick else 15
    for rep in range(reps):
        for dim in (-3, -4, -5):
            for lead in (False, True):                 # an extra batch axis in front of the kernel axis
                D = rng.choice([2, 3, 4, 5])
                sizes = [D] + rng.sample([x for x in (2, 3, 4, 5, 6, 7, 8) if x != D], 5)
                mid = sizes[1:1 + (-dim - 3)]          # batch axes between the kernel axis and the matrix axes
                if mid and D > 2 and rng.random() < 0.6:
                    # make the axis that sits at position -3 SHORTER than the kernel axis (truncation would show)
                    small = [x for x in range(2, D) if x not in sizes[1:]]
                    if small:
                        mid[-1] = rng.choice(small)
                N, M = sizes[3], sizes[4]
                shape = ([sizes[5]] if lead else []) + [D] + mid + [N, M]
                covs = torch.tensor(np.array([rng.uniform(0.05, 1.0) for _ in range(int(np.prod(shape)))]).reshape(shape),
                                    dtype=torch.float64)
                axis = len(shape) + dim
                assert shape[axis] == D
                zfull = np.moveaxis(covs.numpy(), axis, -1)          # (..., D)
                for md in [None] + list(range(1, D + 1)) + [D + 1, D + 3]:
                    desc = {"shape": shape, "dim": dim, "max_degree": md, "covars": covs.tolist()}
                    ctx.case({"sit": shape, "dim": dim, "md": md, "seed": rep},
                             sample={"function": "sum_interaction_terms", "shape": shape, "dim": dim, "max_degree": md})
                    ctx.count(f"sum_interaction_terms_dim{dim}")
                    try:
                        got = (sum_interaction_terms(covs, dim=dim) if md is None
                               else sum_interaction_terms(covs, max_degree=md, dim=dim)).numpy()
                    except Exception as e:
                        ctx.fail(f"sum_interaction_terms/dim={dim}/raises",
                                 f"sum_interaction_terms(shape={shape}, max_degree={md}, dim={dim}): {type(e).__name__}: {str(e)[:160]}", desc)
                        continue
                    K_ = D if md is None else min(md, D)
                    want = np.zeros(zfull.shape[:-1])
                    for k in range(1, K_ + 1):
                        for idx in itertools.combinations(range(D), k):
                            want += np.prod(zfull[..., list(idx)], axis=-1)
                    key = f"sum_interaction_terms/dim={dim}/max_degree={'None' if md is None else ('<=D' if md <= D else '>D')}"
                    if got.shape != want.shape:
                        ctx.fail(key + "/shape", f"output shape {got.shape}, expected {want.shape} (covars {shape}, dim={dim})", desc)
                        continue
                    err = np.abs(got - want)
                    if (err > 1e-10 * np.maximum(1.0, np.abs(want))).any():
                        i = np.unravel_index(np.argmax(err), err.shape)
                        ctx.fail(key, f"sum_interaction_terms(covars {shape}, max_degree={md}, dim={dim}) at {tuple(int(x) for x in i)} "
                                 f"is {got[i]!r}, Σ_(k<={K_}) e_k of the {D} values along dim is {want[i]!r}", desc)
                        continue
                    for _ in range(3):                                   # sampled positions against the Lean Spec
                        i = tuple(rng.randrange(n_) for n_ in want.shape)
                        h = q.ask(f"NG {vec(zfull[i].tolist())} {vec([1.0] * K_)}")
                        work.append((h, float(got[i]), key, desc, i))

    def finish():
        for h, got, key, desc, i in work:
            e = parse_bits(q[h])[0][0][1]
            if abs(got - e) > 1e-10 * max(1.0, abs(e)):
                ctx.fail(key, f"sum_interaction_terms at {i} is {got!r}, Lean Σ e_k is {e!r}", dict(desc, position=list(i)))
    return finish


# ------------------------------------------------------------------------------------------- entry points

def coverage_table(covered):
    import gpytorch.kernels as K
    skipped = {
        "keops": "KeOps backend (not CPU / not installed)",
        "Kernel": "abstract base class (its __call__/covar_dist are exercised through every subclass)",
        "MultiDeviceKernel": "needs several CUDA devices",
        "GridKernel": "structure-exploiting approximation — dense meaning checked by C09",
        "GridInterpolationKernel": "structure-exploiting approximation (KISS-GP) — checked by C09",
        "InducingPointKernel": "low-rank approximation (SGPR) — checked by C09",
    }
    table = {}
    for n in K.__all__:
        if n in covered:
            table[n] = "covered"
        elif n in skipped:
            table[n] = "skipped: " + skipped[n]
        else:
            table[n] = "NOT COVERED"
    return table


def _reuse():
    from props import _c05_reuse
    return _c05_reuse


def _axes():
    from props import _c05_axes
    return _c05_axes


def correspondence(ctx):
    import torch
    torch.set_num_threads(2)
    assert torch.get_default_dtype() == torch.float32   # the ordinary default; all tensors are explicit float64
    rng = ctx.rng("cases")
    torch.manual_seed(rng.torch_seed())
    q = Q()
    cases = gen_cases(ctx, rng)
    covered = set()
    for c in cases:
        for s in c["kern"]:
            classes_in(s, covered)
    fins = [run_cases(ctx, cases, q),
            grad_kernel_cases(ctx, ctx.rng("grad"), q),
            fd_of_spec(ctx, ctx.rng("fd"), q),
            generated_terms(ctx, ctx.rng("gen"), q),
            task_kernels(ctx, ctx.rng("task"), q),
            misc_checks(ctx, ctx.rng("misc"), q),
            interaction_terms(ctx, ctx.rng("interaction"), q),
            generated_kernels(ctx, ctx.rng("genk"), q),
            _reuse().object_reuse(ctx, sys.modules[__name__], ctx.rng("reuse"), q),
            _axes().generated_axes(ctx, sys.modules[__name__], ctx.rng("gena"), q)]
    covered |= {"RBFKernelGrad", "Matern52KernelGrad", "PolynomialKernelGrad", "RBFKernelGradGrad",
                "IndexKernel", "MultitaskKernel", "LCMKernel"}
    q.run()
    ctx.count("driver_lines", len(q.lines))
    for f in fins:
        f()
    table = coverage_table(covered)
    ctx.notes["kernel_classes"] = table
    missing = [k for k, v in table.items() if v == "NOT COVERED"]
    if missing:
        ctx.broke("correspondence", "exported kernel classes without a check", ", ".join(missing))
    dims = {}
    for c in cases:
        x = c["x1"][0] if c.get("xbatch") else c["x1"]
        dims[len(x[0])] = dims.get(len(x[0]), 0) + 1
    ctx.notes["input_dim_distribution"] = dims


def search(ctx, broken):
    """A proof / the translator / the tie broke: the correspondence above already uses the Spec as oracle against
    the implementation; aim additional fast-path cases at the two autograd Functions and the piecewise
    polynomial (the only generated parts)."""
    if ctx.failures:
        return
    rng = ctx.rng("search")
    cases = []
    for rep in range(40):
        for fam in ("rbf", "matern1", "matern3", "matern5", "pp0", "pp1", "pp2", "pp3"):
            d = rng.randint(1, 3)
            spec = rand_leaf(rng, fam, d, False)
            for tag, x1, x2 in input_variants(rng, d)[:3]:
                for flags in ({}, {"param_grad": False}):
                    cases.append({"desc": f"search/{fam}/{tag}", "kern": [spec], "batched": False, "x1": x1, "x2": x2,
                                  "flags": flags, "xbatch": None})
    try:
        q = Q()
        fin = run_cases(ctx, cases, q)
        q.run()
        fin()
    except Exception:
        # the driver itself may be what broke (Gen no longer builds): fall back to an in-Python closed form
        _search_without_driver(ctx, cases)
    if not ctx.failures:
        _search_gradients(ctx, rng)


def _py_spec(spec, a, b):
    import numpy as np
    ls = np.array(spec["ls"])
    r2 = (((np.array(a) - np.array(b)) / ls) ** 2).sum()
    r = math.sqrt(r2)
    t = spec["t"]
    if t == "rbf":
        return math.exp(-0.5 * r2)
    if t == "matern":
        s = math.sqrt(spec["nu2"]) * r
        return {1: 1.0, 3: 1 + s, 5: 1 + s + s * s / 3}[spec["nu2"]] * math.exp(-s)
    q = spec["q"]
    j = len(a) // 2 + q + 1
    cov = {0: 1, 1: (j + 1) * r + 1, 2: 1 + (j + 2) * r + (j * j + 4 * j + 3) / 3 * r * r,
           3: 1 + (j + 3) * r + (6 * j * j + 36 * j + 45) / 15 * r * r + (j ** 3 + 9 * j * j + 23 * j + 15) / 15 * r ** 3}[q]
    return max(0.0, 1 - r) ** (j + q) * cov


def _search_without_driver(ctx, cases):
    import numpy as np
    for case in cases:
        try:
            real, _k = eval_real(case)
        except Exception as e:
            ctx.fail(f"{family_of(case['kern'][0])}/raises", f"{case['desc']}: {type(e).__name__}: {e}", {"case": case})
            continue
        X2 = case["x2"] if case["x2"] is not None else case["x1"]
        exp = np.array([[_py_spec(case["kern"][0], a, b) for b in X2] for a in case["x1"]])
        ctx.case({"s": case["desc"], "x1": case["x1"], "x2": case["x2"], "f": case["flags"]})
        err = np.abs(real[0] - exp)
        if (err > 1e-7).any():
            idx = np.unravel_index(np.argmax(err), err.shape)
            ctx.fail(f"{family_of(case['kern'][0])}/full", f"{case['desc']} flags={case['flags']}: entry {idx} is "
                     f"{real[0][idx]!r}, closed form {exp[idx]!r}", {"case": case, "oracle": "python closed form"})


def _search_gradients(ctx, rng):
    """Fast-path hyperparameter gradient vs central differences of the closed form (a wrong saved derivative
    changes no kernel value, only the gradient)."""
    import numpy as np
    import torch
    for rep in range(30):
        for fam in ("rbf", "matern1", "matern3", "matern5"):
            d = rng.randint(1, 3)
            spec = rand_leaf(rng, fam, d, False)
            x1, x2 = rand_x(rng, 3, d), rand_x(rng, 2, d)
            k = build([spec], False)
            go = torch.tensor(rand_x(rng, 3, 2), dtype=torch.float64)
            out = k(torch.tensor(x1, dtype=torch.float64), torch.tensor(x2, dtype=torch.float64)).to_dense()
            g, = torch.autograd.grad(out, k.raw_lengthscale, grad_outputs=go)
            ell = k.lengthscale.item()
            # d/d raw = d/d ell * sigmoid(raw)
            dl = torch.sigmoid(k.raw_lengthscale).item()
            h = 1e-6

            def val(l_):
                sp = dict(spec, ls=[l_])
                return sum(go[i, j].item() * _py_spec(sp, x1[i], x2[j]) for i in range(3) for j in range(2))
            fd = (val(ell + h) - val(ell - h)) / (2 * h) * dl
            ctx.case({"sg": fam, "x1": x1, "x2": x2, "l": ell})
            if abs(g.item() - fd) > 1e-5 * max(1.0, abs(fd)):
                ctx.fail(f"{family_of(spec)}/fast-path-gradient",
                         f"d/d raw_lengthscale through the fast path is {g.item()!r}, central differences of the closed "
                         f"form give {fd!r}", {"spec": spec, "x1": x1, "x2": x2, "grad_output": go.tolist()})


def replay(ctx, payload):
    """Re-run one recorded case; True when it no longer fails."""
    import torch
    torch.set_num_threads(2)
    c = payload.get("case", payload)
    before = len(ctx.failures)
    if "case" in c and isinstance(c["case"], dict) and "kern" in c["case"]:
        case = c["case"]
        if c.get("oracle") == "python closed form":
            _search_without_driver(ctx, [case])
        else:
            q = Q()
            fin = run_cases(ctx, [case], q)
            q.run()
            fin()
    elif "grad_case" in c:
        r = c["grad_case"]
        _replay_grad(ctx, r)
    elif "session" in c or "grad_session" in c or "task_session" in c:
        _reuse().replay(ctx, sys.modules[__name__], c)
    elif "call" in c or "covars" in c or "max_degree" in c:
        q = Q()
        fins = [misc_checks(ctx, ctx.rng("misc"), q), interaction_terms(ctx, ctx.rng("interaction"), q)]
        q.run()
        for f in fins:
            f()
        key = payload.get("key")
        return not any(f["key"] == key for f in ctx.failures[before:]) if key else len(ctx.failures) == before
    else:
        correspondence(ctx)
    return len(ctx.failures) == before


def _replay_grad(ctx, r):
    k, line = _grad_module(r)
    r = dict(r, cname=type(k).__name__)
    try:
        got = _grad_eval(k, r)
    except Exception as e:
        ctx.fail(f"{r['cname']}/{r['tag']}/raises", f"{type(e).__name__}: {e}", {"grad_case": r})
        return
    exp = parse_bits(C.run_driver("C05", [line])[0])[0]
    _grad_compare(ctx, r, got, exp)

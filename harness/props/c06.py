"""C06 — diag, transpose, lazy evaluation and indexing of a kernel all agree; active_dims.

Wave 3: + translator `g5_kernel_call` (-> `Gen/KernelCall.lean`; theorems `Props/C06Kernels.lean`: every regenerated kernel
is pairwise, the C06 laws for them, `Kernel.__call__` preparation / diag decision) and parts H (history on one kernel
object under every global setting), I (wrappers without own batch_shape around batched kernels), J (last_dim_is_batch
under every lazy operation), L (kernel-algebra / operator histories on one object), M (diag vs diagonal with unequal ARD
lengthscales for every family incl. derivative kernels), K (regenerated kernels / preparation / decisions executed by the driver vs the real code).

Tie: translator G3 (`harness/translate/g3_lazy_index.py` -> `Gen/LazyIndex.lean`: multi-output slice division
of `LazyEvaluatedKernelTensor._getitem`, `active_dims` handling of `Kernel.__getitem__` / `expand_batch`) AND
correspondence:

 A  the L1 index model (`PyIndex`) against torch on `arange` tensors — exact;
 B  `kernel(x1,x2)[idx].to_dense()` vs `kernel(x1,x2).to_dense()[idx]` for one kernel per code family x batch
    broadcast patterns x `lazily_evaluate_kernels` on/off x index expressions (the property itself);
 C  the lazy `_getitem` path: the rows of x1 / x2 and the parameter slices held by the returned lazy tensor vs
    the driver's `lazyGetitem` run on positions (exact);
 D  the generated multi-output slice division vs the real `_getitem` (falls back or not; which points);
 E  diag, `.mT`, `.repeat`, blocks on stacked inputs, `kernel[i]`, `expand_batch`.
"""
import hashlib
import itertools
import os
import sys
import warnings

from lib import common as C

ID = "C06"
PROP_MODULES = ["GPVerif.Props.C06", "GPVerif.Props.C06Kernels"]
BUILD_TARGETS = ["GPVerif.Props.C06", "GPVerif.Props.C06Kernels", "GPVerif.Gen.LazyIndex", "GPVerif.Gen.KernelCall",
                 "GPVerif.Model.KernelIndex"]
RULE = ("index expressions: per dimension all ints in [-n, n), all slices with start/stop in {None} u [-n-1, n+1] and "
        "step in {None,1,2} (negative steps: rejected by torch), 1-D index tensors, ellipsis at every position, short "
        "indices; exhaustive per dimension against a covering set on the other dimensions (thorough: full products on "
        "the small shapes); x kernels (one per code family) x batch broadcast patterns x lazily_evaluate_kernels; "
        "distinct = (part, kernel, batch pattern, lazy, index expression); non-trivial = the selection is non-empty "
        "and not the whole tensor")
EXHAUSTIVE = True
TRUSTED = ["translator harness/translate/g3_lazy_index.py (Python ast -> Gen/LazyIndex.lean)",
           "translator harness/translate/g5_kernel_call.py (covar_dist, Kernel.__call__, forward branch conditions, call sites of "
           "the distance helpers -> Gen/KernelCall.lean) on top of g5_kernels / g5_formulas (C05: per-pair abstraction of the "
           "kernel forwards); `colMean` = x.mean(-2), `torch.equal` as the flag `same`, torch.cdist / torch.linalg.norm as Prims",
           "modelled not verified: torch advanced indexing (validated exactly against torch in part A), "
           "linear_operator's LinearOperator.__getitem__ / _get_indices / KroneckerProductLinearOperator"]
ASSUMPTIONS = ["kernels are pairwise: entry (b,i,j) depends only on the b-th parameter slice, x1[b,i], x2[b,j] — a THEOREM "
               "(gen_kernel_pairwise, exact over the reals) for the regenerated families RBF generic/fast, Matern 1/2, 3/2, 5/2 "
               "generic/fast, RQ, Periodic, Cosine, Linear, Polynomial, PiecewisePolynomial q=0..3, Constant; OBSERVED ONLY (1e-9) "
               "for the hand-modelled kernels: ScaleKernel, AdditiveKernel, ProductKernel, MultitaskKernel, LCMKernel, "
               "AdditiveStructureKernel, ProductStructureKernel, IndexKernel, SpectralMixture, SpectralDelta, RFF, Hamming, "
               "GaussianSymmetrizedKL, Arc, Cylindrical, derivative kernels (RBFKernelGrad, ...), Matern with diag=True, and for "
               "row-subset independence of every kernel in floating point (part K records the largest deviation)",
               "num_outputs_per_input is a positive integer (Int.ediv / emod = Python // and % for positive divisors)",
               "index expressions that torch itself rejects on the dense tensor are outside the property",
               "index expressions whose result has an empty dimension may be rejected by torch / linear_operator "
               "primitives with an exception (counted, never compared)"]

GEN = os.path.join(C.LEAN_DIR, "GPVerif", "Gen", "LazyIndex.lean")
_state = {}
RTOL, ATOL = 1e-8, 1e-9
D_IN = 3          # input dimension of every test problem


def generate(ctx):
    sys.path.insert(0, os.path.join(C.VERIF, "harness"))
    from translate import g3_lazy_index
    g, k, changed = g3_lazy_index.generate(C.REPO, GEN)
    _state["gen"], _state["flags"] = g, k
    ctx.notes["gen_changed"] = changed
    ctx.notes["gen_flags"] = k
    # the regenerated kernels: per-pair terms (translators owned by C05, run here because this property's theorems are
    # about their output) and their matrix-level reading + Kernel.__call__ / covar_dist (translator of this property)
    from translate import g5_formulas, g5_kernels, g5_kernel_call
    gdir = os.path.join(C.LEAN_DIR, "GPVerif", "Gen")
    ch = [g5_formulas.generate(C.REPO, os.path.join(gdir, "Formulas.lean")),
          g5_kernels.generate(C.REPO, os.path.join(gdir, "KernelFormulas.lean")),
          g5_kernel_call.generate(C.REPO, os.path.join(gdir, "KernelCall.lean"))]
    ctx.notes["gen_kernels_changed"] = ch


# ------------------------------------------------------------------ deterministic inputs

def _seed_int(seedval, label):
    return int.from_bytes(hashlib.sha256(f"{seedval}:{label}".encode()).digest()[:7], "big")


def _gen(seedval, label):
    import torch
    g = torch.Generator()
    g.manual_seed(_seed_int(seedval, label))
    return g


def _randn(g, *shape):
    import torch
    return torch.randn(*shape, generator=g, dtype=torch.float64)


# ------------------------------------------------------------------ kernels (one per code family)

def kernel_factories():
    import torch
    from gpytorch import kernels as K

    def B(b):
        return torch.Size(b)
    F = {
        "rbf": lambda b: K.RBFKernel(batch_shape=B(b)),
        "matern15": lambda b: K.MaternKernel(nu=1.5, batch_shape=B(b)),
        "rq_ard": lambda b: K.RQKernel(ard_num_dims=D_IN, batch_shape=B(b)),
        "periodic": lambda b: K.PeriodicKernel(batch_shape=B(b)),
        "linear": lambda b: K.LinearKernel(batch_shape=B(b)),
        "poly2": lambda b: K.PolynomialKernel(power=2, batch_shape=B(b)),
        "scale_rbf": lambda b: K.ScaleKernel(K.RBFKernel(batch_shape=B(b)), batch_shape=B(b)),
        "sum": lambda b: K.RBFKernel(batch_shape=B(b)) + K.MaternKernel(nu=0.5, batch_shape=B(b)),
        "prod": lambda b: K.RBFKernel(batch_shape=B(b)) * K.LinearKernel(batch_shape=B(b)),
        "rbf_ad": lambda b: K.RBFKernel(batch_shape=B(b), active_dims=[0, 2]),
        "scale_matern_ad": lambda b: K.ScaleKernel(K.MaternKernel(nu=2.5, ard_num_dims=2, batch_shape=B(b),
                                                                  active_dims=[2, 0]), batch_shape=B(b)),
        "sum_ad": lambda b: K.RBFKernel(batch_shape=B(b), active_dims=[1]) + K.MaternKernel(nu=0.5, batch_shape=B(b), active_dims=[0, 2]),
        "multitask": lambda b: K.MultitaskKernel(K.RBFKernel(batch_shape=B(b)), num_tasks=2, rank=1, batch_shape=B(b)),
        "multitask_matern": lambda b: K.MultitaskKernel(K.MaternKernel(nu=1.5, batch_shape=B(b)), num_tasks=3, rank=2, batch_shape=B(b)),
    }
    return F


MULTI_T = {"multitask": 2, "multitask_matern": 3}
# single-output, non-composite families: every valid index with a non-empty result must be *accepted*
STRICT = ("rbf", "matern15", "rq_ard", "periodic", "linear", "poly2", "scale_rbf", "rbf_ad", "scale_matern_ad")
ACTIVE = ("rbf_ad", "scale_matern_ad", "sum_ad")


def make_kernel(name, kb, seedval):
    import torch
    k = kernel_factories()[name](kb)
    g = _gen(seedval, f"params:{name}:{kb}")
    with torch.no_grad():
        for p in k.parameters():
            p.copy_(0.6 * torch.randn(p.shape, generator=g, dtype=torch.float64))
    k.double()
    k.eval()
    return k


def make_inputs(kb, b1, b2, n1, n2, seedval, label):
    g = _gen(seedval, f"inputs:{label}:{kb}:{b1}:{b2}:{n1}:{n2}")
    x1 = _randn(g, *b1, n1, D_IN)
    x2 = _randn(g, *b2, n2, D_IN)
    return x1, x2


# batch patterns (kernel batch, x1 batch, x2 batch); the broadcast is in {(), (2,), (2,3)} (+ a few with size 1)
PATTERNS_QUICK = [
    ((), (), ()),
    ((2,), (2,), (2,)), ((2,), (), ()), ((), (2,), (2,)), ((), (1,), (2,)), ((2,), (1,), (2,)), ((1,), (2,), ()),
    ((2, 3), (2, 3), (2, 3)), ((2, 1), (3,), (1, 3)), ((), (2, 3), (3,)), ((3,), (2, 1), (2, 3)), ((2, 3), (), (1, 1)),
    ((2,), (2, 1, 1), (1, 2, 2)),          # three batch dimensions
]
# Cells in which the batch comes from the KERNEL only and the last batch size equals the number of points used by
# part E (n = 3): a `batch x n` diagonal is then square — `diag=True` must not take a second diagonal of it.
# Never thinned out in the quick tier (every kernel family, lazily_evaluate_kernels on and off).
DIAG_AMBIGUOUS = [((3,), (), ()), ((2, 3), (), ()), ((3,), (1,), ()), ((3, 3), (), ())]
PATTERNS_INDEX = list(PATTERNS_QUICK)          # parts B / C (indexing): the diag-ambiguous cells add nothing there
PATTERNS_QUICK = PATTERNS_QUICK + DIAG_AMBIGUOUS


def all_patterns():
    shapes = [(), (1,), (2,), (3,), (1, 1), (2, 1), (1, 3), (2, 3)]
    import torch
    out = []
    for kb, b1, b2 in itertools.product(shapes, repeat=3):
        try:
            bs = tuple(torch.broadcast_shapes(kb, b1, b2))
        except RuntimeError:
            continue
        if bs in ((), (2,), (2, 3), (3,), (1,)):
            out.append((kb, b1, b2))
    return out


# ------------------------------------------------------------------ index expressions

def bvals(n):
    """boundary-covering start/stop values for an axis of length n"""
    return [None] + sorted({-n - 1, -n, -1, 0, 1, n - 1, n, n + 1})


def dim_forms(n, full=False, steps=(None, 1, 2)):
    """index items for one axis of length n: ints, slices, 1-D index tensors (as tuples tagged 'T')"""
    out = [("I", k) for k in range(-n, n)]
    vals = ([None] + list(range(-n - 1, n + 2))) if full else bvals(n)
    for s in vals:
        for e in vals:
            for st in steps:
                out.append(("S", s, e, st))
    out += [("T", (0,)), ("T", (n - 1, 0)), ("T", (-1, 0, 0, 1 % n))]
    return out


COVER_ROWCOL = lambda n: [("S", None, None, None), ("I", 0), ("I", -n), ("S", 1, None, None), ("T", (n - 1, 0))]  # noqa: E731


def py_item(it):
    import torch
    if it == "E":
        return Ellipsis
    if it[0] == "I":
        return it[1]
    if it[0] == "S":
        return slice(it[1], it[2], it[3])
    if it[0] == "T":
        return torch.tensor(list(it[1]), dtype=torch.long)
    raise ValueError(it)


def enc_item(it):
    n = lambda v: "N" if v is None else str(v)  # noqa: E731
    if it == "E":
        return "e"
    if it[0] == "I":
        return f"i:{it[1]}"
    if it[0] == "S":
        return f"s:{n(it[1])}:{n(it[2])}:{n(it[3])}"
    return "t:" + ",".join(str(v) for v in it[1])


def enc_idx(idx):
    return ";".join(enc_item(i) for i in idx) if idx else "-"


def show_idx(idx):
    def s(it):
        if it == "E":
            return "..."
        if it[0] == "I":
            return str(it[1])
        if it[0] == "S":
            f = lambda v: "" if v is None else str(v)  # noqa: E731
            return f"{f(it[1])}:{f(it[2])}" + (f":{it[3]}" if it[3] is not None else "")
        return "tensor(" + str(list(it[1])) + ")"
    return "[" + ", ".join(s(i) for i in idx) + "]"


def expand_idx(idx, rank):
    """ellipsis expansion / padding, as LinearOperator.__getitem__ does"""
    idx = list(idx)
    if "E" in idx:
        p = idx.index("E")
        idx = idx[:p] + [("S", None, None, None)] * (rank - (len(idx) - 1)) + idx[p + 1:]
    return idx + [("S", None, None, None)] * (rank - len(idx))


def rowcol_minus_one(idx, rank):
    full = expand_idx(idx, rank)
    if len(full) != rank:
        return False
    return any(it[0] == "I" and it[1] == -1 for it in full[-2:])


def index_expressions(bs, R, Cn, rng, tier, budget):
    """index expressions on a tensor of shape (*bs, R, Cn).  Deterministic core + `budget` sampled ones."""
    rows, cols = dim_forms(R), dim_forms(Cn)
    core = []
    for r in rows:
        for c in COVER_ROWCOL(Cn):
            core.append(("E", r, c))
    for c in cols:
        for r in COVER_ROWCOL(R):
            core.append(("E", r, c))
    core += [("E", c) for c in cols[:2 * Cn + 30]]
    if not bs:
        core += [(r,) for r in rows[:2 * R + 40]] + [(r, c) for r in COVER_ROWCOL(R) for c in COVER_ROWCOL(Cn)]
    else:
        bforms = [dim_forms(b, steps=(None, 2)) for b in bs]
        small = lambda n: [("I", n - 1), ("I", -n), ("S", None, None, None), ("S", 1, None, None), ("S", None, -1, None),  # noqa: E731
                           ("S", 1, 2, None), ("S", None, None, 2), ("T", (n - 1, 0))]
        rc = [(("S", None, None, None), ("S", None, None, None)), (("I", 0), ("S", 1, None, None)),
              (("S", None, -1, None), ("I", Cn - 1)), (("T", (R - 1, 0)), ("S", None, None, None)),
              (("S", 1, None, None), ("T", (0, Cn - 1)))]
        if len(bs) == 1:
            for b0 in bforms[0]:
                core += [(b0,), (b0, "E"), (b0,) + rc[1], (b0,) + rc[2], (b0, "E", ("I", 0))]
            for b0 in small(bs[0]):
                core += [(b0,) + x for x in rc]
        else:
            for b0 in bforms[0]:
                for b1 in small(bs[1]):
                    core += [(b0, b1), (b0, b1) + rc[1]]
            for b1 in bforms[1]:
                for b0 in small(bs[0]):
                    core += [(b0, b1), (b0, b1) + rc[2], (b0, b1, "E", ("I", 0))]
            for b0 in small(bs[0]):
                core += [(b0,), (b0, "E"), (b0, "E", ("S", 1, None, None))]
                for b1 in small(bs[1]):
                    core += [(b0, b1) + x for x in rc]
        core += [("E",), ("E", ("S", None, None, None), ("S", None, None, None))]
    # sampled full-product expressions
    extra = []
    allb = [dim_forms(b, steps=(None, 2)) for b in bs]
    for _ in range(budget):
        ix = tuple(rng.choice(f) for f in allb) + (rng.choice(rows), rng.choice(cols))
        cut = rng.random()
        if cut < 0.15 and len(ix) > 2:
            ix = ix[:rng.randint(1, len(ix) - 1)]
        elif cut < 0.3:
            p = rng.randint(0, len(ix))
            ix = ix[:p] + ("E",) + ix[p + rng.randint(0, len(ix) - p):]
        extra.append(ix)
    seen, out = set(), []
    for ix in core + extra:
        if ix not in seen:
            seen.add(ix)
            out.append(ix)
    return out


# ------------------------------------------------------------------ comparison helpers

def _sh(b):
    return ",".join(str(v) for v in b) if len(b) else "-"


def active_reference(name, kernel, x1, x2):
    """the same kernel without any `active_dims`, applied to the selected input columns"""
    import copy
    kc = copy.deepcopy(kernel)
    if name == "sum_ad":
        parts = []
        for sub in kc.kernels:
            ad = sub.active_dims.clone()
            for m in sub.modules():
                if hasattr(m, "active_dims"):
                    m.active_dims = None
            parts.append(_dense(sub(x1[..., ad], x2[..., ad])))
        return (parts[0] + parts[1]).detach()
    ad = kc.active_dims.clone()
    for m in kc.modules():
        if hasattr(m, "active_dims"):
            m.active_dims = None
    return _dense(kc(x1[..., ad], x2[..., ad])).detach()


def _dense(x):
    return x.to_dense() if hasattr(x, "to_dense") else x


def _close(a, b):
    import torch
    if a.shape != b.shape:
        return False
    if a.numel() == 0:
        return True
    return bool(torch.allclose(a, b, rtol=RTOL, atol=ATOL))


def _maxerr(a, b):
    if a.shape != b.shape:
        return f"shape {tuple(a.shape)} vs {tuple(b.shape)}"
    return f"max abs err {(a - b).abs().max().item():.3e}" if a.numel() else "empty"


class Cell:
    """one (kernel, batch pattern) with its inputs and dense matrices"""

    def __init__(self, name, kb, b1, b2, n1, n2, seedval):
        import torch
        import gpytorch
        self.name, self.kb, self.b1, self.b2, self.n1, self.n2 = name, kb, b1, b2, n1, n2
        self.t = MULTI_T.get(name, 1)
        self.kernel = make_kernel(name, kb, seedval)
        self.x1, self.x2 = make_inputs(kb, b1, b2, n1, n2, seedval, name)
        self.bs = tuple(torch.broadcast_shapes(kb, b1, b2))
        self._ad = [(m, None if m.active_dims is None else m.active_dims.clone()) for m in self.kernel.modules()
                    if hasattr(m, "active_dims")]
        self.ok = True
        try:
            with torch.no_grad(), gpytorch.settings.lazily_evaluate_kernels(False):
                self.D_eager = _dense(self.kernel(self.x1, self.x2)).detach()
            with torch.no_grad(), gpytorch.settings.lazily_evaluate_kernels(True):
                self.D_lazy = _dense(self.kernel(self.x1, self.x2)).detach()
        except Exception as e:   # e.g. batched MultitaskKernel with batched inputs: explicit error of the kernel
            self.ok = False
            self.err = f"{type(e).__name__}: {str(e)[:120]}"

    def restore(self):
        """`evaluate_kernel` sets `kernel.active_dims = None` around the call and does not restore it when the call
        raises: after a rejected case put the buffers back so that later cases see the kernel as constructed."""
        for m, ad in self._ad:
            m.active_dims = ad

    def desc(self):
        return {"kernel": self.name, "kernel_batch": list(self.kb), "x1_batch": list(self.b1), "x2_batch": list(self.b2),
                "n1": self.n1, "n2": self.n2}

    def K(self, lazy):
        import gpytorch
        with gpytorch.settings.lazily_evaluate_kernels(lazy):
            return self.kernel(self.x1, self.x2)


def cell_rejected(ctx, cell):
    """the kernel itself raises on (x1, x2) although the batch shapes broadcast"""
    ctx.count("cells_rejected_by_kernel")
    ctx.notes.setdefault("cells_rejected", {})[f"{cell.name}:{cell.kb}:{cell.b1}:{cell.b2}"] = cell.err
    # documented / separately reported limitations: a MultitaskKernel with a batch shape does not accept batched
    # inputs (explicit Kronecker batch error); RQKernel's alpha alignment under rank-deficient kernel batch is C08's
    if (cell.name in MULTI_T and cell.kb) or cell.name == "rq_ard":
        return
    ctx.case(f"B|{cell.name}|{cell.kb}|{cell.b1}|{cell.b2}|kernel-call")
    ctx.fail("kernel-call:raises", f"{cell.name} kernel batch {cell.kb}, x1 batch {cell.b1}, x2 batch {cell.b2}: kernel(x1, x2) "
             f"raises {cell.err} although the batch shapes broadcast", dict(cell.desc(), part="kernel-call"))


def check_index(ctx, cell, idx, lazy, part="B"):
    """the property: kernel(x1,x2)[idx].to_dense() == kernel(x1,x2).to_dense()[idx]"""
    import torch
    D = cell.D_lazy if lazy else cell.D_eager
    pidx = tuple(py_item(i) for i in idx)
    rank = D.dim()
    try:
        want = D[pidx]
    except Exception:
        ctx.count("index_rejected_by_torch")
        return "invalid"
    desc = f"{part}|{cell.name}|{cell.kb}|{cell.b1}|{cell.b2}|{cell.n1}x{cell.n2}|lazy={int(lazy)}|{enc_idx(idx)}"
    nontriv = 0 < want.numel() < D.numel() or want.shape != D.shape
    replay = dict(cell.desc(), part="index", lazy=lazy, index=[list(i) if i != "E" else "E" for i in idx],
                  index_text=show_idx(idx))
    full = expand_idx(idx, rank)
    broadcast_cell = bool(cell.bs) and (tuple(cell.b1) != cell.bs or tuple(cell.b2) != cell.bs
                                        or (bool(cell.kb) and tuple(cell.kb) != cell.bs))
    batch_sliced = broadcast_cell and len(full) == rank and any(
        i[0] in ("S", "T") and i != ("S", None, None, None) for i in full[:len(cell.bs)])
    minus1 = rowcol_minus_one(idx, rank)
    where = (f"{cell.name} kernel batch {cell.kb}, x1 batch {cell.b1}, x2 batch {cell.b2}, n1={cell.n1}, n2={cell.n2}: "
             f"kernel(x1,x2){show_idx(idx)} (lazy={lazy})")
    try:
        with torch.no_grad(), warnings.catch_warnings():
            warnings.simplefilter("ignore")
            got = _dense(cell.K(lazy)[pidx]).detach()
    except Exception as e:
        cell.restore()
        ctx.case(desc, nontrivial=False)
        msg = f"{type(e).__name__}: {str(e)[:160]}"
        if want.numel() == 0 or 0 in want.shape:
            ctx.count("rejected_empty_result")
        elif minus1:
            ctx.count("rejected_linear_operator_int_minus_one")
        elif cell.name not in STRICT:
            # composite / multi-output kernels under batch broadcasting: explicit errors of expand_batch /
            # MultitaskKernel / linear_operator's Kronecker and sum operators — counted per class, not compared
            ctx.count("rejected_composite_or_multioutput")
            rj = ctx.notes.setdefault("rejections", {})
            k = f"{cell.name}:{type(e).__name__}:{str(e)[:60]}"
            rj[k] = rj.get(k, 0) + 1
        elif batch_sliced:
            ctx.fail("getitem:batch-slice-of-broadcast-dim:raises",
                     f"{where} raises {msg} although the dense tensor accepts the index (result shape {tuple(want.shape)}): "
                     f"a batch dimension that only exists by broadcasting is indexed before it is expanded", replay)
        else:
            ctx.count("rejected_other")
            ctx.fail(f"rejects-valid-index:{type(e).__name__}",
                     f"{where} raises {msg} although the dense tensor accepts the index (result shape {tuple(want.shape)})",
                     replay)
        return "rejected"
    ctx.case(desc, nontrivial=nontriv, sample={"kernel": cell.name, "index": show_idx(idx), "lazy": lazy,
                                               "result_shape": list(want.shape)})
    if _close(got, want):
        return "ok"
    err = f"{where}.to_dense() vs kernel(x1,x2).to_dense(){show_idx(idx)}: {_maxerr(got, want)}"
    if minus1:
        ctx.fail("linear_operator.getitem:int-minus-one",
                 err + " (linear_operator's LinearOperator.__getitem__ turns the int -1 into slice(-1, 0))", replay)
        return "known"
    if batch_sliced:
        key = "getitem:batch-slice-of-broadcast-dim"
    elif cell.t > 1:
        key = "getitem:multiout:" + ("empty-slice" if (0 in want.shape or 0 in got.shape) else "values")
    else:
        key = "getitem:" + ("empty-selection" if (0 in want.shape or 0 in got.shape) else "values")
    ctx.fail(key, err, replay)
    return "fail"


# ------------------------------------------------------------------ part A: L1 index model vs torch

def part_A(ctx, lines, recs):
    import torch
    shapes = [(1,), (2,), (3,), (4,)] if ctx.quick else [(1,), (2,), (3,), (4,), (5,)]
    n = 0
    for (d,) in shapes:
        for it in dim_forms(d, full=True, steps=(None, 1, 2, 3, -1, -2)):
            if it[0] == "S":
                want = list(range(*slice(it[1], it[2], it[3]).indices(d)))
                lines.append(f"idx {d} | {enc_item(it)}")
                recs.append(("A1", (d, it), ([len(want)], want)))
                n += 1
    rng = ctx.rng("A")
    shapes2 = [(2, 3), (3, 4), (2, 3, 4), (2, 2, 3, 2)] if ctx.quick else [(2, 3), (3, 4), (4, 4), (2, 3, 4), (3, 2, 4), (2, 2, 3, 2), (2, 3, 3, 4)]
    per = 500 if ctx.quick else 4000
    for shape in shapes2:
        A = torch.arange(int(torch.tensor(shape).prod())).reshape(shape)
        forms = [dim_forms(d, steps=(None, 1, 2)) for d in shape]
        done = set()
        # exhaustive on the last axis against full slices, then sampled products incl. ellipsis / short / tensors
        cands = [("E", f) for f in forms[-1]] + [(f,) for f in forms[0]]
        for _ in range(per):
            ix = tuple(rng.choice(f) for f in forms)
            c = rng.random()
            if c < 0.2:
                ix = ix[:rng.randint(1, len(ix))]
            elif c < 0.45:
                p = rng.randint(0, len(ix))
                ix = ix[:p] + ("E",) + ix[p + rng.randint(0, len(ix) - p):]
            cands.append(ix)
        for ix in cands:
            if ix in done:
                continue
            done.add(ix)
            # the model zips equal-length index tensors only; torch would also broadcast length 1
            tl = {len(i[1]) for i in ix if i != "E" and i[0] == "T"}
            if len(tl) > 1:
                continue
            try:
                w = A[tuple(py_item(i) for i in ix)]
                want = (list(w.shape), w.reshape(-1).tolist())
            except Exception:
                want = None
            lines.append(f"idx {','.join(map(str, shape))} | {enc_idx(ix)}")
            recs.append(("A2", (shape, ix), want))
            n += 1
    ctx.count("A_lines", n)


def parse_reply(rep):
    if rep in ("none", "fallback", "bad-request"):
        return rep
    out = {}
    for part in rep.split(";"):
        k, _, v = part.partition("=")
        out[k] = [] if v in ("-", "", "N") else [int(t) for t in v.split(",")]
    return out


# ------------------------------------------------------------------ part C: the lazy path's observables

def part_C(ctx, lines, recs, seedval):
    """RBF kernel with batched lengthscale: the object returned by _getitem holds x1', x2' and an indexed kernel"""
    import torch
    import gpytorch
    pats = PATTERNS_INDEX if ctx.quick else all_patterns()
    rng = ctx.rng("C")
    for kb, b1, b2 in pats:
        cell = Cell("rbf", kb, b1, b2, 3, 2, seedval)
        if not cell.ok:
            continue
        exprs = index_expressions(cell.bs, 3, 2, rng, ctx.tier, 40 if ctx.quick else 300)
        exprs = [ix for ix in exprs if sum(1 for i in ix if i != "E" and i[0] == "T") <= 1]
        if ctx.quick:
            exprs = exprs[::3]
            if len(exprs) > 900:
                exprs = exprs[:200] + rng.sample(exprs[200:], 700)
        elif len(exprs) > 260:
            exprs = exprs[:60] + rng.sample(exprs[60:], 200)
        x1flat = cell.x1.reshape(-1, D_IN)
        x2flat = cell.x2.reshape(-1, D_IN)
        ls = cell.kernel.lengthscale.detach().reshape(-1)
        for ix in exprs:
            pidx = tuple(py_item(i) for i in ix)
            try:
                want = cell.D_lazy[pidx]
            except Exception:
                continue
            obs = None
            try:
                with torch.no_grad(), gpytorch.settings.lazily_evaluate_kernels(True), warnings.catch_warnings():
                    warnings.simplefilter("ignore")
                    R = cell.K(True)[pidx]
                if type(R).__name__ == "LazyEvaluatedKernelTensor":
                    obs = (R.x1, R.x2, R.kernel.lengthscale.detach())
            except Exception:
                R = None
            lines.append(f"lazy {','.join(map(str, b1)) or '-'} ; {','.join(map(str, b2)) or '-'} ; "
                         f"{','.join(map(str, kb)) or '-'} ; 3 2 | {enc_idx(ix)}")
            recs.append(("C", (cell, ix, want, obs, x1flat, x2flat, ls), None))


# ------------------------------------------------------------------ part D: multi-output slice division

def part_D(ctx, lines, recs, seedval):
    import torch
    import gpytorch
    for name in ("multitask", "multitask_matern"):
        t = MULTI_T[name]
        for (b1, b2) in [((), ()), ((2,), (2,))] if ctx.quick else [((), ()), ((2,), (2,)), ((2,), ()), ((1,), (2,))]:
            n1, n2 = (3, 2) if t == 2 else (2, 2)
            cell = Cell(name, (), b1, b2, n1, n2, seedval)
            if not cell.ok:
                ctx.count("cells_rejected")
                continue
            R, Cn = n1 * t, n2 * t
            vals_r = [None] + list(range(-R - 1, R + 2))
            vals_c = [None] + list(range(-Cn - 1, Cn + 2))
            col_cover = [(None, None, None), (0, t, None), (t, None, None), (None, 0, None), (1, None, None), (None, None, 1)]
            row_cover = [(None, None, None), (t, 2 * t, None), (None, -t, None), (0, 0, None), (None, 1, None)]
            pairs = [((s, e, st), c) for s in vals_r for e in vals_r for st in (None, 1) for c in col_cover
                     if st is None or (s in (None, 0, t) and e in (None, R))]
            pairs += [(r, (s, e, None)) for s in vals_c for e in vals_c for r in row_cover]
            if ctx.quick:   # every slice value still occurs; the (row, col) cover is thinned
                stride = (4 if name == "multitask_matern" else 1) * (3 if b1 else 1)
                off = C.seed() % stride
                pairs = pairs[off::stride]
            K = cell.K(True)
            for (rs, cs) in pairs:
                for form in ("ellipsis", "plain") if not ctx.quick else ("ellipsis",):
                    ix = (("S",) + rs, ("S",) + cs)
                    idx = (("E",) + ix) if form == "ellipsis" or cell.bs else ix
                    pidx = tuple(py_item(i) for i in idx)
                    want = cell.D_lazy[pidx]
                    # the property
                    st = check_index(ctx, cell, idx, True, part="D")
                    # the branch taken by the real code
                    taken = None
                    if st != "rejected":
                        try:
                            with torch.no_grad(), gpytorch.settings.lazily_evaluate_kernels(True), warnings.catch_warnings():
                                warnings.simplefilter("ignore")
                                Rr = K[pidx]
                            if type(Rr).__name__ == "LazyEvaluatedKernelTensor":
                                taken = ("lazy", Rr.x1.shape[-2], Rr.x2.shape[-2], Rr.x1, Rr.x2)
                            else:
                                taken = ("fallback",)
                        except Exception:
                            taken = None
                    n = lambda v: "N" if v is None else str(v)  # noqa: E731
                    lines.append(f"mo {n1} {n2} {t} {t} | {n(rs[0])} {n(rs[1])} {n(rs[2])} 1 | {n(cs[0])} {n(cs[1])} {n(cs[2])} 1")
                    recs.append(("D", (cell, idx, taken, want), None))


# ------------------------------------------------------------------ part B: kernels x patterns x index expressions

def part_B(ctx, seedval):
    rng = ctx.rng("B")
    names = list(kernel_factories())
    allp = all_patterns()
    extra = [p for p in allp if p not in PATTERNS_INDEX]
    ncell = 0
    for name in names:
        t = MULTI_T.get(name, 1)
        if ctx.quick:
            pats = PATTERNS_INDEX
        elif name == "rbf":
            pats = PATTERNS_INDEX + extra                       # every (kernel, x1, x2) batch triple
        else:
            pats = PATTERNS_INDEX + rng.sample(extra, 10)
        for pi, (kb, b1, b2) in enumerate(pats):
            heavy = name == "rbf" or (name in ("multitask", "rbf_ad") and pi < 4)
            if ctx.quick and not heavy and (pi + names.index(name)) % 3 != 0 and pi > 1:
                continue
            n1, n2 = (3, 2) if t > 1 else ((4, 3) if heavy and pi == 0 else (3, 2))
            cell = Cell(name, kb, b1, b2, n1, n2, seedval)
            if not cell.ok:
                cell_rejected(ctx, cell)
                continue
            ncell += 1
            # lazily evaluated == eager
            desc = f"B0|{name}|{kb}|{b1}|{b2}"
            ctx.case(desc)
            # rarely used branch: settings.trace_mode (RBF / Matern skip their custom autograd functions)
            try:
                import gpytorch as _g
                import torch as _t
                with _t.no_grad(), _g.settings.trace_mode(True), _g.settings.lazily_evaluate_kernels(False), warnings.catch_warnings():
                    warnings.simplefilter("ignore")
                    D_trace = _dense(cell.kernel(cell.x1, cell.x2)).detach()
                ctx.case(desc + "|trace_mode")
                if not _close(D_trace, cell.D_eager):
                    ctx.fail(f"trace-mode:{name}", f"{name} {kb}/{b1}/{b2}: kernel(x1,x2) under settings.trace_mode differs: "
                             f"{_maxerr(D_trace, cell.D_eager)}", dict(cell.desc(), part="lazy-vs-eager"))
            except Exception as e:
                cell.restore()
                ctx.count("trace_mode_rejected")
            if not _close(cell.D_lazy, cell.D_eager):
                ctx.fail(f"lazy-vs-eager:{name}", f"{name} {kb}/{b1}/{b2}: lazily evaluated kernel differs from eager: "
                         f"{_maxerr(cell.D_lazy, cell.D_eager)}", dict(cell.desc(), part="lazy-vs-eager"))
            budget = (120 if heavy else 25) if ctx.quick else (400 if heavy else 150)
            exprs = index_expressions(cell.bs, n1 * t, n2 * t, rng, ctx.tier, budget)
            if not ctx.quick:
                keep = (2500 if pi == 0 else 450) if name == "rbf" else (700 if heavy else 260)
                if len(exprs) > keep:
                    exprs = exprs[:keep // 3] + rng.sample(exprs[keep // 3:], keep - keep // 3)
            elif not heavy:
                keep = 50
                exprs = rng.sample(exprs, min(keep, len(exprs)))
            elif ctx.quick:
                keep = 700 if (name == "rbf" and pi == 0) else (420 if name == "rbf" else 250)
                if len(cell.bs) >= 3:
                    keep = 160
                if len(exprs) > keep:
                    exprs = exprs[:keep // 3] + rng.sample(exprs[keep // 3:], keep - keep // 3)
            for ix in exprs:
                for lazy in (True, False):
                    check_index(ctx, cell, ix, lazy)
    ctx.notes["B_cells"] = ncell


# ------------------------------------------------------------------ part E: diag, mT, repeat, blocks, kernel[i], expand_batch

def part_E(ctx, seedval, only=None, lines=None, recs=None):
    import torch
    import gpytorch
    names = list(kernel_factories())
    pats = PATTERNS_QUICK if ctx.quick else all_patterns()
    if only is not None:
        names, pats = [only[0]], [only[1]]
    flags = _state.get("flags")
    rngE = ctx.rng("E")
    for name in names:
        t = MULTI_T.get(name, 1)
        if only is None and not ctx.quick and name not in ("rbf", "rbf_ad", "scale_matern_ad", "sum_ad"):
            pats = PATTERNS_QUICK + rngE.sample([p for p in all_patterns() if p not in PATTERNS_QUICK], 12)
        elif only is None and not ctx.quick:
            pats = PATTERNS_QUICK + [p for p in all_patterns() if p not in PATTERNS_QUICK]
        for pi, (kb, b1, b2) in enumerate(pats):
            if only is None and ctx.quick and name not in ("rbf", "rbf_ad", "scale_matern_ad", "sum_ad") \
                    and (pi + names.index(name)) % 2 and pi > 3 and (kb, b1, b2) not in DIAG_AMBIGUOUS:
                continue
            n = 3
            cell = Cell(name, kb, b1, b2, n, n, seedval)     # square, x1 != x2
            if not cell.ok:
                cell_rejected(ctx, cell)
                continue
            base = dict(cell.desc())
            aux_obs = {}
            # --- active_dims restricts the kernel to exactly those input columns: independent oracle = the same
            #     kernel without active_dims applied to the selected columns
            if name in ACTIVE:
                ctx.case(f"E|{name}|{kb}|{b1}|{b2}|active-dims-columns")
                try:
                    with torch.no_grad(), warnings.catch_warnings():
                        warnings.simplefilter("ignore")
                        ref = active_reference(name, cell.kernel, cell.x1, cell.x2)
                    for lz, Dz in ((True, cell.D_lazy), (False, cell.D_eager)):
                        if not _close(Dz, ref.expand_as(Dz)):
                            ctx.fail("active_dims:column-selection",
                                     f"{name} {kb}/{b1}/{b2} lazy={lz}: kernel(x1,x2) differs from the same kernel without "
                                     f"active_dims applied to the selected columns x[..., active_dims]: {_maxerr(Dz, ref.expand_as(Dz))}",
                                     dict(base, part="active-dims-columns", lazy=lz))
                except Exception as e:
                    cell.restore()
                    ctx.count("E_rejected")
                    ctx.notes.setdefault("E_rejections", {})[f"{name}:active-ref"] = f"{type(e).__name__}: {str(e)[:100]}"
            for lazy in (True, False):
                with torch.no_grad(), gpytorch.settings.lazily_evaluate_kernels(lazy), warnings.catch_warnings():
                    warnings.simplefilter("ignore")
                    D = cell.D_lazy if lazy else cell.D_eager
                    tag = f"E|{name}|{kb}|{b1}|{b2}|lazy={int(lazy)}"
                    # --- diag
                    for what, fn in (("diag-of-lazy-tensor", lambda: cell.kernel(cell.x1, cell.x2).diagonal(dim1=-1, dim2=-2)),
                                     ("diag=True", lambda: _dense(cell.kernel(cell.x1, cell.x2, diag=True)))):
                        ctx.case(f"{tag}|{what}")
                        try:
                            got = _dense(fn()).detach()
                        except Exception as e:
                            cell.restore()
                            ctx.count("E_rejected")
                            ctx.notes.setdefault("E_rejections", {})[f"{name}:{what}"] = f"{type(e).__name__}: {str(e)[:100]}"
                            continue
                        want = D.diagonal(dim1=-1, dim2=-2)
                        if lazy and what == "diag-of-lazy-tensor":
                            aux_obs["diag"] = got
                        if got.shape != want.shape and got.numel() == want.numel() and what == "diag=True":
                            try:
                                got = got.expand(want.shape)
                            except RuntimeError:
                                pass
                        if not _close(got, want):
                            ctx.fail(f"diag:{what}:{'multiout' if t > 1 else 'single'}",
                                     f"{name} {kb}/{b1}/{b2} lazy={lazy}: {what} differs from the diagonal of the full "
                                     f"matrix: {_maxerr(got, want)}", dict(base, part="diag", what=what, lazy=lazy))
                    # --- transpose
                    ctx.case(f"{tag}|mT")
                    try:
                        got = _dense(cell.kernel(cell.x1, cell.x2).mT).detach()
                        swapped = _dense(cell.kernel(cell.x2, cell.x1)).detach()
                        if lazy:
                            aux_obs["swap"] = swapped
                        if not _close(got, D.mT):
                            ctx.fail("transpose:mT", f"{name} {kb}/{b1}/{b2} lazy={lazy}: kernel(x1,x2).mT differs from the "
                                     f"transposed dense matrix: {_maxerr(got, D.mT)}", dict(base, part="mT", lazy=lazy))
                        if not _close(swapped, D.mT):
                            ctx.fail("transpose:swap", f"{name} {kb}/{b1}/{b2} lazy={lazy}: kernel(x2,x1) differs from "
                                     f"kernel(x1,x2) transposed: {_maxerr(swapped, D.mT)}", dict(base, part="swap", lazy=lazy))
                    except Exception as e:
                        cell.restore()
                        ctx.count("E_rejected")
                        ctx.notes.setdefault("E_rejections", {})[f"{name}:mT"] = f"{type(e).__name__}: {str(e)[:100]}"
                    # --- repeat
                    for reps in ([1] * len(cell.bs) + [2, 1], [1] * len(cell.bs) + [1, 3], [2] * len(cell.bs) + [2, 2]):
                        ctx.case(f"{tag}|repeat{reps}")
                        try:
                            got = _dense(cell.kernel(cell.x1, cell.x2).repeat(*reps)).detach()
                        except Exception as e:
                            cell.restore()
                            ctx.count("E_rejected")
                            ctx.notes.setdefault("E_rejections", {})[f"{name}:repeat"] = f"{type(e).__name__}: {str(e)[:100]}"
                            continue
                        want = D.repeat(*reps)
                        if lazy and all(r == 1 for r in reps[:-2]):
                            aux_obs[("rep", reps[-2], reps[-1])] = got
                        if not _close(got, want):
                            ctx.fail(f"repeat:{'multiout' if t > 1 else 'single'}",
                                     f"{name} {kb}/{b1}/{b2} lazy={lazy}: kernel(x1,x2).repeat{tuple(reps)} differs from the "
                                     f"repeated dense matrix: {_maxerr(got, want)}", dict(base, part="repeat", reps=reps, lazy=lazy))
                    # --- blocks of K on stacked inputs (same batch shape for both halves)
                    if tuple(b1) == tuple(b2):
                        ctx.case(f"{tag}|blocks")
                        try:
                            xs = torch.cat([cell.x1, cell.x2], dim=-2)
                            big = _dense(cell.kernel(xs, xs)).detach()
                            m = n * t
                            blocks = {(0, 0): (cell.x1, cell.x1), (0, 1): (cell.x1, cell.x2), (1, 0): (cell.x2, cell.x1),
                                      (1, 1): (cell.x2, cell.x2)}
                            subs = {}
                            for (bi, bj), (xa, xb) in blocks.items():
                                sub = _dense(cell.kernel(xa, xb)).detach()
                                subs[2 * bi + bj] = sub
                                blk = big[..., bi * m:(bi + 1) * m, bj * m:(bj + 1) * m]
                                if not _close(blk, sub):
                                    ctx.fail(f"blocks:{'multiout' if t > 1 else 'single'}",
                                             f"{name} {kb}/{b1}/{b2} lazy={lazy}: block ({bi},{bj}) of K on stacked inputs "
                                             f"differs from the separately computed block: {_maxerr(blk, sub)}",
                                             dict(base, part="blocks", block=[bi, bj], lazy=lazy))
                            if lazy and t == 1 and lines is not None:
                                lines.append(f"blocks {_sh(b1)} ; {_sh(kb)} ; {n} {n}")
                                recs.append(("Eblocks", (cell, big, subs), None))
                        except Exception as e:
                            cell.restore()
                            ctx.count("E_rejected")
                            ctx.notes.setdefault("E_rejections", {})[f"{name}:blocks"] = f"{type(e).__name__}: {str(e)[:100]}"
            # the model's positions for diag / swapped inputs / repeat (single-output kernels)
            if t == 1 and lines is not None:
                for (r_, c_) in ((2, 1), (1, 3)):
                    lines.append(f"aux {_sh(b1)} ; {_sh(b2)} ; {_sh(kb)} ; {n} {n} {r_} {c_}")
                    recs.append(("Eaux", (cell, dict(aux_obs), (r_, c_)), None))
            # --- kernel[i](x1[i], x2[i]) and expand_batch (kernel-level; independent of the lazy setting)
            if kb and tuple(kb) == cell.bs and t == 1:
                x1e = cell.x1.expand(*cell.bs, n, D_IN)
                x2e = cell.x2.expand(*cell.bs, n, D_IN)
                bidxs = [(("I", i),) for i in range(-kb[0], kb[0])] + [(("S", 1, None, None),), (("S", None, None, 2),),
                                                                       (("T", (kb[0] - 1, 0)),)]
                if len(kb) == 2:
                    bidxs += [(("I", i), ("I", j)) for i in range(kb[0]) for j in range(-kb[1], kb[1])]
                    bidxs += [(("S", None, None, None), ("I", kb[1] - 1)), (("I", 1), ("S", 1, None, None))]
                for bi in bidxs:
                    pidx = tuple(py_item(i) for i in bi)
                    ctx.case(f"E|{name}|{kb}|{b1}|{b2}|kernel{enc_idx(bi)}")
                    try:
                        with torch.no_grad(), warnings.catch_warnings():
                            warnings.simplefilter("ignore")
                            ki = cell.kernel[pidx]
                            got = _dense(ki(x1e[pidx], x2e[pidx])).detach()
                    except Exception as e:
                        cell.restore()
                        ctx.count("E_rejected")
                        key = f"{name}:kernel[{show_idx(bi)}]"
                        ctx.notes.setdefault("E_rejections", {})[key] = f"{type(e).__name__}: {str(e)[:100]}"
                        if name in ACTIVE and flags is not None:
                            ctx.fail(f"kernel-getitem:active_dims:{'raises'}",
                                     f"{name} batch {kb}: kernel{show_idx(bi)}(x1{show_idx(bi)}, x2{show_idx(bi)}) raises "
                                     f"{type(e).__name__}: {str(e)[:120]}", dict(base, part="kernel-getitem", index=[list(i) for i in bi]))
                        continue
                    if name in ("rbf", "rbf_ad") and lines is not None:
                        ad0 = cell.kernel.active_dims
                        lines.append(f"kget {_sh(kb)} ; {'N' if ad0 is None else ','.join(str(int(v)) for v in ad0)} | {enc_idx(bi)}")
                        recs.append(("Ekget", (cell, show_idx(bi), None if ki.active_dims is None else ki.active_dims.reshape(-1).tolist(),
                                               ki.lengthscale.detach().reshape(-1), list(ki.batch_shape)), None))
                    want = cell.D_eager[pidx]
                    if not _close(got, want):
                        ctx.fail(f"kernel-getitem:{'active_dims' if name in ACTIVE else 'params'}",
                                 f"{name} batch {kb}: kernel{show_idx(bi)}(x1{show_idx(bi)}, x2{show_idx(bi)}) differs from "
                                 f"slice {show_idx(bi)} of the batched result: {_maxerr(got, want)}"
                                 + (f"; active_dims became {getattr(ki, 'active_dims', None)}" if name in ACTIVE else ""),
                                 dict(base, part="kernel-getitem", index=[list(i) for i in bi]))
                    # correspondence of the generated flag with the observable buffer
                    if name == "rbf_ad" and flags is not None and ki.active_dims is not None:
                        same = torch.equal(ki.active_dims, cell.kernel.active_dims)
                        if same == flags["getitemIndexesActiveDims"]:
                            ctx.broke("correspondence", "flag getitemIndexesActiveDims",
                                      f"generated flag {flags['getitemIndexesActiveDims']} but kernel[i].active_dims "
                                      f"{'unchanged' if same else 'changed'}")
            if kb and t == 1:
                news = [[3] + list(cell.bs), [2, 1] + list(cell.bs)]
                if tuple(kb) != cell.bs:
                    news.append(list(cell.bs))
                for new in news:
                    ctx.case(f"E|{name}|{kb}|expand_batch{new}")
                    try:
                        with torch.no_grad(), warnings.catch_warnings(), gpytorch.settings.lazily_evaluate_kernels(False):
                            warnings.simplefilter("ignore")
                            ke = cell.kernel.expand_batch(torch.Size(new))
                            full = tuple(torch.broadcast_shapes(torch.Size(new), cell.bs))
                            got = _dense(ke(cell.x1, cell.x2)).detach()
                            want = cell.D_eager.expand(*full, *cell.D_eager.shape[-2:])
                            if got.shape != want.shape:
                                got = got.expand(want.shape)
                    except Exception as e:
                        cell.restore()
                        ctx.count("E_rejected")
                        ctx.notes.setdefault("E_rejections", {})[f"{name}:expand_batch"] = f"{type(e).__name__}: {str(e)[:100]}"
                        if name in ("rbf_ad",):
                            ctx.fail("expand_batch:active_dims:raises",
                                     f"{name} batch {kb}: kernel.expand_batch({new})(x1, x2) raises {type(e).__name__}: "
                                     f"{str(e)[:120]}", dict(base, part="expand_batch", new=new))
                        continue
                    if name in ("rbf", "rbf_ad") and lines is not None:
                        ad0 = cell.kernel.active_dims
                        lines.append(f"kexp {_sh(kb)} ; {_sh(new)} ; {'N' if ad0 is None else ','.join(str(int(v)) for v in ad0)}")
                        recs.append(("Ekget", (cell, f"expand_batch({new})", None if ke.active_dims is None else ke.active_dims.reshape(-1).tolist(),
                                               ke.lengthscale.detach().reshape(-1), list(ke.batch_shape)), None))
                    if not _close(got, want):
                        ctx.fail(f"expand_batch:{'active_dims' if name in ACTIVE else 'params'}",
                                 f"{name} batch {kb}: kernel.expand_batch({new})(x1, x2) differs from the expanded result: "
                                 f"{_maxerr(got, want)}", dict(base, part="expand_batch", new=new))



# ------------------------------------------------------------------ part F: active_dims in every listed ORDER

def part_F(ctx, seedval):
    """`active_dims` restricts a kernel to exactly the listed columns **in the listed order**: every ordered selection
    of 1..3 of the 3 input columns (ascending, descending, contiguous or not) x kernels that are not permutation
    invariant in their columns (ARD lengthscales / variances, nested sub-kernels with their own active_dims) x
    non-batched / batched x lazy on / off x {dense, diag=True, kernel[i], expand_batch}.  Oracle: the same kernel
    WITHOUT the outer active_dims applied to x[..., active_dims]."""
    import torch
    import gpytorch
    from gpytorch import kernels as K
    sels = [p_ for r in (1, 2, 3) for p_ in itertools.permutations(range(D_IN), r)]

    def build(fam, ad, b):
        B = torch.Size(b)
        d = len(ad) if ad is not None else None
        kw = {} if ad is None else {"active_dims": list(ad)}
        if fam == "rbf_ard":
            return lambda dd: K.RBFKernel(ard_num_dims=dd, batch_shape=B, **kw)
        if fam == "scale_matern_ard":
            return lambda dd: K.ScaleKernel(K.MaternKernel(nu=1.5, ard_num_dims=dd, batch_shape=B, **kw), batch_shape=B)
        if fam == "linear_ard":
            return lambda dd: K.LinearKernel(ard_num_dims=dd, batch_shape=B, **kw)
        if fam == "rq_ard_times_periodic":
            return lambda dd: K.ProductKernel(K.RQKernel(ard_num_dims=dd, batch_shape=B, **kw),
                                              K.PeriodicKernel(ard_num_dims=dd, batch_shape=B, **kw))
        if fam == "nested":    # sub-kernels with their own active_dims inside an outer selection
            return lambda dd: K.ScaleKernel(K.AdditiveKernel(*[K.RBFKernel(batch_shape=B, active_dims=[i]) for i in range(dd)]),
                                            batch_shape=B, **kw)
        raise ValueError(fam)
    fams = ("rbf_ard", "scale_matern_ard", "linear_ard", "rq_ard_times_periodic", "nested")
    g = _gen(seedval, "F:inputs")
    n = 4
    for fam in fams:
        for ad in sels:
            if ctx.quick and fam in ("rq_ard_times_periodic",) and len(ad) == 1:
                continue
            for kb in ((), (2,)):
                x1 = _randn(g, *kb, n, D_IN)
                x2 = _randn(g, *kb, n, D_IN)
                kad = build(fam, ad, kb)(len(ad)).double()
                kref = build(fam, None, kb)(len(ad)).double()
                gp = _gen(seedval, f"F:{fam}:{ad}:{kb}")
                with torch.no_grad():
                    for p_ in kad.parameters():
                        p_.copy_(0.6 * torch.randn(p_.shape, generator=gp, dtype=torch.float64))
                kref.load_state_dict(kad.state_dict(), strict=False)
                sel = list(ad)
                base = {"part": "active-dims-order", "family": fam, "active_dims": sel, "kernel_batch": list(kb)}
                tag = f"F|{fam}|{ad}|{kb}"

                def report(what, got, want, lazy):
                    ctx.case(f"{tag}|{what}|lazy={int(lazy)}", nontrivial=len(ad) > 1)
                    if not _close(got, want):
                        ctx.fail("active_dims:column-order",
                                 f"{fam} active_dims={sel} kernel batch {kb} lazy={lazy}: {what} differs from the same kernel "
                                 f"without active_dims applied to x[..., {sel}] (listed order): {_maxerr(got, want)}",
                                 dict(base, what=what, lazy=lazy))
                for lazy in (True, False):
                    try:
                        with torch.no_grad(), gpytorch.settings.lazily_evaluate_kernels(lazy), warnings.catch_warnings():
                            warnings.simplefilter("ignore")
                            want = _dense(kref(x1[..., sel], x2[..., sel])).detach()
                            report("kernel(x1,x2)", _dense(kad(x1, x2)).detach(), want, lazy)
                            report("kernel(x1) (x2 omitted)", _dense(kad(x1)).detach(), _dense(kref(x1[..., sel])).detach(), lazy)
                            wd = want.diagonal(dim1=-1, dim2=-2)
                            report("kernel(x1,x2,diag=True)", _dense(kad(x1, x2, diag=True)).detach(), wd, lazy)
                            report("kernel(x1,x2).diagonal()", _dense(kad(x1, x2).diagonal(dim1=-1, dim2=-2)).detach(), wd, lazy)
                            if kb:
                                for i in range(kb[0]):
                                    report(f"kernel[{i}](x1[{i}],x2[{i}])", _dense(kad[i](x1[i], x2[i])).detach(), want[i], lazy)
                                    report(f"kernel(x1,x2)[{i}]", _dense(kad(x1, x2)[i]).detach(), want[i], lazy)
                                ke = kad.expand_batch(torch.Size([3] + list(kb)))
                                report("expand_batch", _dense(ke(x1, x2)).detach(), want.expand(3, *want.shape), lazy)
                    except Exception as e:
                        ctx.case(f"{tag}|raises|lazy={int(lazy)}")
                        ctx.fail("active_dims:column-order:raises", f"{fam} active_dims={sel} kernel batch {kb} lazy={lazy}: raises "
                                 f"{type(e).__name__}: {str(e)[:160]}", dict(base, what="raises", lazy=lazy))


# ------------------------------------------------------------------ part G: aliased inputs (same object / views of one storage)

def _slice_pool():
    return [("S", a, b, c) for a in (None, 1) for b in (None, 3, -1) for c in (None, 2, 3)]


def part_G(ctx, seedval, only=None):
    """Inputs that alias each other: `kernel(x)` (x2 omitted), `kernel(x, x)` with the very same tensor object, and two
    DIFFERENT views of one storage with the same start element and shape.  Oracle: the kernel on independent copies.
    Checked: dense value, diag, .mT, repeat with UNEQUAL row / column (and batch) counts, and every pair of row / column
    slices with start in {None,1}, stop in {None,3,-1}, step in {None,2,3} (equal start and length but different strides
    arise here), lazily_evaluate_kernels on and off."""
    import torch
    import gpytorch
    names = list(kernel_factories())
    pool = _slice_pool()
    rng = ctx.rng("G")
    for name in names:
        if only is not None and name != only[0]:
            continue
        t = MULTI_T.get(name, 1)
        for kb, bx in (((), ()), ((2,), (2,)), ((2,), ())):
            if only is not None and (list(kb), list(bx)) != only[1]:
                continue
            if t > 1 and kb:
                continue
            n = 6 if t == 1 else 3
            kernel = make_kernel(name, kb, seedval)
            g = _gen(seedval, f"G:{name}:{kb}:{bx}")
            x = _randn(g, *bx, n, D_IN)
            base = {"part": "alias", "kernel": name, "kernel_batch": list(kb), "x_batch": list(bx)}
            tag = f"G|{name}|{kb}|{bx}"
            try:
                with torch.no_grad(), gpytorch.settings.lazily_evaluate_kernels(False), warnings.catch_warnings():
                    warnings.simplefilter("ignore")
                    D = _dense(kernel(x.clone(), x.clone().clone())).detach()
            except Exception as e:
                ctx.count("G_cells_rejected")
                continue
            bs = tuple(D.shape[:-2])

            def check(what, fn, want, lazy, mode):
                ctx.case(f"{tag}|{mode}|{what}|lazy={int(lazy)}")
                try:
                    with torch.no_grad(), gpytorch.settings.lazily_evaluate_kernels(lazy), warnings.catch_warnings():
                        warnings.simplefilter("ignore")
                        got = _dense(fn()).detach()
                except Exception as e:
                    ctx.count("G_rejected")
                    rj = ctx.notes.setdefault("G_rejections", {})
                    rj[f"{name}:{what.split('[')[0].split('(')[0]}:{type(e).__name__}"] = str(e)[:80]
                    return
                if got.shape != want.shape and what.startswith("diag=True"):
                    try:
                        got = got.expand(want.shape)
                    except RuntimeError:
                        pass
                if not _close(got, want):
                    ctx.fail(f"aliasing:{what.split('[')[0].split('(')[0]}",
                             f"{name} kernel batch {kb}, x batch {bx}, inputs {mode}, lazy={lazy}: {what} differs from the kernel on "
                             f"independent copies of the inputs: {_maxerr(got, want)}", dict(base, what=what, mode=mode, lazy=lazy))
            modes = {"x2 omitted": lambda: kernel(x), "x2 is x1": lambda: kernel(x, x)}
            reps = [(2, 3), (1, 2), (3, 1)]
            for lazy in (True, False):
                for mode, K_ in modes.items():
                    check("dense", K_, D, lazy, mode)
                    check("diagonal", lambda: K_().diagonal(dim1=-1, dim2=-2), D.diagonal(dim1=-1, dim2=-2), lazy, mode)
                    check("mT", lambda: K_().mT, D.mT, lazy, mode)
                    for (r_, c_) in reps:
                        full = [1] * len(bs) + [r_, c_]
                        check(f"repeat{tuple(full)}", lambda: K_().repeat(*full), D.repeat(*full), lazy, mode)
                        if bs:
                            fullb = [2] + [1] * (len(bs) - 1) + [r_, c_]
                            check(f"repeat{tuple(fullb)}", lambda: K_().repeat(*fullb), D.repeat(*fullb), lazy, mode)
                check("diag=True", lambda: kernel(x, diag=True), D.diagonal(dim1=-1, dim2=-2), lazy, "x2 omitted")
            # row / column slice pairs on the lazily evaluated kernel(x)
            pairs = [(a, b) for a in pool for b in pool]
            if kb or bx:
                pairs = rng.sample(pairs, 60)
            elif ctx.quick and name not in ("linear", "prod", "sum", "scale_rbf"):
                pairs = rng.sample(pairs, 90)
            for (rs, cs) in pairs:
                idx = ("E", rs, cs)
                pidx = tuple(py_item(i) for i in idx)
                want = D[pidx]
                if 0 in want.shape:
                    continue
                check(f"getitem{show_idx(idx)}", lambda: kernel(x)[pidx], want, True, "x2 omitted")
            # two different views of one storage: same start element, same shape, different strides
            gb = _gen(seedval, f"G:views:{name}:{kb}:{bx}")
            m = 3
            basebuf = _randn(gb, *bx, 2 * m, D_IN)
            v1, v2 = basebuf[..., :m, :], basebuf[..., ::2, :]
            sq = _randn(gb, *bx, D_IN, D_IN)
            for what, (a, b) in (("views base[:n] / base[::2]", (v1, v2)), ("views x / x.mT", (sq, sq.mT))):
                if t > 1 and what.endswith("x.mT"):
                    pass
                try:
                    with torch.no_grad(), gpytorch.settings.lazily_evaluate_kernels(False), warnings.catch_warnings():
                        warnings.simplefilter("ignore")
                        want = _dense(kernel(a.clone(), b.clone())).detach()
                except Exception:
                    continue
                for lazy in (True, False):
                    check(what, lambda: kernel(a, b), want, lazy, "views of one storage")

# ------------------------------------------------------------------ driver comparison

def compare_driver(ctx, lines, recs):
    import torch
    replies = C.run_driver("C06", lines + ["flags"])
    flags_rep = replies[-1]
    mism = {"A": 0, "C": 0, "D": 0}
    for (kind, data, want), line, rep in zip(recs, lines, replies):
        if kind.startswith("K"):
            from props import _c06_extra as X
            X.compare_K(ctx, kind, data, line, rep)
            continue
        r = parse_reply(rep)
        if r == "bad-request":
            ctx.broke("correspondence", "driver bad-request", line)
            continue
        if kind in ("A1", "A2"):
            ctx.case("A|" + line, nontrivial=want is not None and len(want[1]) > 0)
            got = None if r == "none" else (r["shape"], r["pos"])
            if kind == "A1" and got is not None:
                got = ([len(got[1])], got[1])
            w = None if want is None else (list(want[0]), list(want[1]))
            # a Python-valid negative-step slice is valid in the model although torch rejects it: A1 uses Python's range
            if got != w:
                mism["A"] += 1
                if mism["A"] <= 3:
                    ctx.broke("correspondence", "L1 index model vs torch", f"`{line}`\nmodel: {str(got)[:300]}\ntorch: {str(w)[:300]}")
        elif kind == "C":
            cell, ix, want, obs, x1flat, x2flat, ls = data
            ctx.case("C|" + line, nontrivial=want.numel() > 0)
            if r == "none":
                mism["C"] += 1
                if mism["C"] <= 3:
                    ctx.broke("correspondence", "lazy path model", f"`{line}`: model rejects an index torch accepts")
                continue
            okshape = r["shape"] == list(want.shape)
            flatD = cell.D_lazy.reshape(-1)
            okv = okshape and r["dense"] == r["direct"] and (
                want.numel() == 0 or torch.equal(flatD[torch.tensor(r["dense"], dtype=torch.long)], want.reshape(-1)))
            okobs = True
            if obs is not None and okshape:
                ox1, ox2, ols = obs
                # the real object may keep an operand un-broadcast (size-1 / missing batch dims) where the model has
                # expanded it: equality is modulo broadcasting to the selected batch shape
                try:
                    sb, nr, nc = r["shape"][:-2], r["shape"][-2], r["shape"][-1]
                    m1 = x1flat[torch.tensor(r["x1"], dtype=torch.long)].reshape(*sb, nr, D_IN)
                    m2 = x2flat[torch.tensor(r["x2"], dtype=torch.long)].reshape(*sb, nc, D_IN)
                    okobs = torch.equal(ox1.expand_as(m1), m1) and torch.equal(ox2.expand_as(m2), m2)
                    mt = ls[torch.tensor(r["th"], dtype=torch.long)].reshape(*sb, 1, 1)
                    # (softplus of the same raw value may differ by an ulp between torch's vectorised and scalar paths)
                    okobs = okobs and torch.allclose(ols.expand_as(mt), mt, rtol=1e-12, atol=0.0)
                except Exception:
                    okobs = False
            if not (okshape and okv and okobs):
                mism["C"] += 1
                if mism["C"] <= 3:
                    ctx.broke("correspondence", "lazy path model",
                              f"`{line}`: shape ok={okshape} positions ok={okv} x1/x2/params of the returned lazy tensor ok={okobs}; "
                              f"model {rep[:200]}")
        elif kind == "Eaux":
            cell, obs, (r_, c_) = data
            ctx.case("Em|" + cell.name + "|" + line)
            if r in ("none",):
                ctx.broke("correspondence", "aux model", f"`{line}`: model returns none")
                continue
            flatD = cell.D_lazy.reshape(-1)
            n = cell.n1

            def via(pos, shape):
                return flatD[torch.tensor(pos, dtype=torch.long)].reshape(shape)
            checks = []
            if "diag" in obs and rep.find("diag=N") < 0:
                checks.append(("diag", obs["diag"], via(r["diag"], cell.bs + (n,))))
            if "swap" in obs:
                checks.append(("swap", obs["swap"], via(r["swap"], cell.bs + (cell.n2, cell.n1))))
            if ("rep", r_, c_) in obs:
                checks.append(("repeat", obs[("rep", r_, c_)], via(r["rep"], cell.bs + (cell.n1 * r_, cell.n2 * c_))))
            for what, got, want_ in checks:
                if not _close(got, want_):
                    ctx.fail(f"{'diag' if what == 'diag' else ('transpose' if what == 'swap' else 'repeat')}:model-positions",
                             f"{cell.name} {cell.kb}/{cell.b1}/{cell.b2}: {what} differs from the dense entries that the Lean model "
                             f"names for it: {_maxerr(got, want_)}", dict(cell.desc(), part=what, lazy=True))
        elif kind == "Eblocks":
            cell, big, subs = data
            ctx.case("Em|" + cell.name + "|" + line)
            if r in ("none",):
                ctx.broke("correspondence", "blocks model", f"`{line}`: model returns none")
                continue
            flats = {k: v.reshape(-1) for k, v in subs.items()}
            want_ = torch.stack([flats[b][o] for b, o in zip(r["blk"], r["off"])]).reshape(big.shape)
            if not _close(big, want_):
                ctx.fail("blocks:model-positions", f"{cell.name} {cell.kb}/{cell.b1}/{cell.b2}: K on stacked inputs differs from "
                         f"the block entries that the Lean model names: {_maxerr(big, want_)}", dict(cell.desc(), part="blocks", lazy=True))
        elif kind == "Ekget":
            cell, what, ad_real, ls_real, bshape_real = data
            ctx.case("Em|" + cell.name + "|" + line)
            if r in ("none",):
                ctx.broke("correspondence", "kernel getitem model", f"`{line}`: model returns none")
                continue
            ad_model = None if rep.split(";")[1] == "ad=N" else r["ad"]
            ls0 = cell.kernel.lengthscale.detach().reshape(-1)
            ok = ad_model == ad_real and r["shape"] == bshape_real and len(r["th"]) == ls_real.numel() and \
                torch.allclose(ls0[torch.tensor(r["th"], dtype=torch.long)], ls_real, rtol=1e-12, atol=0.0)
            if not ok:
                mism["C"] += 1
                if mism["C"] <= 3:
                    ctx.broke("correspondence", "Kernel.__getitem__/expand_batch model",
                              f"`{line}` ({what}): model {rep[:160]}; real active_dims {ad_real}, batch shape {bshape_real}")
        elif kind == "D":
            cell, idx, taken, want = data
            if taken is None:
                continue
            ctx.case("Dm|" + cell.name + "|" + line, nontrivial=want.numel() > 0)
            if (r == "fallback") != (taken[0] == "fallback"):
                mism["D"] += 1
                if mism["D"] <= 3:
                    ctx.broke("correspondence", "generated slice division: branch", f"`{line}`: model {rep[:80]}, real code {taken[0]}")
                continue
            if r != "fallback":
                p1, p2 = r["x1pts"], r["x2pts"]
                x1e = cell.x1
                ok = taken[1] == len(p1) and taken[2] == len(p2)
                if ok and len(p1) and len(p2):
                    ok = torch.equal(taken[3][..., :, :], cell.x1[..., p1, :].expand_as(taken[3])) and \
                        torch.equal(taken[4], cell.x2[..., p2, :].expand_as(taken[4]))
                # the model's rows must be the rows torch selects
                Rn, Cn = cell.n1 * cell.t, cell.n2 * cell.t
                pr = tuple(py_item(i) for i in expand_idx(idx, len(cell.bs) + 2)[-2:])
                rows_t = list(range(Rn))[pr[0]]
                cols_t = list(range(Cn))[pr[1]]
                okrows = r["rowpos"] == rows_t and r["colpos"] == cols_t
                if not ok:
                    mism["D"] += 1
                    if mism["D"] <= 3:
                        ctx.broke("correspondence", "generated slice division: points", f"`{line}`: model {rep[:160]}, real x1 rows {taken[1]}, x2 rows {taken[2]}")
                if not okrows:
                    # the generated expressions select other rows than the user's slice: this is the property failing
                    ctx.fail("getitem:multiout:slice-division",
                             f"multi-output slice division: for {show_idx(idx)} on {Rn}x{Cn} (t={cell.t}) the generated code "
                             f"evaluates rows {r['rowpos']} / cols {r['colpos']} but the slice selects rows {rows_t} / cols {cols_t}",
                             dict(cell.desc(), part="index", lazy=True, index=[list(i) if i != "E" else "E" for i in idx],
                                  index_text=show_idx(idx)))
    for k, v in mism.items():
        ctx.count(f"model_mismatches_{k}", v)
    fl = _state.get("flags")
    if fl is not None:
        want = f"getitem_indexes_active_dims={'true' if fl['getitemIndexesActiveDims'] else 'false'};" \
               f"expand_batch_expands_active_dims={'true' if fl['expandBatchExpandsActiveDims'] else 'false'}"
        if flags_rep != want:
            ctx.broke("correspondence", "flags", f"driver {flags_rep} vs translator {want}")


def correspondence(ctx, want_driver=True):
    import torch
    torch.set_num_threads(2)
    torch.set_default_dtype(torch.float64)
    sys.path.insert(0, os.path.join(C.VERIF, "harness"))
    seedval = C.seed()
    lines, recs = [], []
    try:
        part_B(ctx, seedval)
        part_E(ctx, seedval, lines=lines if want_driver else None, recs=recs if want_driver else None)
        part_D(ctx, lines, recs, seedval)
        part_F(ctx, seedval)
        part_G(ctx, seedval)
        from props import _c06_extra as X
        X.part_H(ctx, seedval)
        X.part_I(ctx, seedval)
        X.part_J(ctx, seedval)
        X.part_L(ctx, seedval)
        X.part_M(ctx, seedval)
        X.part_N(ctx, seedval)
        X.part_O(ctx, seedval)
        if want_driver:
            part_A(ctx, lines, recs)
            part_C(ctx, lines, recs, seedval)
            X.part_K(ctx, seedval, lines, recs)
    finally:
        torch.set_default_dtype(torch.float32)
    ctx.count("driver_lines", len(lines))
    if want_driver:
        compare_driver(ctx, lines, recs)
    # run.py prints the first 8 distinct keys: one representative per defect class first
    prio = ["wrapper-ext:", "algebra-history:", "diag-ard:", "checkpoint-kernel:", "history:", "wrapper-batch:", "ldb:", "active_dims:column-order", "aliasing:", "active_dims:column-selection", "kernel-call", "kernel-getitem:active_dims", "expand_batch:active_dims", "getitem:multiout", "getitem:batch-slice-of-broadcast-dim",
            "repeat:", "diag:", "transpose:", "blocks:", "lazy-vs-eager", "getitem:values", "getitem:empty", "kernel-getitem",
            "expand_batch", "rejects-valid-index", "linear_operator"]

    def rank(f):
        return next((i for i, p in enumerate(prio) if f["key"].startswith(p)), len(prio))
    ctx.failures.sort(key=rank)
    hist = {}
    for f in ctx.failures:
        hist[f["key"]] = hist.get(f["key"], 0) + 1
    ctx.notes["failure_keys"] = hist


def search(ctx, broken):
    """A proof / the translator / the driver broke: the spec comparisons of parts B, D, E do not use the model."""
    if ctx.failures:
        return
    correspondence(ctx, want_driver=False)


def replay(ctx, payload):
    """Re-run one recorded case on the real code; True when it no longer fails."""
    import torch
    torch.set_default_dtype(torch.float64)
    try:
        c = payload["case"]
        seedval = payload.get("seed", 0)
        if c.get("part") in ("algebra-history", "diag-ard", "checkpoint", "wrapper-ext"):
            from props import _c06_extra as X
            sub = Ctx0()
            if c["part"] == "checkpoint":
                X.part_N(sub, seedval, only=(c["kernel"], c["kernel_batch"], c["split"]))
                return not sub.failures
            if c["part"] == "wrapper-ext":
                X.part_O(sub, seedval, only=(c["kernel"], c["inner_batch"], c["outer_batch"]))
                return not any(f[2].get("what") == c.get("what") and f[2].get("index_text") == c.get("index_text")
                               for f in sub.failures3)
            if c["part"] == "algebra-history":
                X.part_L(sub, seedval, only=(c["operand"], c["kernel_batch"], c["op"]))
            else:
                X.part_M(sub, seedval, only=(c["kernel"], c["kernel_batch"], c["x_batch"]))
            return not any(f[2].get("what") == c.get("what") and f[2].get("lazy") == c.get("lazy")
                           and f[2].get("phase") == c.get("phase") for f in sub.failures3)
        if c.get("part") in ("history", "wrapper-batch", "ldb"):
            from props import _c06_extra as X
            sub = Ctx0()
            if c["part"] == "history":
                X.part_H(sub, seedval, only=(c["kernel"], c["kernel_batch"], c["setting"]))
            elif c["part"] == "wrapper-batch":
                X.part_I(sub, seedval, only=(c["kernel"], c["kernel_batch"], c["x_batch"]))
            else:
                X.part_J(sub, seedval, only=(c["kernel"], c["kernel_batch"], c["x_batch"]))
            return not any(f[2].get("what") == c.get("what") and f[2].get("lazy") == c.get("lazy")
                           and f[2].get("index_text") == c.get("index_text") and f[2].get("phase") == c.get("phase")
                           for f in sub.failures3)
        if c.get("part") in ("active-dims-order", "alias"):
            sub = Ctx0()
            if c["part"] == "active-dims-order":
                part_F(sub, seedval)
                key = (c["family"], c["active_dims"], c["kernel_batch"])
                return not any(f[2].get("family") == key[0] and f[2].get("active_dims") == key[1]
                               and f[2].get("kernel_batch") == key[2] for f in sub.failures3)
            part_G(sub, seedval, only=(c["kernel"], (c["kernel_batch"], c["x_batch"])))
            return not sub.failures
        cell = Cell(c["kernel"], tuple(c["kernel_batch"]), tuple(c["x1_batch"]), tuple(c["x2_batch"]), c["n1"], c["n2"], seedval)
        sub = Ctx0()
        if not cell.ok:
            return False
        if c["part"] == "kernel-call":
            return True
        if c["part"] == "index":
            idx = tuple("E" if i == "E" else tuple(tuple(v) if isinstance(v, list) else v for v in i) for i in c["index"])
            check_index(sub, cell, idx, c["lazy"])
        else:
            _state.setdefault("flags", None)
            part_E(sub, seedval, only=(cell.name, (cell.kb, cell.b1, cell.b2)))
        return not sub.failures
    finally:
        torch.set_default_dtype(torch.float32)


class Ctx0:
    """minimal ctx for replays"""

    def __init__(self):
        self.failures, self.notes, self.quick, self.tier = [], {}, True, "quick"
        self.failures3 = []

    def case(self, *a, **k):
        pass

    def count(self, *a, **k):
        pass

    def fail(self, key, what, replay):
        self.failures.append((key, what))
        self.failures3 = getattr(self, "failures3", []) + [(key, what, replay)]

    def broke(self, *a, **k):
        pass

    def rng(self, label=""):
        return C.Rng(f"C06:{label}")

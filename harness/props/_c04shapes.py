"""C04, batch-shape part (private helper of props/c04.py).

Tie for `Props/C04Batch.lean`:

(a) for every (model batch `mb`, fantasy-input batch `ib`, fantasy-target batch `tb`[, noise batch `kb`]) of the
    enumerated family the Lean driver runs the GENERATED op lists (`Gen/FantasyShapes.lean`) on position-tagged tensors and
    evaluates the hand-written specification (`FShapes.Accepts`, the output shapes, `elemFantasy` on the slices
    `bidxR · e`); torch executes the SAME generated op lists on tag tensors (real `expand`, real broadcasting, real
    `BatchRepeatLinearOperator`): acceptance, every output shape and the tags of every output element must agree exactly
    (generated = specification: `fantasy_batch_shapes`; Lean interpreter = torch);
(b) the REAL `get_fantasy_model` on random data: accepted iff the specification accepts; every output / carried cache has
    the specified batch shape; `train_inputs` / `train_targets` (/ fixed noise) of the fantasy model are, bit for bit, the
    gather of the source tensors at the positions the specification names; element `e` of the carried caches equals the
    UNBATCHED fantasy of the replica the specification names (its train data, hyper-parameters, fantasy points).
"""
import itertools
import math
import warnings

from lib import common as C

J = 8           # input registers 0..7
OUT = {10: "outTrainX", 11: "outTrainY", 12: "sTrainX", 13: "sMean", 14: "sCovar", 15: "sLabels", 16: "sRoot",
       17: "sInvRoot", 18: "outMeanCache", 19: "outCovarCache"}
RTOL, ATOL = 1e-8, 1e-9


def shp(s):
    return ",".join(str(v) for v in s) if len(s) else "-"


def shapes_upto(rank, sizes=(1, 2, 3)):
    out = [()]
    for r in range(1, rank + 1):
        out += list(itertools.product(sizes, repeat=r))
    return out


# ------------------------------------------------------------------ torch interpreter of the generated op lists

class Reject(Exception):
    pass


def _se(se, cur, shps):
    if se[0] == "arg":
        return tuple(shps[se[1]])
    if se[0] == "self":
        return tuple(cur)
    return _se(se[1], cur, shps) + _se(se[2], cur, shps)


def _ne(ne, env):
    h = ne[0]
    if h == "rankS":
        return len(env["shp"][ne[1]])
    if h == "dimT":
        return env["ten"][ne[1]].dim() - 1 + ne[2]
    if h == "nat":
        return env["nat"].get(ne[1], 0)
    if h == "lit":
        return ne[1]
    return _ne(ne[1], env) + _ne(ne[2], env)


def _cond(c, env):
    h = c[0]
    if h == "eq":
        return _ne(c[1], env) == _ne(c[2], env)
    if h == "lt":
        return _ne(c[1], env) < _ne(c[2], env)
    if h == "le":
        return _ne(c[1], env) <= _ne(c[2], env)
    if h == "not":
        return not _cond(c[1], env)
    if h == "or":
        return _cond(c[1], env) or _cond(c[2], env)
    return _cond(c[1], env) and _cond(c[2], env)


def _run_op(op, env):
    import torch
    from linear_operator.operators import BatchRepeatLinearOperator
    from linear_operator import to_linear_operator
    T = env["ten"]
    h = op[0]
    if h == "when":
        if env["bl"].get(op[1], False) == op[2]:
            _run_op(op[3], env)
        return
    if h == "shapeOf":
        env["shp"][op[1]] = tuple(T[op[2]].shape[:-1])
    elif h == "shapeSet":
        env["shp"][op[1]] = _se(op[2], (), env["shp"])
    elif h == "shapeFront":
        full = tuple(T[op[2]].shape[:-1])
        if len(full) < op[3]:
            raise Reject("shape[:k] reaches the element dimensions")
        env["shp"][op[1]] = full[:op[3]]
    elif h == "natSet":
        env["nat"][op[1]] = _ne(op[2], env)
    elif h == "test":
        env["bl"][op[1]] = _cond(op[2], env)
    elif h == "guard":
        if not _cond(op[1], env):
            raise Reject("guard")
    elif h == "guardBcast":
        try:
            torch.broadcast_shapes(env["shp"][op[1]], env["shp"][op[2]])
        except RuntimeError:
            raise Reject("broadcast_shapes")
    elif h == "copy":
        T[op[1]] = T[op[2]]
    elif h == "expand":
        t = T[op[2]]
        T[op[1]] = t.expand(*_se(op[3], t.shape[:-1], env["shp"]), J)           # the real torch.expand
    elif h == "viewB":
        t = T[op[2]]
        v = t.contiguous().view(*_se(op[3], t.shape[:-1], env["shp"]), -1)      # the real view(*S, -1)
        if v.shape[-1] != J:
            raise Reject("view(*S, -1) mixes batch and element dimensions")
        T[op[1]] = v
    elif h == "repeatB":
        t = T[op[2]]
        rs = torch.Size(_se(op[3], t.shape[:-1], env["shp"]) + (1,) * env["nat"].get(op[4], 0))
        if len(rs) < t.dim() - 1:
            raise Reject("repeat shape shorter than the batch rank")
        dense = BatchRepeatLinearOperator(to_linear_operator(t.to(torch.float64).unsqueeze(-1)), rs).to_dense()
        T[op[1]] = dense.squeeze(-1).round().to(torch.long)
    elif h == "nary":
        args = [T[a] for a in op[2]]
        rule = op[3]
        if rule == "bcast":
            args = torch.broadcast_tensors(*args)                               # the real broadcasting
        elif rule == "equal":
            if any(a.shape != args[0].shape for a in args):
                raise Reject("torch.cat of different batch shapes")
        else:  # LinearOperator.cat_rows(self, cross_mat, new_mat)
            a, b, d = args
            if a.dim() < b.dim():
                a = a.expand(*torch.broadcast_shapes(a.shape[:-1], b.shape[:-1]), J)
            if not (a.shape == b.shape == d.shape):
                raise Reject("cat_rows: CatLinearOperator needs equal batch shapes")
            args = [a, b, d]
        out = args[0]
        for a in args[1:]:
            out = torch.bitwise_or(out, a)
        T[op[1]] = out
    else:
        raise ValueError(op)


def torch_run(ops, inputs, n_shapes):
    """inputs: {register: batch shape}.  Returns {register: (shape, [tags per element])} or None when rejected."""
    import torch
    env = {"ten": {}, "shp": [()] * n_shapes, "nat": {}, "bl": {}}
    for r, s in inputs.items():
        n = math.prod(s)
        t = torch.zeros(*s, J, dtype=torch.long)
        t[..., r] = (torch.ones(n, dtype=torch.long) << torch.arange(n)).reshape(s)
        env["ten"][r] = t
    try:
        for op in ops:
            _run_op(op, env)
    except (Reject, RuntimeError, KeyError):
        return None
    return env["ten"]


def tags_of(t):
    """tensor (*batch, J) of bit masks -> (shape, ['r.i+r.i', …] row-major)"""
    flat = t.reshape(-1, J).tolist()
    out = []
    for row in flat:
        parts = []
        for r, m in enumerate(row):
            i = 0
            while m:
                if m & 1:
                    parts.append(f"{r}.{i}")
                m >>= 1
                i += 1
        out.append("+".join(parts))
    return tuple(t.shape[:-1]), out


# ------------------------------------------------------------------ driver replies

def parse_reply(rep):
    parts = [p.strip() for p in rep.split("|")]
    head = dict(kv.split("=") for kv in parts[0].split()[1:])
    out = {"gen": head["gen"] == "1", "spec": head["spec"] == "1", "regs": {}}
    for p in parts[1:]:
        toks = p.split(" ")
        reg = int(toks[0])
        d = {}
        for tk in toks[1:]:
            k, _, v = tk.partition("=")
            d[k] = v

        def sh(v):
            return None if v == "none" else (() if v == "-" else tuple(int(x) for x in v.split(",")))
        out["regs"][reg] = {"gshape": sh(d["gshape"]), "sshape": sh(d["sshape"]),
                            "gen": d["gen"].split(";") if d["gen"] != "" or sh(d["gshape"]) is not None else [],
                            "spec": d["spec"].split(";") if d["spec"] != "" or sh(d["sshape"]) is not None else []}
    return out


def tag_idx(tagstr, reg):
    """flat index of input register `reg` among the tags of one output element (None when it does not read it)"""
    for p in tagstr.split("+"):
        if p:
            r, i = p.split(".")
            if int(r) == reg:
                return int(i)
    return None


def unflat(shape, k):
    idx = []
    for d in reversed(shape):
        idx.append(k % d)
        k //= d
    return tuple(reversed(idx))


# ------------------------------------------------------------------ families

def families(tier, rng):
    """(gaussian triples, fixed-noise quadruples, (nb, kb) pairs of the fantasy likelihood)"""
    S2 = shapes_upto(2)
    S3 = shapes_upto(3)
    tri = [(mb, ib, tb) for mb in S2 for ib in S2 for tb in S2 if len(tb) in (len(ib), len(ib) + 1)]
    # fantasies at shared points on top of two batch dimensions, and one more rank everywhere in the thorough tier
    tri += [(mb, ib, (F,) + ib) for mb in S2 for ib in S2 if len(ib) == 2 for F in (1, 2)]
    if tier != "quick":
        tri = [(mb, ib, tb) for mb in S2 for ib in S3 for tb in S3 if len(tb) in (len(ib), len(ib) + 1)]
    # rank errors and the 1-d input form are separate cells (see shape_part)
    tri += [((), (), (2, 3)), ((2,), (), (2, 2, 3)), ((), (2, 2), (2,))]
    tri = list(dict.fromkeys(tri))
    return tri


def adj(mb, x):
    return mb if len(x) < len(mb) else x


def kb_choices(mb, ib, tb):
    ibp = adj(mb, ib)
    out = [ibp, (), tb, ib]
    return list(dict.fromkeys(out))


# ------------------------------------------------------------------ real models

_CLS = {}


def _gp():
    if _CLS:
        return _CLS["GP"]
    import gpytorch

    class GP(gpytorch.models.ExactGP):
        def __init__(self, x, y, lik, bs):
            super().__init__(x, y, lik)
            self.mean_module = gpytorch.means.ConstantMean(batch_shape=bs)
            self.covar_module = gpytorch.kernels.ScaleKernel(gpytorch.kernels.RBFKernel(batch_shape=bs), batch_shape=bs)

        def forward(self, x):
            return gpytorch.distributions.MultivariateNormal(self.mean_module(x), self.covar_module(x))
    _CLS["GP"] = GP
    return GP


def build(mb, n, d, lik_kind, gen, params=None, data=None):
    """batched source (`params`/`data` None: random) or the replica with the given slices"""
    import torch
    import gpytorch
    bs = torch.Size(mb)

    def rnd(*s, lo=0.0, hi=1.0):
        return lo + (hi - lo) * torch.rand(tuple(s), generator=gen, dtype=torch.float64)
    if data is None:
        x, y = rnd(*mb, n, d), torch.randn((*mb, n), generator=gen, dtype=torch.float64)
        nz = rnd(*mb, n, lo=0.05, hi=0.5) if lik_kind == "fixed" else None
    else:
        x, y, nz = data
    if lik_kind == "fixed":
        lik = gpytorch.likelihoods.FixedNoiseGaussianLikelihood(noise=nz, batch_shape=bs)
    else:
        lik = gpytorch.likelihoods.GaussianLikelihood(batch_shape=bs)
    m = _gp()(x, y, lik, bs)
    if params is None:
        params = {"c": rnd(*mb, lo=-1, hi=1), "os": rnd(*mb, lo=0.5, hi=2.0), "ls": rnd(*mb, 1, 1, lo=0.4, hi=1.2),
                  "nz": rnd(*mb, 1, lo=0.05, hi=0.5)}
    with torch.no_grad():
        m.mean_module.constant.copy_(params["c"])
        m.covar_module.outputscale = params["os"]
        m.covar_module.base_kernel.lengthscale = params["ls"]
        if lik_kind != "fixed":
            lik.noise = params["nz"]
    m.eval()
    lik.eval()
    return m, x, y, nz, params


def memo(obj, name):
    for k, v in (getattr(obj, "_memoize_cache", None) or {}).items():
        if isinstance(k, tuple) and k[0] == name and tuple(k[1]) == ():
            return v
    return None


def observe(fm):
    """batch shapes and tensors of everything `fantasy_batch_shapes` speaks about"""
    ps = fm.prediction_strategy
    ltt = ps.lik_train_train_covar
    mc, cc = memo(ps, "mean_cache"), memo(ps, "covar_cache")
    rd, ri = memo(ltt, "root_decomposition"), memo(ltt, "root_inv_decomposition")
    obs = {10: fm.train_inputs[0], 11: fm.train_targets, 12: ps.train_inputs[0], 13: ps.train_prior_dist.mean,
           15: ps.train_labels, 18: mc, 19: cc,
           16: None if rd is None else rd.root.to_dense(), 17: None if ri is None else ri.root.to_dense()}
    erank = {10: 2, 11: 1, 12: 2, 13: 1, 14: 2, 15: 1, 16: 2, 17: 2, 18: 1, 19: 2}
    shapes = {r: (None if t is None else tuple(t.shape[:t.dim() - erank[r]])) for r, t in obs.items()}
    shapes[14] = tuple(ps.train_prior_dist.lazy_covariance_matrix.shape[:-2])
    return obs, shapes


def close(a, b):
    import torch
    return a.shape == b.shape and bool(torch.allclose(a, b, rtol=RTOL, atol=ATOL))


def real_case(ctx, gen_info, case, spec, rng, fail, broke):
    """one (mb, ib, tb[, kb]) on the real code, judged against the specification `spec` (parsed driver reply)"""
    import torch
    import gpytorch
    mb, ib, tb, kb, lik_kind, one_d = case["mb"], case["ib"], case["tb"], case.get("kb"), case["lik"], case.get("one_d", False)
    n, f, d = case["n"], case["f"], (1 if one_d else case["d"])
    g = torch.Generator().manual_seed(case["seed"])
    rp = {"shape_case": case}
    key = f"fantasy:{'fixednoise' if lik_kind == 'fixed' else 'gaussian'}:default:batch-shapes"
    old = torch.get_default_dtype()
    torch.set_default_dtype(torch.float64)
    try:
        with warnings.catch_warnings(), gpytorch.settings.fast_pred_var(bool(case["fpv"])):
            warnings.simplefilter("ignore")
            src, x, y, nz, params = build(mb, n, d, lik_kind, g)
            src(torch.rand((*mb, 2, d), generator=g, dtype=torch.float64))
            xf = torch.rand((*ib, f, d), generator=g, dtype=torch.float64)
            if one_d:
                xf = xf.reshape(f)                      # the 1-d input form of a d = 1 model
            yf = torch.randn((*tb, f), generator=g, dtype=torch.float64)
            kw = {}
            if lik_kind == "fixed":
                kw["noise"] = 0.05 + 0.45 * torch.rand((*kb, f), generator=g, dtype=torch.float64)
            want = spec["spec"]
            if lik_kind == "fixed":
                want = want and case["noise_spec"]["spec"]
            try:
                fm = src.get_fantasy_model(xf, yf, **kw)
                err = None
            except Exception as e:  # noqa: BLE001
                fm, err = None, f"{type(e).__name__}: {str(e).splitlines()[0][:110]}"
            ctx.count("shape_real_calls")
            if (fm is not None) != want:
                if want:
                    fail(f"{key}:raises", f"get_fantasy_model raised {err} for model batch {mb}, input batch {ib}, target "
                         f"batch {tb}" + (f", noise batch {kb}" if kb is not None else "") + ", which the specification "
                         "(Accepts: the code's own checks) accepts", rp)
                else:
                    broke(f"{key}:accepts", f"get_fantasy_model returned a model for model batch {mb}, input batch {ib}, "
                          f"target batch {tb}" + (f", noise batch {kb}" if kb is not None else "") + " although the "
                          "acceptance predicate (and the generated program) reject it", rp)
                return
            if fm is None:
                ctx.count("shape_real_rejected_as_specified")
                return
            ctx.count("shape_real_accepted")
            obs, shapes = observe(fm)
            regs = spec["regs"]
            for r, nm in OUT.items():
                if shapes[r] is None:
                    broke(f"{key}:missing:{nm}", f"fantasy strategy carries no `{nm}`", rp)
                elif shapes[r] != regs[r]["sshape"]:
                    fail(f"{key}:shape:{nm}", f"`{nm}` has batch shape {shapes[r]}, specified {regs[r]['sshape']} (model "
                         f"batch {mb}, input batch {ib}, target batch {tb})", rp)
                    return
            xf2 = xf.reshape(*ib, f, 1) if one_d else xf
            # ---- positions: the data of the fantasy model is the gather the specification names (exact)
            for r, srcs, dim in ((10, ((0, x, mb), (2, xf2, ib)), -2), (11, ((1, y, mb), (3, yf, tb)), -1),
                                 (12, ((0, x, mb), (2, xf2, ib)), -2), (15, ((1, y, mb), (3, yf, tb)), -1)):
                s = regs[r]["sshape"]
                got = obs[r]
                for k, tagstr in enumerate(regs[r]["spec"]):
                    e = unflat(s, k)
                    parts = [t[unflat(bs_, tag_idx(tagstr, reg))] for reg, t, bs_ in srcs]
                    wantv = torch.cat(parts, dim)
                    if not torch.equal(got[e], wantv):
                        fail(f"{key}:train_data", f"element {list(e)} of `{OUT[r]}` is not cat(source data of replica "
                             f"{tag_idx(tagstr, srcs[0][0])}, fantasy data of element {tag_idx(tagstr, srcs[1][0])}) "
                             f"(model batch {mb}, input batch {ib}, target batch {tb})", dict(rp, element=list(e)))
                        return
            ctx.count("shape_position_checks", 4)
            if lik_kind == "fixed":
                nn = fm.likelihood.noise_covar.noise
                nsp = case["noise_spec"]["regs"][10]
                if tuple(nn.shape[:-1]) != nsp["sshape"]:
                    fail(f"{key}:shape:noise", f"fantasy noise has batch shape {tuple(nn.shape[:-1])}, specified {nsp['sshape']}", rp)
                    return
                for k, tagstr in enumerate(nsp["spec"]):
                    e = unflat(nsp["sshape"], k)
                    wantv = torch.cat([nz[unflat(mb, tag_idx(tagstr, 0))], kw["noise"][unflat(kb, tag_idx(tagstr, 1))]], -1)
                    if not torch.equal(nn[e], wantv):
                        fail(f"{key}:fantasy-noise", f"element {list(e)} of the fantasy noise is not [old noise of replica; "
                             f"new noise]", dict(rp, element=list(e)))
                        return
            # ---- numerics: element e of the carried caches = the unbatched fantasy of the replica the specification names
            s18 = regs[18]["sshape"]
            elems = list(range(math.prod(s18)))
            if len(elems) > 3:
                elems = sorted({0, len(elems) - 1, rng.randrange(len(elems))})
            for k in elems:
                e = unflat(s18, k)
                tg = regs[18]["spec"][k]
                ix = {reg: tag_idx(tg, reg) for reg in (0, 2, 3, 4, 5, 6, 7)}
                # replica: train data, hyper-parameters, caches must all come from the SAME model batch element
                if not (ix[0] == ix[4] == ix[5] == ix[6]):
                    broke(f"{key}:spec", f"specification reads different replicas for one element: {tg}", rp)
                    return
                rb = unflat(mb, ix[0])
                yrep = y[rb]
                rparams = {"c": params["c"][rb], "os": params["os"][rb], "ls": params["ls"][rb], "nz": params["nz"][rb]}
                rep, _, _, _, _ = build((), n, d, lik_kind, g, params=rparams, data=(x[rb], yrep, None if nz is None else nz[rb]))
                rep(torch.rand((2, d), generator=g, dtype=torch.float64))
                rkw = {}
                if lik_kind == "fixed":
                    rkw["noise"] = kw["noise"][unflat(kb, ix[7])]
                rfm = rep.get_fantasy_model(xf2[unflat(ib, ix[2])], yf[unflat(tb, ix[3])], **rkw)
                robs, _ = observe(rfm)
                for r in (18, 19, 17, 16, 13):
                    sr = regs[r]["sshape"]
                    # element of register r that element e of the mean cache corresponds to (right-aligned broadcast)
                    er = tuple((0 if sr[len(sr) - 1 - j] == 1 else e[len(e) - 1 - j]) for j in range(len(sr)))[::-1] \
                        if len(sr) <= len(e) else None
                    if er is None:
                        continue
                    a, b_ = obs[r][er], robs[r]
                    if r in (16, 17, 19):      # roots: compare what they are roots of (sign / rotation free)
                        a, b_ = a @ a.mT, b_ @ b_.mT
                    ctx.count("shape_numeric_checks")
                    if not close(a, b_):
                        dd = float((a - b_).abs().max()) if a.shape == b_.shape else float("nan")
                        fail(f"{key}:{OUT[r]}", f"element {list(er)} of `{OUT[r]}` of the batched fantasy differs from the "
                             f"unbatched fantasy of replica {list(rb)} with fantasy inputs {list(unflat(ib, ix[2]))} / targets "
                             f"{list(unflat(tb, ix[3]))} by {dd:.3e} (model batch {mb}, input batch {ib}, target batch {tb})",
                             dict(rp, element=list(e)))
                        return
    finally:
        torch.set_default_dtype(old)


# ------------------------------------------------------------------ the whole part

def shape_part(ctx, gen, run_driver, use_driver=True):
    """`gen` = result of g6_fantasy_shapes.translate (op lists as Python tuples)"""
    rng = ctx.rng("shapes")

    def fail(key, what, rp):
        ctx.fail(key, what, rp)

    def broke(key, what, rp):
        ctx.broke("correspondence", key, what + "\nreplay: " + str(C.jsonable(rp))[:500])
    tri = families(ctx.tier, rng)
    have_gen = gen is not None          # None: the translator rejected the source; the specification is still judged
    prog, nshp = (gen["program"], gen["nShapes"]) if have_gen else ([], 0)
    nprog, nnshp = (gen["fixedNoise"], gen["fixedNoiseNShapes"]) if have_gen else ([], 0)
    quads = [(mb, ib, tb, ()) for (mb, ib, tb) in tri]
    lines = [f"fshape {shp(mb)} | {shp(ib)} | {shp(tb)} | {shp(kb)}" for (mb, ib, tb, kb) in quads]
    # fixed-noise family: the noise batch shape varies over the documented choices
    fq = []
    for (mb, ib, tb) in tri:
        if len(mb) <= 1 or ctx.tier != "quick":
            for kb in kb_choices(mb, ib, tb):
                if kb != ():
                    fq.append((mb, ib, tb, kb))
    fq = rng.sample(fq, min(len(fq), 500 if ctx.tier == "quick" else 3000))
    lines += [f"fshape {shp(mb)} | {shp(ib)} | {shp(tb)} | {shp(kb)}" for (mb, ib, tb, kb) in fq]
    S3 = shapes_upto(2 if ctx.tier == "quick" else 3)
    npairs = [(a, b) for a in S3 for b in S3]
    lines += [f"fnoise {shp(a)} | {shp(b)}" for (a, b) in npairs]
    ctx.count("shape_driver_lines", len(lines))
    if not use_driver:
        return
    replies = run_driver(lines)
    allq = quads + fq
    specs, nspecs = {}, {}
    mism = 0
    for q, rep in zip(allq, replies[:len(allq)]):
        if not rep.startswith("ok"):
            broke("fantasy-shapes:driver", f"driver replied `{rep[:80]}` to fshape {q}", {"shape_case": q})
            continue
        sp = parse_reply(rep)
        specs[q] = sp
        mb, ib, tb, kb = q
        if not have_gen:
            continue
        tr = torch_run(prog, {0: mb, 1: mb, 2: ib, 3: tb, 4: mb, 5: mb, 6: mb, 7: kb}, nshp)
        ctx.count("shape_oplist_cases")
        bad = None
        if sp["gen"] != sp["spec"]:
            bad = f"generated program accepts={sp['gen']}, acceptance predicate={sp['spec']}"
        elif (tr is not None) != sp["gen"]:
            bad = f"torch executing the generated op list accepts={tr is not None}, the Lean interpreter {sp['gen']}"
        elif sp["gen"]:
            for r in OUT:
                ts, tt = tags_of(tr[r])
                g_ = sp["regs"][r]
                if not (g_["gshape"] == g_["sshape"] == ts):
                    bad = f"`{OUT[r]}`: shape generated {g_['gshape']}, specified {g_['sshape']}, torch {ts}"
                    break
                if not (g_["gen"] == g_["spec"] == tt):
                    k = next(i for i in range(len(tt)) if not (g_["gen"][i] == g_["spec"][i] == tt[i]))
                    bad = (f"`{OUT[r]}` element {list(unflat(ts, k))}: generated program reads {g_['gen'][k]}, specification "
                           f"{g_['spec'][k]}, torch on the op list {tt[k]}")
                    break
        if bad and mism < 6:
            mism += 1
            broke("fantasy-shapes:generated-vs-spec", f"model batch {mb}, input batch {ib}, target batch {tb}, noise batch "
                  f"{kb}: {bad}", {"shape_case": {"mb": mb, "ib": ib, "tb": tb, "kb": kb}})
    for (a, b), rep in zip(npairs, replies[len(allq):]):
        sp = parse_reply(rep)
        nspecs[(a, b)] = sp
        if not have_gen:
            continue
        tr = torch_run(nprog, {0: a, 1: b}, nnshp)
        ctx.count("shape_oplist_cases")
        bad = None
        if sp["gen"] != sp["spec"] or (tr is not None) != sp["gen"]:
            bad = f"acceptance: generated {sp['gen']}, predicate {sp['spec']}, torch {tr is not None}"
        elif sp["gen"]:
            ts, tt = tags_of(tr[10])
            g_ = sp["regs"][10]
            if not (g_["gshape"] == g_["sshape"] == ts and g_["gen"] == g_["spec"] == tt):
                bad = f"fantasy noise: generated {g_['gshape']} {g_['gen']}, specified {g_['sshape']} {g_['spec']}, torch {ts} {tt}"
        if bad and mism < 6:
            mism += 1
            broke("fantasy-shapes:generated-vs-spec", f"get_fantasy_likelihood, old noise batch {a}, new noise batch {b}: {bad}",
                  {"shape_case": {"nb": a, "kb": b}})
    ctx.notes["shape_family"] = {"triples": len(quads), "fixed_noise_quadruples": len(fq), "noise_pairs": len(npairs),
                                 "spec_accepted": sum(1 for q in quads if specs.get(q, {}).get("spec"))}
    # ---- (b) the real code
    acc = [q for q in quads if specs.get(q, {}).get("spec")]
    rej = [q for q in quads if q in specs and not specs[q]["spec"]]
    if ctx.tier == "quick":
        acc_s = rng.sample(acc, min(len(acc), 55))
        # always the documented patterns incl. coinciding sizes
        must = [((), (), ()), ((2,), (2,), (2,)), ((2,), (2,), (3, 2)), ((), (3,), (3,)), ((), (), (3,)), ((2,), (), (2,)),
                ((3,), (3,), (3, 3)), ((2, 3), (2, 3), (2, 2, 3)), ((1, 2), (1, 2), (1, 2)), ((3,), (1,), (3,))]
        acc_s = list(dict.fromkeys([(a, b, c, ()) for (a, b, c) in must if (a, b, c, ()) in specs] + acc_s))
        rej_s = rng.sample(rej, min(len(rej), 35))
    else:
        acc_s, rej_s = acc, rng.sample(rej, min(len(rej), 500))
    cases = []
    for (mb, ib, tb, kb) in acc_s + rej_s:
        n = rng.choice([2, 3, 4])
        # coinciding sizes: n == a batch size, f == n, f == a batch size
        if mb and rng.random() < 0.4:
            n = mb[-1]
        f = rng.choice([1, 2, 3, n])
        cases.append({"mb": mb, "ib": ib, "tb": tb, "lik": "gauss", "n": n, "f": f, "d": rng.choice([1, 2]),
                      "fpv": rng.choice([0, 1]), "seed": rng.getrandbits(30)})
    # the 1-d input form (`i.unsqueeze(-1) if i.ndimension() == 1`): inputs (f,), model with d = 1
    for (mb, tb) in [((), ()), ((), (2,)), ((2,), (2,)), ((2,), (3, 2))]:
        q = (mb, (), tb, ())
        if q in specs:
            cases.append({"mb": mb, "ib": (), "tb": tb, "lik": "gauss", "n": 3, "f": rng.choice([2, 3]), "d": 1, "one_d": True,
                          "fpv": rng.choice([0, 1]), "seed": rng.getrandbits(30)})
    facc = [q for q in fq if q in specs]
    for q in rng.sample(facc, min(len(facc), 40 if ctx.tier == "quick" else 250)):
        mb, ib, tb, kb = q
        if (mb, kb) not in nspecs:
            continue
        cases.append({"mb": mb, "ib": ib, "tb": tb, "kb": kb, "lik": "fixed", "n": rng.choice([2, 3]), "f": rng.choice([1, 2, 3]),
                      "d": rng.choice([1, 2]), "fpv": rng.choice([0, 1]), "seed": rng.getrandbits(30),
                      "noise_spec": nspecs[(mb, kb)]})
    for cs in cases:
        q = (cs["mb"], cs["ib"], cs["tb"], cs.get("kb", ()) if cs["lik"] == "fixed" else ())
        run_real(ctx, gen, cs, specs[q], rng, fail, broke)


def run_real(ctx, gen, cs, spec, rng, fail, broke):
    pub = {k: v for k, v in cs.items() if k != "noise_spec"}
    try:
        real_case(ctx, gen, cs, spec, rng, fail, broke)
        ctx.case({"shape_case": pub}, nontrivial=bool(spec["spec"]),
                 sample={"cell": "batch-shapes", "mb": list(cs["mb"]), "ib": list(cs["ib"]), "tb": list(cs["tb"])})
    except Exception as e:  # noqa: BLE001
        import traceback
        broke("fantasy-shapes:harness", f"shape case could not be run: {type(e).__name__}: {e}\n{traceback.format_exc()[-600:]}",
              {"shape_case": pub})


def replay_shape(ctx, cs, gen, run_driver):
    """re-run one recorded shape case"""
    cs = dict(cs)
    for k in ("mb", "ib", "tb", "kb"):
        if k in cs and cs[k] is not None:
            cs[k] = tuple(cs[k])
    if "lik" not in cs:
        return
    kb = cs.get("kb", ()) if cs["lik"] == "fixed" else ()
    lines = [f"fshape {shp(cs['mb'])} | {shp(cs['ib'])} | {shp(cs['tb'])} | {shp(kb)}"]
    if cs["lik"] == "fixed":
        lines.append(f"fnoise {shp(cs['mb'])} | {shp(kb)}")
    reps = run_driver(lines)
    spec = parse_reply(reps[0])
    if cs["lik"] == "fixed":
        cs["noise_spec"] = parse_reply(reps[1])

    def fail(key, what, rp):
        ctx.fail(key, what, rp)

    def broke(key, what, rp):
        ctx.broke("correspondence", key, what)
    real_case(ctx, gen, cs, spec, ctx.rng("shapes-replay"), fail, broke)

"""C05 stream `object_reuse` — ONE kernel object evaluated on a SEQUENCE of calls whose shapes change.

Every other stream of c05.py builds a fresh kernel for every call, so anything a kernel object remembers between two
calls (a permutation / index / buffer cached under a key that does not determine it, a result memoised per shape, a
derived parameter that is not refreshed) is invisible there.  Here a *session* is

    build the kernel once  ->  [optional history step: train()/eval(), parameters re-set through the public setters]
                           ->  call  ->  …  ->  call

and EVERY call is compared with the documented formula (Lean `Spec`, the same driver requests a fresh kernel would
get).  The calls of one session are chosen so that different shapes share a derived size ("themes"):

    n·d, n·(d+1), n·(2d+1)   equal for different (n, d)   (number of input elements; side length of the derivative
                             kernels' matrices: (6,1) (4,2) (3,3) (2,5) all give n·(d+1) = 12), rows and columns
                             independently (the column side runs through a smaller total);
    n1·n2                    equal for different (n1, n2), including the transposed call;
    B·n                      equal for different (input batch B, n), incl. no batch and two batch dimensions;
    same shape               new values under an unchanged shape, and an exact repetition of an earlier call.

Every session ends by repeating the shape of its first call with new values.  The call modes alternate between
full (x2 given), x1 only, diag, eager evaluation, `last_dim_is_batch=True` (full and diag; compared with the
one-dimensional kernel of every input dimension), inputs / parameters with and without `requires_grad`, `x2 is x1`.

Families: every leaf of c05.LEAVES (non-ARD: the input dimension changes between the calls of one session; ARD and
the kernels that fix d at construction: n / batch / mode change), kernel-batch leaves, composites (scale / sum / product /
nested / active_dims), structure wrappers, Hamming, symmetrised KL, Arc (default and custom delta_func), Cylindrical,
the four derivative kernels (non-ARD and ARD, input batch), IndexKernel, MultitaskKernel, LCMKernel.

A failure is reported under the ordinary key of the family with the suffix `/reused-object`; the replay holds the whole
session (specs, history steps, inputs of every call as exact floats) and the index of the failing call.
"""
import math
import warnings

SUFFIX = "/reused-object"

# leaves whose constructor does not fix the input dimension when ard_num_dims is None
D_FREE = {"rbf", "matern1", "matern3", "matern5", "rq", "periodic", "cosine", "linear", "poly1", "poly2", "poly3",
          "pp0", "pp1", "pp2", "pp3", "const"}
# `k(x1, x2, last_dim_is_batch=True)` = the one-dimensional kernel of every input dimension (pp is excluded: its
# exponent j = floor(D/2)+q+1 is documented with the full input dimension D)
LDB_T = {"rbf", "matern", "rq", "periodic", "linear", "cosine", "poly", "const"}
PERTURB = {"ls", "alpha", "ps", "v", "c", "w", "mus", "scs", "l", "radius", "s", "beta"}


def ldb_ok(spec):
    if spec.get("active") is not None:
        return False
    if spec["t"] == "scale":
        return ldb_ok(spec["k"])
    return spec["t"] in LDB_T


def respec(rng, spec):
    """same structure, new continuous parameter values (structural arguments nu, q, power, vocab, eps, d untouched)"""
    def scal(v):
        if isinstance(v, list):
            return [scal(x) for x in v]
        return v * rng.uniform(0.8, 1.25)
    out = {}
    for key, v in spec.items():
        if key in ("k", "base", "radial"):
            out[key] = respec(rng, v)
        elif key == "ks":
            out[key] = [respec(rng, s) for s in v]
        elif key in PERTURB or (key == "p" and spec["t"] == "cosine"):
            out[key] = scal(v)
        else:
            out[key] = v
    if spec["t"] in ("arc", "arcm"):
        out["base"] = spec["base"]           # ArcKernel pins its base kernel's lengthscale to 1
    return out


def can_reparam(spec, k):
    t = spec["t"]
    if t in ("add", "mul"):
        ks = getattr(k, "kernels", None)
        return ks is not None and len(ks) == len(spec["ks"]) and all(can_reparam(s, kk) for s, kk in zip(spec["ks"], ks))
    if t == "scale":
        return can_reparam(spec["k"], k.base_kernel)
    if t in ("addstruct", "prodstruct", "ng"):
        return can_reparam(spec["k"], k.base_kernel)
    if t == "cyl":
        return can_reparam(spec["radial"], k.radial_base_kernel)
    return True


# ------------------------------------------------------------------------------------------- shapes of one session

def factor_pairs(P):
    return [(a, P // a) for a in range(1, P + 1) if P % a == 0]


def other_n(rng, n, hi=5):
    return rng.choice([x for x in range(1, hi + 1) if x != n])


def theme_shapes(rng, dims, themes, bok=True, col_f=None):
    """list of (theme name, [shape]) with shape = {n1, n2, d, B}; B None | int | [b1, b2]"""
    out = []
    P = rng.choice([6, 12])
    side = {"n*d": lambda d: d, "n*(d+1)": lambda d: d + 1, "n*(2d+1)": lambda d: 2 * d + 1}
    for name in themes:
        if name in side:
            f = side[name]
            Pf = rng.choice([9, 15, 21]) if name == "n*(2d+1)" else P
            cand = [(Pf // f(d), d) for d in dims if Pf % f(d) == 0]
            if len(cand) < 2:
                continue
            rng.shuffle(cand)
            shapes = []
            for n, d in cand[:4]:
                # the column side runs through its own (smaller) total, so that both sides meet coincidences
                P2 = [p for p in (Pf // 2, Pf // 3, 2 * Pf) if p >= 1 and p % f(d) == 0 and p // f(d) != n and p // f(d) <= 8]
                n2 = (P2[0] // f(d)) if P2 and rng.random() < 0.7 else other_n(rng, n)
                shapes.append({"n1": n, "n2": n2, "d": d, "B": None})
            out.append((name, shapes))
        elif name == "n1*n2":
            fp = factor_pairs(P)
            rng.shuffle(fp)
            shapes = [{"n1": a, "n2": b, "d": rng.choice(dims), "B": None} for a, b in fp[:4]]
            shapes.insert(2, dict(shapes[0], n1=shapes[0]["n2"], n2=shapes[0]["n1"]))     # the transposed call
            out.append((name, shapes))
        elif name == "B*n" and bok:
            fp = [(b, n) for b, n in factor_pairs(P) if b >= 2 and n >= 1]
            rng.shuffle(fp)
            shapes = [{"n1": n, "n2": other_n(rng, n), "d": rng.choice(dims), "B": b} for b, n in fp[:3]]
            shapes.insert(1, {"n1": P, "n2": other_n(rng, P), "d": rng.choice(dims), "B": None})
            if P == 12:
                shapes.append({"n1": 2, "n2": 3, "d": rng.choice(dims), "B": [2, 3]})
            out.append((name, shapes))
        elif name == "same-shape":
            sh = {"n1": rng.randint(2, 5), "n2": rng.randint(1, 5), "d": rng.choice(dims),
                  "B": rng.choice([None, None, 2, 3]) if bok else None}
            out.append((name, [dict(sh) for _ in range(3)] + [dict(sh, repeat_of=0)]))
    return out


MODES = {
    "full": (True, {}),
    "x1only": (False, {}),
    "diag": (False, {"diag": True}),
    "eager": (True, {"lazy": False}),
    "ldb": (True, {"ldb": True}),
    "ldb-diag": (False, {"ldb": True, "diag": True}),
    "xgrad": (True, {"x_grad": True}),
    "nograd": (True, {"param_grad": False}),
    "same_obj": (False, {"same_obj": True}),
}


def mode_cycle(rng, allow_ldb):
    base = ["full", "diag", "x1only", "eager", "diag", "full", "xgrad", "nograd", "same_obj"]
    if allow_ldb:
        base += ["ldb", "ldb-diag", "ldb"]
    head = ["full", "diag"]
    rng.shuffle(head)
    rest = [m for m in base]
    rng.shuffle(rest)
    return head + rest


def realise(rng, shapes, mk, modes, specs=None, reparam_p=0.0, kb=None):
    """shapes -> calls (inputs as nested lists); the last call repeats the first shape with new values"""
    shapes = list(shapes) + [dict(shapes[0])]
    calls = []
    for i, sh in enumerate(shapes):
        B = kb if kb else sh["B"]
        nb = (B[0] * B[1]) if isinstance(B, list) else B
        if "repeat_of" in sh and sh["repeat_of"] < len(calls):
            src = calls[sh["repeat_of"]]
            x1, x2full = src["x1"], src["_x2full"]
        else:
            gen = lambda n: ([mk(rng, n, sh["d"]) for _ in range(nb)] if nb else mk(rng, n, sh["d"]))  # noqa: E731
            x1, x2full = gen(sh["n1"]), gen(sh["n2"])
        has_x2, flags = MODES[modes[i % len(modes)]]
        call = {"x1": x1, "x2": x2full if has_x2 else None, "_x2full": x2full, "flags": dict(flags), "xbatch": nb,
                "bview": B if isinstance(B, list) else None, "mode": modes[i % len(modes)], "pre": []}
        if i > 0:
            r = rng.random()
            if r < 0.15:
                call["pre"].append("eval")
            elif r < 0.3:
                call["pre"].append("train")
            if specs is not None and rng.random() < reparam_p:
                specs = [respec(rng, s) for s in specs]
                call["pre"].append(["reparam", specs])
        calls.append(call)
    for c in calls:
        del c["_x2full"]
    return calls


# ------------------------------------------------------------------------------------------- generic kernels

def _inputs_for(M, spec):
    """(mk, dims) for the special-input kernels"""
    t = spec["t"]
    if t == "hamming":
        V = spec["vocab"]

        def onehot(r, n, d):
            rows = []
            for _ in range(n):
                row = []
                for _t in range(d // V):
                    c = r.randrange(V)
                    row += [1.0 if i == c else 0.0 for i in range(V)]
                rows.append(row)
            return rows
        return onehot, [V * T for T in (1, 2, 3, 4, 5)]
    if t == "gskl":
        return (lambda r, n, d: M.rand_x(r, n, d, -1.5, 1.5)), [2, 4, 6]
    if t == "cyl":
        def ball(r, n, d):
            rows = []
            for _ in range(n):
                v = [r.uniform(0.05, 1.0) * r.choice([-1, 1]) for _ in range(d)]
                s = r.uniform(0.1, 0.95) / math.sqrt(sum(x * x for x in v))
                rows.append([x * s for x in v])
            return rows
        return ball, [2, 3, 4, 5]
    return M.rand_x, None


def gen_sessions(ctx, M, rng):
    quick = ctx.quick
    sessions = []
    ALL = ["n*d", "n*(d+1)", "n*(2d+1)", "n1*n2", "B*n", "same-shape"]

    def add(desc, specs, batched, dims, mk=None, n_themes=None, bok=True, ldb=None):
        mk = mk or M.rand_x
        kb = len(specs) if batched else None
        names = [t for t in ALL if len(dims) > 1 or not t.startswith("n*")]
        if kb:
            names = [t for t in names if t != "B*n"]
        if n_themes is not None and quick:
            names = rng.sample(names, min(n_themes, len(names)))
        allow_ldb = all(ldb_ok(s) for s in specs) if ldb is None else ldb
        for th, shapes in theme_shapes(rng, dims, names, bok=bok and not kb):
            calls = realise(rng, shapes, mk, mode_cycle(rng, allow_ldb), specs=specs, reparam_p=0.2, kb=kb)
            sessions.append({"desc": f"{desc}/{th}", "kern": specs, "batched": batched, "calls": calls, "theme": th})

    DIMS = [1, 2, 3, 5]
    for fam in M.LEAVES:
        ards = [False] if fam in M.NO_ARD else [False, True]
        for ardflag in ards:
            if fam in D_FREE and not ardflag:
                dims, d0 = DIMS, 1
            else:
                d0 = rng.randint(2, 4) if (ardflag or fam == "sm") else rng.randint(1, 4)
                dims = [d0]
            spec = M.rand_leaf(rng, fam, d0, ardflag)
            add(f"reuse/{fam}{'/ard' if ardflag else ''}", [spec], False, dims, n_themes=3)
    # kernel batch: per-batch parameters on ONE object, n / mode change
    for fam in (rng.sample(M.LEAVES, 5) if quick else M.LEAVES):
        B = rng.choice([2, 3])
        d0 = rng.choice([x for x in (1, 2, 3, 4) if x != B]) if fam != "sm" else rng.choice([x for x in (2, 3, 4) if x != B])
        ardflag = fam not in M.NO_ARD and d0 > 1 and rng.random() < 0.5
        spB = [M.rand_leaf(rng, fam, d0, ardflag)]
        while len(spB) < B:
            cand = M.rand_leaf(rng, fam, d0, ardflag)
            if all(len(cand.get(k_, [])) == len(spB[0].get(k_, [])) for k_ in ("w", "Z", "W")):
                spB.append(cand)
        dims = DIMS if (fam in D_FREE and not ardflag) else [d0]
        add(f"reuse/{fam}/kernel-batch", spB, True, dims, n_themes=2, ldb=False)
    # composites of non-ARD leaves: the input dimension changes
    for rep in range(1 if quick else 6):
        lf = lambda names: M.rand_leaf(rng, rng.choice(names), 1, False)  # noqa: E731
        a = lf(["rbf", "matern3", "rq", "periodic"])
        b = lf(["linear", "poly2", "matern5", "cosine", "const"])
        c = lf(["rbf", "matern1", "pp1"])
        sa = {"t": "scale", "s": M.logu(rng, 0.05, 20.0), "k": a}
        comps = [("scale", sa), ("add", {"t": "add", "ks": [a, b]}), ("mul", {"t": "mul", "ks": [a, b]}),
                 ("a*(b+c)", {"t": "mul", "ks": [a, {"t": "add", "ks": [b, c]}]}),
                 ("(a*b)+c", {"t": "add", "ks": [{"t": "mul", "ks": [a, b]}, c]}),
                 ("scale(add(mul))", {"t": "scale", "s": M.logu(rng, 0.1, 5.0),
                                      "k": {"t": "add", "ks": [{"t": "mul", "ks": [a, b]}, sa]}})]
        a_act = dict(M.rand_leaf(rng, "rbf", 1, False), active=[1])
        b_act = dict(M.rand_leaf(rng, "matern5", 1, False), active=[0])
        for name, sp in comps:
            add(f"reuse/{name}", [sp], False, [1, 2, 3, 5], n_themes=2)
        add("reuse/active-dims", [{"t": "add", "ks": [a_act, b_act]}], False, [2, 3, 5], n_themes=2)
        add("reuse/active-dims-prod", [{"t": "mul", "ks": [a_act, b_act]}], False, [2, 3, 5], n_themes=2)
    # structure wrappers (num_dims is fixed at construction)
    for base in (rng.sample(M.STRUCT_BASES, 2) if quick else M.STRUCT_BASES):
        d = rng.randint(2, 4)
        ardflag = rng.random() < 0.5
        b0 = M.rand_leaf(rng, base, d, ardflag)
        if rng.random() < 0.5:
            b0 = {"t": "scale", "s": M.logu(rng, 0.3, 3.0), "k": b0}
        R = rng.randint(1, d)
        for name, sp in (("addstruct", {"t": "addstruct", "d": d, "k": b0}),
                         ("prodstruct", {"t": "prodstruct", "d": d, "k": b0}),
                         ("ng", {"t": "ng", "d": d, "k": b0, "s": [M.logu(rng, 0.05, 3.0) for _ in range(R)]})):
            add(f"reuse/{name}({base}{'/ard' if ardflag else ''})", [sp], False, [d], n_themes=2, ldb=False)
    # special-input kernels
    for rep in range(1 if quick else 5):
        V = rng.randint(2, 4)
        sp = dict(M.rand_leaf(rng, "hamming", V), vocab=V)
        mk, dims = _inputs_for(M, sp)
        add("reuse/hamming", [sp], False, dims, mk=mk, n_themes=3, ldb=False)
        Bh = rng.choice([2, 3])
        add("reuse/hamming/kernel-batch", [dict(M.rand_leaf(rng, "hamming", V), vocab=V) for _ in range(Bh)], True, dims,
            mk=mk, n_themes=2, ldb=False)
        sp = M.rand_leaf(rng, "gskl", 2)
        mk, dims = _inputs_for(M, sp)
        add("reuse/gskl", [sp], False, dims, mk=mk, n_themes=3, ldb=False)
        base = {"t": rng.choice(["matern", "rbf"]), "ls": [1.0]}
        if base["t"] == "matern":
            base["nu2"] = rng.choice([1, 3, 5])
        sp = {"t": "arc", "base": base, "ls": [M.logu(rng, 0.5, 4.0)], "angle": [rng.uniform(0.12, 0.88)],
              "radius": [M.logu(rng, 0.2, 3.0)]}
        add(f"reuse/arc({base['t']})", [sp], False, [1, 2, 3, 5], n_themes=3, ldb=False)
        d = rng.randint(1, 3)
        spm = dict(sp, t="arcm", thr=[rng.uniform(-1.0, 1.0) for _ in range(d)])
        add(f"reuse/arc-delta_func({base['t']})", [spm], False, [d], n_themes=2, ldb=False)
        radial = M.rand_leaf(rng, rng.choice(["matern5", "rbf", "matern3"]), 1, False)
        sp = {"t": "cyl", "radial": radial, "w": [M.logu(rng, 0.05, 2.0) for _ in range(rng.randint(1, 4))],
              "alpha": M.logu(rng, 0.3, 3.0), "beta": M.logu(rng, 0.3, 3.0), "eps": 1e-6}
        mk, dims = _inputs_for(M, sp)
        add(f"reuse/cyl({radial['t']})", [sp], False, dims, mk=mk, n_themes=3, ldb=False)
    return sessions


def eval_call(M, k, cur, batched, call):
    """the real kernel object on one call -> list of numpy arrays, ordered like `expected_lines`"""
    import torch
    import gpytorch
    fl = call["flags"]
    for p in k.parameters():
        p.requires_grad_(fl.get("param_grad") is not False)
    x1 = torch.tensor(call["x1"], dtype=torch.float64)
    x2 = None if call["x2"] is None else torch.tensor(call["x2"], dtype=torch.float64)
    if fl.get("same_obj"):
        x2 = x1
    bview = call.get("bview")
    if bview:
        x1 = x1.reshape(*bview, *x1.shape[-2:])
        x2 = None if x2 is None else x2.reshape(*bview, *x2.shape[-2:])
    if fl.get("x_grad"):
        x1.requires_grad_(True)
        if x2 is not None and x2 is not x1:
            x2.requires_grad_(True)
    kw = {"last_dim_is_batch": True} if fl.get("ldb") else {}
    with warnings.catch_warnings():
        warnings.simplefilter("ignore")
        with gpytorch.settings.lazily_evaluate_kernels(fl.get("lazy", True)):
            if fl.get("diag"):
                out = k(x1, diag=True, **kw)
            else:
                out = k(x1, x2, **kw) if x2 is not None else k(x1, **kw)
                out = out.to_dense()
    out = out.detach()
    nb = call.get("xbatch")
    kbatch = len(cur) if batched else None
    if bview:
        out = out.reshape(nb, *out.shape[len(bview):])
    lead = nb or kbatch
    blocks = [out[b] for b in range(lead)] if lead else [out]
    res = []
    for blk in blocks:
        if fl.get("ldb"):
            res += [blk[l].numpy() for l in range(blk.shape[0])]
        else:
            res.append(blk.numpy())
    return res


def expected_lines(M, k, cur, batched, call):
    """[(driver line, spec for the tolerance, X1, X2)] — parameters READ BACK from the object right after the call"""
    nb = call.get("xbatch")
    lead = nb or (len(cur) if batched else None) or 1
    out = []
    for b in range(lead):
        X1 = call["x1"][b] if nb else call["x1"]
        X2s = call["x2"] if call["x2"] is not None else call["x1"]
        X2 = X2s[b] if nb else X2s
        spec = cur[b if batched else 0]
        if call["flags"].get("ldb"):
            for l in range(len(X1[0])):
                c1, c2 = [[r[l]] for r in X1], [[r[l]] for r in X2]
                out.append((f"K {M.tokens_dim(spec, k, b, batched, l)} {M.mat(c1)} {M.mat(c2)}", M.dim_spec(spec, l), c1, c2))
            continue
        try:
            tk = M.tokens(spec, k, b, batched)
        except M.StructureMismatch:
            tk = M.tokens_by_spec(spec)
        aug = (lambda X: [list(r) + [1.0 if v > t_ else 0.0 for v, t_ in zip(r, spec["thr"])] for r in X]) \
            if spec["t"] == "arcm" else (lambda X: X)
        out.append((f"K {tk} {M.mat(aug(X1))} {M.mat(aug(X2))}", spec, X1, X2))
    return out


def history(sess, i):
    parts = []
    for j, c in enumerate(sess["calls"][:i + 1]):
        x = c["x1"][0] if c.get("xbatch") else c["x1"]
        x2 = None if c["x2"] is None else (c["x2"][0] if c.get("xbatch") else c["x2"])
        pre = "".join(f"{p if isinstance(p, str) else p[0]}; " for p in c.get("pre", []))
        B = c.get("bview") or c.get("xbatch")
        parts.append(f"{pre}#{j} {c.get('mode', c.get('tag', ''))}({'B=' + str(B) + ',' if B else ''}n1={len(x)}"
                     f"{'' if x2 is None else ',n2=' + str(len(x2))},d={len(x[0])})")
    return " -> ".join(parts)


def run_sessions(ctx, M, sessions, q, record=True):
    import numpy as np
    pend = []
    for sess in sessions:
        cur, batched = sess["kern"], sess["batched"]
        fam = M.family_of(cur[0])
        k = None
        for i, call in enumerate(sess["calls"]):
            payload = {"session": sess, "failing_call": i}
            mode = "diag" if call["flags"].get("diag") else "full"
            try:
                if k is None:
                    k = M.build(cur, batched)
                for op in call.get("pre", []):
                    if op == "eval":
                        k.eval()
                    elif op == "train":
                        k.train()
                    elif op[0] == "reparam" and can_reparam(cur[0], k):
                        cur = op[1]
                        M.build(cur, batched, into=k)
                real = eval_call(M, k, cur, batched, call)
                ll = expected_lines(M, k, cur, batched, call)
            except Exception as e:
                if record:
                    ctx.case({"reuse": sess["desc"], "call": i, "x1": call["x1"], "f": call["flags"]})
                ctx.fail(f"{fam}/{mode}/raises{SUFFIX}",
                         f"{sess['desc']}: one kernel object, {history(sess, i)}: call #{i} raises {type(e).__name__}: "
                         f"{str(e)[:160]}", payload)
                break
            case = {"desc": f"{sess['desc']}#{i}", "flags": call["flags"], "x1": call["x1"], "x2": call["x2"]}
            pend.append((sess, i, case, real, [(q.ask(l[0]), l[1], l[2], l[3]) for l in ll], payload))
    ctx.count("reuse_sessions", len(sessions))
    ctx.count("reuse_calls", len(pend))

    def finish():
        themes = {}
        for sess, i, case, real, ll, payload in pend:
            exp = []
            for (h, _s, _a, _b) in ll:
                rep = q[h]
                if rep == "bad-request":
                    ctx.broke("correspondence", "driver rejected request", q.lines[h][:300])
                    exp = None
                    break
                exp.append(M.parse_bits(rep)[0])
            if exp is None:
                continue
            if record:
                ctx.case({"reuse": sess["desc"], "call": i, "k": sess["kern"], "x1": case["x1"], "x2": case["x2"],
                          "f": case["flags"]}, nontrivial=any(float(np.ptp(e)) > 1e-9 for e in exp if e.size),
                         sample={"kernel": sess["desc"], "call": i, "history": history(sess, i)} if i == 2 else None)
                themes[sess["theme"]] = themes.get(sess["theme"], 0) + 1
            if len(real) != len(exp):
                ctx.fail(f"{M.family_of(sess['kern'][0])}/shape{SUFFIX}",
                         f"{sess['desc']}: call #{i} returned {len(real)} blocks, expected {len(exp)}", payload)
                continue
            M.compare(ctx, case, real, exp, [(s, a, b) for (_, s, a, b) in ll], suffix=SUFFIX, payload=payload,
                      what=f" — ONE kernel object, history: {history(sess, i)}")
        if record:
            ctx.notes["reuse_theme_distribution"] = dict(ctx.notes.get("reuse_theme_distribution", {}), **themes)
    return finish


# ------------------------------------------------------------------------------------------- derivative kernels

def gen_grad_sessions(ctx, M, rng):
    quick = ctx.quick
    sessions = []
    for rep in range(1 if quick else 6):
        for kind in ("rbfgrad", "m52grad", "polygrad", "rbfgradgrad"):
            for ardflag in (False, True):
                if kind == "polygrad" and ardflag:
                    continue
                side = "n*(2d+1)" if kind == "rbfgradgrad" else "n*(d+1)"
                if ardflag:
                    d0 = rng.randint(2, 3)
                    dims, names = [d0], ["n1*n2", "B*n", "same-shape"]
                else:
                    d0 = 1
                    dims = [1, 2, 3] if kind == "rbfgradgrad" else [1, 2, 3, 5]
                    names = [side, side, "n*d", "n1*n2", "B*n", "same-shape"]
                ls = [M.logu(rng, 0.5, 3.0) for _ in range(d0 if ardflag else 1)]
                p, c = rng.randint(1, 4), M.logu(rng, 0.05, 2.0)
                for th, shapes in theme_shapes(rng, dims, names):
                    shapes = [s for s in shapes if not isinstance(s["B"], list)]
                    modes = ["full", "diag"]
                    rng.shuffle(modes)
                    modes += rng.sample(["x1only", "full", "diag", "eager", "full"], 5)
                    calls = realise(rng, shapes, lambda r, n, d: M.rand_x(r, n, d, -1.5, 1.5), modes)
                    for cl in calls:
                        if cl["pre"] == [] and rng.random() < 0.15:
                            cl["pre"].append(["lengthscale", [v * rng.uniform(0.8, 1.25) for v in ls]])
                    sessions.append({"desc": f"reuse/{kind}{'/ard' if ardflag else ''}/{th}", "kind": kind, "ard": ardflag,
                                     "ls": ls, "p": p, "c": c, "calls": calls, "theme": th})
    return sessions


def run_grad_sessions(ctx, M, sessions, q, record=True):
    import numpy as np
    import torch
    import gpytorch
    pend = []
    for sess in sessions:
        k = None
        for i, call in enumerate(sess["calls"]):
            payload = {"grad_session": sess, "failing_call": i}
            nb = call.get("xbatch")
            tag = "diag" if call["flags"].get("diag") else ("x1-only" if call["x2"] is None else "n1!=n2")
            r0 = {"kind": sess["kind"], "ls": sess["ls"], "ard": sess["ard"], "p": sess["p"], "c": sess["c"], "tag": tag,
                  "x1": call["x1"][0] if nb else call["x1"],
                  "x2": None if call["x2"] is None else (call["x2"][0] if nb else call["x2"])}
            try:
                if k is None:
                    k, _ = M._grad_module(r0)
                for op in call.get("pre", []):
                    if op == "eval":
                        k.eval()
                    elif op == "train":
                        k.train()
                    elif op[0] == "lengthscale" and sess["kind"] != "polygrad":
                        k.lengthscale = torch.tensor([op[1]], dtype=torch.float64)
                X1 = torch.tensor(call["x1"], dtype=torch.float64)
                X2 = None if call["x2"] is None else torch.tensor(call["x2"], dtype=torch.float64)
                with warnings.catch_warnings():
                    warnings.simplefilter("ignore")
                    with gpytorch.settings.lazily_evaluate_kernels(call["flags"].get("lazy", True)):
                        if tag == "diag":
                            got = k(X1, diag=True).detach().numpy()
                        else:
                            got = (k(X1, X2) if X2 is not None else k(X1)).to_dense().detach().numpy()
            except Exception as e:
                if record:
                    ctx.case({"reuse": sess["desc"], "call": i, "x1": call["x1"]})
                ctx.fail(f"{type(k).__name__ if k is not None else sess['kind']}/{tag}/raises{SUFFIX}",
                         f"{sess['desc']}: one kernel object, {history(sess, i)}: call #{i} raises {type(e).__name__}: "
                         f"{str(e)[:160]}", payload)
                break
            for b in range(nb or 1):
                r = dict(r0, x1=call["x1"][b] if nb else call["x1"],
                         x2=None if call["x2"] is None else (call["x2"][b] if nb else call["x2"]),
                         cname=type(k).__name__)
                _k, line = M._grad_module(r, k)
                pend.append((sess, i, r, got[b] if nb else got, q.ask(line), payload))
    ctx.count("reuse_grad_sessions", len(sessions))
    ctx.count("reuse_grad_calls", len(pend))

    def finish():
        for sess, i, r, got, h, payload in pend:
            exp = M.parse_bits(q[h])[0]
            if record:
                ctx.case({"reuse": sess["desc"], "call": i, "x1": r["x1"], "x2": r["x2"], "tag": r["tag"], "ls": sess["ls"]},
                         sample={"kernel": sess["desc"], "call": i, "history": history(sess, i)} if i == 2 else None)
            M._grad_compare(ctx, r, np.asarray(got), exp, suffix=SUFFIX, payload=payload,
                            what=f" — ONE kernel object, history: {history(sess, i)}")
    return finish


# ------------------------------------------------------------------------------------------- task kernels

def gen_task_sessions(ctx, M, rng):
    sessions = []
    for rep in range(2 if ctx.quick else 10):
        T, rank = rng.randint(2, 4), rng.randint(1, 2)
        nparts = rng.randint(1, 3)
        specs = [M.rand_leaf(rng, rng.choice(["rbf", "matern5", "rq", "linear", "poly2", "linear"]), 1, False) for _ in range(nparts)]
        if rep % 2 == 0:
            specs[0] = M.rand_leaf(rng, rng.choice(["linear", "poly2"]), 1, False)      # non-constant data-kernel diagonal
        task = [{"B": [[rng.gauss(0, 1) for _ in range(rank)] for _ in range(T)],
                 "v": [M.logu(rng, 0.05, 2.0) for _ in range(T)]} for _ in range(nparts)]
        for th, shapes in theme_shapes(rng, [1, 2, 3], ["n*d", "n1*n2", "same-shape"], bok=False):
            modes = rng.sample(["full", "x1only", "diag", "eager", "diag", "x1only"], 6)
            calls = realise(rng, shapes, M.rand_x, modes)
            sessions.append({"desc": f"reuse/{'MultitaskKernel' if nparts == 1 else 'LCMKernel'}/{th}", "T": T, "rank": rank,
                             "specs": specs, "task": task, "calls": calls, "theme": th})
        # IndexKernel: index lists of changing lengths
        calls = []
        for a, b in rng.sample(factor_pairs(12), 4) + [(3, 3), (3, 3)]:
            calls.append({"i1": [rng.randrange(T) for _ in range(a)], "i2": [rng.randrange(T) for _ in range(b)],
                          "lazy": rng.random() < 0.5, "pre": [rng.choice(["eval", "train"])] if rng.random() < 0.3 else []})
        sessions.append({"desc": "reuse/IndexKernel/n1*n2", "T": T, "rank": rank, "index": task[0], "calls": calls,
                         "theme": "n1*n2"})
    return sessions


def run_task_sessions(ctx, M, sessions, q, record=True):
    import numpy as np
    import torch
    import gpytorch
    import gpytorch.kernels as K
    C = M.C
    pend = []
    for sess in sessions:
        T, rank = sess["T"], sess["rank"]
        if "index" in sess:
            ik = K.IndexKernel(num_tasks=T, rank=rank).double()
            ik.initialize(covar_factor=torch.tensor(sess["index"]["B"], dtype=torch.float64))
            ik.var = torch.tensor(sess["index"]["v"], dtype=torch.float64)
            for i, call in enumerate(sess["calls"]):
                for op in call["pre"]:
                    ik.eval() if op == "eval" else ik.train()
                with gpytorch.settings.lazily_evaluate_kernels(call["lazy"]):
                    got = ik(torch.tensor(call["i1"]).unsqueeze(-1), torch.tensor(call["i2"]).unsqueeze(-1)).to_dense().detach().numpy()
                Bt, vt = ik.covar_factor.detach().tolist(), ik.var.detach().tolist()
                h = q.ask(f"IX {M.mat(Bt)} {M.vec(vt)} {len(call['i1'])} {' '.join(map(str, call['i1']))} "
                          f"{len(call['i2'])} {' '.join(map(str, call['i2']))}")
                pend.append((sess, i, "IndexKernel", h, got, {"task_session": sess, "failing_call": i}))
            continue
        bases = [M.build([s], False) for s in sess["specs"]]
        if len(bases) == 1:
            mk = K.MultitaskKernel(bases[0], num_tasks=T, rank=rank).double()
            mods, name = [mk], "MultitaskKernel"
        else:
            mk = K.LCMKernel(bases, num_tasks=T, rank=rank).double()
            mods, name = list(mk.covar_module_list), "LCMKernel"
        for m, tk in zip(mods, sess["task"]):
            m.task_covar_module.initialize(covar_factor=torch.tensor(tk["B"], dtype=torch.float64))
            m.task_covar_module.var = torch.tensor(tk["v"], dtype=torch.float64)
        for i, call in enumerate(sess["calls"]):
            payload = {"task_session": sess, "failing_call": i}
            for op in call.get("pre", []):
                if op == "eval":
                    mk.eval()
                elif op == "train":
                    mk.train()
            parts = [f"{M.tokens(s, m.data_covar_module, 0, False)} {M.mat(m.task_covar_module.covar_factor.detach().tolist())} "
                     f"{M.vec(m.task_covar_module.var.detach().tolist())}" for m, s in zip(mods, sess["specs"])]
            X1t = torch.tensor(call["x1"], dtype=torch.float64)
            try:
                with warnings.catch_warnings():
                    warnings.simplefilter("ignore")
                    with gpytorch.settings.lazily_evaluate_kernels(call["flags"].get("lazy", True)):
                        if call["flags"].get("diag"):
                            got = mk(X1t, diag=True).detach().numpy()
                        else:
                            out = mk(X1t, torch.tensor(call["x2"], dtype=torch.float64)) if call["x2"] is not None else mk(X1t)
                            got = out.to_dense().detach().numpy()
            except Exception as e:
                ctx.fail(f"{name}/raises{SUFFIX}", f"{sess['desc']}: one kernel object, {history(sess, i)}: call #{i} raises "
                         f"{type(e).__name__}: {str(e)[:160]}", payload)
                break
            h = q.ask(f"MT {len(parts)} {' '.join(parts)} {M.mat(call['x1'])} {M.mat(call['x2'] if call['x2'] is not None else call['x1'])}")
            pend.append((sess, i, name + ("/diag" if call["flags"].get("diag") else ""), h, got, payload))
    ctx.count("reuse_task_calls", len(pend))

    def finish():
        for sess, i, name, h, got, payload in pend:
            if name == "IndexKernel":
                exp = np.array(C.fmat_to_float(M.parse_rat(q[h])))
            else:
                exp = M.parse_bits(q[h])[0]
            if name.endswith("/diag"):
                exp = np.diagonal(exp)
            if record:
                ctx.case({"reuse": sess["desc"], "call": i, "c": {k_: v for k_, v in sess["calls"][i].items() if k_ != "pre"}},
                         sample=None)
            if got.shape != exp.shape or not np.allclose(got, exp, rtol=1e-10, atol=1e-12):
                hist = history(sess, i) if name != "IndexKernel" else \
                    " -> ".join(f"#{j}({len(c['i1'])}x{len(c['i2'])})" for j, c in enumerate(sess["calls"][:i + 1]))
                ctx.fail(f"{name if name.endswith('/diag') else name + '/full'}{SUFFIX}", f"{sess['desc']}: call #{i} on ONE kernel object differs from " +
                         ("(BBᵀ+diag v)[i,j]" if name == "IndexKernel" else "Σ K_data ⊗ K_task in the interleaved layout") +
                         f" (shape {got.shape} vs {exp.shape}); history: {hist}", payload)
    return finish


# ------------------------------------------------------------------------------------------- entry points

def object_reuse(ctx, M, rng, q):
    fins = [run_sessions(ctx, M, gen_sessions(ctx, M, rng), q),
            run_grad_sessions(ctx, M, gen_grad_sessions(ctx, M, rng), q),
            run_task_sessions(ctx, M, gen_task_sessions(ctx, M, rng), q)]

    def finish():
        for f in fins:
            f()
    return finish


def replay(ctx, M, c):
    """re-run one recorded session on ONE object (all calls up to the failing one)"""
    q = M.Q()
    if "session" in c:
        sess = dict(c["session"], calls=c["session"]["calls"][:c["failing_call"] + 1])
        fin = run_sessions(ctx, M, [sess], q, record=False)
    elif "grad_session" in c:
        sess = dict(c["grad_session"], calls=c["grad_session"]["calls"][:c["failing_call"] + 1])
        fin = run_grad_sessions(ctx, M, [sess], q, record=False)
    else:
        sess = dict(c["task_session"], calls=c["task_session"]["calls"][:c["failing_call"] + 1])
        fin = run_task_sessions(ctx, M, [sess], q, record=False)
    q.run()
    fin()

"""C04 — fantasy models equal conditioning from scratch and leave the source untouched.

Tie: (i) translator G6 (`harness/translate/g6_fantasy_frame.py`) regenerates the detach/deepcopy/restore op lists of
`ExactGP.get_fantasy_model` and `FixedNoiseGaussianLikelihood.get_fantasy_likelihood` (theorem `fantasy_frame`);
(ii) correspondence: real models, `get_fantasy_model` (depth 1-3) vs a fresh ExactGP on the concatenated data vs the
exact ℚ values of `lean/drivers/C04.lean` (`Steps.fold?` = the model of the bordered update, `Steps.scratch?` = the
closed form), the carried caches (`mean_cache` under the key it is actually stored, `covar_cache`, root / root-inverse
decompositions) vs the exact `J⁻¹ y`, `J⁻¹`, `J`, and a deep before/after comparison of the source model.
"""
import contextlib
import itertools
import math
import os
import pickle
import sys
import warnings
from concurrent.futures import ThreadPoolExecutor

from lib import common as C

ID = "C04"
PROP_MODULES = ["GPVerif.Props.C04", "GPVerif.Props.C04Batch", "GPVerif.Props.C04BatchAlgebra"]
BUILD_TARGETS = ["GPVerif.Props.C04", "GPVerif.Props.C04Batch", "GPVerif.Props.C04BatchAlgebra", "GPVerif.Gen.FantasyFrame",
                 "GPVerif.Gen.FantasyAlgebra", "GPVerif.Gen.FantasyShapes", "GPVerif.Model.Fantasy"]
RULE = ("batch-shape part: all (model, input, target) batch shapes of rank <= 2 (thorough: inputs / targets rank <= 3) "
        "with sizes in {1,2,3} + the fixed-noise batch choices, generated op lists vs specification vs torch on every "
        "one, the real code on every accepted one (quick: a seed-dependent sample of ~80 + the documented patterns) "
        "and a sample of rejected ones; other part: cells of {model batch () / (2,)} x {plain, shared inputs, per-fantasy inputs, un-batched inputs} x {Gaussian, "
        "FixedNoise, FixedNoise+learned, multitask} x {default strategy, WISKI} x depth 1-3 x fast_pred_var x "
        "detach_test_caches (+ full-rank Lanczos cells); data, hyper-parameters, sizes (n<=10, f<=4, d<=2, t<=3) and "
        "the per-step batch pattern are random per case; distinct = distinct configuration + case seed; non-trivial = "
        "get_fantasy_model returned a model (rejected combinations are counted separately and are not distinct cases)")
EXHAUSTIVE = False
TRUSTED = ["translator harness/translate/g6_fantasy_frame.py (Python ast -> Frame.Op lists)",
           "translator harness/translate/g7_fantasy_algebra.py (Python ast -> DMat definitions / routing)",
           "modelled not verified: torch / linear_operator primitives (Cholesky, triangular solve, cat_rows, "
           "root_decomposition, root_inv_decomposition, stable_pinverse, deepcopy)",
           "the harness's dense evaluation of the model's own kernel / mean / noise (the property's K, m, noise)"]
ASSUMPTIONS = ["float64 only; kernel matrices are evaluated once by the harness with the source model's modules and "
               "shipped as exact rationals (the code's own re-evaluation on sub-blocks may differ by rounding)",
               "added memo entries on the source strategy's lik_train_train_covar (cholesky, root_decomposition, "
               "root_inv_decomposition of the *source* matrix) are lazy memoisation, not a change of the caches; "
               "entries present before must be identical (same object, same bits) afterwards",
               "Lanczos cells (max_cholesky_size(0), full rank) are compared at the accuracy linear_operator delivers"]

GEN = os.path.join(C.LEAN_DIR, "GPVerif", "Gen", "FantasyFrame.lean")
GEN_ALG = os.path.join(C.LEAN_DIR, "GPVerif", "Gen", "FantasyAlgebra.lean")
GEN_SHAPES = os.path.join(C.LEAN_DIR, "GPVerif", "Gen", "FantasyShapes.lean")
_state = {"shapes": None}
SCALE = 2 ** 100
LIK_NAME = {"gauss": "gaussian", "fixed": "fixednoise", "fixedl": "fixednoise+learned", "mt": "multitask"}
T_TASKS = 2
# entries that get_fantasy_strategy memoises lazily on the *source* (functions of the source data only)
LAZY_STRATEGY_MEMO = {"interp_inner_prod", "interp_response_cache"}
LAZY_COVAR_MEMO = {"cholesky", "root_decomposition", "root_inv_decomposition", "to_dense"}


# ------------------------------------------------------------------ translator

def generate(ctx):
    sys.path.insert(0, os.path.join(C.VERIF, "harness"))
    from translate import g6_fantasy_frame
    descs, changed = g6_fantasy_frame.generate(C.REPO, GEN)
    ctx.notes["gen_changed"] = changed
    ctx.notes["frame_ops"] = {d["name"]: len(d["ops"]) for d in descs}
    from translate import g7_fantasy_algebra
    info = g7_fantasy_algebra.generate(C.REPO, GEN_ALG)
    ctx.notes["gen_algebra"] = info
    from translate import g6_fantasy_shapes
    d, changed_s = g6_fantasy_shapes.generate(C.REPO, GEN_SHAPES)
    _state["shapes"] = d
    ctx.notes["gen_shapes"] = {"ops": len(d["program"]), "fixed_noise_ops": len(d["fixedNoise"]), "changed": changed_s}


# ------------------------------------------------------------------ real models

_CLS = {}


def _classes():
    if _CLS:
        return _CLS
    import torch
    import gpytorch

    class GP(gpytorch.models.ExactGP):
        def __init__(self, x, y, lik, bs, kernel, d):
            super().__init__(x, y, lik)
            self.mean_module = gpytorch.means.ConstantMean(batch_shape=bs)
            base = (gpytorch.kernels.RBFKernel(batch_shape=bs) if kernel == "rbf"
                    else gpytorch.kernels.LinearKernel(batch_shape=bs) if kernel == "linear"
                    else gpytorch.kernels.MaternKernel(nu=2.5, batch_shape=bs))
            self.covar_module = gpytorch.kernels.ScaleKernel(base, batch_shape=bs)

        def forward(self, x):
            return gpytorch.distributions.MultivariateNormal(self.mean_module(x), self.covar_module(x))

    class MTGP(gpytorch.models.ExactGP):
        def __init__(self, x, y, lik, bs, kernel, d):
            super().__init__(x, y, lik)
            self.mean_module = gpytorch.means.MultitaskMean(gpytorch.means.ConstantMean(batch_shape=bs),
                                                            num_tasks=T_TASKS)
            base = (gpytorch.kernels.RBFKernel(batch_shape=bs) if kernel == "rbf"
                    else gpytorch.kernels.MaternKernel(nu=2.5, batch_shape=bs))
            self.covar_module = gpytorch.kernels.MultitaskKernel(base, num_tasks=T_TASKS, rank=1)

        def forward(self, x):
            return gpytorch.distributions.MultitaskMultivariateNormal(self.mean_module(x), self.covar_module(x))

    class WISKI(gpytorch.models.ExactGP):
        def __init__(self, x, y, lik, bs, kernel, d):
            super().__init__(x, y, lik)
            self.mean_module = gpytorch.means.ConstantMean()
            g = 8 if d == 1 else 4
            self.covar_module = gpytorch.kernels.ScaleKernel(gpytorch.kernels.GridInterpolationKernel(
                gpytorch.kernels.RBFKernel(), grid_size=g, num_dims=d, grid_bounds=[(-0.25, 1.25)] * d))

        def forward(self, x):
            return gpytorch.distributions.MultivariateNormal(self.mean_module(x), self.covar_module(x))

    _CLS.update(GP=GP, MTGP=MTGP, WISKI=WISKI)
    return _CLS


def _model_class(cfg):
    cl = _classes()
    if cfg["strategy"] == "wiski":
        return cl["WISKI"]
    return cl["MTGP"] if cfg["lik"] == "mt" else cl["GP"]


def _make_likelihood(cfg, bs, fixed_noise):
    import gpytorch
    k = cfg["lik"]
    if k == "gauss":
        return gpytorch.likelihoods.GaussianLikelihood(batch_shape=bs)
    if k == "mt":
        return gpytorch.likelihoods.MultitaskGaussianLikelihood(num_tasks=T_TASKS, batch_shape=bs)
    return gpytorch.likelihoods.FixedNoiseGaussianLikelihood(noise=fixed_noise, learn_additional_noise=(k == "fixedl"),
                                                             batch_shape=bs)


def _rand(gen, *shape, lo=0.0, hi=1.0):
    import torch
    return lo + (hi - lo) * torch.rand(tuple(shape), generator=gen, dtype=torch.float64)


def _randn(gen, *shape):
    import torch
    return torch.randn(tuple(shape), generator=gen, dtype=torch.float64)


def build_source(cfg, gen):
    """Source model with random hyper-parameters (distinct per batch element), in eval mode."""
    import torch
    b = torch.Size(cfg["b"])
    n, d = cfg["n"], cfg["d"]
    x = _rand(gen, *b, n, d)
    y = _randn(gen, *b, n, T_TASKS) if cfg["lik"] == "mt" else _randn(gen, *b, n)
    for i in cfg.get("nan_src") or []:
        y[..., i] = float("nan")        # a missing training target (the same position in every batch element)
    fixed_noise = _rand(gen, *b, n, lo=0.05, hi=0.5) if cfg["lik"] in ("fixed", "fixedl") else None
    lik = _make_likelihood(cfg, b, fixed_noise)
    m = _model_class(cfg)(x, y, lik, b, cfg["kernel"], d)
    with torch.no_grad():
        if cfg["strategy"] == "wiski":
            m.mean_module.constant.fill_(float(_rand(gen, 1, lo=-1, hi=1)))
            m.covar_module.outputscale = float(_rand(gen, 1, lo=0.5, hi=2.0))
            m.covar_module.base_kernel.base_kernel.lengthscale = float(_rand(gen, 1, lo=0.3, hi=0.8))
        elif cfg["lik"] == "mt":
            m.mean_module.base_means[0].constant.copy_(_rand(gen, *b, lo=-1, hi=1))
            m.covar_module.data_covar_module.lengthscale = _rand(gen, *b, 1, 1, lo=0.4, hi=1.2)
            m.covar_module.task_covar_module.covar_factor.copy_(_rand(gen, T_TASKS, 1, lo=0.5, hi=1.2))
            m.covar_module.task_covar_module.var = _rand(gen, T_TASKS, lo=0.3, hi=1.0)
        else:
            m.mean_module.constant.copy_(_rand(gen, *b, lo=-1, hi=1))
            m.covar_module.outputscale = _rand(gen, *b, lo=0.5, hi=2.0)
            if cfg["kernel"] == "linear":
                m.covar_module.base_kernel.variance = _rand(gen, *b, 1, 1, lo=0.5, hi=1.5)
            else:
                m.covar_module.base_kernel.lengthscale = _rand(gen, *b, 1, 1, lo=0.4, hi=1.2)
        if cfg["lik"] == "gauss":
            lik.noise = _rand(gen, *b, 1, lo=0.05, hi=0.5)
        elif cfg["lik"] == "fixedl":
            lik.second_noise = _rand(gen, *b, 1, lo=0.05, hi=0.5)
        elif cfg["lik"] == "mt":
            lik.noise = _rand(gen, *b, 1, lo=0.05, hi=0.3)
            lik.task_noises = _rand(gen, *b, T_TASKS, lo=0.05, hi=0.3)
    m.eval()
    lik.eval()
    return m, x, y, fixed_noise


def build_fresh(cfg, source, X_full, Y_full, noise_full):
    """A fresh ExactGP with the same hyper-parameters (state_dict) on the concatenated data."""
    import torch
    b = torch.Size(cfg["b"])
    lik = _make_likelihood(cfg, b, noise_full)
    m = _model_class(cfg)(X_full, Y_full, lik, b, cfg["kernel"], cfg["d"])
    m.load_state_dict(source.state_dict(), strict=False)
    m.eval()
    lik.eval()
    return m


@contextlib.contextmanager
def settings_of(cfg):
    import torch
    import gpytorch
    with contextlib.ExitStack() as st:
        st.enter_context(warnings.catch_warnings())
        warnings.simplefilter("ignore")
        st.enter_context(gpytorch.settings.fast_pred_var(bool(cfg["fpv"])))
        st.enter_context(gpytorch.settings.detach_test_caches(bool(cfg["dtc"])))
        if cfg.get("lanczos"):
            st.enter_context(gpytorch.settings.max_cholesky_size(0))
            st.enter_context(gpytorch.settings.max_root_decomposition_size(100))
            st.enter_context(gpytorch.settings.cg_tolerance(1e-12))
            st.enter_context(gpytorch.settings.eval_cg_tolerance(1e-12))
            st.enter_context(gpytorch.settings.max_cg_iterations(2000))
        if cfg.get("no_grad"):
            st.enter_context(torch.no_grad())
        if cfg.get("floor"):
            st.enter_context(gpytorch.settings.min_fixed_noise(double_value=float(cfg["floor"])))
        if cfg.get("eager0"):
            st.enter_context(gpytorch.settings.max_eager_kernel_size(0))     # lazy block slicing of the joint
        if cfg.get("lazy_off"):
            st.enter_context(gpytorch.settings.lazily_evaluate_kernels(False))
        if cfg.get("fps") is not None:
            st.enter_context(gpytorch.settings.fast_pred_samples(bool(cfg["fps"])))
        if cfg.get("nan_policy"):
            st.enter_context(gpytorch.settings.observation_nan_policy(cfg["nan_policy"]))
        if cfg.get("chol_size") is not None or cfg.get("root_size") is not None:
            # non-default decomposition branches; iterative solves at a tolerance that makes them exact for these sizes
            if cfg.get("chol_size") is not None:
                st.enter_context(gpytorch.settings.max_cholesky_size(int(cfg["chol_size"])))
            if cfg.get("root_size") is not None:
                st.enter_context(gpytorch.settings.max_root_decomposition_size(int(cfg["root_size"])))
            st.enter_context(gpytorch.settings.cg_tolerance(1e-12))
            st.enter_context(gpytorch.settings.eval_cg_tolerance(1e-12))
            st.enter_context(gpytorch.settings.max_cg_iterations(2000))
        yield


# ------------------------------------------------------------------ snapshots of the source (frame)

def _dense(v):
    import torch
    if v is None:
        return None
    if torch.is_tensor(v):
        return v.detach().clone()
    if isinstance(v, (tuple, list)):
        return [_dense(q) for q in v]
    if hasattr(v, "to_dense"):
        with torch.no_grad():
            return v.to_dense().detach().clone()
    return repr(v)


def _same(a, b):
    import torch
    if a is None or b is None:
        return a is None and b is None
    if isinstance(a, list):
        return isinstance(b, list) and len(a) == len(b) and all(_same(p, q) for p, q in zip(a, b))
    if torch.is_tensor(a):
        if not (torch.is_tensor(b) and a.shape == b.shape):
            return False
        if torch.equal(a, b):
            return True
        # bitwise equality up to NaN == NaN (missing targets)
        return bool(a.is_floating_point() and b.is_floating_point() and torch.equal(a.isnan(), b.isnan())
                    and torch.equal(torch.nan_to_num(a, nan=0.0), torch.nan_to_num(b, nan=0.0)))
    return a == b


def _memo(obj):
    return getattr(obj, "_memoize_cache", None) or {}


def _kname(key):
    return f"{key[0]}{tuple(key[1])}" if isinstance(key, tuple) else str(key)


def snapshot(m):
    ps = m.prediction_strategy
    lik = m.likelihood
    s = {
        "state": {k: v.detach().clone() for k, v in m.state_dict().items()},
        "param_ids": {k: id(p) for k, p in m.named_parameters()},
        "ti": [t.detach().clone() for t in m.train_inputs], "ti_ids": [id(t) for t in m.train_inputs],
        "tt": m.train_targets.detach().clone(), "tt_id": id(m.train_targets),
        "ps_id": id(ps), "lik_id": id(lik), "training": (m.training, lik.training),
        "memo": {k: (id(v), _dense(v)) for k, v in _memo(ps).items()},
        "memo_lik": {k: (id(v), _dense(v)) for k, v in _memo(ps.lik_train_train_covar).items()},
        "ps_attrs": {k: id(v) for k, v in ps.__dict__.items()},
        "n_train": ps.num_train,
    }
    nc = getattr(lik, "noise_covar", None)
    if nc is not None and hasattr(nc, "noise") and not isinstance(getattr(type(nc), "noise", None), property):
        s["fixed_noise"] = (id(nc), id(nc.noise), nc.noise.detach().clone())
    return s


def frame_diffs(s, m):
    """List of (key, description) of everything that differs between snapshot `s` and the current state of `m`."""
    out = []
    ps, lik = m.prediction_strategy, m.likelihood
    if ps is None or id(ps) != s["ps_id"]:
        out.append(("prediction_strategy", "source.prediction_strategy is no longer the same object"
                    if ps is not None else "source.prediction_strategy is None after get_fantasy_model"))
    if lik is None or id(lik) != s["lik_id"]:
        out.append(("likelihood", "source.likelihood was replaced"))
    if m.train_inputs is None or [id(t) for t in m.train_inputs] != s["ti_ids"]:
        out.append(("train_inputs", "source.train_inputs are not the same tensor objects"))
    elif not all(_same(a, b) for a, b in zip(s["ti"], m.train_inputs)):
        out.append(("train_inputs", "source.train_inputs values changed"))
    if m.train_targets is None or id(m.train_targets) != s["tt_id"]:
        out.append(("train_targets", "source.train_targets is not the same tensor object"))
    elif not _same(s["tt"], m.train_targets):
        out.append(("train_targets", "source.train_targets values changed"))
    if lik is not None and (m.training, lik.training) != s["training"]:
        out.append(("mode", "train/eval mode of the source changed"))
    st = m.state_dict()
    if set(st) != set(s["state"]):
        out.append(("parameters", f"state_dict keys changed: {sorted(set(st) ^ set(s['state']))}"))
    for k, v in s["state"].items():
        if k in st and not _same(v, st[k]):
            out.append(("parameters", f"parameter/buffer {k} changed"))
    if {k: id(p) for k, p in m.named_parameters()} != s["param_ids"]:
        out.append(("parameters", "parameter objects were replaced"))
    if "fixed_noise" in s and lik is not None:
        nc = getattr(lik, "noise_covar", None)
        if nc is None or id(nc) != s["fixed_noise"][0]:
            out.append(("likelihood.noise_covar", "source likelihood.noise_covar is not the object it was"))
        elif id(nc.noise) != s["fixed_noise"][1] or not _same(s["fixed_noise"][2], nc.noise):
            out.append(("likelihood.noise_covar", "source fixed noise tensor changed"))
    if ps is not None and id(ps) == s["ps_id"]:
        for nm, table, obj in (("memo", s["memo"], ps), ("memo_lik", s["memo_lik"], ps.lik_train_train_covar)):
            now = _memo(obj)
            for k, (vid, val) in table.items():
                if k not in now:
                    out.append((f"{nm}:{_kname(k)}", f"memo entry {_kname(k)} disappeared from the source"))
                elif id(now[k]) != vid:
                    out.append((f"{nm}:{_kname(k)}", f"memo entry {_kname(k)} was replaced by another object"))
                elif not _same(val, _dense(now[k])):
                    out.append((f"{nm}:{_kname(k)}", f"memo entry {_kname(k)} changed value"))
            for k, v in now.items():
                if k in table:
                    continue
                # lazily memoised quantities of the *source* data may appear (documented assumption); anything else,
                # or an entry of the fantasy's size, is a change of the source's caches
                dv = _dense(v)
                shp = None
                import torch
                if torch.is_tensor(dv):
                    shp = tuple(dv.shape)
                name = k[0] if isinstance(k, tuple) else k
                name = str(getattr(name, "__name__", name)).split(".")[-1]
                if nm == "memo":
                    ok = name in LAZY_STRATEGY_MEMO
                else:
                    ok = name in LAZY_COVAR_MEMO and shp is not None and shp[-2] == s["n_train"]
                if not ok:
                    out.append((f"{nm}:{_kname(k)}", f"memo entry {_kname(k)} of shape {shp} was added to the source"))
        for k, vid in s["ps_attrs"].items():
            if k in ("_memoize_cache",):
                continue
            if k not in ps.__dict__:
                out.append((f"strategy.{k}", f"attribute {k} of the source strategy disappeared"))
            elif id(ps.__dict__[k]) != vid and k not in ("fantasy_inputs", "fantasy_targets"):
                out.append((f"strategy.{k}", f"attribute {k} of the source strategy was rebound"))
    return out


# ------------------------------------------------------------------ case generation

def _case(rng, **kw):
    cfg = dict(strategy="default", lik="gauss", b=[], kernel=rng.choice(["rbf", "matern"]), fpv=0, dtc=0, lanczos=0,
               no_grad=0, n=rng.randint(3, 8), d=rng.choice([1, 2]), t=rng.randint(1, 3), steps=[], pred_between=0,
               seed=rng.getrandbits(30))
    cfg.update(kw)
    return cfg


def _step(rng, mode, F=None, f=None, noise="match"):
    return {"mode": mode, "F": F if F is not None else rng.choice([2, 3]), "f": f if f is not None else rng.randint(1, 3), "noise": noise}


def cases(tier, rng):
    quick = tier == "quick"
    out = []
    liks = ["gauss", "fixed", "fixedl"]
    modes = ["plain", "shared", "per", "unb"]
    reps = 1 if quick else 6
    for _ in range(reps):
        # (1) full cover of b x mode x lik x fpv at depth 1
        for b, mode, lik, fpv in itertools.product([[], [2]], modes, liks, [0, 1]):
            if mode == "unb" and not b:
                continue
            out.append(_case(rng, b=b, lik=lik, fpv=fpv, dtc=rng.choice([0, 1]), steps=[_step(rng, mode)]))
        # (2) fantasies of fantasies
        for depth, lik, fpv in itertools.product([2, 3], liks, [0, 1]):
            b = rng.choice([[], [2]])
            steps = []
            nb = len(b)
            for k in range(depth):
                mode = rng.choice(["plain", "plain", "shared", "per"] + (["unb"] if nb == 1 else []))
                if nb >= 2 and mode in ("shared", "per"):
                    mode = "plain"
                if mode in ("shared", "per"):
                    nb += 1
                steps.append(_step(rng, mode, F=2, f=rng.randint(1, 2)))
            out.append(_case(rng, b=b, lik=lik, fpv=fpv, dtc=rng.choice([0, 1]), steps=steps, n=rng.randint(3, 6),
                             pred_between=rng.choice([0, 1])))
        # (3) detach_test_caches x fast_pred_var x depth, Gaussian, all four cells
        for fpv, dtc in itertools.product([0, 1], [0, 1]):
            out.append(_case(rng, lik=rng.choice(liks), fpv=fpv, dtc=dtc, b=rng.choice([[], [2]]),
                             steps=[_step(rng, "plain"), _step(rng, "plain")], n=rng.randint(3, 6)))
        # (4) sizes at the bounds
        out.append(_case(rng, lik="gauss", fpv=1, n=10, d=2, t=3, steps=[_step(rng, "plain", f=4)]))
        out.append(_case(rng, lik="fixed", fpv=1, n=10, d=2, t=3, steps=[_step(rng, "per", F=2, f=4)]))
        out.append(_case(rng, lik="gauss", fpv=0, n=1, d=1, t=1, steps=[_step(rng, "plain", f=1)]))
        # (5) FixedNoise with per-fantasy noise on shared inputs (linear_operator rejects), missing noise kwarg
        for lik in ("fixed", "fixedl"):
            out.append(_case(rng, lik=lik, fpv=1, steps=[_step(rng, "shared", noise="per_fantasy")]))
            out.append(_case(rng, lik=lik, fpv=0, steps=[_step(rng, "plain", noise="missing")]))
        # (6) multitask (MultitaskKernel + MultitaskGaussianLikelihood)
        for b, f, fpv in itertools.product([[], [2]], [1, 2], [0, 1]):
            out.append(_case(rng, lik="mt", b=b, fpv=fpv, dtc=rng.choice([0, 1]), n=rng.randint(2, 4),
                             steps=[_step(rng, "plain", f=f)]))
        out.append(_case(rng, lik="mt", fpv=1, n=3, steps=[_step(rng, "plain", f=1), _step(rng, "plain", f=1)]))
        out.append(_case(rng, lik="mt", fpv=1, n=3, steps=[_step(rng, "shared", F=2, f=1)]))
        # (7) WISKI (GridInterpolationKernel -> InterpolatedPredictionStrategy)
        for d, fpv, depth in itertools.product([1, 2], [0, 1], [1, 2]):
            out.append(_case(rng, strategy="wiski", kernel="rbf", d=d, fpv=fpv, dtc=rng.choice([0, 1]), no_grad=1,
                             n=rng.randint(4, 7), steps=[_step(rng, "plain", f=rng.randint(1, 2)) for _ in range(depth)]))
        out.append(_case(rng, strategy="wiski", kernel="rbf", d=1, fpv=1, no_grad=0, steps=[_step(rng, "plain")]))
        out.append(_case(rng, strategy="wiski", kernel="rbf", lik="fixed", d=1, fpv=1, no_grad=1,
                         steps=[_step(rng, "plain")]))
        out.append(_case(rng, strategy="wiski", kernel="rbf", d=1, fpv=1, no_grad=1,
                         steps=[_step(rng, "shared", F=2)]))
        # (10) through IndependentModelList.get_fantasy_model
        for lik in liks:
            out.append(_case(rng, lik=lik, fpv=1, via_list=1, steps=[_step(rng, "plain")]))
        out.append(_case(rng, lik="fixed", aux_lik="fixed", fpv=1, via_list=1, steps=[_step(rng, "plain", f=2)]))
        out.append(_case(rng, lik="fixedl", aux_lik="fixed", fpv=0, via_list=1, steps=[_step(rng, "plain", f=3)]))
        out.append(_case(rng, lik="gauss", aux_lik="fixedl", fpv=1, via_list=1, steps=[_step(rng, "plain", f=1)]))
        # (11) fantasy noise at / below / one ulp around settings.min_fixed_noise (default and raised floor)
        for floor, nk, fpv in itertools.product([0, 1e-2], ["zero", "tiny", "floor-", "floor", "floor+", "neg"], [0, 1]):
            depth = rng.randint(1, 3)
            out.append(_case(rng, lik=rng.choice(["fixed", "fixedl"]), fpv=fpv, dtc=rng.choice([0, 1]), floor=floor,
                             n=rng.randint(3, 6), b=rng.choice([[], [], [2]]), pred_between=rng.choice([0, 1]),
                             steps=[dict(_step(rng, "plain", f=rng.randint(1, 2)), noise_kind=nk) for _ in range(depth)]))
        # (12) op-then-use histories on the source, settings changed between creation and use
        for pre in ("set_targets", "set_data", "load_state", "load_state_partial", "train_eval"):
            out.append(_case(rng, lik=rng.choice(liks), fpv=rng.choice([0, 1]), pre=pre, b=rng.choice([[], [2]]),
                             steps=[_step(rng, rng.choice(["plain", "per"]))]))
        for lik, (fc, fp) in itertools.product(liks, [(0, 1), (1, 0)]):
            out.append(_case(rng, lik=lik, fpv=fc, fpv_pred=fp, steps=[_step(rng, "plain"), _step(rng, "plain", f=1)],
                             n=rng.randint(3, 6)))
        # (13) legal but unusual arguments / aliasing
        out.append(_case(rng, lik="gauss", fpv=1, steps=[dict(_step(rng, "plain", f=2), alias="train_view")]))
        out.append(_case(rng, lik="fixed", fpv=1, b=[2], steps=[dict(_step(rng, "plain", f=2), alias="train_view")]))
        out.append(_case(rng, lik="fixedl", fpv=0, steps=[dict(_step(rng, "plain", f=2), alias="dup")]))
        out.append(_case(rng, lik="gauss", fpv=1, steps=[dict(_step(rng, "plain", f=2), zero_resid=1)]))
        out.append(_case(rng, lik="fixed", fpv=1, b=[2], steps=[dict(_step(rng, "per", F=2, f=1), zero_resid=1)]))
        out.append(_case(rng, lik="gauss", fpv=1, b=[2], n=3, steps=[_step(rng, "shared", F=2, f=1), _step(rng, "per", F=2, f=1)]))
        out.append(_case(rng, lik="fixed", fpv=0, b=[2], n=3, steps=[_step(rng, "per", F=2, f=1), _step(rng, "per", F=2, f=1)]))
        out.append(_case(rng, lik="gauss", fpv=1, steps=[_step(rng, "plain", f=0)], empty=1))
        # (14) rarely used branches: lazy block slicing of the joint, eager kernels, low-rank (RootLinearOperator) prior
        for lik, fpv in itertools.product(["gauss", "fixed"], [0, 1]):
            out.append(_case(rng, lik=lik, fpv=fpv, eager0=1, steps=[_step(rng, "plain")]))
            out.append(_case(rng, lik=lik, fpv=fpv, kernel="linear", d=2, n=rng.randint(4, 7),
                             steps=[_step(rng, "plain", f=2), _step(rng, "plain", f=1)]))
        out.append(_case(rng, lik="fixedl", fpv=1, lazy_off=1, steps=[_step(rng, "plain"), _step(rng, "shared", F=2)]))
        # (9) deepcopy refuses (as it does for objects holding non-leaf tensors): the call must fail *and* leave the
        #     source as it was
        out.append(_case(rng, lik="gauss", fpv=1, poison="model", steps=[_step(rng, "plain")]))
        out.append(_case(rng, lik="fixed", fpv=0, poison="model", b=[2], steps=[_step(rng, "plain")]))
        out.append(_case(rng, lik="fixed", fpv=1, poison="likelihood", steps=[_step(rng, "plain")]))
        out.append(_case(rng, lik="fixedl", fpv=0, poison="likelihood", steps=[_step(rng, "per", F=2)]))
        # (8) full-rank Lanczos root (max_cholesky_size(0)): linear_operator accuracy only
        for fpv in (0, 1):
            out.append(_case(rng, lik="gauss", fpv=fpv, lanczos=1, n=rng.randint(4, 6), steps=[_step(rng, "plain", f=2)]))
        # (15) missing (NaN) targets in the source and / or the fantasy data under observation_nan_policy mask / fill:
        #      the specification deletes the missing observations (round 3: C04-7)
        for pol, lik, fpv in itertools.product(["mask", "fill"], liks, [0, 1]):
            b = rng.choice([[], [], [2]])
            depth = rng.choice([1, 2])
            n = rng.randint(4, 7)
            where = rng.choice(["src", "src", "fant", "both"])
            steps = []
            for k in range(depth):
                mode = rng.choice(["plain", "plain", "per", "shared"]) if k == 0 else "plain"
                stp = _step(rng, mode, F=2, f=rng.randint(2, 3))
                if where in ("fant", "both") and k == depth - 1:
                    stp["nan_f"] = [rng.randrange(stp["f"])]
                steps.append(stp)
            nan_src = sorted(rng.sample(range(n), rng.choice([1, 2]))) if where in ("src", "both") else []
            out.append(_case(rng, lik=lik, fpv=fpv, dtc=rng.choice([0, 1]), b=b, n=n, nan_policy=pol, nan_src=nan_src,
                             steps=steps, pred_between=rng.choice([0, 1])))
        # (16) lowered max_cholesky_size / max_root_decomposition_size: the non-default decomposition branches.  KISS-GP
        #      pins method="cholesky" for its fantasy caches, so it stays exact (round 3: C04-8); the default strategy is
        #      iterative there (assumption level)
        for cs, fpv in itertools.product([0, 3], [0, 1]):
            out.append(_case(rng, strategy="wiski", kernel="rbf", d=1, fpv=fpv, dtc=rng.choice([0, 1]), no_grad=1, chol_size=cs,
                             n=rng.randint(4, 7), steps=[_step(rng, rng.choice(["plain", "per"]), F=2, f=rng.randint(1, 2))
                                                         for _ in range(rng.choice([1, 2]))]))
        out.append(_case(rng, strategy="wiski", kernel="rbf", d=2, fpv=1, no_grad=1, chol_size=5, n=6,
                         steps=[_step(rng, "plain", f=2)]))
        for lik, (cs, rs) in zip(liks * 2, [(0, None), (3, None), (0, 2), (3, 2), (None, 2), (0, 100)]):
            out.append(_case(rng, lik=lik, fpv=rng.choice([0, 1]), chol_size=cs, root_size=rs, b=rng.choice([[], [2]]),
                             n=rng.randint(4, 6), steps=[_step(rng, rng.choice(["plain", "per", "shared"]), F=2, f=2)]))
        # (17) fast_pred_var x fast_pred_samples at creation, then further predictions of the SAME fantasy object with the
        #      settings toggled in every order (round 3: C04-9)
        cells = list(itertools.product([0, 1], [0, 1]))
        for (fpv, fps) in cells:
            others = [c for c in cells if c != (fpv, fps)]
            rng.shuffle(others)
            out.append(_case(rng, strategy="wiski", kernel="rbf", d=rng.choice([1, 2]), fpv=fpv, fps=fps, no_grad=1,
                             n=rng.randint(4, 7), toggle=[list(others[0]), list(others[1]), [fpv, fps]],
                             steps=[_step(rng, rng.choice(["plain", "per"]), F=2, f=rng.randint(1, 2))
                                    for _ in range(rng.choice([1, 2]))]))
            out.append(_case(rng, lik=rng.choice(liks), fpv=fpv, fps=fps, b=rng.choice([[], [2]]), n=rng.randint(3, 6),
                             toggle=[list(others[2]), list(others[0])],
                             steps=[_step(rng, rng.choice(["plain", "per", "shared"]), F=2, f=2)]))
        # (18) the SOURCE is modified (train-mode parameter update, load_state_dict, set_train_data) after the fantasy
        #      model was created and before it is first used: the fantasy model must not follow it (fixed 975fbb8)
        for i, (ps_, lik) in enumerate(itertools.product(["train_step", "load_state", "set_data"], liks)):
            out.append(_case(rng, lik=lik, fpv=i % 2, dtc=rng.choice([0, 1]), post_src=ps_, b=rng.choice([[], [2]]),
                             n=rng.randint(3, 6), kernel=rng.choice(["rbf", "matern", "linear"]),
                             steps=[_step(rng, rng.choice(["plain", "per", "shared"]), F=2, f=2)
                                    for _ in range(rng.choice([1, 2]))]))
    return out


def iterative(cfg):
    """cells in which the UNCHANGED code itself goes through CG / Lanczos (numerics at assumption level only)"""
    return bool(cfg.get("lanczos")) or (cfg["strategy"] == "default"
                                        and (cfg.get("chol_size") is not None or cfg.get("root_size") is not None))


# cells that the implementation is known to support: a raise there is a failure, not a `rejected`
def expected_supported(cfg):
    if iterative(cfg) or cfg.get("poison") or cfg.get("empty"):
        return False
    if cfg["strategy"] == "wiski":
        return bool(cfg["no_grad"]) and cfg["lik"] == "gauss" and all(s["mode"] in ("plain", "per") for s in cfg["steps"])
    if cfg["lik"] == "mt":
        return False
    return all(s["noise"] == "match" for s in cfg["steps"])


# ------------------------------------------------------------------ running one case on the real code

class _Poison:
    """An attribute whose deep copy fails, like a non-leaf tensor held by a module."""

    def __deepcopy__(self, memo):
        raise RuntimeError("C04 harness: this attribute refuses to be deep-copied")


def _expand_to(t, B, tail):
    """View `t` with batch shape `B` (tuple) and trailing dims `tail`; None when impossible."""
    import torch
    want = tuple(B) + tuple(tail)
    if tuple(t.shape) == want:
        return t
    try:
        return t.expand(want)
    except RuntimeError:
        pass
    if t.numel() == math.prod(want):
        return t.reshape(want)
    return None


def _expand_rows(t, B, rows):
    """Batch-expand a factor with `rows` rows and any number of columns (low-rank roots have fewer columns)."""
    if t.dim() < 2 or t.shape[-2] != rows:
        return None
    return _expand_to(t, B, (rows, t.shape[-1]))


def _get_memo(obj, name):
    for k, v in _memo(obj).items():
        if isinstance(k, tuple) and k[0] == name and tuple(k[1]) == ():
            return v
    return None


def run_case(cfg):
    """Execute one configuration on the real code (float64 throughout)."""
    import torch
    old = torch.get_default_dtype()
    torch.set_default_dtype(torch.float64)
    try:
        return _run_case(cfg)
    finally:
        torch.set_default_dtype(old)


def _run_case(cfg):
    """Returns a record with everything observed (floats), the spec inputs per batch element, frame differences
    and rejection info."""
    import torch
    import gpytorch  # noqa: F401
    torch.set_num_threads(2)
    gen = torch.Generator().manual_seed(cfg["seed"])
    mt = cfg["lik"] == "mt"
    TT = T_TASKS if mt else 1
    rec = {"cfg": cfg, "steps": [], "frame": [], "rejected": None, "notes": []}
    source, x, y, fixed_noise = build_source(cfg, gen)
    b = tuple(cfg["b"])
    t, d = cfg["t"], cfg["d"]
    xs = _rand(gen, *b, t, d)
    ev = (lambda v: v.shape[:-2]) if mt else (lambda v: v.shape[:-1])
    with settings_of(cfg):
        p0 = source(xs)
        pre = cfg.get("pre")
        if pre == "set_targets":          # targets-only set_train_data on an already used model
            y = _randn(gen, *y.shape)
            source.set_train_data(targets=y, strict=True)
        elif pre == "set_data":
            x, y = _rand(gen, *x.shape), _randn(gen, *y.shape)
            source.set_train_data(inputs=x, targets=y, strict=True)
        elif pre in ("load_state", "load_state_partial"):   # new hyper-parameters into an already used model
            sd = {k: v.clone() for k, v in source.state_dict().items()}
            for k in sd:
                if k.endswith("raw_outputscale") or k.endswith("raw_lengthscale") or k.endswith("raw_constant"):
                    sd[k] = sd[k] + 0.37
            if pre == "load_state_partial":
                sd = {k: v for k, v in sd.items() if "outputscale" in k or "lengthscale" in k}
            source.load_state_dict(sd, strict=(pre == "load_state"))
        elif pre == "train_eval":
            source.train()
            source.eval()
        if pre:
            p0 = source(xs)
        p0m, p0c = p0.mean.detach().clone(), p0.covariance_matrix.detach().clone()
        rec["strategy_class"] = type(source.prediction_strategy).__name__
        # the property's hyper-parameters are those the source has NOW (every fantasy model is a copy of them); the
        # source itself may be modified later (`post_src`)
        spec = source
        if cfg.get("post_src"):
            import copy
            spec = copy.deepcopy(source)
        if cfg.get("via_list"):
            acfg = dict(cfg, lik=cfg.get("aux_lik", "gauss"), b=[], strategy="default", n=3)
            aux, _, _, _ = build_source(acfg, gen)
            aux(_rand(gen, 2, d))
            aux_xf, aux_yf = _rand(gen, 2, d), _randn(gen, 2)
            aux_nz = _rand(gen, 2, lo=0.05, hi=0.5) if acfg["lik"] in ("fixed", "fixedl") else None
        cur = source
        B = b
        X_full, Y_full, N_full = x, y, fixed_noise
        sizes = [cfg["n"]]
        for si, stp in enumerate(cfg["steps"]):
            f, F, mode = stp["f"], stp["F"], stp["mode"]
            if mode == "plain":
                xf, yshape, Bn = _rand(gen, *B, f, d), (*B, f), B
            elif mode == "shared":
                xf, yshape, Bn = _rand(gen, *B, f, d), (F, *B, f), (F, *B)
            elif mode == "per":
                xf, yshape, Bn = _rand(gen, F, *B, f, d), (F, *B, f), (F, *B)
            else:  # un-batched inputs, targets carry the model batch
                xf, yshape, Bn = _rand(gen, f, d), (*B, f), B
            yf = _randn(gen, *yshape, T_TASKS) if mt else _randn(gen, *yshape)
            al = stp.get("alias")
            if al == "train_view" and mode == "plain" and not mt:
                # fantasy points *are* (views of) training points of the current model
                xf = cur.train_inputs[0][..., :f, :]
                yf = cur.train_targets[..., :f]
            elif al == "dup" and mode == "plain":
                xf = xf.clone()
                xf[..., -1, :] = X_full.expand(*B, *X_full.shape[-2:])[..., 0, :]     # equal values, different tensor
            if stp.get("zero_resid") and not mt:
                with torch.no_grad():
                    yf = spec.mean_module(xf.expand(*Bn, f, d)).expand(*yshape).clone()   # y_f - mu_f = 0 exactly
            for i in stp.get("nan_f") or []:
                yf = yf.clone()
                yf[..., i] = float("nan")      # a missing fantasy target
            kw = {}
            nz = None
            if cfg["lik"] in ("fixed", "fixedl"):
                if stp["noise"] == "match":
                    nshape = (*B, f) if mode == "shared" else yshape
                elif stp["noise"] == "per_fantasy":
                    nshape = yshape
                else:
                    nshape = None
                if nshape is not None:
                    nz = _rand(gen, *nshape, lo=0.05, hi=0.5)
                    nk = stp.get("noise_kind", "rand")
                    fl = gpytorch.settings.min_fixed_noise.value(torch.float64)
                    if nk != "rand":
                        val = {"zero": 0.0, "tiny": 1e-9, "floor-": float(torch.nextafter(torch.tensor(fl), torch.tensor(0.0))),
                               "floor": fl, "floor+": float(torch.nextafter(torch.tensor(fl), torch.tensor(1.0))),
                               "neg": -1e-3}[nk]
                        nz = nz.clone()
                        nz[..., 0] = val                      # first fantasy point at / around / below the floor
                        if nk in ("zero", "neg"):
                            nz = torch.full_like(nz, val)
                    kw["noise"] = nz
                    # the noise the fantasy likelihood (and a fresh likelihood on the same values) works with
                    nz = nz.clamp_min(fl)
            pb = cur(xs)
            pbm, pbc = pb.mean.detach().clone(), pb.covariance_matrix.detach().clone()
            if cfg.get("poison") == "model":
                cur._c04_poison = _Poison()
            elif cfg.get("poison") == "likelihood":
                cur.likelihood._c04_poison = _Poison()
            snap = snapshot(cur)
            try:
                if cfg.get("via_list") and si == 0:
                    # through IndependentModelList.get_fantasy_model (models/model_list.py), second member = a small
                    # Gaussian model whose fantasy is not examined
                    from unittest import mock
                    ml = gpytorch.models.IndependentModelList(cur, aux)
                    nlist = [kw.get("noise"), aux_nz]
                    lkw = {"noise": nlist} if any(v is not None for v in nlist) else {}
                    seen = {}
                    orig_gfm = gpytorch.models.ExactGP.get_fantasy_model

                    def rec_gfm(self_, *a, **k):
                        seen[id(self_)] = (a, k)
                        return orig_gfm(self_, *a, **k)
                    with mock.patch.object(gpytorch.models.ExactGP, "get_fantasy_model", rec_gfm):
                        out = ml.get_fantasy_model([xf, aux_xf], [yf, aux_yf], **lkw)
                    nxt = out.models[0]
                    obs_routes = []
                    for mm, xin, yin in ((cur, xf, yf), (aux, aux_xf, aux_yf)):
                        a, k = seen.get(id(mm), ((), {}))
                        ok_pos = len(a) == 2 and a[0] is xin and a[1] is yin
                        if "noise" not in k:
                            r_ = "-"
                        elif k["noise"] is None:
                            r_ = "None"
                        else:
                            r_ = next((str(i) for i, v in enumerate(nlist) if v is k["noise"]), "?")
                        obs_routes.append(r_ if ok_pos else "badpos:" + r_)
                    rec["routes"] = {"has_noise": int(bool(lkw)), "present": [int(v is not None) for v in nlist],
                                     "observed": obs_routes}
                    # the second member's fantasy noise must be its own
                    if aux_nz is not None:
                        an = out.models[1].likelihood.noise_covar.noise
                        want = torch.cat([aux.likelihood.noise_covar.noise, aux_nz], -1)
                        rec["aux_noise_ok"] = bool(an.shape == want.shape and torch.equal(an, want))
                else:
                    nxt = cur.get_fantasy_model(xf, yf, **kw)
            except Exception as e:  # noqa: BLE001  (the real code rejects / crashes: classified by the caller)
                rec["rejected"] = {"step": si, "where": "get_fantasy_model", "type": type(e).__name__,
                                   "msg": str(e).split("\n")[0][:160]}
                # the source must be intact even when the call failed
                diffs = frame_diffs(snap, cur)
                try:
                    pa = cur(xs)
                    if not (torch.equal(pa.mean, pbm) and torch.equal(pa.covariance_matrix, pbc)):
                        diffs.append(("prediction", "source prediction changed"))
                except Exception as e2:  # noqa: BLE001
                    diffs.append(("prediction", f"source can no longer predict: {type(e2).__name__}: {str(e2)[:80]}"))
                rec["frame"] += [(si, k, w + f" (after get_fantasy_model raised {type(e).__name__})") for k, w in diffs]
                break
            # ---- frame: the source (`cur`) before/after
            diffs = frame_diffs(snap, cur)
            pa = cur(xs)
            if not (torch.equal(pa.mean, pbm) and torch.equal(pa.covariance_matrix, pbc)):
                dm = float((pa.mean - pbm).abs().max())
                dc = float((pa.covariance_matrix - pbc).abs().max())
                diffs.append(("prediction", f"source prediction changed after get_fantasy_model (|dmean|={dm:.3e}, "
                              f"|dcov|={dc:.3e})"))
            rec["frame"] += [(si, k, w) for k, w in diffs]
            # aliasing between the new model and the source
            src_ptrs = {p.data_ptr() for p in cur.parameters()}
            if any(p.data_ptr() in src_ptrs for p in nxt.parameters()):
                rec["frame"].append((si, "aliasing", "fantasy model shares parameter storage with the source"))
            src_bufs = {q.data_ptr() for q in cur.buffers() if q.numel()}
            if any(q.numel() and q.data_ptr() in src_bufs for q in nxt.buffers()):
                rec["frame"].append((si, "aliasing", "fantasy model shares buffer storage with the source"))
            sn = getattr(getattr(cur.likelihood, "noise_covar", None), "noise", None)
            fn_ = getattr(getattr(nxt.likelihood, "noise_covar", None), "noise", None)
            if torch.is_tensor(sn) and torch.is_tensor(fn_) and not isinstance(
                    getattr(type(cur.likelihood.noise_covar), "noise", None), property) \
                    and sn.untyped_storage().data_ptr() == fn_.untyped_storage().data_ptr():
                rec["frame"].append((si, "aliasing", "fantasy likelihood's fixed noise shares storage with the source's"))
            # ---- expected concatenated data (the property's "concatenated data")
            Bn = tuple(Bn)
            ytail = (T_TASKS,) if mt else ()
            X_full = torch.cat([X_full.expand(*Bn, *X_full.shape[-2:]), xf.expand(*Bn, f, d)], -2)
            Y_full = torch.cat([Y_full.expand(*Bn, *Y_full.shape[len(Y_full.shape) - 1 - len(ytail):]),
                                yf.expand(*Bn, f, *ytail)], -1 - len(ytail))
            if N_full is not None and nz is not None:
                N_full = torch.cat([N_full.expand(*Bn, N_full.shape[-1]), nz.expand(*Bn, f)], -1)
            sizes.append(f)
            N = sum(sizes)
            srec = {"si": si, "B": list(Bn), "sizes": list(sizes), "obs": {}, "mode": mode}
            if N_full is not None and nz is not None:
                srec["noise_full"] = N_full.detach()
                ln = getattr(getattr(nxt.likelihood, "noise_covar", None), "noise", None)
                srec["lik_noise"] = None if ln is None else _expand_to(ln.detach(), Bn, (N,))
            # train data of the new model
            ti = _expand_to(nxt.train_inputs[0], Bn, (N, d))
            tt = _expand_to(nxt.train_targets, Bn, (N, *ytail))
            srec["train_ok"] = bool(ti is not None and tt is not None and torch.equal(ti, X_full) and _same(tt, Y_full))
            srec["skip_caches"] = bool(cfg.get("nan_policy"))
            srec["train_shapes"] = [list(nxt.train_inputs[0].shape), list(nxt.train_targets.shape)]
            # ---- carried caches, read before the new model predicts
            fs = nxt.prediction_strategy
            srec["fs_class"] = type(fs).__name__
            with torch.no_grad():
                if cfg["strategy"] == "default":
                    mc = _get_memo(fs, "mean_cache")
                    cc = _get_memo(fs, "covar_cache")
                    rd = _get_memo(fs.lik_train_train_covar, "root_decomposition")
                    ri = _get_memo(fs.lik_train_train_covar, "root_inv_decomposition")
                    srec["obs"]["mean_cache"] = None if mc is None else _expand_to(mc.detach(), Bn, (N * TT,))
                    srec["obs"]["covar_cache"] = None if cc is None else _expand_rows(cc.detach(), Bn, N * TT)
                    srec["obs"]["root"] = None if rd is None else _expand_rows(rd.root.to_dense().detach(), Bn, N * TT)
                    srec["obs"]["root_inv"] = None if ri is None else _expand_rows(ri.root.to_dense().detach(), Bn, N * TT)
                    srec["obs_present"] = {k: v is not None for k, v in
                                           (("mean_cache", mc), ("covar_cache", cc), ("root", rd), ("root_inv", ri))}
                    # source factors for the `root` op (model of cat_rows)
                    sl = _get_memo(cur.prediction_strategy.lik_train_train_covar, "root_decomposition")
                    sr = _get_memo(cur.prediction_strategy.lik_train_train_covar, "root_inv_decomposition")
                    n0 = (N - f) * TT
                    Bc = tuple(B)
                    srec["src_root"] = None if sl is None else _expand_rows(sl.root.to_dense().detach(), Bc, n0)
                    srec["src_root_inv"] = None if sr is None else _expand_rows(sr.root.to_dense().detach(), Bc, n0)
                else:
                    P = _get_memo(fs, "interp_inner_prod")
                    c = _get_memo(fs, "interp_response_cache")
                    srec["obs"]["interp_inner_prod"] = None if P is None else P.to_dense().detach()
                    srec["obs"]["interp_response_cache"] = None if c is None else c.detach()
                    srec["wmat_full"] = fs.prepare_dense_wmat().to_dense().detach()
                    srec["wmat_src"] = cur.prediction_strategy.prepare_dense_wmat().to_dense().detach()
                    srec["Kuu"] = fs.train_prior_dist.lazy_covariance_matrix.base_linear_op.to_dense().detach()
                    srec["Lroot"] = None if P is None else P.root_decomposition(method="cholesky").root.to_dense().detach()
            # ---- the source of this step is modified (documented operations) before the fantasy model is first used
            ps_ = cfg.get("post_src")
            if ps_:
                with torch.no_grad():
                    if ps_ == "train_step":            # what an optimiser step on the source does
                        cur.train()
                        for nm_, prm in cur.named_parameters():
                            if nm_.endswith("raw_lengthscale") or nm_.endswith("raw_outputscale") or nm_.endswith("raw_constant") \
                                    or nm_.endswith("raw_variance"):
                                prm.add_(-0.9)
                        cur.eval()
                    elif ps_ == "load_state":
                        sd = {k: v.clone() for k, v in cur.state_dict().items()}
                        for k in sd:
                            if k.endswith("raw_lengthscale") or k.endswith("raw_outputscale") or k.endswith("raw_constant") \
                                    or k.endswith("raw_variance"):
                                sd[k] = sd[k] + 0.8
                        cur.load_state_dict(sd)
                    elif ps_ == "set_data":
                        cur.set_train_data(inputs=_rand(gen, *cur.train_inputs[0].shape),
                                           targets=_randn(gen, *cur.train_targets.shape), strict=False)
            # ---- prediction of the fantasy model
            try:
                with contextlib.ExitStack() as st2:
                    if cfg.get("fpv_pred") is not None:      # setting changed between creation and use
                        st2.enter_context(gpytorch.settings.fast_pred_var(bool(cfg["fpv_pred"])))
                    pf = nxt(xs)
                    srec["pm"] = pf.mean.detach().reshape(*Bn, t * TT)
                    srec["pc"] = pf.covariance_matrix.detach()
                # ---- further predictions of the SAME fantasy object with the settings toggled
                srec["toggled"] = []
                for tg in cfg.get("toggle") or []:
                    with gpytorch.settings.fast_pred_var(bool(tg[0])), gpytorch.settings.fast_pred_samples(bool(tg[1])):
                        try:
                            pt = nxt(xs)
                            srec["toggled"].append({"set": list(tg), "pm": pt.mean.detach().reshape(*Bn, t * TT),
                                                    "pc": pt.covariance_matrix.detach()})
                        except Exception as e:  # noqa: BLE001
                            srec["toggled"].append({"set": list(tg), "error": f"{type(e).__name__}: {str(e)[:120]}"})
                with contextlib.ExitStack() as st2:
                    if cfg.get("fpv_pred") is not None:
                        st2.enter_context(gpytorch.settings.fast_pred_var(bool(cfg["fpv_pred"])))
                    if not mt and cfg["strategy"] == "default":
                        # observation-noise predictive through the fantasy likelihood (call-time noise for FixedNoise)
                        if cfg["lik"] == "gauss":
                            po = nxt.likelihood(pf)
                            add = spec.likelihood.noise.detach().expand(*b, 1).expand(*Bn, 1).expand(*Bn, t)
                        else:
                            tn = _rand(gen, *Bn, t, lo=0.05, hi=0.5)
                            po = nxt.likelihood(pf, noise=tn)
                            add = tn + (spec.likelihood.second_noise.detach().expand(*b, 1).expand(*Bn, 1)
                                        if cfg["lik"] == "fixedl" else 0.0)
                        srec["po"] = po.covariance_matrix.detach()
                        srec["po_add"] = add
                if cfg["strategy"] == "wiski":
                    fmc = _get_memo(fs, "fantasy_mean_cache")
                    srec["obs"]["fantasy_mean_cache"] = None if fmc is None else fmc.detach()
                if mt and not pf._interleaved:
                    srec["pm"] = None
            except Exception as e:  # noqa: BLE001
                rec["rejected"] = {"step": si, "where": "fantasy_model(x*)", "type": type(e).__name__,
                                   "msg": str(e).split("\n")[0][:160]}
                break
            # ---- fresh model on the concatenated data
            try:
                fresh = build_fresh(cfg, spec, X_full, Y_full, N_full)
                pq = fresh(xs)
                srec["qm"] = pq.mean.detach().reshape(*Bn, t * TT)
                srec["qc"] = pq.covariance_matrix.detach()
            except Exception as e:  # noqa: BLE001
                srec["fresh_error"] = f"{type(e).__name__}: {str(e)[:120]}"
            # ---- the property's K, m, noise evaluated densely with the source model's own modules
            with torch.no_grad():
                Xall = torch.cat([X_full, xs.expand(*Bn, t, d)], -2)
                Kall = spec.covar_module(Xall).to_dense()
                mall = spec.mean_module(Xall)
                if mt:
                    mall = mall.reshape(*mall.shape[:-2], -1)
                Kall = _expand_to(Kall, Bn, ((N + t) * TT, (N + t) * TT))
                # kernels are evaluated through matmul-based distances: symmetric only up to an ulp.  The property's K
                # is symmetric; (K + K^T)/2 in float is exactly symmetric and within one ulp of what the code sees.
                Kall = (Kall + Kall.mT) / 2
                mall = _expand_to(mall, Bn, ((N + t) * TT,))
                lik = spec.likelihood
                if cfg["lik"] == "gauss":
                    D = lik.noise.expand(*b, 1).expand(*Bn, 1).expand(*Bn, N)
                elif cfg["lik"] == "fixed":
                    D = N_full
                elif cfg["lik"] == "fixedl":
                    D = N_full + lik.second_noise.expand(*b, 1).expand(*Bn, 1)
                else:
                    per_task = lik.task_noises.expand(*b, T_TASKS) + lik.noise.expand(*b, 1)
                    D = per_task.expand(*Bn, T_TASKS).unsqueeze(-2).expand(*Bn, N, T_TASKS).reshape(*Bn, N * T_TASKS)
                srec["K"], srec["m"], srec["D"] = Kall.detach(), mall.detach(), D.detach()
                srec["y"] = Y_full.reshape(*Bn, N * TT).detach()
            rec["steps"].append(srec)
            cur, B = nxt, Bn
            if cfg["pred_between"]:
                cur(xs)
        # the original source once more, after everything
        pz = p0 if cfg.get("post_src") else source(xs)
        if not cfg.get("post_src") and not (torch.equal(pz.mean, p0m) and torch.equal(pz.covariance_matrix, p0c)):
            rec["frame"].append((len(cfg["steps"]), "prediction", "prediction of the original source changed after "
                                 "the whole chain of fantasy models was created and used"))
    return rec


# ------------------------------------------------------------------ driver requests

def _elements(B, rng_label, limit):
    import random
    idx = list(itertools.product(*[range(k) for k in B])) if B else [()]
    if len(idx) <= limit:
        return idx
    r = random.Random(rng_label)
    if limit == 1:
        return [r.choice(idx)]
    keep = [idx[0], idx[-1]] + r.sample(idx[1:-1], max(0, limit - 2))
    return sorted(set(keep))


def observed_system(srec, e, TT):
    """The property's data for batch element `e`: `J`, `r`, test blocks and segment sizes with the rows / columns of
    missing (NaN) observations DELETED (an exact GP conditioned on the observed points only)."""
    import torch
    K, m, D, y = srec["K"][e], srec["m"][e], srec["D"][e], srec["y"][e]
    sizes = [s * TT for s in srec["sizes"]]
    N = sum(sizes)
    keep = ~torch.isnan(y)
    idx = torch.nonzero(keep).reshape(-1)
    J = (K[:N, :N] + D.diag_embed())[idx][:, idx]
    r = (y - m[:N])[idx].unsqueeze(-1)
    ks, o = [], 0
    for sz in sizes:
        ks.append(int(keep[o:o + sz].sum()))
        o += sz
    ks = [ks[0]] + [k for k in ks[1:] if k > 0]        # a step whose targets are all missing adds nothing
    return J, r, K[N:, :N][:, idx], K[N:, N:], m[N:], ks


def fant_line(srec, e, TT, t):
    """`fant k A r (U S rf)* Kt Ktt mt` for batch element `e` of step record `srec`."""
    J, r, Kt, Ktt, mt_, sizes = observed_system(srec, e, TT)
    toks = ["fant", str(len(sizes) - 1)]
    n0 = sizes[0]
    toks += [C.mat_tokens(J[:n0, :n0]), C.mat_tokens(r[:n0])]
    o = n0
    for fsz in sizes[1:]:
        toks += [C.mat_tokens(J[o:o + fsz, :o]), C.mat_tokens(J[o:o + fsz, o:o + fsz]), C.mat_tokens(r[o:o + fsz])]
        o += fsz
    toks += [C.mat_tokens(Kt), C.mat_tokens(Ktt), C.mat_tokens(mt_.unsqueeze(-1))]
    return " ".join(toks)


def root_line(srec, e, eb, TT):
    K, D = srec["K"][e], srec["D"][e]
    sizes = [s * TT for s in srec["sizes"]]
    N = sum(sizes)
    f = sizes[-1]
    n0 = N - f
    J = K[:N, :N] + D.diag_embed()
    L, R = srec["src_root"][eb], srec["src_root_inv"][eb]
    Z = srec["obs"]["root"][e]
    return " ".join(["root", C.mat_tokens(L), C.mat_tokens(R), C.mat_tokens(J[n0:, :n0]), C.mat_tokens(J[n0:, n0:]),
                     C.mat_tokens(Z[n0:, n0:])])


def wiski_line(srec, TT):
    import torch
    K, m, D, y = srec["K"], srec["m"], srec["D"], srec["y"]
    sizes = srec["sizes"]
    N = sum(sizes)
    f = sizes[-1]
    n0 = N - f
    W = srec["wmat_full"]
    r = (y - m[:N]).unsqueeze(-1)
    Dinv = (1.0 / D)
    Sq = torch.diag(1.0 / D[n0:].sqrt())          # observed D_f^{-1/2} (what sqrt_inv_matmul multiplies with)
    return " ".join(["wiski", C.mat_tokens(W[:, :n0]), C.mat_tokens(torch.diag(Dinv[:n0])), C.mat_tokens(r[:n0]),
                     C.mat_tokens(W[:, n0:]), C.mat_tokens(torch.diag(Dinv[n0:])), C.mat_tokens(r[n0:]),
                     C.mat_tokens(Sq), C.mat_tokens(srec["Kuu"]), C.mat_tokens(srec["Lroot"])])


def _parse_scaled(tokens, pos=0):
    import numpy as np
    r, c = int(tokens[pos]), int(tokens[pos + 1])
    vals = [int(v) / SCALE for v in tokens[pos + 2: pos + 2 + r * c]]
    return np.array(vals, dtype=float).reshape(r, c)


def parse_reply(rep):
    parts = [p.strip() for p in rep.split("|")]
    head = parts[0].split()
    out = {"status": head[0]}
    for i, tk in enumerate(head):
        if tk.startswith("eq="):
            out["eq"] = tk[3:]
        if tk == "kappa":
            out["kappa"] = int(head[i + 1]) / SCALE
    out["mats"] = [_parse_scaled(p.split()) for p in parts[1:]]
    return out


def run_driver_parallel(lines, workers=8, chunk=24):
    if not lines:
        return []
    chunks = [lines[i:i + chunk] for i in range(0, len(lines), chunk)]
    with ThreadPoolExecutor(max_workers=workers) as ex:
        res = list(ex.map(lambda ch: C.run_driver("C04", ch), chunks))
    return [r for ch in res for r in ch]


# ------------------------------------------------------------------ float oracle (only when the driver is unavailable)

def float_oracle(srec, e, TT):
    import torch
    J, r, Kt, Ktt, mt_, _ = observed_system(srec, e, TT)
    Ji = torch.linalg.inv(J)
    mc = Ji @ r.squeeze(-1)
    kappa = float(J.abs().sum(-1).max() * Ji.abs().sum(-1).max())
    return {"status": "ok", "eq": "111111", "kappa": kappa,
            "mats": [mc.unsqueeze(-1).numpy(), Ji.numpy(), (mt_ + Kt @ mc).unsqueeze(-1).numpy(),
                     (Ktt - Kt @ Ji @ Kt.T).numpy()]}


# ------------------------------------------------------------------ comparison

def _maxabs(a):
    import numpy as np
    return float(np.max(np.abs(a))) if a.size else 0.0


def _tol(cfg, kappa, n, scale, fps=False):
    if cfg["strategy"] == "wiski":
        # Cholesky of the singular low-rank matrix W D^-1 W^T is jittered (1e-8) by linear_operator; under
        # fast_pred_samples the covariance goes through one more jittered Cholesky root (observed 8e-6 relative)
        if cfg.get("chol_size") is not None:
            # the root of W D^-1 W^T stays a (pinned) Cholesky root, but the solves with Q = L^T K L + 1 go through CG
            # below max_cholesky_size: linear_operator's CG stagnates at 1e-6 .. 1e-5 relative (observed 1.1e-5)
            return 2e-4 * max(1.0, scale)
        return (1e-4 if fps else 2e-6) * max(1.0, scale)
    if iterative(cfg):
        return 2e-3 * max(1.0, scale)
    return (1e-9 + 64 * n * kappa * 2.0 ** -52) * max(1.0, scale)


def compare_step(ctx, cfg, srec, e, exact, key_prefix, replay, fail, broke):
    """Compare everything observed for batch element `e` of one step with the exact values."""
    import numpy as np
    TT = T_TASKS if cfg["lik"] == "mt" else 1
    N = sum(srec["sizes"]) * TT
    mc_x, Jinv_x, pm_x, pc_x = exact["mats"][:4]
    kappa = exact["kappa"]
    K, D = srec["K"][e].numpy(), srec["D"][e].numpy()
    J = K[:N, :N] + np.diag(D)

    def chk(name, got, want, kind="fail", fps=False):
        if got is None:
            return
        got = np.asarray(got, dtype=float).reshape(want.shape)
        scale = _maxabs(want)
        tol = _tol(cfg, kappa, N, scale, fps=fps)
        err = _maxabs(got - want)
        if not np.all(np.isfinite(got)):
            err = float("inf")
        ename = ("lanczos:" if iterative(cfg) else "wiski:" if cfg["strategy"] == "wiski" else "") + name
        ctx.notes["max_err"][ename] = max(ctx.notes["max_err"].get(ename, 0.0), err / max(1.0, scale))
        if not (err <= tol) and iterative(cfg):
            ctx.assumption(f"linear_operator CG / Lanczos accuracy: {name} off by {err:.2e} (tol {tol:.1e}) in a cell with "
                           f"lowered max_cholesky_size / max_root_decomposition_size (the unchanged code is iterative "
                           f"there); not counted against gpytorch")
            return
        if not (err <= tol):
            what = (f"{name}: |observed - exact| = {err:.3e} > tol {tol:.1e} (kappa={kappa:.1e}, N={N}) for "
                    f"{LIK_NAME[cfg['lik']]}/{cfg['strategy']} b={cfg['b']} step {srec['si']} mode={srec['mode']} "
                    f"fpv={cfg['fpv']} element {list(e)}")
            (fail if kind == "fail" else broke)(f"{key_prefix}:{name}", what, dict(replay, element=list(e), err=err, tol=tol))

    obs = {} if srec.get("skip_caches") else srec["obs"]
    if cfg["strategy"] == "default":
        if obs.get("mean_cache") is not None:
            chk("mean_cache", obs["mean_cache"][e].numpy().reshape(-1, 1), mc_x)
        for nm in ("covar_cache", "root_inv"):
            if obs.get(nm) is not None:
                R = obs[nm][e].numpy()
                chk(nm, R @ R.T, Jinv_x)
        if obs.get("root") is not None:
            Z = obs["root"][e].numpy()
            chk("root", Z @ Z.T, J)
    fps0 = bool(cfg.get("fps"))
    if srec.get("pm") is not None:
        chk("pred-mean", srec["pm"][e].numpy().reshape(-1, 1), pm_x, fps=fps0)
        chk("pred-covar", srec["pc"][e].numpy(), pc_x, fps=fps0)
    for tg in srec.get("toggled") or []:
        # the same fantasy object, predicted again under other settings: still the conditional on all the data
        lab = f"toggle:fpv{tg['set'][0]}fps{tg['set'][1]}"
        if "error" in tg:
            if e == tuple(0 for _ in e) or not e:
                fail(f"{key_prefix}:toggle:raises", f"second prediction of one fantasy object under fast_pred_var="
                     f"{tg['set'][0]}, fast_pred_samples={tg['set'][1]} (created under fpv={cfg['fpv']}, fps={cfg.get('fps', 0)}) "
                     f"raised {tg['error']}", dict(replay, toggle=tg["set"]))
            continue
        chk("toggle:pred-mean", tg["pm"][e].numpy().reshape(-1, 1), pm_x, fps=bool(tg["set"][1]))
        chk("toggle:pred-covar", tg["pc"][e].numpy(), pc_x, fps=bool(tg["set"][1]))
    if srec.get("po") is not None and srec.get("pm") is not None:
        chk("marginal-covar", srec["po"][e].numpy(), pc_x + np.diag(srec["po_add"][e].numpy()))
    if srec.get("qm") is not None:
        chk("fresh-pred-mean", srec["qm"][e].numpy().reshape(-1, 1), pm_x, kind="broke")
        chk("fresh-pred-covar", srec["qc"][e].numpy(), pc_x, kind="broke")


# ------------------------------------------------------------------ correspondence

def _run_all(ctx, case_list, use_driver=True, element_limit=3):
    import torch
    ctx.notes.setdefault("max_err", {})
    ctx.notes.setdefault("rejected", {})
    ctx.notes.setdefault("cells", {})
    lines, pending = [], []

    def fail(key, what, rp):
        ctx.fail(key, what, rp)

    def broke(key, what, rp):
        ctx.broke("correspondence", key, what + "\nreplay: " + str(C.jsonable(rp))[:600])

    recs = []
    for cfg in case_list:
        rp = {"cfg": cfg}
        lname = LIK_NAME[cfg["lik"]]
        kp = f"fantasy:{lname}:{cfg['strategy']}"
        if any(st_.get("noise_kind", "rand") != "rand" for st_ in cfg["steps"]):
            kp += ":noise-floor"
        if cfg.get("post_src"):
            kp += ":source-edit"
        try:
            rec = run_case(cfg)
        except Exception as e:  # noqa: BLE001  the harness itself (or model construction) failed
            import traceback
            broke(f"{kp}:harness", f"case could not be run: {type(e).__name__}: {e}\n{traceback.format_exc()[-800:]}", rp)
            continue
        recs.append(rec)
        cell = f"{lname}/{cfg['strategy']}/b{len(cfg['b'])}/depth{len(cfg['steps'])}/fpv{cfg['fpv']}/dtc{cfg['dtc']}"
        if rec["rejected"] is not None:
            rj = rec["rejected"]
            tag = f"{lname}/{cfg['strategy']}:{rj['where']}:{rj['type']}:{rj['msg'][:70]}"
            ctx.notes["rejected"][tag] = ctx.notes["rejected"].get(tag, 0) + 1
            ctx.count("rejected")
            if expected_supported(cfg):
                fail(f"{kp}:raises", f"{rj['where']} raised {rj['type']}: {rj['msg']} on a supported combination "
                     f"(b={cfg['b']}, steps={[s['mode'] for s in cfg['steps']]}, fpv={cfg['fpv']})", rp)
        done = len(rec["steps"])
        if done:
            ctx.case({"cfg": cfg}, nontrivial=True,
                     sample={"cell": cell, "modes": [s["mode"] for s in cfg["steps"]], "n": cfg["n"],
                             "f": [s["f"] for s in cfg["steps"]], "strategy_class": rec.get("strategy_class")})
            ctx.notes["cells"][cell] = ctx.notes["cells"].get(cell, 0) + 1
            ctx.count(f"depth_reached_{done}")
        if rec.get("routes") is not None:
            ro = rec["routes"]
            if use_driver:
                lines.append(" ".join(["routes", str(ro["has_noise"]), str(len(ro["present"]))] + [str(v) for v in ro["present"]]))
                pending.append(("routes", cfg, ro["observed"], (), kp, rp))
            else:
                want = [str(i) if (ro["has_noise"] and v) else "-" for i, v in enumerate(ro["present"])]
                if ro["observed"] != want:
                    fail(f"fantasy:{lname}:modellist:routing", f"IndependentModelList routed noise {ro['observed']}, "
                         f"specification {want}", rp)
            if rec.get("aux_noise_ok") is False:
                fail(f"fantasy:{lname}:modellist:routing", "second member of the model list: "
                     "its fantasy likelihood noise is not [its noise; its fantasy noise] (keyword routing or concatenation order)", rp)
        # frame
        for si, k, w in rec["frame"]:
            fail(f"frame:{k.split(':')[0]}", f"{w} [{lname}/{cfg['strategy']} b={cfg['b']} step {si} fpv={cfg['fpv']}]",
                 dict(rp, step=si, what=k))
        ctx.count("frame_checks", done + (1 if rec["rejected"] else 0))
        TT = T_TASKS if cfg["lik"] == "mt" else 1
        for srec in rec["steps"]:
            if not srec["train_ok"]:
                fail(f"{kp}:train_data", f"train_inputs/train_targets of the fantasy model are not the concatenated data "
                     f"(shapes {srec['train_shapes']}, expected batch {srec['B']} N={sum(srec['sizes'])})", dict(rp, step=srec["si"]))
            if "fresh_error" in srec:
                broke(f"{kp}:fresh", f"fresh model failed: {srec['fresh_error']}", rp)
            if cfg["strategy"] == "default" and not srec.get("skip_caches"):
                for nm, present in srec["obs_present"].items():
                    if not present:
                        broke(f"{kp}:cache-missing:{nm}", f"fantasy strategy carries no `{nm}` entry", rp)
                    elif srec["obs"][nm] is None:
                        broke(f"{kp}:cache-shape:{nm}", f"carried `{nm}` has a shape incompatible with batch {srec['B']}", rp)
            B = tuple(srec["B"])
            for e in _elements(B, f"{cfg['seed']}:{srec['si']}", element_limit):
                if use_driver and min(srec["sizes"]) > 0:
                    lines.append(fant_line(srec, e, TT, cfg["t"]))
                    pending.append(("fant", cfg, srec, e, kp, rp))
                else:
                    compare_step(ctx, cfg, srec, e, float_oracle(srec, e, TT), kp, rp, fail, broke)
            if use_driver and srec.get("noise_full") is not None:
                if srec.get("lik_noise") is None:
                    fail(f"{kp}:fantasy-noise-order", "fantasy likelihood carries no noise tensor of the concatenated size", rp)
                else:
                    e = _elements(B, "n", 1)[0]
                    n0 = sum(srec["sizes"][:-1])
                    lines.append(" ".join(["noisecat", C.mat_tokens(srec["noise_full"][e][:n0].unsqueeze(-1)),
                                           C.mat_tokens(srec["noise_full"][e][n0:].unsqueeze(-1))]))
                    pending.append(("noisecat", cfg, srec, e, kp, rp))
            # model of cat_rows on the observed factors (one element)
            if (use_driver and cfg["strategy"] == "default" and not iterative(cfg) and not srec.get("skip_caches")
                    and min(srec["sizes"]) > 0
                    and srec.get("src_root") is not None and srec.get("src_root_inv") is not None
                    and srec["obs"].get("root") is not None):
                e = _elements(B, "r", 1)[0]
                nb_src = srec["src_root"].dim() - 2
                eb = e[len(e) - nb_src:] if nb_src else ()
                lines.append(root_line(srec, e, eb, TT))
                pending.append(("root", cfg, srec, e, kp, rp))
            if (use_driver and cfg["strategy"] == "wiski" and srec["obs"].get("interp_inner_prod") is not None and not B
                    and srec.get("Lroot") is not None and srec["Kuu"].dim() == 2):
                s2 = dict(srec)
                lines.append(wiski_line(s2, TT))
                pending.append(("wiski", cfg, srec, (), kp, rp))
    if not use_driver:
        return recs
    ctx.count("driver_lines", len(lines))
    replies = run_driver_parallel(lines)
    import numpy as np
    for (kind, cfg, srec, e, kp, rp), rep in zip(pending, replies):
        if not rep.startswith("ok"):
            if rep.startswith("singular"):
                ctx.count("discarded_singular")
            else:
                broke(f"{kp}:driver", f"driver replied `{rep[:80]}` to a {kind} request", rp)
            continue
        ex = parse_reply(rep) if kind in ("fant", "root", "wiski") else None
        if kind == "fant":
            if ex["eq"] != "111111":
                broke(f"{kp}:generated-inc-vs-scratch", f"the update regenerated from the Python source (Gen.FantasyAlgebra) "
                      f"does not equal the from-scratch solve / the hand-written model (eq={ex['eq']}: mc, Kinv, pm, pc, "
                      f"residual, gen=model)", rp)
            if ex["kappa"] > 1e6:
                ctx.count("discarded_illconditioned")
                continue
            ctx.count("elements_compared")
            compare_step(ctx, cfg, srec, e, ex, kp, rp, fail, broke)
        elif kind == "root":
            Zm, Rpm, resid = ex["mats"]
            TT = T_TASKS if cfg["lik"] == "mt" else 1
            Zo = srec["obs"]["root"][e].numpy()
            Ro = srec["obs"]["root_inv"][e].numpy() if srec["obs"].get("root_inv") is not None else None
            sc = max(1.0, _maxabs(Zm))
            ctx.count("root_model_checks")
            rho = _maxabs(resid)
            ctx.notes["max_err"]["schur_root_residual"] = max(ctx.notes["max_err"].get("schur_root_residual", 0.0), rho)
            if _maxabs(Zo - Zm) > 1e-9 * sc:
                broke(f"{kp}:rootUpdate-model", f"new_root differs from the model's rootUpdate on the observed factors by "
                      f"{_maxabs(Zo - Zm):.3e}", rp)
            if Ro is not None:
                # R' = Z^-T; the model's blockwise form needs R = L^-T, which holds to rounding * cond
                J = srec["K"][e].numpy()
                tol = 1e-7 * max(1.0, _maxabs(Rpm)) ** 2
                if _maxabs(Ro - Rpm) > tol:
                    broke(f"{kp}:invRootUpdate-model", f"new_covar_cache differs from the model's invRootUpdate on the "
                          f"observed factors by {_maxabs(Ro - Rpm):.3e} (tol {tol:.1e})", rp)
        elif kind == "wiski":
            if ex["eq"] != "1":
                broke(f"{kp}:generated-wiski-update", "generated WISKI response-cache update differs from the recomputation "
                      "from the concatenated data", rp)
            Pm, cm, P0, mcg = ex["mats"]
            Po = srec["obs"]["interp_inner_prod"].numpy()
            co = srec["obs"]["interp_response_cache"].numpy().reshape(cm.shape)
            ctx.count("wiski_cache_checks")
            if _maxabs(Pm - P0) > 1e-12 * max(1.0, _maxabs(P0)):
                broke(f"{kp}:generated-wiski-update", f"generated interp_inner_prod update differs from the recomputation "
                      f"from the concatenated data by {_maxabs(Pm - P0):.3e}", rp)
            for nm, o, mm in (("interp_inner_prod", Po, P0), ("interp_response_cache", co, cm)):
                err = _maxabs(o - mm)
                ctx.notes["max_err"][nm] = max(ctx.notes["max_err"].get(nm, 0.0), err / max(1.0, _maxabs(mm)))
                if err > 1e-9 * max(1.0, _maxabs(mm)):
                    fail(f"{kp}:{nm}", f"updated `{nm}` differs from the recomputation from the full data by {err:.3e}", rp)
            fo = srec["obs"].get("fantasy_mean_cache")
            if fo is not None:
                fo = fo.numpy().reshape(mcg.shape)
                err = _maxabs(fo - mcg)
                ctx.notes["max_err"]["wiski:fantasy_mean_cache-vs-generated"] = max(
                    ctx.notes["max_err"].get("wiski:fantasy_mean_cache-vs-generated", 0.0), err / max(1.0, _maxabs(mcg)))
                if err > (2e-4 if cfg.get("chol_size") is not None else 1e-7) * max(1.0, _maxabs(mcg)):
                    broke(f"{kp}:generated-fantasy_mean_cache", f"fantasy_mean_cache differs from the generated Woodbury "
                          f"form on the observed root by {err:.3e}", rp)
        elif kind == "noisecat":
            got = rep.split("|")[1].split()
            rows, _ = C.parse_mat(got)
            want = [C.frac(v) for v in srec["lik_noise"][e].tolist()]
            ctx.count("noise_concat_checks")
            if not rep.startswith("ok eq=1") or [r_[0] for r_ in rows] != want:
                fail(f"{kp}:fantasy-noise-order", "noise tensor of the fantasy likelihood is not [old noise; fantasy noise] "
                     f"(generated concat vs observed, element {list(e)})", dict(rp, element=list(e)))
        elif kind == "routes":
            ctx.count("route_checks")
            got = rep.split("|")[1].split()
            if not rep.startswith("ok eq=11") or got != srec:
                fail(f"fantasy:{LIK_NAME[cfg['lik']]}:modellist:routing", f"IndependentModelList.get_fantasy_model routed "
                     f"noise entries {srec} to its members; generated/specified routing is {got} ({rep.split('|')[0].strip()})", rp)
    return recs


def dirichlet_cells(ctx, rng, use_driver=True):
    """`DirichletClassificationLikelihood.get_fantasy_likelihood(targets=…)` (its own override of the fixed-noise one):
    noise = [old; noise of the new labels], labels and transformed labels extended in the same order, source likelihood
    untouched — also when `deepcopy` raises."""
    import torch
    from gpytorch.likelihoods import DirichletClassificationLikelihood as DCL
    old_dt = torch.get_default_dtype()
    torch.set_default_dtype(torch.float64)
    lines, pend = [], []
    try:
        for k in range(6 if ctx.tier == "quick" else 24):
            ncls, n, f = rng.choice([2, 3, 4]), rng.randint(3, 7), rng.randint(1, 3)
            g = torch.Generator().manual_seed(rng.getrandbits(30))
            y = torch.randint(0, ncls, (n,), generator=g)
            y[0] = ncls - 1
            ynew = torch.randint(0, ncls, (f,), generator=g)
            cfg = {"dirichlet": 1, "classes": ncls, "y": y.tolist(), "ynew": ynew.tolist(), "alpha": rng.choice([0.01, 0.05]),
                   "learn": k % 2, "poison": int(k % 3 == 2)}
            rp = {"cfg": cfg}
            with warnings.catch_warnings():
                warnings.simplefilter("ignore")
                lik = DCL(y, alpha_epsilon=cfg["alpha"], learn_additional_noise=bool(cfg["learn"]))
                nc = lik.noise_covar
                snap = (id(nc), id(nc.noise), nc.noise.detach().clone(), lik.targets.clone(), lik.transformed_targets.clone())
                if cfg["poison"]:
                    lik._c04_poison = _Poison()
                err, fl = None, None
                try:
                    fl = lik.get_fantasy_likelihood(targets=ynew)
                except Exception as e:  # noqa: BLE001
                    err = f"{type(e).__name__}: {str(e)[:100]}"
                after = "" if err is None else f" (after get_fantasy_likelihood raised {err.split(':')[0]})"
                nc2 = getattr(lik, "noise_covar", None)
                if nc2 is None or id(nc2) != snap[0] or id(nc2.noise) != snap[1] or not _same(nc2.noise, snap[2]):
                    ctx.fail("frame:dirichlet.noise_covar", "source DirichletClassificationLikelihood.noise_covar is "
                             + ("None" if nc2 is None else "not the object / values it was") + after, rp)
                if not (_same(lik.targets, snap[3]) and _same(lik.transformed_targets, snap[4])):
                    ctx.fail("frame:dirichlet.targets", "labels of the source Dirichlet likelihood changed" + after, rp)
                ctx.count("dirichlet_frame_checks")
                ctx.case({"cfg": cfg}, nontrivial=True, sample={"cell": "dirichlet-fantasy-likelihood", "n": n, "f": f})
                if cfg["poison"]:
                    if err is None:
                        ctx.broke("correspondence", "dirichlet-poison", "deepcopy of a poisoned likelihood did not raise")
                    continue
                if err is not None:
                    ctx.fail("fantasy:dirichlet:likelihood:raises", f"get_fantasy_likelihood(targets=…) raised {err}", rp)
                    continue
                nn, ntt, _ = lik._prepare_targets(ynew, alpha_epsilon=lik.alpha_epsilon, dtype=snap[2].dtype,
                                                  num_classes=lik.num_classes)
                fn_ = fl.noise_covar.noise
                want = torch.cat([snap[2], nn], -1)
                if fn_.shape != want.shape or not torch.equal(fn_, want):
                    ctx.fail("fantasy:dirichlet:likelihood:noise-order", "noise of the Dirichlet fantasy likelihood is not "
                             "[old noise; noise of the new labels]", rp)
                elif use_driver:
                    c = rng.randrange(fn_.shape[0])
                    lines.append(" ".join(["noisecat", C.mat_tokens(snap[2][c].unsqueeze(-1)), C.mat_tokens(nn[c].unsqueeze(-1))]))
                    pend.append((rp, [C.frac(v) for v in fn_[c].tolist()]))
                if not (torch.equal(fl.targets, torch.cat([snap[3], ynew], -1))
                        and torch.equal(fl.transformed_targets, torch.cat([snap[4], ntt.transpose(-2, -1)], -1))):
                    ctx.fail("fantasy:dirichlet:likelihood:targets", "labels / transformed labels of the Dirichlet fantasy "
                             "likelihood are not [old; new]", rp)
                if fn_.untyped_storage().data_ptr() == snap[2].untyped_storage().data_ptr() \
                        or fn_.untyped_storage().data_ptr() == nc.noise.untyped_storage().data_ptr():
                    ctx.fail("frame:aliasing", "Dirichlet fantasy likelihood's noise shares storage with the source's", rp)
        if lines:
            for (rp, want), rep in zip(pend, run_driver_parallel(lines)):
                rows, _ = C.parse_mat(rep.split("|")[1].split()) if rep.startswith("ok") else ([], None)
                ctx.count("noise_concat_checks")
                if not rep.startswith("ok eq=1") or [r_[0] for r_ in rows] != want:
                    ctx.fail("fantasy:dirichlet:likelihood:noise-order", "generated [old; new] concatenation differs from the "
                             "noise of the Dirichlet fantasy likelihood", rp)
    finally:
        torch.set_default_dtype(old_dt)


def correspondence(ctx):
    case_list = cases(ctx.tier, ctx.rng("cases"))
    try:
        _run_all(ctx, case_list, use_driver=True)
        dirichlet_cells(ctx, ctx.rng("dirichlet"), use_driver=True)
        from props import _c04shapes
        _c04shapes.shape_part(ctx, _state["shapes"], lambda ls: run_driver_parallel(ls, chunk=120))
    except RuntimeError as e:
        if "driver" not in str(e):
            raise
        ctx.broke("correspondence", "driver C04", str(e)[-1500:])
        _run_all(ctx, case_list, use_driver=False)
        dirichlet_cells(ctx, ctx.rng("dirichlet"), use_driver=False)
    ctx.notes["max_err"] = {k: float(f"{v:.3e}") for k, v in ctx.notes.get("max_err", {}).items()}
    ctx.assumption("observation (not a violation): add_to_cache(fant_strat, 'mean_cache', ...) stores the carried solve "
                   "under key ('mean_cache', ()) while _mean_cache(policy) reads ('mean_cache', (policy,)): the carried "
                   "solve is never read and is recomputed; the harness reads it by its actual key")


def search(ctx, broken):
    """A proof / the translator / the model correspondence broke: look for a concrete failing input with the float
    oracle (independent of the Lean side), on a fresh stream of cases aimed at every cell."""
    if ctx.failures:
        return
    rng = ctx.rng("search")
    _run_all(ctx, cases("quick", rng), use_driver=False)


def replay(ctx, payload):
    before = len(ctx.failures)
    if "shape_case" in payload["case"]:
        from props import _c04shapes
        _c04shapes.replay_shape(ctx, payload["case"]["shape_case"], _state["shapes"], lambda ls: C.run_driver("C04", ls))
        return len(ctx.failures) == before
    cfg = payload["case"]["cfg"]
    if cfg.get("dirichlet"):
        dirichlet_cells(ctx, ctx.rng("dirichlet"), use_driver=False)
        return len(ctx.failures) == before
    try:
        _run_all(ctx, [cfg], use_driver=True)
    except RuntimeError:
        _run_all(ctx, [cfg], use_driver=False)
    return len(ctx.failures) == before

"""C08 — batch mode equals independent replicas (no cross-talk between batch elements).

Tie: correspondence.
 (a) the L1 tensor algebra (`Bcast`: broadcast / expand / view / unsqueeze / transpose / select / repeat, and the
     choreographies of `BatchOps` that mirror the source line by line) against torch on `arange` tensors — exact
     integer comparison over all rank-0..2 batch shapes with sizes in {1,2,3};
 (b) real modules: `output[b]` vs replica `b` = a NON-batched module loaded with the parameter slice and applied to
     the data slice that the **driver's** `replicaTable` (the `bidx` of the theorems) names — kernels, means,
     likelihoods, exact GPs (prior, posterior, exact MLL with and without priors), variational GPs (q(f), KL,
     ELBO), for every broadcastable (parameter batch, data batch) pair; `IndependentModelList` and
     `SumMarginalLogLikelihood` against their members.
"""
import hashlib
import itertools
import os
import sys
import warnings

from lib import common as C

ID = "C08"
PROP_MODULES = ["GPVerif.Props.C08", "GPVerif.Props.C08Compose"]
BUILD_TARGETS = ["GPVerif.Props.C08", "GPVerif.Props.C08Compose", "GPVerif.Model.BatchOps", "GPVerif.Model.ObjectiveIR",
                 "GPVerif.Gen.BatchChoreo", "GPVerif.Model.BatchPipeline"]
GEN = os.path.join(C.LEAN_DIR, "GPVerif", "Gen", "BatchChoreo.lean")
_state = {}


def generate(ctx):
    """translator G3 (batch part): the shape-operation sequences of the source -> Gen/BatchChoreo.lean"""
    sys.path.insert(0, os.path.join(C.VERIF, "harness"))
    from translate import g3_batch_choreography
    d, changed = g3_batch_choreography.generate(C.REPO, GEN)
    _state["gen"] = d
    ctx.notes["gen_changed"] = changed
    ctx.notes["gen_choreographies"] = d


# ------------------------------------------------------------------ torch interpreter of the generated op lists

def _tok(text):
    out, i = [], 0
    while i < len(text):
        c = text[i]
        if c in "()[],":
            out.append(c)
            i += 1
        elif c.isspace():
            i += 1
        else:
            j = i
            while j < len(text) and not text[j].isspace() and text[j] not in "()[],":
                j += 1
            out.append(text[i:j])
            i = j
    return out


def _parse_term(toks, pos):
    """term := '(' term+ ')' | '[' items ']' | atom ; returns (tree, next)"""
    t = toks[pos]
    if t == "(":
        items, pos = [], pos + 1
        while toks[pos] != ")":
            x, pos = _parse_term(toks, pos)
            items.append(x)
        return items, pos + 1
    if t == "[":
        items, pos = [], pos + 1
        while toks[pos] != "]":
            if toks[pos] == ",":
                pos += 1
                continue
            cur = []
            while toks[pos] not in (",", "]"):
                x, pos = _parse_term(toks, pos)
                cur.append(x)
            items.append(cur[0] if len(cur) == 1 else cur)
        return ("list", items), pos + 1
    return t, pos + 1


def parse_ops(text):
    tree, _ = _parse_term(_tok(text), 0)
    assert tree[0] == "list"
    return [op if isinstance(op, list) else [op] for op in tree[1]]


def se_eval(se, cur, orig, args):
    """symbolic shape (parsed) -> tuple, torch order"""
    import torch
    if isinstance(se, str):
        se = [se]
    h = se[0]
    if h == ".self":
        return tuple(cur)
    if h == ".selfDrop":
        return tuple(cur[:len(cur) - int(se[1])])
    if h == ".orig":
        return tuple(orig)
    if h == ".origDrop":
        return tuple(orig[:len(orig) - int(se[1])])
    if h == ".arg":
        return tuple(args[int(se[1])])
    if h == ".lit":
        return tuple(int(v) for v in se[1][1])
    if h == ".cat":
        return se_eval(se[1], cur, orig, args) + se_eval(se[2], cur, orig, args)
    if h == ".bcast":
        return tuple(torch.broadcast_shapes(se_eval(se[1], cur, orig, args), se_eval(se[2], cur, orig, args)))
    raise ValueError(f"unknown shape expression {se}")


def torch_run_ops(ops, t, args=(), nats=()):
    """execute a generated op list with torch itself"""
    orig = tuple(t.shape)
    for op in ops:
        h = op[0]
        if h == ".unsqueeze":
            t = t.unsqueeze(-(int(op[1]) + 1))
        elif h == ".unsqueezeAt":
            t = t.unsqueeze(int(op[1]))
        elif h == ".view":
            t = t.contiguous().view(*se_eval(op[1], t.shape, orig, args))
        elif h == ".expand":
            t = t.expand(*se_eval(op[1], t.shape, orig, args))
        elif h == ".viewKeep":
            t = t.contiguous().view(*t.shape[:nats[int(op[1])]], -1)
        elif h == ".sumLast":
            t = t.sum(dim=-1)
        elif h == ".sumFrom":
            t = t.sum(dim=tuple(range(nats[int(op[1])], t.ndim)))
        else:
            raise ValueError(f"unknown op {op}")
    return t
RULE = ("batch shapes: all of rank 0..2 with sizes in {1,2,3} (13 shapes) on parameters x data independently, every "
        "broadcastable pair (quick: a covering subset per module family in which every shape occurs on both sides and "
        "every rank pair occurs; thorough: all pairs); values sampled from the seed; distinct = (family, parameter "
        "batch, data batch, observable); non-trivial = the broadcast batch has more than one element or a broadcast "
        "(size-1 / missing) dimension; objectives: every class of gpytorch.mlls applicable to the model family (exact MLL, LOO, "
        "ELBO, ELBO with combine_terms=False, PLL, GammaRobust, DeepApproximateMLL, SumMLL over exact / LOO members); NaN "
        "policies: ignore / mask / fill x a different NaN pattern per batch element (1, 2, 0, 1, ... missing points); model-list "
        "histories: (members 2-3) x (member batch) x (pre-update reads: all / props / train / eval / none) x (update: targets, "
        "inputs, both, resize, load_state_dict) on one object")
EXHAUSTIVE = True
TRUSTED = ["modelled not verified: torch's broadcasting / view / expand semantics (validated exactly in part (a))",
           "linear_operator Cholesky / solves inside the exact and variational models (fast_computations off)"]
ASSUMPTIONS = ["a replica is a module of the same class constructed with batch_shape=() whose parameters are the slices "
               "named by the driver; module construction itself is not batched state",
               "float64; Cholesky path (fast_computations off, max_cholesky_size large); rtol 1e-8 / atol 1e-9"]

RTOL, ATOL = 1e-8, 1e-9
D_IN = 2


def batch_shapes():
    out = [()]
    out += [(a,) for a in (1, 2, 3)]
    out += [(a, b) for a in (1, 2, 3) for b in (1, 2, 3)]
    return out


def shp(s):
    return ",".join(str(v) for v in s) if len(s) else "-"


_SALT = [0]   # value-sampling round (thorough repeats part (b) with fresh values)


def _gen(label):
    import torch
    g = torch.Generator()
    g.manual_seed(int.from_bytes(hashlib.sha256(f"{C.seed()}:{_SALT[0]}:{label}".encode()).digest()[:7], "big"))
    return g


def _randn(g, *shape):
    import torch
    return torch.randn(*shape, generator=g, dtype=torch.float64)


def bcast(a, b):
    import torch
    try:
        return tuple(torch.broadcast_shapes(a, b))
    except RuntimeError:
        return None


COMPOSITE = ("sum", "prod", "add_groups", "prod_groups")
# kernel batch ending in 3 == number of points of the `k == n` kernel cells
K_EQ_N = [((3,), ()), ((2, 3), ()), ((3,), (1,)), ((3, 3), (3,)), ((1, 3), (2, 1)), ((3,), (3,))]


def pairs_all():
    S = batch_shapes()
    return [(p, d) for p in S for d in S if bcast(p, d) is not None]


def pairs_cover(rng, k):
    """covering subset: every shape occurs as parameter batch and as data batch, every rank pair occurs,
    plus `k` sampled pairs"""
    P = pairs_all()
    chosen, seenp, seend, seenr = [], set(), set(), set()
    order = P[:]
    rng.shuffle(order)
    # prefer pairs that really broadcast
    order.sort(key=lambda pd: (pd[0] == pd[1], ))
    for p, d in order:
        r = (len(p), len(d))
        if p not in seenp or d not in seend or r not in seenr:
            chosen.append((p, d))
            seenp.add(p)
            seend.add(d)
            seenr.add(r)
    rest = [x for x in P if x not in chosen]
    chosen += rng.sample(rest, min(k, len(rest)))
    return chosen


# ------------------------------------------------------------------ (a) tensor algebra vs torch

def part_a(ctx, lines, recs):
    import torch

    def ar(s):
        n = 1
        for v in s:
            n *= v
        return torch.arange(n).reshape(s)

    def rec(line, want):
        lines.append(line)
        recs.append(("a", line, want))

    def T(t):
        return {"shape": list(t.shape), "flat": t.reshape(-1).tolist()}
    S = batch_shapes()
    S3 = S + [(2, 1, 3), (1, 2, 2), (3, 1, 1), (2, 2, 3)]
    for s in S3:
        for t in S3:
            b = bcast(s, t)
            rec(f"bcast {shp(s)} | {shp(t)}", None if b is None else {"shape": list(b)})
            if b is not None:
                A, B = torch.broadcast_tensors(ar(s), ar(t))
                rec(f"map2 {shp(s)} | {shp(t)}", {"shape": list(b), "a": A.reshape(-1).tolist(), "b": B.reshape(-1).tolist()})
                if len(s) <= len(b):
                    rec(f"expand {shp(s)} | {shp(b)}", T(ar(s).expand(b)))
    views = {6: [(6,), (2, 3), (3, 2), (1, 6), (6, 1), (2, 3, 1), (1, 2, 3), (3, 1, 2)], 4: [(4,), (2, 2), (1, 4), (2, 1, 2)],
             1: [(), (1,), (1, 1)], 12: [(12,), (2, 2, 3), (3, 4), (2, 6), (4, 3, 1)]}
    for n, vs in views.items():
        for s in vs:
            for t in vs:
                rec(f"view {shp(s)} | {shp(t)}", T(ar(s).view(t)))
    for s in S3:
        for k in range(len(s) + 1):
            rec(f"unsqueeze {shp(s)} | {k}", T(ar(s).unsqueeze(-(k + 1))))
        if len(s) >= 2:
            rec(f"mT {shp(s)}", T(ar(s).mT))
        for k in range(len(s)):
            for i in range(s[len(s) - 1 - k]):
                rec(f"select {shp(s)} | {k},{i}", T(ar(s).select(len(s) - 1 - k, i)))
        if len(s):
            for reps in itertools.product((1, 2), repeat=len(s)):
                rec(f"repeat {shp(s)} | {shp(reps)}", T(ar(s).repeat(*reps)))
    # the GENERATED choreographies (Gen/BatchChoreo.lean): torch executes the generated op lists on index tensors, the
    # Lean driver interprets the same lists
    gen = _state.get("gen")
    if gen is None:
        ctx.count("a_lines", len(lines))
        return
    G = {k: parse_ops(v) for k, v in gen.items() if k.endswith("Ops") and k != "sumMllOps"}

    def pairs_of(data, param):
        A, B = torch.broadcast_tensors(data, param)
        return {"shape": list(A.shape), "a": A.reshape(-1).tolist(), "b": B.reshape(-1).tolist()}

    def attempt(line, fn):
        try:
            want = fn()
        except Exception:
            want = None          # torch rejects the generated sequence on these shapes
        rec(line, want)
    for kb in S:
        for ob in S:
            bs = bcast(kb, ob)
            if bs is None:
                continue
            n, m, d = 2, 3, 2
            K, os_ = ar(kb + (n, m)), ar(ob)
            attempt(f"scale {shp(kb + (n, m))} | {shp(ob)}", lambda: pairs_of(K, torch_run_ops(G["scaleFullOps"], os_)))
            Kd = ar(kb + (n,))
            attempt(f"scalediag {shp(kb + (n,))} | {shp(ob)}", lambda: pairs_of(Kd, torch_run_ops(G["scaleDiagOps"], os_)))
            for ld in (d, 1):
                x, ls = ar(kb + (n, d)), ar(ob + (1, ld))
                attempt(f"lsdiv {shp(kb + (n, d))} | {shp(ob + (1, ld))}", lambda: pairs_of(x, torch_run_ops(G["lengthscaleDivOps"], ls)))
            # RQKernel: dist_mat (*kb, n, m) / (*kb, n) against alpha (*ob, 1); the count as generated
            alpha = ar(ob + (1,))
            for dg, dist in ((0, ar(kb + (n, m))), (1, ar(kb + (n,)))):
                cnt = rq_count(gen["rqUnsqueezeCount"], bool(dg), False, dist.dim(), len(ob))
                attempt(f"rq {shp(tuple(dist.shape))} | {shp(ob + (1,))} | {dg}",
                        lambda: pairs_of(dist, torch_run_ops([[".unsqueeze", "0"]] * cnt, alpha)))
            # _HomoskedasticNoiseBase.forward (num_tasks = 1) on an index tensor; structural zeros = -1
            noise = ar(kb + (1,))

            def noise_dense():
                nd = torch_run_ops(G["homoNoiseOps"], noise, args=[ob])
                dense = torch.full((*nd.shape[:-1], n, n), -1, dtype=torch.long)
                for i in range(n):
                    dense[..., i, i] = nd[..., 0]
                return {"shape": list(dense.shape), "flat": dense.reshape(-1).tolist()}
            attempt(f"noise {shp(kb + (1,))} | {shp(ob)} | {n}", noise_dense)
            c = ar(kb)
            attempt(f"mean {shp(kb)} | {shp(ob + (n,))}", lambda: T(torch_run_ops(G["constantMeanOps"], c, args=[ob + (n,)])))
            x = ar(kb + (n, d))
            rec(f"expandin {shp(kb + (n, d))} | {shp(bs)}", T(x.expand(*bs, n, d)))

            # the COMPOSED expression tree of Model/BatchPipeline ((x/l)*os + noise(sigma, mean(c, x)), provenance-coded): torch
            # composes the same generated op lists on whole tensors; the driver also evaluates every replica (`evalAt b`)
            def composed(pb=kb, db=ob):
                x_, l_, os2, c_, sg = ar(db + (2, 2)), ar(pb + (1, 2)), ar(pb), ar(pb), ar(pb + (1,))
                B = (x_ * 100 + torch_run_ops(G["lengthscaleDivOps"], l_)) * 100 + torch_run_ops(G["scaleFullOps"], os2)
                mu = torch_run_ops(G["constantMeanOps"], c_, args=[db + (2,)])
                nd = torch_run_ops(G["homoNoiseOps"], sg, args=[tuple(mu.shape[:-1])])
                dense = torch.full((*nd.shape[:-1], 2, 2), 999, dtype=torch.long)
                for i in range(2):
                    dense[..., i, i] = nd[..., 0]
                E = B * 1000 + dense
                return {"shape": list(E.shape), "flat": E.reshape(-1).tolist(), "mshape": list(mu.shape),
                        "mean": mu.reshape(-1).tolist(), "rep": [1]}
            attempt(f"compose {shp(kb)} | {shp(ob)}", composed)
    # prior reductions as generated (exact and approximate MLL), every split of every shape
    for s_ in S3:
        for k in range(len(s_) + 1):
            a = ar(s_)

            def red():
                v = torch_run_ops(G["exactPriorOps"], a, nats=[len(s_) - k])
                v2 = torch_run_ops(G["approxPriorOps"], a, nats=[len(s_) - k])
                inner = a.reshape(*s_[:len(s_) - k], -1).sum(-1)
                return {"shape": list(v.shape), "flat": v.reshape(-1).tolist(), "approx": v2.reshape(-1).tolist(),
                        "inner": inner.reshape(-1).tolist()}
            attempt(f"sumlast {shp(s_)} | {k}", red)
    ctx.count("a_lines", len(lines))


def rq_count(expr, diag, ldb, dist_rank, kb_rank):
    """evaluate the generated Lean Nat expression `rqUnsqueezeCount` (natural-number subtraction truncates)"""
    import re
    py = re.sub(r"\(if (\w+) then ([^()]+?) else ([^()]+?)\)", r"(\2 if \1 else \3)", expr)
    env = {"diag": diag, "ldb": ldb, "distRank": dist_rank, "kbRank": kb_rank}
    # truncated subtraction: evaluate with a Nat wrapper
    class N(int):
        def __sub__(self, o):
            return N(max(0, int(self) - int(o)))

        def __add__(self, o):
            return N(int(self) + int(o))
    py = re.sub(r"\b(\d+)\b", r"N(\1)", py)
    env.update({"N": N, "distRank": N(dist_rank), "kbRank": N(kb_rank)})
    return int(eval(py, {"__builtins__": {}}, env))


def parse_reply(rep):
    if rep in ("none", "bad-request"):
        return None if rep == "none" else rep
    out = {}
    for part in rep.split(";"):
        k, _, v = part.partition("=")
        out[k] = [] if v in ("-", "") else [int(t) for t in v.split(",")]
    return out


# ------------------------------------------------------------------ (b) real modules vs replicas

class Tables:
    """replica tables from the Lean driver (one batched call), keyed by (pb, db)"""

    def __init__(self, pairs):
        self.pairs = sorted(set(pairs))
        reps = C.run_driver("C08", [f"replica {shp(p)} | {shp(d)}" for p, d in self.pairs])
        self.tab = {}
        for (p, d), r in zip(self.pairs, reps):
            pr = parse_reply(r)
            self.tab[(p, d)] = None if pr in (None, "bad-request") else (tuple(pr["shape"]), pr["p"], pr["d"])

    def get(self, pb, db):
        return self.tab[(pb, db)]


def load_slice(batched, replica, pb, pflat):
    """copy the pflat-th parameter slice of `batched` (parameters shaped (*pb, *rest)) into `replica`"""
    import torch
    bp = dict(batched.named_parameters())
    npb = 1
    for v in pb:
        npb *= v
    with torch.no_grad():
        for name, p in replica.named_parameters():
            src = bp[name]
            rest = src.shape[len(pb):]
            sl = src.reshape(npb, *rest)[pflat]
            p.copy_(sl.reshape(p.shape))
    bb = dict(batched.named_buffers())
    for name, b in replica.named_buffers():
        src = bb.get(name)
        if src is not None and src.shape != b.shape and src.shape[:len(pb)] == torch.Size(pb):
            b.data = src.reshape(npb, *src.shape[len(pb):])[pflat].reshape(b.shape).clone()


def data_slice(x, db, dflat, keep):
    """x : (*db, *event) with `keep` trailing event dims"""
    ndb = 1
    for v in db:
        ndb *= v
    return x.reshape(ndb, *x.shape[len(x.shape) - keep:])[dflat]


def close(a, b):
    import torch
    # NaN / inf produced identically by the batched module and by the replica (e.g. log of a zero call-time noise) agree
    return a.shape == b.shape and bool(torch.allclose(a, b, rtol=RTOL, atol=ATOL, equal_nan=True))


def err(a, b):
    if a.shape != b.shape:
        return f"shape {tuple(a.shape)} vs {tuple(b.shape)}"
    return f"max abs err {(a - b).abs().max().item():.3e}"


def randomize(module, label):
    import torch
    g = _gen(label)
    with torch.no_grad():
        for p in module.parameters():
            p.copy_(0.5 * torch.randn(p.shape, generator=g, dtype=torch.float64))


def kernel_families():
    import torch
    from gpytorch import kernels as K

    def B(b):
        return torch.Size(b)
    return {
        "rbf_ard": lambda b: K.RBFKernel(ard_num_dims=D_IN, batch_shape=B(b)),
        "matern25": lambda b: K.MaternKernel(nu=2.5, batch_shape=B(b)),
        "rq": lambda b: K.RQKernel(batch_shape=B(b)),
        "periodic": lambda b: K.PeriodicKernel(batch_shape=B(b)),
        "linear": lambda b: K.LinearKernel(batch_shape=B(b)),
        "poly3": lambda b: K.PolynomialKernel(power=3, batch_shape=B(b)),
        "scale_rbf": lambda b: K.ScaleKernel(K.RBFKernel(batch_shape=B(b)), batch_shape=B(b)),
        "scale_matern_ard": lambda b: K.ScaleKernel(K.MaternKernel(nu=1.5, ard_num_dims=D_IN, batch_shape=B(b)), batch_shape=B(b)),
        "sum": lambda b: K.ScaleKernel(K.RBFKernel(batch_shape=B(b)), batch_shape=B(b)) + K.LinearKernel(batch_shape=B(b)),
        "prod": lambda b: K.RBFKernel(batch_shape=B(b)) * K.PeriodicKernel(batch_shape=B(b)),
        # additive structure over input column groups: active_dims (more than one column) on the SUB-kernels
        "add_groups": lambda b: K.ScaleKernel(K.RBFKernel(ard_num_dims=2, batch_shape=B(b), active_dims=[1, 0])
                                              + K.MaternKernel(nu=0.5, batch_shape=B(b), active_dims=[1]), batch_shape=B(b)),
        "prod_groups": lambda b: K.RQKernel(batch_shape=B(b), active_dims=[1, 0])
        * K.LinearKernel(batch_shape=B(b), active_dims=[0]),
    }


# observables that contain the log-prior terms.  The known finding `*:param-batch-rank-below-broadcast-rank` is the
# class: a model WITH priors whose parameter batch rank is smaller than the broadcast (data) batch rank, observed at
# one of these objectives — and nothing else.
PRIOR_OBS = ("exact MLL", "LOO", "ELBO", "PLL", "GammaRobust", "ELBO terms (combine_terms=False)", "DeepELBO (mean over batch dim 0)")
_TIE = []   # (driver line, record) pairs produced inside the part_b_* functions; drained by `correspondence`


def rank_deficient_prior_cell(fam, what, pb, bs):
    return fam.endswith("_priors") and what in PRIOR_OBS and len(pb) < len(bs)


def raised(ctx, fam, pb, db, bs, e, replay, what=None):
    """the batched module raises where every non-batched replica evaluates"""
    ctx.case(f"b|{fam}|{what or 'module'}|raises|{pb}|{db}|{_SALT[0]}")
    ctx.count("b_raised")
    ctx.notes.setdefault("b_raised", {})[f"{fam}:{what}:{pb}:{db}"] = f"{type(e).__name__}: {str(e)[:100]}"
    key = f"{fam}:{what + ':' if what else ''}raises"
    if rank_deficient_prior_cell(fam, what, pb, bs):
        key += ":param-batch-rank-below-broadcast-rank"
    ctx.fail(key, f"{fam} param batch {pb}, data batch {db} (broadcast {tuple(bs)}): {what or 'the batched module'} raises "
             f"{type(e).__name__}: {str(e)[:200]} while every non-batched replica evaluates", replay)


def each_replica(ctx, fam, what, pb, db, tab, out, make_replica_out, replay):
    """compare out[b] with the replica named by the driver for every batch element b"""
    import torch
    bs, pidx, didx = tab
    nontriv = len(pidx) > 1 or tuple(pb) != bs or tuple(db) != bs
    ctx.case(f"b|{fam}|{what}|{pb}|{db}|{_SALT[0]}", nontrivial=nontriv,
             sample={"family": fam, "observable": what, "param_batch": list(pb), "data_batch": list(db), "broadcast": list(bs)})
    if tuple(out.shape[:len(bs)]) != bs:
        ctx.fail(f"{fam}:{what}:shape", f"{fam} param batch {pb}, data batch {db}: {what} has batch shape "
                 f"{tuple(out.shape[:len(bs)])}, broadcast batch shape is {bs}", replay)
        return
    flat = out.reshape(len(pidx), *out.shape[len(bs):])
    for e, (pf, df) in enumerate(zip(pidx, didx)):
        try:
            want = make_replica_out(pf, df)
        except Exception as ex:       # the NON-batched module itself fails: reported, the remaining cells still run
            ctx.fail(f"{fam}:{what}:replica-raises", f"{fam} {what}: the non-batched replica (parameter slice {pf}, data slice "
                     f"{df}) raises {type(ex).__name__}: {str(ex)[:160]}", dict(replay, element=e))
            return
        if not close(flat[e], want):
            key = f"{fam}:{what}"
            if rank_deficient_prior_cell(fam, what, pb, bs):
                key = f"{fam}:{what}:param-batch-rank-below-broadcast-rank"
            ctx.fail(key, f"{fam} param batch {pb}, data batch {db}: {what}[batch element {e}] differs from the "
                     f"non-batched replica (parameter slice {pf}, data slice {df}): {err(flat[e], want)}",
                     dict(replay, element=e, param_slice=pf, data_slice=df))
            return


def part_b_kernels(ctx, T, pairs, names=None, n1=4):
    """n1 = 4 differs from every batch size; the `k == n` cells (kernel batch size equal to the number of points, inputs
    with fewer batch dims than the kernel) are run separately with n1 = 3."""
    import torch
    import gpytorch
    fams = kernel_families()
    n2 = 2
    for fam, mk in fams.items():
        if names and fam not in names:
            continue
        for pb, db in pairs:
            tab = T.get(pb, db)
            kb = mk(pb).double()
            randomize(kb, f"k:{fam}:{pb}")
            g = _gen(f"kx:{fam}:{pb}:{db}")
            x1, x2 = _randn(g, *db, n1, D_IN), _randn(g, *db, n2, D_IN)
            rp = {"part": "kernel", "family": fam, "param_batch": list(pb), "data_batch": list(db), "round": _SALT[0], "n1": n1}
            try:
                with torch.no_grad(), warnings.catch_warnings():
                    warnings.simplefilter("ignore")
                    full = kb(x1, x2).to_dense()
                    diag = kb(x1, x1, diag=True)
                    diag = diag.to_dense() if hasattr(diag, "to_dense") else diag
                    x2free = kb(x1, x2.reshape(-1, n2, D_IN)[0]).to_dense()     # x2 without batch dimensions
            except Exception as e:
                ctx.case(f"b|{fam}|raises|{pb}|{db}")
                ctx.fail(f"{fam}:raises", f"{fam} param batch {pb}, data batch {db} (broadcastable to {tab[0]}): evaluating the "
                         f"batched kernel raises {type(e).__name__}: {str(e)[:200]} while every replica evaluates", rp)
                continue

            def rep(pf, df, which):
                r = mk(()).double()
                load_slice(kb, r, pb, pf)
                a, b = data_slice(x1, db, df, 2), data_slice(x2, db, df, 2)
                with torch.no_grad():
                    if which == "full":
                        return r(a, b).to_dense()
                    if which == "x2free":
                        return r(a, x2.reshape(-1, n2, D_IN)[0]).to_dense()
                    d_ = r(a, a, diag=True)
                    return d_.to_dense() if hasattr(d_, "to_dense") else d_
            each_replica(ctx, fam, "K(x1,x2)", pb, db, tab, full, lambda pf, df: rep(pf, df, "full"), rp)
            each_replica(ctx, fam, "K(x1,x2 non-batched)", pb, db, tab, x2free, lambda pf, df: rep(pf, df, "x2free"), rp)
            bs = tab[0]
            if tuple(diag.shape) == bs + (n1,):
                each_replica(ctx, fam, "K(x,diag=True)", pb, db, tab, diag, lambda pf, df: rep(pf, df, "diag"), rp)
            else:
                try:
                    diag = diag.expand(*bs, n1)
                    each_replica(ctx, fam, "K(x,diag=True)", pb, db, tab, diag, lambda pf, df: rep(pf, df, "diag"), rp)
                except RuntimeError:
                    ctx.fail(f"{fam}:diag:shape", f"{fam} param batch {pb}, data batch {db}: kernel(x, diag=True) has shape "
                             f"{tuple(diag.shape)}, expected {bs + (n1,)}", rp)
            # element b taken by INDEXING: the lazily evaluated output `kernel(x1,x2)[b]` and the kernel itself `kernel[b]`
            if bs:
                import itertools as _it
                x1e, x2e = x1.expand(*bs, n1, D_IN), x2.expand(*bs, n2, D_IN)
                for lazy in (True, False):
                    outs, outk = [], []
                    ok = True
                    for b in _it.product(*[range(v) for v in bs]):
                        try:
                            with torch.no_grad(), gpytorch.settings.lazily_evaluate_kernels(lazy), warnings.catch_warnings():
                                warnings.simplefilter("ignore")
                                o = kb(x1, x2)[b]
                                outs.append(o.to_dense() if hasattr(o, "to_dense") else o)
                                if tuple(pb) == bs:
                                    o2 = kb[b](x1e[b], x2e[b])
                                    outk.append(o2.to_dense() if hasattr(o2, "to_dense") else o2)
                        except Exception as e:
                            ok = False
                            ctx.case(f"b|{fam}|index-raises|{pb}|{db}|{lazy}")
                            if fam in COMPOSITE and tuple(pb) != bs:
                                # Additive/Product kernels whose batch only exists by broadcasting: after expand_batch the
                                # composite keeps a stale `_batch_shape` and the debug shape check raises (explicit error, also
                                # counted by C06 as rejected_composite_or_multioutput) — counted, not a batch-replica failure
                                ctx.count("index_rejected_composite_broadcast")
                                break
                            ctx.fail(f"{fam}:index:raises", f"{fam} param batch {pb}, data batch {db}, lazy={lazy}: taking batch "
                                     f"element {b} by indexing (kernel(x1,x2)[b] / kernel[b]) raises {type(e).__name__}: "
                                     f"{str(e)[:160]}", dict(rp, lazy=lazy))
                            break
                    if ok:
                        try:
                            each_replica(ctx, fam, f"kernel(x1,x2)[b] (lazy={lazy})", pb, db, tab, torch.stack(outs).reshape(*bs, *outs[0].shape),
                                         lambda pf, df: rep(pf, df, "full"), dict(rp, lazy=lazy))
                            if outk:
                                each_replica(ctx, fam, f"kernel[b](x1[b],x2[b]) (lazy={lazy})", pb, db, tab,
                                             torch.stack(outk).reshape(*bs, *outk[0].shape), lambda pf, df: rep(pf, df, "full"), dict(rp, lazy=lazy))
                        except RuntimeError as e:
                            ctx.fail(f"{fam}:index:shape", f"{fam} param batch {pb}, data batch {db}, lazy={lazy}: the elements taken by "
                                     f"indexing do not have a common shape: {str(e)[:120]}", dict(rp, lazy=lazy))


def part_b_means(ctx, T, pairs):
    import torch
    from gpytorch import means as M
    fams = {"constant": lambda b: M.ConstantMean(batch_shape=torch.Size(b)),
            "linear": lambda b: M.LinearMean(input_size=D_IN, batch_shape=torch.Size(b)),
            "zero": lambda b: M.ZeroMean(batch_shape=torch.Size(b))}
    n = 3
    for fam, mk in fams.items():
        for pb, db in pairs:
            tab = T.get(pb, db)
            m = mk(pb).double()
            randomize(m, f"m:{fam}:{pb}")
            x = _randn(_gen(f"mx:{fam}:{pb}:{db}"), *db, n, D_IN)
            rp = {"part": "mean", "family": fam, "param_batch": list(pb), "data_batch": list(db), "round": _SALT[0]}
            try:
                with torch.no_grad():
                    out = m(x)
            except Exception as e:
                raised(ctx, "mean_" + fam, pb, db, tab[0], e, rp)
                continue
            if fam == "zero" and tuple(out.shape) != tab[0] + (n,):
                # ZeroMean ignores its batch_shape when shaping the output: the value (0) is right for every replica
                try:
                    out = out.expand(*tab[0], n)
                except RuntimeError:
                    pass

            def rep(pf, df):
                r = mk(()).double()
                load_slice(m, r, pb, pf)
                with torch.no_grad():
                    return r(data_slice(x, db, df, 2))
            each_replica(ctx, "mean_" + fam, "mean(x)", pb, db, tab, out, rep, rp)


def part_b_likelihoods(ctx, T, pairs):
    import torch
    import gpytorch
    from gpytorch.distributions import MultivariateNormal
    n = 3
    for fam in ("gaussian", "fixed_noise", "fixed_noise_learned"):
        for pb, db in pairs:
            tab = T.get(pb, db)
            g = _gen(f"lik:{fam}:{pb}:{db}")
            mean = _randn(g, *db, n)
            L = _randn(g, *db, n, n)
            cov = L @ L.mT + 0.5 * torch.eye(n, dtype=torch.float64)
            fixed = 0.1 + _randn(g, *pb, n).abs()

            def mk(b, noise=None):
                if fam == "gaussian":
                    return gpytorch.likelihoods.GaussianLikelihood(batch_shape=torch.Size(b)).double()
                return gpytorch.likelihoods.FixedNoiseGaussianLikelihood(
                    noise=noise, learn_additional_noise=(fam == "fixed_noise_learned"), batch_shape=torch.Size(b)).double()
            lik = mk(pb, fixed)
            randomize(lik, f"likp:{fam}:{pb}")
            rp = {"part": "likelihood", "family": fam, "param_batch": list(pb), "data_batch": list(db), "round": _SALT[0]}
            with torch.no_grad(), warnings.catch_warnings():
                warnings.simplefilter("ignore")
                try:
                    marg = lik(MultivariateNormal(mean, cov))
                    mcov = marg.covariance_matrix
                    mmean = marg.mean
                except Exception as e:
                    raised(ctx, "lik_" + fam, pb, db, tab[0], e, rp)
                    continue
            npb = 1
            for v in pb:
                npb *= v

            def rep(pf, df, which):
                r = mk((), fixed.reshape(npb, n)[pf])
                load_slice(lik, r, pb, pf)
                with torch.no_grad(), warnings.catch_warnings():
                    warnings.simplefilter("ignore")
                    mg = r(MultivariateNormal(data_slice(mean, db, df, 1), data_slice(cov, db, df, 2)))
                return mg.covariance_matrix if which == "cov" else mg.mean
            bs = tab[0]
            try:
                mcov_e = mcov.expand(*bs, n, n)
                mmean_e = mmean.expand(*bs, n)
            except RuntimeError:
                mcov_e, mmean_e = mcov, mmean
            each_replica(ctx, "lik_" + fam, "marginal covariance", pb, db, tab, mcov_e, lambda pf, df: rep(pf, df, "cov"), rp)
            each_replica(ctx, "lik_" + fam, "marginal mean", pb, db, tab, mmean_e, lambda pf, df: rep(pf, df, "mean"), rp)
            # every public entry point, with and without a call-time `noise=` (batched like the likelihood; incl. 0.0 entries)
            y = _randn(g, *bs, n)
            call_noise = (0.05 + _randn(g, *pb, n).abs())
            if call_noise.numel():
                call_noise.reshape(-1)[0] = 0.0          # a legal-but-unusual value: exactly zero noise at one point
            for kwname, kwv in (("", None), (" (noise=)", call_noise)):
                if kwv is not None and fam == "fixed_noise_learned":
                    continue          # C12's territory: the interplay of call-time noise and the learned extra noise
                for ename in ("marginal", "log_marginal", "expected_log_prob"):
                    def run(l_, mean_, cov_, y_, nz_):
                        kw = {} if nz_ is None else {"noise": nz_}
                        d_ = MultivariateNormal(mean_, cov_)
                        if ename == "marginal":
                            return l_(d_, **kw).covariance_matrix
                        if ename == "log_marginal":
                            return l_.log_marginal(y_, d_, **kw)
                        return l_.expected_log_prob(y_, d_, **kw)
                    what = ename + kwname
                    try:
                        with torch.no_grad(), warnings.catch_warnings():
                            warnings.simplefilter("ignore")
                            out = run(lik, mean, cov, y, kwv)
                        ev = 2 if ename == "marginal" else 1
                        out = out.expand(torch.Size(tuple(bs) + tuple(out.shape[out.dim() - ev:])))
                    except Exception as e:
                        raised(ctx, "lik_" + fam, pb, db, bs, e, rp, what=what)
                        continue
                    holder = [0]

                    def rep2(pf, df, holder=holder, kwv=kwv, run=run):
                        e_ = holder[0]
                        holder[0] += 1
                        r = mk((), fixed.reshape(npb, n)[pf])
                        load_slice(lik, r, pb, pf)
                        nz = None if kwv is None else kwv.reshape(npb, n)[pf]
                        with torch.no_grad(), warnings.catch_warnings():
                            warnings.simplefilter("ignore")
                            return run(r, data_slice(mean, db, df, 1), data_slice(cov, db, df, 2), y.reshape(-1, n)[e_], nz)
                    each_replica(ctx, "lik_" + fam, what, pb, db, tab, out, rep2, rp)


def make_lik(b, prior):
    import torch
    import gpytorch
    kw = {"noise_prior": gpytorch.priors.GammaPrior(1.5, 2.0)} if prior else {}
    return gpytorch.likelihoods.GaussianLikelihood(batch_shape=torch.Size(b), **kw).double()


def _exact_model_cls():
    import gpytorch

    class ExactModel(gpytorch.models.ExactGP):
        def __init__(self, tx, ty, lik, b, prior=False):
            import torch
            super().__init__(tx, ty, lik)
            B = torch.Size(b)
            self.mean_module = gpytorch.means.ConstantMean(
                batch_shape=B, **({"constant_prior": gpytorch.priors.NormalPrior(0.3, 1.5)} if prior else {}))
            kw = {}
            if prior:
                kw["lengthscale_prior"] = gpytorch.priors.GammaPrior(2.0, 3.0)
            self.covar_module = gpytorch.kernels.ScaleKernel(
                gpytorch.kernels.RBFKernel(ard_num_dims=D_IN, batch_shape=B, **kw), batch_shape=B,
                **({"outputscale_prior": gpytorch.priors.NormalPrior(1.0, 2.0)} if prior else {}))

        def forward(self, x):
            return gpytorch.distributions.MultivariateNormal(self.mean_module(x), self.covar_module(x))
    return ExactModel


MIXED = [((2, 3), (3,), ()), ((2,), (), ()), ((3, 2), (2,), (2,)), ((2, 3), (), (3,)), ((2,), (2,), ()), ((), (2,), ()),
         ((2, 1), (3,), ()), ((3,), (), (2, 1)), ((2, 2), (2,), (1, 2))]


def part_b_mixed(ctx, T, _pairs=None, only=None):
    """Exact GP whose modules carry DIFFERENT batch shapes (mean batch, kernel = likelihood batch, input batch): the
    prior / posterior / MLL have the broadcast batch shape, their element b is the non-batched model built from the
    mean slice bidx b, the kernel slice bidx b and the data slice bidx b — also when the element is taken by indexing
    the distribution (`prior[a]`, `prior[b]`)."""
    import torch
    import gpytorch
    n, m = 4, 3

    class Mixed(gpytorch.models.ExactGP):
        def __init__(self, tx, ty, lik, mb, kb):
            super().__init__(tx, ty, lik)
            self.mean_module = gpytorch.means.ConstantMean(batch_shape=torch.Size(mb))
            self.covar_module = gpytorch.kernels.ScaleKernel(
                gpytorch.kernels.RBFKernel(ard_num_dims=D_IN, batch_shape=torch.Size(kb)), batch_shape=torch.Size(kb))

        def forward(self, x):
            return gpytorch.distributions.MultivariateNormal(self.mean_module(x), self.covar_module(x))

    def idx(shape):
        k = 1
        for v in shape:
            k *= v
        return torch.arange(k).reshape(shape)
    for mb, kb, xb in MIXED:
        if only is not None and [list(mb), list(kb), list(xb)] != [list(v) for v in only]:
            continue
        bs = tuple(torch.broadcast_shapes(mb, kb, xb))
        # slices per broadcast element: through the driver's tables (two broadcast steps)
        t1 = T.get(mb, kb)
        t2 = T.get(t1[0], xb) if (t1[0], xb) in T.tab else None
        if t2 is None:
            I1, I2, I3 = torch.broadcast_tensors(idx(mb), idx(kb), idx(xb))
            mi, ki, xi = I1.reshape(-1).tolist(), I2.reshape(-1).tolist(), I3.reshape(-1).tolist()
        else:
            mi = [t1[1][j] for j in t2[1]]
            ki = [t1[2][j] for j in t2[1]]
            xi = t2[2]
        g = _gen(f"mixed:{mb}:{kb}:{xb}")
        tx, xs = _randn(g, *xb, n, D_IN), _randn(g, *xb, m, D_IN)
        ty = _randn(g, *bs, n)
        fam = "exact_gp_mixed"
        rp = {"part": "mixed", "family": fam, "mean_batch": list(mb), "kernel_batch": list(kb), "x_batch": list(xb), "round": _SALT[0]}
        mod = Mixed(tx, ty, make_lik(kb, False), mb, kb).double()
        randomize(mod, f"mixp:{mb}:{kb}")
        where = f"{fam} mean batch {mb}, kernel batch {kb}, input batch {xb} (broadcast {bs})"
        ctx.case(f"b|{fam}|{mb}|{kb}|{xb}|{_SALT[0]}", nontrivial=True,
                 sample={"family": fam, "mean_batch": list(mb), "kernel_batch": list(kb), "x_batch": list(xb)})
        ctxs = (torch.no_grad(), gpytorch.settings.fast_computations(False, False, False), gpytorch.settings.max_cholesky_size(10000))

        def slices(mdl_from, kbs, e):
            r = Mixed(data_slice(tx, xb, xi[e], 2), ty.reshape(-1, n)[e], make_lik((), False), (), ()).double()
            with torch.no_grad():
                bp = dict(mdl_from.named_parameters())
                for name, p_ in r.named_parameters():
                    src = bp[name]
                    sb = mb if name.startswith("mean_module") else kb
                    fl = mi[e] if name.startswith("mean_module") else ki[e]
                    k_ = 1
                    for v in sb:
                        k_ *= v
                    p_.copy_(src.reshape(k_, *src.shape[len(sb):])[fl].reshape(p_.shape))
            return r
        exp = {"prior mean": [], "prior covariance": [], "posterior mean": [], "posterior covariance": [], "exact MLL": []}
        with warnings.catch_warnings():
            warnings.simplefilter("ignore")
            for e in range(len(mi)):
                r = slices(mod, kb, e)
                with ctxs[0], ctxs[1], ctxs[2]:
                    r.train()
                    o = r(r.train_inputs[0])
                    exp["prior mean"].append(o.mean)
                    exp["prior covariance"].append(o.covariance_matrix)
                    exp["exact MLL"].append(gpytorch.mlls.ExactMarginalLogLikelihood(r.likelihood, r)(o, r.train_targets))
                    r.eval()
                    po = r(data_slice(xs, xb, xi[e], 2))
                    exp["posterior mean"].append(po.mean)
                    exp["posterior covariance"].append(po.covariance_matrix)
        exp = {k_: torch.stack(v).reshape(*bs, *v[0].shape) for k_, v in exp.items()}

        def cmp(what, got, want):
            if tuple(got.shape) != tuple(want.shape):
                ctx.fail(f"{fam}:{what}:shape", f"{where}: {what} has shape {tuple(got.shape)}, the broadcast batch gives "
                         f"{tuple(want.shape)}", dict(rp, what=what))
                return
            if not close(got, want):
                ctx.fail(f"{fam}:{what}", f"{where}: {what} differs from the stack of non-batched replicas: {err(got, want)}",
                         dict(rp, what=what))
        try:
            with ctxs[0], ctxs[1], ctxs[2], warnings.catch_warnings():
                warnings.simplefilter("ignore")
                mod.train()
                prior = mod(tx)
                if tuple(prior.batch_shape) != bs:
                    ctx.fail(f"{fam}:prior:batch_shape", f"{where}: prior.batch_shape is {tuple(prior.batch_shape)}", rp)
                cmp("prior mean", prior.mean, exp["prior mean"])
                cmp("prior covariance", prior.covariance_matrix, exp["prior covariance"])
                cmp("prior lazy covariance", prior.lazy_covariance_matrix.to_dense(), exp["prior covariance"])
                # elements taken by indexing the distribution
                import itertools as _it
                for depth in range(1, len(bs) + 1):
                    for b in _it.product(*[range(v) for v in bs[:depth]]):
                        key = b if depth > 1 else b[0]
                        d = prior[key]
                        cmp(f"prior[{key}] mean", d.mean, exp["prior mean"][b])
                        cmp(f"prior[{key}] covariance", d.covariance_matrix, exp["prior covariance"][b])
                cmp("exact MLL", gpytorch.mlls.ExactMarginalLogLikelihood(mod.likelihood, mod)(mod(tx), ty), exp["exact MLL"])
                mod.eval()
                post = mod(xs)
                cmp("posterior mean", post.mean, exp["posterior mean"])
                cmp("posterior covariance", post.covariance_matrix, exp["posterior covariance"])
                for a in range(bs[0]) if bs else []:
                    cmp(f"posterior[{a}] covariance", post[a].covariance_matrix, exp["posterior covariance"][a])
        except Exception as e:
            raised(ctx, fam, mb, xb, bs, e, rp)


def part_b_exact(ctx, T, pairs):
    import torch
    import gpytorch
    Model = _exact_model_cls()
    n, m = 4, 3
    for prior in (False, True):
        fam = "exact_gp" + ("_priors" if prior else "")
        for pb, db in pairs:
            tab = T.get(pb, db)
            bs, pidx, didx = tab
            g = _gen(f"ex:{pb}:{db}")
            tx = _randn(g, *db, n, D_IN)
            ty = _randn(g, *bs, n)
            xs = _randn(g, *db, m, D_IN)

            def build(b, tx_, ty_):
                lik = make_lik(b, prior)
                return Model(tx_, ty_, lik, b, prior=prior).double()
            mod = build(pb, tx, ty)
            randomize(mod, f"exp:{pb}")
            rp = {"part": "exact", "family": fam, "param_batch": list(pb), "data_batch": list(db), "round": _SALT[0]}
            obs = {}
            try:
                with torch.no_grad(), gpytorch.settings.fast_computations(False, False, False), \
                        gpytorch.settings.max_cholesky_size(10000), warnings.catch_warnings():
                    warnings.simplefilter("ignore")
                    mod.train()
                    out = mod(tx)
                    obs["prior mean"], obs["prior covariance"] = out.mean, out.covariance_matrix
                    mod.eval()
                    post = mod(xs)
                    obs["posterior mean"], obs["posterior covariance"] = post.mean, post.covariance_matrix
                    pred = mod.likelihood(post)
                    obs["predictive covariance"] = pred.covariance_matrix
                    mod.train()
            except Exception as e:
                raised(ctx, fam, pb, db, bs, e, rp)
                continue
            try:
                with torch.no_grad(), gpytorch.settings.fast_computations(False, False, False), \
                        gpytorch.settings.max_cholesky_size(10000), warnings.catch_warnings():
                    warnings.simplefilter("ignore")
                    obs["exact MLL"] = gpytorch.mlls.ExactMarginalLogLikelihood(mod.likelihood, mod)(mod(tx), ty)
            except Exception as e:
                raised(ctx, fam, pb, db, bs, e, rp, what="exact MLL")
            try:       # the other exact objective class of gpytorch.mlls
                with torch.no_grad(), gpytorch.settings.fast_computations(False, False, False), \
                        gpytorch.settings.max_cholesky_size(10000), warnings.catch_warnings():
                    warnings.simplefilter("ignore")
                    obs["LOO"] = gpytorch.mlls.LeaveOneOutPseudoLikelihood(mod.likelihood, mod)(mod(tx), ty)
            except Exception as e:
                raised(ctx, fam, pb, db, bs, e, rp, what="LOO")
            cache = {}

            def rep(pf, df, which, e_holder=[0]):
                key = (pf, df, e_holder[0])
                if key not in cache:
                    e = e_holder[0]
                    r = build((), data_slice(tx, db, df, 2), ty.reshape(len(pidx), n)[e])
                    load_slice(mod, r, pb, pf)
                    o = {}
                    with torch.no_grad(), gpytorch.settings.fast_computations(False, False, False), \
                            gpytorch.settings.max_cholesky_size(10000), warnings.catch_warnings():
                        warnings.simplefilter("ignore")
                        r.train()
                        out = r(r.train_inputs[0])
                        o["prior mean"], o["prior covariance"] = out.mean, out.covariance_matrix
                        o["exact MLL"] = gpytorch.mlls.ExactMarginalLogLikelihood(r.likelihood, r)(out, r.train_targets)
                        o["LOO"] = gpytorch.mlls.LeaveOneOutPseudoLikelihood(r.likelihood, r)(out, r.train_targets)
                        r.eval()
                        post = r(data_slice(xs, db, df, 2))
                        o["posterior mean"], o["posterior covariance"] = post.mean, post.covariance_matrix
                        o["predictive covariance"] = r.likelihood(post).covariance_matrix
                    cache[key] = o
                return cache[key][which]
            for what, val in obs.items():
                ev = {"prior mean": 1, "posterior mean": 1, "exact MLL": 0, "LOO": 0}.get(what, 2)
                try:
                    val = val.expand(torch.Size(tuple(bs) + tuple(val.shape[val.dim() - ev:])))
                except RuntimeError:
                    pass
                # each_replica walks the elements in order: pass the element number through a holder (the target
                # slice is per broadcast element, not per data slice)
                holder = [0]

                def mk_out(pf, df, what=what, holder=holder):
                    o = rep(pf, df, what, holder)
                    holder[0] += 1
                    return o
                each_replica(ctx, fam, what, pb, db, tab, val, mk_out, rp)
            # the GENERATED normaliser of the two exact objectives (Gen.BatchChoreo.looNormaliser / exactNormaliser) against
            # the code: with v = res / N - c for the batched model (target (*bs, n)) and for the replica (target (n,)),
            # (v_b + c) * N_batched = (r_b + c) * N_replica for every batch element b
            if not prior:
                import math
                for w, what, c in ((0, "LOO", 0.5 * math.log(2 * math.pi)), (1, "exact MLL", 0.0)):
                    have = [cache.get((pidx[e], didx[e], e)) for e in range(len(pidx))]
                    if what in obs and tuple(obs[what].shape) == tuple(bs) and all(h is not None for h in have):
                        _TIE.append((f"norm {w} | {shp(tuple(bs) + (n,))}",
                                     ("norm", (what, c, obs[what].reshape(-1).tolist(), [h[what].item() for h in have]), rp)))


# ------------------------------------------------------------------ batched exact GPs under every observation_nan_policy

NAN_PAIRS_QUICK = [((2,), (2,)), ((3,), ()), ((), (3,)), ((2, 3), (2, 3)), ((2, 1), (1, 3)), ((3,), (2, 1)), ((1, 2), (2,)),
                   ((2, 2), (2,))]
POLICIES = ("ignore", "mask", "fill")


def nan_patterns(label, E, n):
    """one NaN pattern (sorted point indices) per broadcast batch element: consecutive elements miss 1, 2, 0, 1, … of the
    first n-2 points, so the patterns DIFFER between elements, every third element is fully observed and even the union of
    all patterns leaves two points observed"""
    import torch
    g = _gen(label)
    return [sorted(torch.randperm(n - 2, generator=g)[:(e + 1) % 3].tolist()) for e in range(E)]


def part_b_nan(ctx, T, pairs, only=None):
    """Batched exact GP whose training targets carry a DIFFERENT NaN pattern in every batch element, under each
    `observation_nan_policy`.  Element b is judged against the non-batched replica b evaluated under the same policy with
    ITS OWN pattern ('ignore', 'fill': per element) resp. with the union of all patterns ('mask' is documented to delete a
    point that is missing in any batch element).  Observables: posterior mean / covariance, predictive covariance, the exact
    MLL ('fill' is rejected by the class), `likelihood.expected_log_prob` / `log_marginal` of the prior."""
    import torch
    import gpytorch
    Model = _exact_model_cls()
    n, m = 5, 3
    fam = "exact_gp_nan"
    nan = float("nan")
    for pb, db in pairs:
        tab = T.get(pb, db)
        bs, pidx, didx = tab
        E = len(pidx)
        if E < 2:
            continue
        g = _gen(f"nan:{pb}:{db}")
        tx, xs = _randn(g, *db, n, D_IN), _randn(g, *db, m, D_IN)
        ty = _randn(g, *bs, n)
        pats = nan_patterns(f"nanpat:{pb}:{db}", E, n)
        union = sorted(set().union(*[set(p_) for p_ in pats]))
        tyn = ty.clone().reshape(E, n)
        for e, pt in enumerate(pats):
            if pt:
                tyn[e, pt] = nan
        tyn = tyn.reshape(*bs, n)

        def build(b, tx_, ty_):
            return Model(tx_, ty_, make_lik(b, False), b).double()
        for policy in POLICIES:
            if only is not None and policy != only:
                continue
            rp = {"part": "nan", "family": fam, "param_batch": list(pb), "data_batch": list(db), "policy": policy,
                  "nan_patterns": pats, "round": _SALT[0]}

            def observe(mdl, xs_, tx_, ty_):
                o = {}
                with torch.no_grad(), gpytorch.settings.fast_computations(False, False, False), \
                        gpytorch.settings.max_cholesky_size(10000), gpytorch.settings.observation_nan_policy(policy), \
                        warnings.catch_warnings():
                    warnings.simplefilter("ignore")
                    mdl.eval()
                    post = mdl(xs_)
                    o["posterior mean"], o["posterior covariance"] = post.mean, post.covariance_matrix
                    o["predictive covariance"] = mdl.likelihood(post).covariance_matrix
                    if policy == "fill" and mdl.prediction_strategy is not None:
                        o["_mean_cache"] = mdl.prediction_strategy.mean_cache
                    mdl.train()
                    prior = mdl(tx_)
                    if policy != "fill":
                        o["exact MLL"] = gpytorch.mlls.ExactMarginalLogLikelihood(mdl.likelihood, mdl)(prior, ty_)
                    if policy != "ignore":      # under 'ignore' torch's Normal rejects NaN observations (validate_args)
                        o["expected_log_prob"] = mdl.likelihood.expected_log_prob(ty_, prior)
                        o["log_marginal"] = mdl.likelihood.log_marginal(ty_, prior)
                return o
            mod = build(pb, tx, tyn)
            randomize(mod, f"nanp:{pb}")
            try:
                obs = observe(mod, xs, tx, tyn)
            except Exception as e:
                raised(ctx, fam, pb, db, bs, e, rp, what=f"[{policy}]")
                continue
            mc = obs.pop("_mean_cache", None)
            if policy == "fill":
                # the GENERATED 'fill' masks (Gen.BatchChoreo.*FillMask) against what the code worked with: the mean cache is NaN
                # exactly at the entries the code treated as missing; the per-point likelihood terms are exactly 0 there
                bits = ",".join("1" if v else "0" for v in torch.isnan(tyn).reshape(-1).tolist())
                for site, val in ((0, None if mc is None else ~torch.isnan(mc)), (2, obs["expected_log_prob"] != 0),
                                  (3, obs["log_marginal"] != 0)):
                    if val is not None and tuple(val.shape) == tuple(tyn.shape):
                        _TIE.append((f"fillmask {site} | {shp(tuple(tyn.shape))} | {bits}",
                                     ("fillmask", (site, [int(v) for v in val.reshape(-1).tolist()]), rp)))
            cache = {}

            def rep_all(pf, df, e):
                t_e = ty.reshape(E, n)[e].clone()
                miss = union if policy == "mask" else pats[e]
                if miss:
                    t_e[miss] = nan
                r = build((), data_slice(tx, db, df, 2), t_e)
                load_slice(mod, r, pb, pf)
                return observe(r, data_slice(xs, db, df, 2), data_slice(tx, db, df, 2), t_e)
            for what, val in obs.items():
                ev = {"posterior mean": 1, "exact MLL": 0, "expected_log_prob": 1, "log_marginal": 1}.get(what, 2)
                try:
                    val = val.expand(torch.Size(tuple(bs) + tuple(val.shape[val.dim() - ev:])))
                except RuntimeError:
                    pass
                holder = [0]

                def mk_out(pf, df, what=what, holder=holder):
                    e = holder[0]
                    holder[0] += 1
                    if e not in cache:
                        cache[e] = rep_all(pf, df, e)
                    return cache[e][what]
                each_replica(ctx, fam, f"{what} [{policy}]", pb, db, tab, val, mk_out, rp)


NAN_SEQ_PAIRS_QUICK = [((2,), (2,)), ((3,), ()), ((2, 1), (1, 3))]


def part_b_nan_seq(ctx, T, pairs, only=None):
    """Policy SEQUENCES on one batched exact GP: predict under policy p1 (fills the caches keyed by p1) -> while policy p2 is
    active, `set_train_data(targets=new)` (same shape, new values, new per-element NaN patterns) -> predict under p1 again.
    Every ordered pair (p1, p2).  Element b is judged against a replica built from scratch with the NEW targets."""
    import torch
    import gpytorch
    Model = _exact_model_cls()
    n, m = 5, 3
    fam = "exact_gp_nan_seq"
    nan = float("nan")
    for pb, db in pairs:
        tab = T.get(pb, db)
        bs, pidx, didx = tab
        E = len(pidx)
        if E < 2:
            continue
        g = _gen(f"nanseq:{pb}:{db}")
        tx, xs = _randn(g, *db, n, D_IN), _randn(g, *db, m, D_IN)

        def targets(tag):
            t = _randn(g, *bs, n).reshape(E, n)
            pats = nan_patterns(f"nanseqpat:{tag}:{pb}:{db}", E, n)
            tn = t.clone()
            for e, pt in enumerate(pats):
                if pt:
                    tn[e, pt] = nan
            return t, pats, tn.reshape(*bs, n)
        _, _, ty1 = targets("old")
        t2, pats2, ty2 = targets("new")
        union2 = sorted(set().union(*[set(p_) for p_ in pats2]))

        def predict(mdl, xs_, policy):
            with torch.no_grad(), gpytorch.settings.fast_computations(False, False, False), \
                    gpytorch.settings.max_cholesky_size(10000), gpytorch.settings.observation_nan_policy(policy), \
                    warnings.catch_warnings():
                warnings.simplefilter("ignore")
                mdl.eval()
                post = mdl(xs_)
                return {"posterior mean": post.mean, "posterior covariance": post.covariance_matrix}
        for p1 in POLICIES:
            for p2 in POLICIES:
                seq = f"{p1}>set_train_data(targets)@{p2}>{p1}"
                if only is not None and seq != only:
                    continue
                rp = {"part": "nan_seq", "family": fam, "param_batch": list(pb), "data_batch": list(db), "sequence": seq,
                      "round": _SALT[0]}
                mod = Model(tx, ty1, make_lik(pb, False), pb).double()
                randomize(mod, f"nanseqp:{pb}")
                try:
                    predict(mod, xs, p1)
                    with gpytorch.settings.observation_nan_policy(p2):
                        mod.set_train_data(targets=ty2)
                    obs = predict(mod, xs, p1)
                except Exception as e:
                    raised(ctx, fam, pb, db, bs, e, rp, what=f"[{seq}]")
                    continue
                cache = {}

                def rep_all(pf, df, e):
                    t_e = t2[e].clone()
                    miss = union2 if p1 == "mask" else pats2[e]
                    if miss:
                        t_e[miss] = nan
                    r = Model(data_slice(tx, db, df, 2), t_e, make_lik((), False), ()).double()
                    load_slice(mod, r, pb, pf)
                    return predict(r, data_slice(xs, db, df, 2), p1)
                for what, val in obs.items():
                    ev = 1 if what == "posterior mean" else 2
                    try:
                        val = val.expand(torch.Size(tuple(bs) + tuple(val.shape[val.dim() - ev:])))
                    except RuntimeError:
                        pass
                    holder = [0]

                    def mk_out(pf, df, what=what, holder=holder):
                        e = holder[0]
                        holder[0] += 1
                        if e not in cache:
                            cache[e] = rep_all(pf, df, e)
                        return cache[e][what]
                    each_replica(ctx, fam, f"{what} [{seq}]", pb, db, tab, val, mk_out, rp)


RELOAD_PAIRS_QUICK = [((3,), (3,)), ((3,), ()), ((2,), (2, 1)), ((2, 3), (3,))]


def part_b_reload(ctx, T, pairs, only=None):
    """Reload THROUGH THE PARENT in eval mode: a batched SVGP (ApproximateGP owning the variational strategy) and a batched
    SGPR (ExactGP owning an InducingPointKernel): eval -> predict (fills the caches of the children) ->
    `model.load_state_dict(other values)` -> predict again without `.train()`.  Element b is judged against the non-batched
    replica rebuilt from slice b of the LOADED state."""
    import torch
    import gpytorch
    Var = _var_model_cls()
    n, m, mi = 5, 3, 3

    class SGPR(gpytorch.models.ExactGP):
        def __init__(self, tx, ty, lik, b, ind):
            super().__init__(tx, ty, lik)
            B = torch.Size(b)
            self.mean_module = gpytorch.means.ConstantMean(batch_shape=B)
            base = gpytorch.kernels.ScaleKernel(gpytorch.kernels.RBFKernel(batch_shape=B), batch_shape=B)
            self.covar_module = gpytorch.kernels.InducingPointKernel(base, inducing_points=ind.clone(), likelihood=lik)

        def forward(self, x):
            return gpytorch.distributions.MultivariateNormal(self.mean_module(x), self.covar_module(x))
    for kind in ("svgp", "sgpr"):
        if only is not None and kind != only:
            continue
        fam = f"reload_{kind}"
        for pb, db in pairs:
            tab = T.get(pb, db)
            bs, pidx, didx = tab
            if kind == "sgpr" and tuple(pb) != tuple(bs):
                continue           # the inducing-point kernel is built for the model's own batch shape
            g = _gen(f"reload:{kind}:{pb}:{db}")
            tx, xs = _randn(g, *db, n, D_IN), _randn(g, *db, m, D_IN)
            ty = _randn(g, *bs, n)
            ind = _randn(g, *pb, mi, D_IN)
            npb = 1
            for v in pb:
                npb *= v

            def build(b, ind_, tx_, ty_, label):
                if kind == "svgp":
                    mdl = Var(ind_.clone(), b).double()
                    mdl.variational_strategy.variational_params_initialized.fill_(1)
                else:
                    mdl = SGPR(tx_, ty_, make_lik(b, False), b, ind_).double()
                if label:
                    randomize(mdl, label)
                    if kind == "svgp":
                        with torch.no_grad():
                            cv = mdl.variational_strategy._variational_distribution.chol_variational_covar
                            cv.copy_(torch.tril(cv) * 0.3 + torch.eye(mi, dtype=torch.float64))
                return mdl

            def predict(mdl, xs_):
                with torch.no_grad(), gpytorch.settings.fast_computations(False, False, False), \
                        gpytorch.settings.max_cholesky_size(10000), warnings.catch_warnings():
                    warnings.simplefilter("ignore")
                    mdl.eval()
                    post = mdl(xs_)
                    return {"posterior mean": post.mean, "posterior covariance": post.covariance_matrix}
            rp = {"part": "reload", "family": fam, "kind": kind, "param_batch": list(pb), "data_batch": list(db), "round": _SALT[0]}
            mod = build(pb, ind, tx, ty, f"reload0:{kind}:{pb}")
            other = build(pb, ind, tx, ty, f"reload1:{kind}:{pb}")
            try:
                predict(mod, xs)
                mod.load_state_dict(other.state_dict())
                obs = predict(mod, xs)
            except Exception as e:
                raised(ctx, fam, pb, db, bs, e, rp, what="eval>predict>load_state_dict>predict")
                continue
            cache = {}

            def rep_all(pf, df, e):
                sd = mod.state_dict()
                ind_b = (sd["variational_strategy.inducing_points"] if kind == "svgp"
                         else sd["covar_module.inducing_points"]).reshape(npb, mi, D_IN)[pf]
                r = build((), ind_b, data_slice(tx, db, df, 2), ty.reshape(len(pidx), n)[e], None)
                load_slice(mod, r, pb, pf)
                return predict(r, data_slice(xs, db, df, 2))
            for what, val in obs.items():
                ev = 1 if what == "posterior mean" else 2
                try:
                    val = val.expand(torch.Size(tuple(bs) + tuple(val.shape[val.dim() - ev:])))
                except RuntimeError:
                    pass
                holder = [0]

                def mk_out(pf, df, what=what, holder=holder):
                    e = holder[0]
                    holder[0] += 1
                    if e not in cache:
                        cache[e] = rep_all(pf, df, e)
                    return cache[e][what]
                each_replica(ctx, fam, f"{what} [eval>predict>load_state_dict>predict]", pb, db, tab, val, mk_out, rp)


def OBJECTIVES():
    """every approximate objective class of gpytorch.mlls that applies to a (batched) ApproximateGP with a Gaussian
    likelihood; name -> (likelihood, model, num_data) -> callable(q(f), y) -> tensor with the batch shape (+ trailing dims)"""
    import torch
    import gpytorch
    M = gpytorch.mlls

    def split_terms(lik, mod, n):
        obj = M.VariationalELBO(lik, mod, num_data=n, combine_terms=False)
        # (log-likelihood, KL, log-prior): each has its own (broadcastable) batch shape
        return lambda qf, y: torch.stack(list(torch.broadcast_tensors(*obj(qf, y))), -1)
    return {"ELBO": lambda lik, mod, n: M.VariationalELBO(lik, mod, num_data=n),
            "PLL": lambda lik, mod, n: M.PredictiveLogLikelihood(lik, mod, num_data=n),
            "GammaRobust": lambda lik, mod, n: M.GammaRobustVariationalELBO(lik, mod, num_data=n),
            "ELBO terms (combine_terms=False)": split_terms}


OBJ_EVENT_DIMS = {"ELBO terms (combine_terms=False)": 1}
DEEP = "DeepELBO (mean over batch dim 0)"


def _var_model_cls():
    import gpytorch

    class VarModel(gpytorch.models.ApproximateGP):
        def __init__(self, ind, b, prior=False):
            import torch
            B = torch.Size(b)
            vd = gpytorch.variational.CholeskyVariationalDistribution(ind.size(-2), batch_shape=B)
            vs = gpytorch.variational.VariationalStrategy(self, ind, vd, learn_inducing_locations=True)
            super().__init__(vs)
            self.mean_module = gpytorch.means.ConstantMean(
                batch_shape=B, **({"constant_prior": gpytorch.priors.NormalPrior(0.3, 1.5)} if prior else {}))
            kw = {"lengthscale_prior": gpytorch.priors.GammaPrior(2.0, 3.0)} if prior else {}
            self.covar_module = gpytorch.kernels.ScaleKernel(
                gpytorch.kernels.RBFKernel(batch_shape=B, **kw), batch_shape=B,
                **({"outputscale_prior": gpytorch.priors.GammaPrior(2.0, 1.5)} if prior else {}))

        def forward(self, x):
            return gpytorch.distributions.MultivariateNormal(self.mean_module(x), self.covar_module(x))
    return VarModel


def part_b_variational(ctx, T, pairs):
    import torch
    import gpytorch
    Model = _var_model_cls()
    n, mi = 4, 3
    for prior in (False, True):
        fam = "variational_gp" + ("_priors" if prior else "")
        for pb, db in pairs:
            tab = T.get(pb, db)
            bs, pidx, didx = tab
            g = _gen(f"var:{pb}:{db}")
            x = _randn(g, *db, n, D_IN)
            y = _randn(g, *bs, n)
            ind = _randn(g, *pb, mi, D_IN)
            npb = len(set(pidx)) and max(pidx) + 1

            def build(b, ind_):
                mdl = Model(ind_.clone(), b, prior=prior).double()
                # the first training-mode call would otherwise overwrite the variational parameters with the prior
                # plus *random* noise (initialize_variational_distribution): not a batched-vs-replica question
                mdl.variational_strategy.variational_params_initialized.fill_(1)
                return mdl
            mod = build(pb, ind)
            randomize(mod, f"varp:{pb}")
            with torch.no_grad():   # a valid (lower-triangular, positive diagonal) variational Cholesky factor
                cv = mod.variational_strategy._variational_distribution.chol_variational_covar
                cv.copy_(torch.tril(cv) * 0.3 + torch.eye(mi, dtype=torch.float64))
            lik = make_lik(pb, prior)          # batched like the model; with a noise prior in the `_priors` family
            randomize(lik, f"varl:{pb}")
            rp = {"part": "variational", "family": fam, "param_batch": list(pb), "data_batch": list(db), "round": _SALT[0]}
            obs = {}
            try:
                with torch.no_grad(), gpytorch.settings.fast_computations(False, False, False), \
                        gpytorch.settings.max_cholesky_size(10000), warnings.catch_warnings():
                    warnings.simplefilter("ignore")
                    mod.train()
                    qf = mod(x)
                    obs["q(f) mean"], obs["q(f) covariance"] = qf.mean, qf.covariance_matrix
                    obs["KL"] = mod.variational_strategy.kl_divergence()
            except Exception as e:
                raised(ctx, fam, pb, db, bs, e, rp)
                continue
            for oname, cls in OBJECTIVES().items():
                try:
                    with torch.no_grad(), gpytorch.settings.fast_computations(False, False, False), \
                            gpytorch.settings.max_cholesky_size(10000), warnings.catch_warnings():
                        warnings.simplefilter("ignore")
                        obs[oname] = cls(lik, mod, n)(qf, y)
                except Exception as e:
                    raised(ctx, fam, pb, db, bs, e, rp, what=oname)
            deep = None
            if len(bs) >= 1:      # DeepApproximateMLL: the base objective averaged over the leading (sample) batch dimension
                try:
                    with torch.no_grad(), gpytorch.settings.fast_computations(False, False, False), \
                            gpytorch.settings.max_cholesky_size(10000), warnings.catch_warnings():
                        warnings.simplefilter("ignore")
                        deep = gpytorch.mlls.DeepApproximateMLL(gpytorch.mlls.VariationalELBO(lik, mod, num_data=n))(qf, y)
                except Exception as e:
                    raised(ctx, fam, pb, db, bs, e, rp, what=DEEP)
            nslice = 1
            for v in pb:
                nslice *= v

            def rep_all(pf, df, e):
                r = build((), ind.reshape(nslice, mi, D_IN)[pf])
                load_slice(mod, r, pb, pf)
                rl = make_lik((), prior)
                load_slice(lik, rl, pb, pf)
                o = {}
                with torch.no_grad(), gpytorch.settings.fast_computations(False, False, False), \
                        gpytorch.settings.max_cholesky_size(10000), warnings.catch_warnings():
                    warnings.simplefilter("ignore")
                    r.train()
                    qf = r(data_slice(x, db, df, 2))
                    o["q(f) mean"], o["q(f) covariance"] = qf.mean, qf.covariance_matrix
                    o["KL"] = r.variational_strategy.kl_divergence()
                    for oname, cls in OBJECTIVES().items():
                        o[oname] = cls(rl, r, n)(qf, y.reshape(len(pidx), n)[e])
                return o
            cache = {}
            for what, val in obs.items():
                ev = {"q(f) mean": 1, "KL": 0, "q(f) covariance": 2}.get(what, OBJ_EVENT_DIMS.get(what, 0))
                try:
                    val = val.expand(torch.Size(tuple(bs) + tuple(val.shape[val.dim() - ev:])))
                except RuntimeError:
                    pass
                holder = [0]

                def mk_out(pf, df, what=what, holder=holder):
                    e = holder[0]
                    holder[0] += 1
                    if e not in cache:
                        cache[e] = rep_all(pf, df, e)
                    return cache[e][what]
                each_replica(ctx, fam, what, pb, db, tab, val, mk_out, rp)
            if deep is not None and len(cache) == len(pidx):
                ctx.case(f"b|{fam}|{DEEP}|{pb}|{db}|{_SALT[0]}", nontrivial=True)
                want = torch.stack([cache[e]["ELBO"] for e in range(len(pidx))]).reshape(bs).mean(0)
                if tuple(deep.shape) != tuple(want.shape) or not close(deep, want):
                    key = f"{fam}:{DEEP}"
                    if rank_deficient_prior_cell(fam, DEEP, pb, bs):
                        key += ":param-batch-rank-below-broadcast-rank"
                    ctx.fail(key, f"{fam} param batch {pb}, data batch {db}: DeepApproximateMLL(VariationalELBO) is not the mean over "
                             f"the leading batch dimension of the non-batched replicas' ELBOs: {err(deep, want)}", dict(rp, what=DEEP))


def part_b_model_list(ctx, lines, recs, only=None):
    """IndependentModelList / SumMarginalLogLikelihood over 1-3 members with different n, members non-batched and
    batched ((2,), (2,3)): outputs are the members' outputs; the sum-MLL has the members' batch shape and its batch
    element b is the mean over the members of THEIR batch element b (exact rational mean from the driver)."""
    import torch
    import gpytorch
    Model = _exact_model_cls()
    combos = [(k, mb) for mb in ((), (2,), (2, 3)) for k in (1, 2, 3)]
    for k, mb in combos:
        if only is not None and (k, list(mb)) != only:
            continue
        g = _gen(f"ml:{k}:{mb}")
        models, xs, ys = [], [], []
        for i in range(k):
            n = 3 + i
            tx, ty = _randn(g, *mb, n, D_IN), _randn(g, *mb, n)
            mdl = Model(tx, ty, make_lik(mb, False), mb).double()
            randomize(mdl, f"mlp:{k}:{mb}:{i}")
            models.append(mdl)
            xs.append(tx)
            ys.append(ty)
        ml = gpytorch.models.IndependentModelList(*models)
        rp = {"part": "model_list", "members": k, "member_batch": list(mb), "round": _SALT[0]}
        with torch.no_grad(), gpytorch.settings.fast_computations(False, False, False), \
                gpytorch.settings.max_cholesky_size(10000), warnings.catch_warnings():
            warnings.simplefilter("ignore")
            ml.train()
            outs = ml(*xs)
            ctx.case(f"b|model_list|train|{k}|{mb}", nontrivial=k > 1 or bool(mb))
            if len(outs) != k:
                ctx.fail("model_list:outputs", f"IndependentModelList of {k} members returns {len(outs)} outputs", rp)
            member_vals = []
            for i, (o, mdl) in enumerate(zip(outs, models)):
                w = mdl(xs[i])
                if not (torch.allclose(o.mean, w.mean, rtol=1e-13, atol=1e-14)
                        and torch.allclose(o.covariance_matrix, w.covariance_matrix, rtol=1e-13, atol=1e-14)):
                    ctx.fail("model_list:outputs", f"IndependentModelList (member batch {mb}) output {i} of {k} is not its "
                             f"member's output: {err(o.covariance_matrix, w.covariance_matrix)}", dict(rp, member=i))
                member_vals.append(gpytorch.mlls.ExactMarginalLogLikelihood(mdl.likelihood, mdl)(w, ys[i]))
            for tag, cls in (("", gpytorch.mlls.ExactMarginalLogLikelihood), ("_loo", gpytorch.mlls.LeaveOneOutPseudoLikelihood)):
                if tag:
                    member_vals = [cls(mdl.likelihood, mdl)(mdl(xs[i]), ys[i]) for i, mdl in enumerate(models)]
                smll = gpytorch.mlls.SumMarginalLogLikelihood(ml.likelihood, ml, mll_cls=cls)
                try:
                    got = smll(outs, ys)
                except Exception as e:
                    ctx.case(f"b|sum_mll{tag}|raises|{k}|{mb}")
                    ctx.fail(f"sum_mll{tag}:raises", f"SumMarginalLogLikelihood({cls.__name__}) over {k} members with batch {mb} raises "
                             f"{type(e).__name__}: {str(e)[:160]}", rp)
                    got = None
                if got is not None:
                    if not tag:
                        # the GENERATED reduction (Gen.BatchChoreo.sumMllOps) on the members' values vs what the code returned
                        lines.append(f"summllt {shp(mb)} | " + " ; ".join(" ".join(C.rat_str(x) for x in v.reshape(-1).tolist())
                                                                          for v in member_vals))
                        recs.append(("summllt", (k, mb, list(got.shape), got.reshape(-1).tolist()), rp))
                    if tuple(got.shape) != tuple(mb):
                        ctx.case(f"b|sum_mll{tag}|shape|{k}|{mb}")
                        ctx.fail(f"sum_mll{tag}:batch-shape", f"SumMarginalLogLikelihood({cls.__name__}) over {k} members with batch shape "
                                 f"{mb} returns shape {tuple(got.shape)} (value {got.reshape(-1)[:3].tolist()}): each member's value has "
                                 f"shape {mb}, the mean over the members must keep it", rp)
                    else:
                        gf = got.reshape(-1)
                        for e_ in range(gf.numel()):
                            vals = [v.reshape(-1)[e_].item() for v in member_vals]
                            lines.append("summll " + " ".join(C.rat_str(v) for v in vals))
                            recs.append(("summll", (k, gf[e_].item(), vals, mb, e_, f"sum_mll{tag}:mean",
                                                    f"SumMarginalLogLikelihood({cls.__name__})"), rp))
            ml.eval()
            test = [_randn(g, *mb, 2, D_IN) for _ in range(k)]
            pouts = ml(*test)
            ctx.case(f"b|model_list|eval|{k}|{mb}", nontrivial=k > 1 or bool(mb))
            for i, (o, mdl) in enumerate(zip(pouts, models)):
                w = mdl(test[i])
                if not (close(o.mean, w.mean) and close(o.covariance_matrix, w.covariance_matrix)):
                    ctx.fail("model_list:outputs", f"IndependentModelList (member batch {mb}) posterior {i} of {k} is not its "
                             f"member's posterior: {err(o.covariance_matrix, w.covariance_matrix)}", dict(rp, member=i, mode="eval"))


HIST_UPDATES = ("targets", "inputs", "inputs+targets", "resize", "load_state_dict", "parent_load_state_dict")
HIST_PRE = ("all", "props", "train", "eval", "none")


def hist_configs(ctx_quick, rng):
    """(members, member batch, update kind, updated member, what is read BEFORE the update)"""
    out = []
    for k in (2, 3):
        for mb in ((), (2,)) if ctx_quick else ((), (2,), (2, 3)):
            for upd in HIST_UPDATES:
                pres = (("all", rng.choice(HIST_PRE[1:])) if k == 2 else (rng.choice(HIST_PRE),)) if ctx_quick else HIST_PRE
                if ctx_quick and upd == "parent_load_state_dict":
                    pres = ("all", "eval") if k == 2 else ("eval",)      # the reload must follow an eval-mode prediction
                for pre in pres:
                    out.append((k, mb, upd, rng.randrange(k), pre))
    return out


def part_b_model_list_hist(ctx, lines, recs, configs, only=None):
    """Histories on ONE IndependentModelList object: read its properties / call it / evaluate the SumMLL -> replace the
    training data of a member (`set_train_data`: targets, inputs, both, a different number of points) or load another
    state dict into a member -> the list's `train_inputs`, `train_targets`, outputs (train and eval mode) and the standard
    objective `SumMarginalLogLikelihood(model(*model.train_inputs), model.train_targets)` (built BEFORE the update, exact
    MLL and LOO members) must be those of the members NOW — judged against members built from scratch with the current
    data and state."""
    import torch
    import gpytorch
    Model = _exact_model_cls()
    for cfg in configs:
        k, mb, upd, j, pre = cfg
        if only is not None and [k, list(mb), upd, j, pre] != only:
            continue
        tag = f"{k}/{list(mb)}/{pre}>{upd}[{j}]"
        rp = {"part": "model_list_hist", "config": [k, list(mb), upd, j, pre], "history": tag, "round": _SALT[0]}
        g = _gen(f"mlh:{cfg}")
        ns = [3 + i for i in range(k)]
        models = []
        for i in range(k):
            mdl = Model(_randn(g, *mb, ns[i], D_IN), _randn(g, *mb, ns[i]), make_lik(mb, False), mb).double()
            randomize(mdl, f"mlhp:{cfg}:{i}")
            models.append(mdl)
        ml = gpytorch.models.IndependentModelList(*models)
        test = [_randn(g, *mb, 2, D_IN) for _ in range(k)]
        objectives = {"exact MLL": gpytorch.mlls.SumMarginalLogLikelihood(ml.likelihood, ml),
                      "LOO": gpytorch.mlls.SumMarginalLogLikelihood(ml.likelihood, ml, mll_cls=gpytorch.mlls.LeaveOneOutPseudoLikelihood)}
        versions = []        # (tensor, code): which version of which member's data a tensor is
        for i, mdl in enumerate(models):
            versions += [(mdl.train_inputs[0], i * 1000), (mdl.train_targets, i * 1000)]

        def code(t):
            for t_, c in versions:
                if t_ is t:
                    return c
            for t_, c in versions:
                if t_.shape == t.shape and torch.equal(t_, t):
                    return c
            return -1
        events, reads = [], []
        ctxs = lambda: (torch.no_grad(), gpytorch.settings.fast_computations(False, False, False),  # noqa: E731
                        gpytorch.settings.max_cholesky_size(10000))

        def read_inputs():
            v = ml.train_inputs
            events.append(0)
            reads.append([code(t[0]) for t in v])
            return v

        def read_targets():
            v = ml.train_targets
            events.append(1)
            reads.append([code(t) for t in v])
            return v
        ctx.case(f"b|model_list_hist|{tag}", nontrivial=True, sample={"family": "model_list_hist", "history": tag})
        try:
            with warnings.catch_warnings():
                warnings.simplefilter("ignore")
                c1, c2, c3 = ctxs()
                with c1, c2, c3:
                    # ---- before the update
                    if pre in ("all", "props"):
                        read_targets()
                        read_inputs()
                    if pre in ("all", "train"):
                        ml.train()
                        outs = ml(*read_inputs())
                        for obj in objectives.values():
                            obj(outs, read_targets())
                    if pre in ("all", "eval"):
                        ml.eval()
                        ml(*test)
                    # ---- the update of member j
                    mem = models[j]
                    pos = len(events)
                    newcode = j * 1000 + pos + 1
                    if upd == "parent_load_state_dict":
                        # reload THROUGH THE PARENT: every member gets other hyperparameters by `model_list.load_state_dict`
                        others = []
                        for i_, mdl in enumerate(models):
                            o_ = Model(mdl.train_inputs[0], mdl.train_targets, make_lik(mb, False), mb).double()
                            randomize(o_, f"mlhpo:{cfg}:{i_}")
                            others.append(o_)
                        ml.load_state_dict(gpytorch.models.IndependentModelList(*others).state_dict())
                    elif upd == "load_state_dict":
                        other = Model(mem.train_inputs[0], mem.train_targets, make_lik(mb, False), mb).double()
                        randomize(other, f"mlho:{cfg}")
                        mem.load_state_dict(other.state_dict())
                    else:
                        nn_ = ns[j] + (1 if upd == "resize" else 0)
                        nx = _randn(g, *mb, nn_, D_IN) if upd != "targets" else None
                        ny = (_randn(g, *mb, nn_) + 1.0) if upd != "inputs" else None
                        mem.set_train_data(inputs=nx, targets=ny, strict=(upd != "resize"))
                        events.append(100 + 10 * j + (1 if nx is None else 2 if ny is None else 3))
                        versions += [(t, newcode) for t in (nx, ny) if t is not None]
                    # ---- after the update: the members NOW, rebuilt from scratch
                    fresh = []
                    for mdl in models:
                        f_ = Model(mdl.train_inputs[0], mdl.train_targets, make_lik(mb, False), mb).double()
                        f_.load_state_dict(mdl.state_dict())
                        fresh.append(f_)
                    def check_eval(stage):
                        ml.eval()
                        pouts = ml(*test)
                        for i, (o, f_) in enumerate(zip(pouts, fresh)):
                            f_.eval()
                            w = f_(test[i])
                            if not (o.mean.shape == w.mean.shape and close(o.mean, w.mean) and close(o.covariance_matrix, w.covariance_matrix)):
                                ctx.fail("model_list_hist:posterior", f"IndependentModelList after the history {tag} ({stage}): posterior {i} is "
                                         f"not the posterior of member {i} rebuilt from its current data and state: {err(o.mean, w.mean)}",
                                         dict(rp, what="posterior", member=i, stage=stage))
                    if pre in ("all", "eval"):
                        check_eval("still in eval mode, no train() in between")
                    li, lt = read_inputs(), read_targets()
                    for name, got, want in (("train_inputs", [t[0] for t in li], [m_.train_inputs[0] for m_ in models]),
                                            ("train_targets", list(lt), [m_.train_targets for m_ in models])):
                        if len(got) != k or any(a.shape != b.shape or not torch.equal(a, b) for a, b in zip(got, want)):
                            ctx.fail(f"model_list_hist:{name}", f"IndependentModelList.{name} after the history {tag} is not the members' "
                                     f"current {name} (versions returned {reads[-2 if name == 'train_inputs' else -1]}, member {j} was "
                                     f"updated to version {newcode})", dict(rp, what=name))
                    ml.train()
                    for f_ in fresh:
                        f_.train()
                    outs = ml(*ml.train_inputs)
                    want_out = [f_(f_.train_inputs[0]) for f_ in fresh]
                    for i, (o, w) in enumerate(zip(outs, want_out)):
                        if not (o.mean.shape == w.mean.shape and close(o.mean, w.mean) and close(o.covariance_matrix, w.covariance_matrix)):
                            ctx.fail("model_list_hist:outputs", f"IndependentModelList after the history {tag}: model(*model.train_inputs)[{i}] "
                                     f"is not member {i}'s current prior: {err(o.mean, w.mean)}", dict(rp, what="outputs", member=i))
                    for oname, obj in objectives.items():
                        got = obj(outs, ml.train_targets)
                        cls = gpytorch.mlls.ExactMarginalLogLikelihood if oname == "exact MLL" else gpytorch.mlls.LeaveOneOutPseudoLikelihood
                        member_vals = [cls(f_.likelihood, f_)(w, f_.train_targets) for f_, w in zip(fresh, want_out)]
                        if tuple(got.shape) != tuple(mb):
                            ctx.fail("model_list_hist:sum_mll:shape", f"SumMarginalLogLikelihood({oname}) after the history {tag} has shape "
                                     f"{tuple(got.shape)}, the members' batch shape is {mb}", dict(rp, what=oname))
                            continue
                        gf = got.reshape(-1)
                        for e_ in range(gf.numel()):
                            vals = [v.reshape(-1)[e_].item() for v in member_vals]
                            lines.append("summll " + " ".join(C.rat_str(v) for v in vals))
                            recs.append(("summll", (k, gf[e_].item(), vals, mb, e_, "model_list_hist:sum_mll",
                                                    f"after the history {tag}: SumMarginalLogLikelihood({oname})(model(*model.train_inputs), "
                                                    f"model.train_targets)"), dict(rp, what=oname, tol=1e-9)))
                    check_eval("after a train() / eval() cycle")
        except Exception as e:
            ctx.fail("model_list_hist:raises", f"IndependentModelList history {tag} raises {type(e).__name__}: {str(e)[:200]} while every "
                     f"member on its own evaluates", rp)
            continue
        # the GENERATED properties (Gen.BatchChoreo.modelListTrainInputs / Targets) run over the same history by the driver
        lines.append(f"mlhist {k} | {','.join(str(c) for c in events)}")
        recs.append(("mlhist", (reads,), rp))


# ------------------------------------------------------------------ driver comparison / entry points

def compare(ctx, lines, recs):
    replies = C.run_driver("C08", lines)
    mism = 0
    for (kind, data, want), line, rep in zip(recs, lines, replies):
        if kind == "a":
            r = parse_reply(rep)
            ctx.case("a|" + line, nontrivial=want is not None)
            if r == "bad-request" or r != want:
                mism += 1
                if mism <= 4:
                    ctx.broke("correspondence", "L1 tensor algebra vs torch", f"`{line}`\nmodel: {str(r)[:300]}\ntorch: {str(want)[:300]}")
        elif kind == "summllt":
            k, mb, gshape, gvals = data
            ctx.case(f"a|summllt|{k}|{mb}", nontrivial=True)
            ok = False
            try:
                sh_, _, vals_ = rep.partition(";vals=")
                mshape = [] if sh_ == "shape=-" else [int(t) for t in sh_[len("shape="):].split(",")]
                mvals = [float(C.parse_rat(t)) for t in vals_.split()]
                ok = mshape == gshape and len(mvals) == len(gvals) and all(
                    abs(a - b) <= 1e-12 * max(1.0, abs(b)) for a, b in zip(gvals, mvals))
            except Exception:
                ok = False
            if not ok:
                ctx.broke("correspondence", "generated SumMarginalLogLikelihood reduction vs the code",
                          f"`{line[:120]}`: model {rep[:160]}; code shape {gshape} values {gvals[:4]}")
        elif kind == "norm":
            what, c, vb, vr = data
            ctx.case(f"a|{line}|{what}|{want.get('param_batch')}|{want.get('data_batch')}", nontrivial=True)
            try:
                parts = dict(kv.split("=") for kv in rep.split(";"))
                nb, nr = int(parts["n"]), int(parts["r"])
                ok = all(abs((a + c) * nb - (b + c) * nr) <= 1e-8 * max(1.0, abs((b + c) * nr)) for a, b in zip(vb, vr))
                if not ok:
                    # the relation can only be judged when the code's own ratio (r_b + c) / (v_b + c) is one constant over the
                    # batch elements; otherwise the batched values differ from the replicas for another reason (reported by
                    # the replica comparison itself) and nothing follows about the normaliser
                    ratios = [(b + c) / (a + c) for a, b in zip(vb, vr) if abs(a + c) > 1e-12]
                    if not ratios or max(ratios) - min(ratios) > 1e-7 * max(1.0, abs(ratios[0])):
                        ctx.count("norm_tie_not_judged")
                        ok = True
            except Exception:
                ok = False
            if not ok:
                ctx.broke("correspondence", f"generated normaliser of {what} vs the code",
                          f"`{line}` -> {rep[:80]}: with v = res/N - c, (v_batched + c)*N_batched != (v_replica + c)*N_replica; "
                          f"batched {vb[:3]} replica {vr[:3]}")
        elif kind == "fillmask":
            site, code_mask = data
            ctx.case(f"a|{line}", nontrivial=True)
            r = parse_reply(rep)
            if not isinstance(r, dict) or r.get("flat") != code_mask:
                ctx.broke("correspondence", f"generated 'fill' mask (site {site}) vs the code",
                          f"`{line}`\nmodel: {str(r)[:200]}\ncode : {code_mask}")
        elif kind == "mlhist":
            (reads,) = data
            ctx.case(f"a|{line}|{want.get('history')}", nontrivial=True)
            try:
                body = rep.split(";")[0][len("r="):]
                mreads = [[] if t in ("-", "") else [int(v) for v in t.split(",")] for t in body.split("/")] if body else []
            except Exception:
                mreads = None
            if mreads != reads:
                ctx.broke("correspondence", "generated IndependentModelList properties vs the code",
                          f"history {want.get('history')} `{line}`: model reads {mreads}, code reads {reads}")
        elif kind == "summll":
            k, got, vals, mb, e_, key, desc = data
            ctx.case(f"b|{key}|{k}|{mb}|{e_}|{want.get('history', '')}", nontrivial=k > 1)
            try:
                exact = float(C.parse_rat(rep))
            except Exception:
                ctx.broke("correspondence", "summll reply", rep[:200])
                continue
            tol = want.get("tol", 1e-12)
            if not abs(got - exact) <= tol * max(1.0, abs(exact)):
                ctx.fail(key, f"{desc} of {k} members (member batch {mb}, batch element {e_}) returns "
                         f"{got!r}, the mean of the members' values {vals} is {exact!r}", want)
    ctx.count("model_mismatches_a", mism)


def correspondence(ctx, want_driver=True):
    import torch
    torch.set_num_threads(2)
    torch.set_default_dtype(torch.float64)
    del _TIE[:]
    try:
        rng = ctx.rng("pairs")
        P = pairs_all()
        if ctx.quick:
            sel = {"kernels": pairs_cover(rng, 6), "means": P, "liks": pairs_cover(rng, 20),
                   "exact": pairs_cover(rng, 4), "var": pairs_cover(rng, 0), "mixed": None,
                   "nan": NAN_PAIRS_QUICK + rng.sample([x for x in P if x not in NAN_PAIRS_QUICK], 3),
                   "nanseq": NAN_SEQ_PAIRS_QUICK + rng.sample([x for x in P if x not in NAN_SEQ_PAIRS_QUICK], 1),
                   "reload": RELOAD_PAIRS_QUICK + rng.sample([x for x in P if x not in RELOAD_PAIRS_QUICK], 2)}
        else:
            sel = {k: P for k in ("kernels", "means", "liks", "exact", "var", "nan", "reload")}
            sel["nanseq"] = [x for i, x in enumerate(P) if i % 3 == 0] + NAN_SEQ_PAIRS_QUICK
            sel["mixed"] = None
        ctx.notes["pairs_total"] = len(P)
        ctx.notes["pairs_used"] = {k: len(v) for k, v in sel.items() if v is not None}
        T = Tables(P)
        # the driver's tables against torch's own broadcasting (exact)
        for (pb, db) in P:
            bs, pidx, didx = T.get(pb, db)
            ctx.case(f"a|replica {pb} {db}")
            np_, nd_ = max(1, int(torch.tensor(pb).prod()) if pb else 1), max(1, int(torch.tensor(db).prod()) if db else 1)
            A, B = torch.broadcast_tensors(torch.arange(np_).reshape(pb), torch.arange(nd_).reshape(db))
            if tuple(A.shape) != bs or A.reshape(-1).tolist() != pidx or B.reshape(-1).tolist() != didx:
                ctx.broke("correspondence", "replicaTable vs torch.broadcast_tensors", f"{pb} {db}: {bs} {pidx} {didx}")
        for rnd in range(1 if ctx.quick else 4):
            _SALT[0] = rnd
            try:   # k == n: kernel batch size equal to the number of points, inputs with fewer batch dims than the kernel
                part_b_kernels(ctx, T, K_EQ_N if ctx.quick else [(p_, d_) for (p_, d_) in P if p_ and p_[-1] == 3], n1=3)
            except Exception:
                import traceback
                ctx.broke("correspondence", "part_b_kernels (k == n) crashed", traceback.format_exc())
            for part, key in ((part_b_kernels, "kernels"), (part_b_means, "means"), (part_b_likelihoods, "liks"),
                              (part_b_exact, "exact"), (part_b_mixed, "mixed"), (part_b_variational, "var"), (part_b_nan, "nan"), (part_b_nan_seq, "nanseq"),
                              (part_b_reload, "reload")):
                if key in ("nan", "nanseq", "reload") and rnd >= 1:
                    continue           # one value round of the NaN-policy cells (thorough: all pairs with >= 2 batch elements)
                try:
                    part(ctx, T, sel[key])
                except Exception:      # one family crashing must not hide the others
                    import traceback
                    ctx.broke("correspondence", f"{part.__name__} crashed", traceback.format_exc())
        _SALT[0] = 0
        lines, recs = [], []
        import traceback
        try:
            part_b_model_list(ctx, lines, recs)
        except Exception:
            ctx.broke("correspondence", "part_b_model_list crashed", traceback.format_exc())
        try:
            part_b_model_list_hist(ctx, lines, recs, hist_configs(ctx.quick, ctx.rng("hist")))
        except Exception:
            ctx.broke("correspondence", "part_b_model_list_hist crashed", traceback.format_exc())
        for ln, rc in _TIE:
            lines.append(ln)
            recs.append(rc)
        del _TIE[:]
        try:
            part_a(ctx, lines, recs)
        except Exception:
            ctx.broke("correspondence", "part_a crashed", traceback.format_exc())
        compare(ctx, lines, recs)
    finally:
        torch.set_default_dtype(torch.float32)
        hist = {}
        for f in ctx.failures:
            hist[f["key"]] = hist.get(f["key"], 0) + 1
        ctx.notes["failure_keys"] = hist
    hist = {}
    for f in ctx.failures:
        hist[f["key"]] = hist.get(f["key"], 0) + 1
    ctx.notes["failure_keys"] = hist


def search(ctx, broken):
    """the proof or the driver broke: replicas can also be named by torch's own broadcasting"""
    if ctx.failures:
        return
    global Tables
    import torch

    class TorchTables:
        def __init__(self, pairs):
            pass

        def get(self, pb, db):
            np_ = int(torch.tensor(pb).prod()) if pb else 1
            nd_ = int(torch.tensor(db).prod()) if db else 1
            A, B = torch.broadcast_tensors(torch.arange(np_).reshape(pb), torch.arange(nd_).reshape(db))
            return tuple(A.shape), A.reshape(-1).tolist(), B.reshape(-1).tolist()
    torch.set_default_dtype(torch.float64)
    try:
        T = TorchTables(None)
        rng = ctx.rng("pairs")
        part_b_kernels(ctx, T, pairs_cover(rng, 6))
        part_b_means(ctx, T, pairs_all())
        part_b_likelihoods(ctx, T, pairs_cover(rng, 20))
        part_b_exact(ctx, T, pairs_cover(rng, 4))
        part_b_variational(ctx, T, pairs_cover(rng, 0))
        part_b_nan(ctx, T, NAN_PAIRS_QUICK)
        part_b_nan_seq(ctx, T, NAN_SEQ_PAIRS_QUICK)
        part_b_reload(ctx, T, RELOAD_PAIRS_QUICK)
        lines, recs = [], []
        part_b_model_list(ctx, lines, recs)
        part_b_model_list_hist(ctx, lines, recs, hist_configs(True, ctx.rng("hist")))
        compare_mirror(ctx, lines, recs)
    finally:
        del _TIE[:]
        torch.set_default_dtype(torch.float32)


def compare_mirror(ctx, lines, recs):
    """the driver is not available: judge the `summll` records with an exact Python mirror (mean of the members' values
    in rational arithmetic); records that only tie the generated code to the implementation are skipped"""
    from fractions import Fraction
    for (kind, data, want), line in zip(recs, lines):
        if kind != "summll":
            continue
        k, got, vals, mb, e_, key, desc = data
        exact = float(sum((Fraction(v) for v in vals), Fraction(0)) / len(vals))
        if not abs(got - exact) <= want.get("tol", 1e-12) * max(1.0, abs(exact)):
            ctx.fail(key, f"{desc} of {k} members (member batch {mb}, batch element {e_}) returns {got!r}, the mean of the "
                     f"members' values {vals} is {exact!r}", want)


def replay(ctx, payload):
    import torch
    c = payload["case"]
    os.environ["VERIF_SEED"] = str(payload.get("seed", 0))
    _SALT[0] = c.get("round", 0)
    torch.set_default_dtype(torch.float64)

    class Sub:
        def __init__(self):
            self.failures, self.notes, self.quick, self.tier = [], {}, True, "quick"

        def case(self, *a, **k):
            pass

        def count(self, *a, **k):
            pass

        def fail(self, key, what, replay):
            self.failures.append(key)

        def broke(self, *a, **k):
            pass
    sub = Sub()
    try:
        if c.get("part") in ("model_list",):
            lines, recs = [], []
            part_b_model_list(sub, lines, recs, only=(c["members"], c.get("member_batch", [])))
            if lines:
                compare(sub, lines, recs)
            return not sub.failures
        if c.get("part") == "model_list_hist":
            lines, recs = [], []
            part_b_model_list_hist(sub, lines, recs, [tuple([c["config"][0], tuple(c["config"][1])] + c["config"][2:])], only=c["config"])
            compare_mirror(sub, lines, recs)
            return not sub.failures
        if c.get("part") in ("nan_seq", "reload"):
            pb, db = tuple(c["param_batch"]), tuple(c["data_batch"])
            if c["part"] == "nan_seq":
                part_b_nan_seq(sub, Tables([(pb, db)]), [(pb, db)], only=c["sequence"])
            else:
                part_b_reload(sub, Tables([(pb, db)]), [(pb, db)], only=c["kind"])
            return not sub.failures
        if c.get("part") == "nan":
            pb, db = tuple(c["param_batch"]), tuple(c["data_batch"])
            part_b_nan(sub, Tables([(pb, db)]), [(pb, db)], only=c["policy"])
            return not sub.failures
        if c.get("part") == "mixed":
            part_b_mixed(sub, Tables(pairs_all()), only=[c["mean_batch"], c["kernel_batch"], c["x_batch"]])
            return not sub.failures
        pb, db = tuple(c["param_batch"]), tuple(c["data_batch"])
        T = Tables([(pb, db)])
        fn = {"kernel": lambda: part_b_kernels(sub, T, [(pb, db)], names=[c["family"]], n1=c.get("n1", 4)),
              "mean": lambda: part_b_means(sub, T, [(pb, db)]),
              "likelihood": lambda: part_b_likelihoods(sub, T, [(pb, db)]),
              "exact": lambda: part_b_exact(sub, T, [(pb, db)]),
              "variational": lambda: part_b_variational(sub, T, [(pb, db)])}[c["part"]]
        fn()
        return not sub.failures
    finally:
        del _TIE[:]
        torch.set_default_dtype(torch.float32)

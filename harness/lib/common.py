"""Shared spine of the /verif harness: paths, PRNG, exact rationals, Lean runner, audit, evidence, findings.

Runs under /venv/bin/python (torch + /repo's gpytorch in-process).  The real code that is driven is
`$VERIF_REPO` (default /repo): it is put first on sys.path so that the *current working tree* is imported.
"""
import hashlib
import json
import os
import random
import re
import subprocess
import sys
import time
from fractions import Fraction

VERIF = os.path.dirname(os.path.dirname(os.path.dirname(os.path.abspath(__file__))))
LEAN_DIR = os.path.join(VERIF, "lean")
REPO = os.environ.get("VERIF_REPO", "/repo")
ALLOWED_AXIOMS = {"propext", "Classical.choice", "Quot.sound"}
FORBIDDEN = re.compile(r"\b(sorry|admit|native_decide|bv_decide|implemented_by|unsafe)\b|^\s*axiom\s|maxHeartbeats\s+0\b")


def use_repo():
    """Make `import gpytorch` resolve to $VERIF_REPO's working tree."""
    if sys.path[0] != REPO:
        sys.path.insert(0, REPO)
    os.environ.setdefault("GPYTORCH_VERIF", "1")
    os.environ.setdefault("OMP_NUM_THREADS", "2")
    os.environ.setdefault("MKL_NUM_THREADS", "2")


def seed():
    try:
        return int(os.environ.get("VERIF_SEED", "0"))
    except ValueError:
        return 0


def tier(default="quick"):
    t = os.environ.get("VERIF_TIER", default)
    return t if t in ("quick", "thorough") else default


class Rng(random.Random):
    """All random choices of a check derive from this one state (seeded by VERIF_SEED + a stream label)."""

    def __init__(self, label=""):
        h = hashlib.sha256(f"{seed()}:{label}".encode()).digest()
        super().__init__(int.from_bytes(h[:8], "big"))

    def torch_seed(self):
        return self.getrandbits(31)


# ---------------------------------------------------------------- exact rationals

def frac(x):
    if isinstance(x, Fraction):
        return x
    if isinstance(x, int):
        return Fraction(x)
    return Fraction(*float(x).as_integer_ratio())


def rat_str(x):
    f = frac(x)
    return str(f.numerator) if f.denominator == 1 else f"{f.numerator}/{f.denominator}"


def parse_rat(s):
    return Fraction(s)


def mat_tokens(M):
    """2-D array-like (torch / numpy / lists) -> 'r c v11 v12 ...' with exact rationals."""
    rows = [[v for v in row] for row in (M.tolist() if hasattr(M, "tolist") else M)]
    r = len(rows)
    c = len(rows[0]) if r else 0
    return f"{r} {c} " + " ".join(rat_str(v) for row in rows for v in row)


def vec_tokens(v):
    vals = v.tolist() if hasattr(v, "tolist") else list(v)
    return f"{len(vals)} 1 " + " ".join(rat_str(x) for x in vals)


def parse_mat(tokens, pos=0):
    """Inverse of the Lean `showRows`: returns (rows as Fractions, next position)."""
    r, c = int(tokens[pos]), int(tokens[pos + 1])
    vals = [Fraction(t) for t in tokens[pos + 2: pos + 2 + r * c]]
    return [vals[i * c:(i + 1) * c] for i in range(r)], pos + 2 + r * c


def fmat_to_float(rows):
    return [[float(v) for v in row] for row in rows]


# ---------------------------------------------------------------- Lean

def _run(cmd, cwd=LEAN_DIR, inp=None, timeout=3600):
    p = subprocess.run(cmd, cwd=cwd, input=inp, capture_output=True, text=True, timeout=timeout)
    return p.returncode, p.stdout, p.stderr


def lake_build(targets, timeout=3600):
    """Returns (ok, log)."""
    rc, out, err = _run(["lake", "build"] + list(targets), timeout=timeout)
    return rc == 0, out + err


def run_driver(name, lines, timeout=3600):
    """Pipe `lines` to `lake env lean --run drivers/<name>.lean`; returns list of reply lines.
    Raises RuntimeError when the driver itself fails (does not build / crashes / wrong line count)."""
    inp = "\n".join(lines) + "\n"
    rc, out, err = _run(["lake", "env", "lean", "--run", f"drivers/{name}.lean"], inp=inp, timeout=timeout)
    if rc != 0:
        raise RuntimeError(f"driver {name} failed rc={rc}: {err[-2000:]}{out[-500:]}")
    res = out.split("\n")
    if res and res[-1] == "":
        res.pop()
    # lean may print warnings of the driver file itself before running: they go to stdout; strip them
    res = [l for l in res if not _is_lean_diag(l)]
    if len(res) != len(lines):
        raise RuntimeError(f"driver {name}: {len(lines)} requests but {len(res)} replies; stderr={err[-1000:]}")
    return res


_DIAG = re.compile(r"^(drivers/[\w.]+:\d+:\d+: (warning|error)|Hint:|Note:|\s+\[apply\]|\s*$)")


def _is_lean_diag(line):
    return bool(_DIAG.match(line))


def strip_comments(src):
    """Remove Lean comments (nested block comments and line comments) for the forbidden-token audit."""
    out = []
    i, depth, n = 0, 0, len(src)
    while i < n:
        if src.startswith("/-", i):
            depth += 1
            i += 2
        elif depth and src.startswith("-/", i):
            depth -= 1
            i += 2
        elif depth:
            i += 1
        elif src.startswith("--", i):
            j = src.find("\n", i)
            i = n if j < 0 else j
        else:
            out.append(src[i])
            i += 1
    return "".join(out)


def module_file(mod):
    return os.path.join(LEAN_DIR, *mod.split(".")) + ".lean"


def transitive_local_imports(mod, seen=None):
    seen = seen if seen is not None else []
    if mod in seen:
        return seen
    f = module_file(mod)
    if not os.path.exists(f):
        return seen
    seen.append(mod)
    for m in re.findall(r"^import\s+(GPVerif[\w.]*)", open(f).read(), flags=re.M):
        transitive_local_imports(m, seen)
    return seen


def forbidden_tokens(mods):
    hits = []
    for m in mods:
        src = strip_comments(open(module_file(m)).read())
        for ln, line in enumerate(src.split("\n"), 1):
            if FORBIDDEN.search(line):
                hits.append(f"{m}:{ln}: {line.strip()[:120]}")
    return hits


def theorems_of(mod):
    """Fully qualified names of the theorems declared in a module (namespace-aware, simple parser)."""
    src = strip_comments(open(module_file(mod)).read())
    ns, names = [], []
    for line in src.split("\n"):
        m = re.match(r"^namespace\s+([\w.]+)", line)
        if m:
            ns.append(m.group(1))
            continue
        m = re.match(r"^end\s+([\w.]+)", line)
        if m and ns and ns[-1] == m.group(1):
            ns.pop()
            continue
        m = re.match(r"^(?:@\[[^\]]*\]\s*)?(?:private\s+|protected\s+)?theorem\s+([\w.'!?₀-₉]+)", line)
        if m:
            names.append(".".join(ns + [m.group(1)]))
    return names


def audit_axioms(mod, extra_imports=()):
    """`#print axioms` of every theorem of `mod`.  Returns (dict name -> set(axioms) | None, log)."""
    names = theorems_of(mod)
    os.makedirs(os.path.join(LEAN_DIR, ".audit"), exist_ok=True)
    f = os.path.join(LEAN_DIR, ".audit", mod.replace(".", "_") + ".lean")
    with open(f, "w") as fh:
        fh.write(f"import {mod}\n" + "".join(f"import {m}\n" for m in extra_imports))
        for n in names:
            fh.write(f"#print axioms {n}\n")
    rc, out, err = _run(["lake", "env", "lean", f])
    text = out + err
    res = {n: None for n in names}
    for m in re.finditer(r"'([^']+)' depends on axioms: \[([^\]]*)\]", text):
        res[m.group(1)] = set(a.strip() for a in m.group(2).replace("\n", " ").split(",") if a.strip())
    for m in re.finditer(r"'([^']+)' does not depend on any axioms", text):
        res[m.group(1)] = set()
    return res, text if rc != 0 else ""


# ---------------------------------------------------------------- evidence / findings

def write_evidence(pid, tier_, coverage, assumptions, wall_s, violations):
    os.makedirs(os.path.join(VERIF, "evidence"), exist_ok=True)
    ev = {
        "property_id": pid,
        "tier": tier_,
        "seed": seed(),
        "level": "proof",
        "coverage": coverage,
        "assumptions": assumptions,
        "wall_s": round(wall_s, 2),
        "violations": violations,
    }
    p = os.path.join(VERIF, "evidence", f"{pid}.json")
    with open(p, "w") as fh:
        json.dump(ev, fh, indent=1, default=str)
    return p


def known_findings(pid):
    p = os.path.join(VERIF, "known_findings.json")
    if not os.path.exists(p):
        return []
    data = json.load(open(p))
    return [f for f in data.get("findings", []) if f.get("property") == pid and f.get("status") == "known"]


def jsonable(x):
    if isinstance(x, Fraction):
        return rat_str(x)
    if isinstance(x, (list, tuple)):
        return [jsonable(v) for v in x]
    if isinstance(x, dict):
        return {str(k): jsonable(v) for k, v in x.items()}
    if hasattr(x, "tolist"):
        return jsonable(x.tolist())
    if isinstance(x, float):
        return x
    if isinstance(x, (int, str, bool)) or x is None:
        return x
    return repr(x)


def write_replay(pid, name, payload):
    d = os.path.join(VERIF, "evidence", "replays")
    os.makedirs(d, exist_ok=True)
    p = os.path.join(d, f"{pid}_{name}.json")
    with open(p, "w") as fh:
        json.dump(jsonable(payload), fh, indent=1)
    return p


class Timer:
    def __init__(self):
        self.t0 = time.time()

    def __call__(self):
        return time.time() - self.t0

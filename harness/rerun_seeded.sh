#!/bin/bash
# usage: harness/rerun_seeded.sh '<glob of seeded ids, e.g. C0[1-3]-*>' [parallel=4]
# Re-runs the committed checks against the seeded changes (each from a private copy of /verif, see try_seeded_iso.sh)
# and prints the verdict table (harness/seeded_verdicts.py).
pat="${1:-C*-*}"; par="${2:-4}"
cd /verif
ls -d seeded/$pat | xargs -P "$par" -I{} bash -c "harness/try_seeded_iso.sh {} quick 0 > /dev/null 2>&1"
python3 harness/seeded_verdicts.py "$pat"

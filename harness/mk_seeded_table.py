#!/usr/bin/env python3
"""Markdown table of seeded changes of the given rounds: id | rnd | what | committed check | first run | first reported key.
The committed-check verdict is read from seeded/<id>/check_output.txt (last run), the first-run verdict from meta.json."""
import glob, json, os, re, sys
sys.path.insert(0, os.path.dirname(os.path.abspath(__file__)))
from seeded_verdicts import verdict
rounds = {int(r) for r in sys.argv[1:]} or {3, 4}
def key_of(d):
    p = os.path.join(d, "check_output.txt")
    if not os.path.exists(p):
        return ""
    lines = open(p, errors="replace").read().splitlines()
    for i, l in enumerate(lines):
        if l.startswith("VIOLATION") and "no-failing-input-found" not in l and i + 1 < len(lines):
            return lines[i + 1].strip().split(": ")[0][:90]
    return ""
rows = []
for d in sorted(glob.glob("/verif/seeded/C*-*"), key=lambda s: (s.split("/")[-1].split("-")[0], int(s.split("-")[-1]))):
    m = json.load(open(d + "/meta.json"))
    if m.get("round") not in rounds:
        continue
    v, _ = verdict(d)
    summ = re.sub(r"\s+", " ", m.get("summary", "")).replace("|", "/")[:170]
    note = " (no longer a violation after fix c28e560)" if os.path.basename(d) == "C17-8" else ""
    rows.append(f"| {os.path.basename(d)} | {m['round']} | {summ} | {v}{note} | {m.get('first_run','?')} | `{key_of(d)}` |")
print("| id | rnd | what the change does | committed check | first run | first reported failure key |")
print("|---|---|---|---|---|---|")
print("\n".join(rows))

#!/venv/bin/python
"""Regenerate the Gen/*.lean files of the given properties from $VERIF_REPO (default /repo)."""
import importlib, os, sys
HERE = os.path.dirname(os.path.abspath(__file__)); sys.path.insert(0, HERE)
from lib import common as C
from run import Ctx
C.use_repo()
for pid in sys.argv[1:]:
    mod = importlib.import_module(f"props.{pid.lower()}")
    if hasattr(mod, "generate"):
        mod.generate(Ctx(pid.upper(), "quick")); print("regenerated", pid)

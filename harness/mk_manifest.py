#!/usr/bin/env python3
"""Regenerates /verif/MANIFEST.json from harness/manifest_table.json (one entry per claimed property)."""
import json
import os

V = os.path.dirname(os.path.dirname(os.path.abspath(__file__)))
table = json.load(open(os.path.join(V, "harness", "manifest_table.json")))
props = [json.loads(l)["id"] for l in open(os.path.join(V, "properties.jsonl"))]
checks, na = [], []
for pid in props:
    e = table.get(pid)
    if e and e.get("claimed"):
        checks.append({
            "property_id": pid,
            "quick_cmd": f"VERIF_TIER=quick ./check {pid} --tier quick",
            "thorough_cmd": f"VERIF_TIER=thorough ./check {pid} --tier thorough",
            "evidence_file": f"/verif/evidence/{pid}.json",
            "replay_cmd_template": f"./check {pid} --replay {{path}}",
            "engine": "lean4-gpverif",
            "level_claimed": {"category": "proof", "text": e["text"], "design_ref": e.get("design_ref", f"DESIGN.md §4 {pid}")},
            "level_note": e["note"],
            "technique": e["technique"],
        })
    else:
        na.append({"property_id": pid, "reason": (e or {}).get("reason", "check not built yet in this round (planned: DESIGN.md §4); nothing is claimed for it")})
m = {
    "version": 1,
    "setup_cmd": "cd /verif/lean && lake build",
    "hooks": {"guard": "GPYTORCH_VERIF", "enable": "no source hooks are needed: all observables are reachable by Python introspection (the harness sets GPYTORCH_VERIF=1 for uniformity)",
              "baseline_off_cmd": "cd /repo && /venv/bin/python -m pytest -ra -q -p no:cacheprovider --timeout=900 --continue-on-collection-errors",
              "source_commits": [], "add_only": True},
    "engines": [{"name": "lean4-gpverif", "path": "/verif/lean", "serves_properties": [c["property_id"] for c in checks],
                 "kind_free_text": "Lean 4.33 + Mathlib proofs about executable models (GPVerif/Model, regenerated GPVerif/Gen) tied to /repo by Python-AST translators and a line-protocol correspondence check (harness/)"}],
    "checks": checks,
    "not_applicable": na,
    "notes": "Entry point ./check <id> [--tier quick|thorough]. Exit 0 = holds on everything explored; exit 1 + VIOLATION line otherwise. See DESIGN.md.",
}
json.dump(m, open(os.path.join(V, "MANIFEST.json"), "w"), indent=1)
print(f"{len(checks)} claimed, {len(na)} not claimed")

#!/venv/bin/python
"""./check <Cnn> [--tier quick|thorough] [--replay file]

Per property:  (i) regenerate Gen/*.lean from $VERIF_REPO's working tree, (ii) lake build the property
modules, (iii) audit (forbidden tokens, #print axioms), (iv) correspondence model <-> implementation,
(v) when (i)-(iv) break: failing-input search against the implementation, (vi) evidence + exit code.
"""
import argparse
import fnmatch
import importlib
import json
import os
import sys
import traceback

HERE = os.path.dirname(os.path.abspath(__file__))
sys.path.insert(0, HERE)
from lib import common as C  # noqa: E402


class Ctx:
    def __init__(self, pid, tier):
        self.pid, self.tier = pid, tier
        self.evaluations = 0
        self.distinct = set()
        self.samples = []
        self.failures = []   # dict(key, what, replay)
        self.notes = {}      # free-form coverage extras (distributions, branch counts …)
        self.assumption_lines = []
        self.broken = []     # (kind, name, detail): proof / tie / driver breakages
        self.counters = {}

    quick = property(lambda s: s.tier == "quick")

    def rng(self, label=""):
        return C.Rng(f"{self.pid}:{label}")

    def case(self, desc, nontrivial=True, sample=None):
        """Count one explored case; `desc` must identify it (distinctness is by desc)."""
        self.evaluations += 1
        if nontrivial:
            self.distinct.add(desc if isinstance(desc, str) else json.dumps(C.jsonable(desc), sort_keys=True))
        if sample is not None and len(self.samples) < 6:
            self.samples.append(C.jsonable(sample))

    def count(self, name, k=1):
        self.counters[name] = self.counters.get(name, 0) + k

    def fail(self, key, what, replay):
        """A concrete input on which the implementation breaks the property (or disagrees with the model)."""
        self.failures.append({"key": key, "what": what, "replay": replay})

    def broke(self, kind, name, detail=""):
        self.broken.append((kind, name, detail[-3000:]))

    def assumption(self, line):
        self.assumption_lines.append(line)


def main():
    ap = argparse.ArgumentParser()
    ap.add_argument("pid")
    ap.add_argument("--tier", default=None)
    ap.add_argument("--replay", default=None)
    a = ap.parse_args()
    pid = a.pid.upper()
    tier = a.tier or C.tier()
    os.environ["VERIF_TIER"] = tier
    T = C.Timer()
    C.use_repo()
    mod = importlib.import_module(f"props.{pid.lower()}")
    ctx = Ctx(pid, tier)

    if a.replay:
        payload = json.load(open(a.replay))
        ok = mod.replay(ctx, payload)
        print("REPLAY", "reproduced" if not ok else "not-reproduced")
        sys.exit(0 if ok else 1)

    obligations, discharged, axioms_seen = 0, 0, set()
    prop_modules = list(getattr(mod, "PROP_MODULES", []))
    build_targets = list(getattr(mod, "BUILD_TARGETS", prop_modules))

    # (i) translators
    if hasattr(mod, "generate"):
        try:
            mod.generate(ctx)
        except Exception as e:  # vocabulary exceeded or source moved: broken tie
            ctx.broke("translator", type(e).__name__, "".join(traceback.format_exception_only(type(e), e)))

    # (ii) build
    built = False
    if not any(k == "translator" for k, _, _ in ctx.broken):
        if tier == "thorough" and os.environ.get("VERIF_CLEAN", "1") == "1" and getattr(mod, "CLEAN_REBUILD", True):
            # rebuild the property modules themselves from scratch (dependencies stay cached)
            for m in prop_modules:
                for ext in ("olean", "ilean", "trace", "olean.hash", "ilean.hash"):
                    p = os.path.join(C.LEAN_DIR, ".lake/build/lib/lean", *m.split(".")) + "." + ext
                    if os.path.exists(p):
                        os.remove(p)
        ok, log = C.lake_build(build_targets)
        built = ok
        if not ok:
            errs = [l for l in log.split("\n") if "error" in l][:12]
            ctx.broke("proof", "lake build " + " ".join(build_targets), "\n".join(errs) + "\n" + log[-1500:])

    # (iii) audit
    thm_report = {}
    if built:
        mods = []
        for m in prop_modules:
            C.transitive_local_imports(m, mods)
        hits = C.forbidden_tokens(mods)
        if hits:
            ctx.broke("audit", "forbidden tokens", "\n".join(hits))
        for m in prop_modules:
            res, log = C.audit_axioms(m)
            for name, ax in res.items():
                obligations += 1
                if ax is not None and ax <= C.ALLOWED_AXIOMS:
                    discharged += 1
                    axioms_seen |= ax
                    thm_report[name] = sorted(ax)
                else:
                    ctx.broke("audit", f"axioms of {name}", f"{ax}\n{log[-800:]}")
        if tier == "thorough" and getattr(mod, "LEANCHECKER", True) and prop_modules:
            rc, out, err = C._run(["lake", "env", "leanchecker"] + prop_modules, timeout=3600)
            ctx.notes["leanchecker_rc"] = rc
            if rc != 0:
                ctx.broke("audit", "leanchecker", (out + err)[-1500:])
    else:
        obligations = max(1, sum(len(C.theorems_of(m)) for m in prop_modules if os.path.exists(C.module_file(m))))

    # (iv) correspondence (uses only Model/* and Gen/* through the drivers; runs even when a proof broke,
    #      provided the driver still builds — it is then part of the failing-input search)
    try:
        mod.correspondence(ctx)
    except Exception as e:
        ctx.broke("correspondence", type(e).__name__, traceback.format_exc())

    # (iv-b) corpus of past failures: every input that once exposed a defect or a seeded change (corpus/<Cnn>/*.json,
    #        replay payloads) is replayed against the current tree; thorough tier (VERIF_CORPUS=1 forces it in quick)
    cdir = os.path.join(C.VERIF, "corpus", pid)
    if os.path.isdir(cdir) and (tier == "thorough" or os.environ.get("VERIF_CORPUS") == "1") and not ctx.broken:
        import contextlib
        import io
        t_c = C.Timer()
        ran = 0
        for fn in sorted(os.listdir(cdir)):
            if not fn.endswith(".json") or t_c() > float(os.environ.get("VERIF_CORPUS_BUDGET", "240")):
                continue
            try:
                payload = json.load(open(os.path.join(cdir, fn)))
                sub = Ctx(pid, tier)
                buf = io.StringIO()
                with contextlib.redirect_stdout(buf):
                    ok = mod.replay(sub, payload)
                ran += 1
                if not ok:
                    ctx.fail("corpus:" + str(payload.get("key", fn)), f"corpus entry {fn} (origin {payload.get('origin', '?')}) "
                             f"fails again on this tree: {buf.getvalue()[-300:]}", payload.get("case"))
            except Exception as e:
                ctx.notes.setdefault("corpus_errors", []).append(f"{fn}: {type(e).__name__}: {str(e)[:120]}")
        ctx.count("corpus_entries_replayed", ran)

    # (v) failing-input search when something is no longer shown
    if ctx.broken and not ctx.failures and hasattr(mod, "search"):
        try:
            mod.search(ctx, ctx.broken)
        except Exception:
            ctx.notes["search_error"] = traceback.format_exc()[-1500:]

    # (vi) classify
    known = C.known_findings(pid)
    violations, known_hit = [], {}
    for f in ctx.failures:
        k = next((kf for kf in known if fnmatch.fnmatch(f["key"], kf["match"])), None)
        if k is not None:
            known_hit.setdefault(k["match"], (k, 0))
            known_hit[k["match"]] = (k, known_hit[k["match"]][1] + 1)
        else:
            violations.append(f)
    for k, (kf, n) in known_hit.items():
        print(f"KNOWN-FINDING: property={pid} {kf['what']} [{n} case(s) this run]")

    exit_code = 0
    seen_keys = set()
    for f in violations:
        if f["key"] in seen_keys:
            continue
        seen_keys.add(f["key"])
        if len(seen_keys) > 8:
            break
        path = C.write_replay(pid, f"{len(seen_keys)}", {"property": pid, "key": f["key"], "what": f["what"],
                                                         "seed": C.seed(), "tier": tier, "broken": ctx.broken,
                                                         "case": f["replay"]})
        print(f"VIOLATION property={pid} replay={path}")
        print(f"  {f['key']}: {f['what']}"[:400])
        exit_code = 1
    if ctx.broken and not violations:
        # no concrete input — but if all failures found were known findings and nothing else broke we pass
        path = C.write_replay(pid, "unproved", {"property": pid, "no_longer_checks": ctx.broken, "seed": C.seed(),
                                                "tier": tier})
        print(f"VIOLATION property={pid} replay={path} no-failing-input-found")
        for k, n, d in ctx.broken[:4]:
            print(f"  broken {k}: {n}: {d[:600]}")
        exit_code = 1

    coverage = {
        "obligations": max(obligations, 1),
        "discharged": discharged,
        "checker_cmd": "cd /verif/lean && lake build " + " ".join(build_targets) + " && lake env lean .audit/<module>.lean  (#print axioms)"
                       + (" && lake env leanchecker " + " ".join(prop_modules) if tier == "thorough" else ""),
        "trusted_base": ["Lean 4.33 kernel", "Mathlib v4.33 (compiled)", "axioms used: " + ", ".join(sorted(axioms_seen) or ["none"]),
                         "harness/run.py + harness/lib (correspondence, tolerance)"] + list(getattr(mod, "TRUSTED", [])),
        "theorems": thm_report,
        "evaluations": ctx.evaluations,
        "distinct_nontrivial": len(ctx.distinct),
        "rule": getattr(mod, "RULE", ""),
        "samples": ctx.samples or [{"note": "no correspondence cases ran"}],
        "traces_validated_against_impl": ctx.evaluations,
        "counters": ctx.counters,
        "known_findings_hit": {k: n for k, (_, n) in known_hit.items()},
        "broken": [list(b) for b in ctx.broken],
        "exhaustive": bool(getattr(mod, "EXHAUSTIVE", False)),
    }
    coverage.update(ctx.notes)
    if discharged == 0:  # schema: a proof-level claim needs discharged >= 1; a broken run reports the generic counts
        coverage["discharged_count"] = coverage.pop("discharged")
    C.write_evidence(pid, tier, coverage, list(getattr(mod, "ASSUMPTIONS", [])) + ctx.assumption_lines, T(),
                     len(seen_keys) if violations else (1 if exit_code else 0))
    print(f"{pid} tier={tier} seed={C.seed()} theorems={discharged}/{obligations} cases={ctx.evaluations} "
          f"distinct={len(ctx.distinct)} failures={len(ctx.failures)} known={sum(n for _, n in known_hit.values())} "
          f"wall={T():.1f}s exit={exit_code}")
    sys.exit(exit_code)


if __name__ == "__main__":
    main()

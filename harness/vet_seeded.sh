#!/bin/bash
# usage: harness/vet_seeded.sh <candidate-dir> <new-id e.g. C07-7>
# Confirms an independently produced change before it is kept under seeded/<id>/:
#   (1) the patch applies to a scratch worktree of /repo's HEAD and gpytorch still imports,
#   (2) demo.py exits 0 without the change and non-zero with it,
#   (3) the property's slice of the existing test-suite passes with the change exactly as without it
#       (test list from harness/mk_mut_prompt3.py; failures that also occur without the change are ignored),
#   (4) runs the committed check against it from a private copy of /verif (try_seeded_iso.sh).
# Writes <candidate-dir>/vet.json and, when (1)-(3) hold, copies the candidate to /verif/seeded/<id>/.
set -u
c="$(realpath "$1")"; id="$2"; pid="${id%%-*}"
export OMP_NUM_THREADS=2
tests=$(python3 - "$pid" <<'EOF'
import re,sys
src=open('/verif/harness/mk_mut_prompt3.py').read()
ns={}; exec(src[src.index('TESTS = {'):src.index('pid = sys.argv[1]')], ns); print(ns['TESTS'][sys.argv[1]])
EOF
)
wt=$(mktemp -d /tmp/vetwt.XXXXXX); rmdir "$wt"
git -C /repo worktree add -q "$wt" HEAD || exit 2
cp /repo/gpytorch/version.py "$wt/gpytorch/" 2>/dev/null
run_demo() { (cd "$c" && PYTHONPATH="$wt" timeout 900 /venv/bin/python demo.py > "$c/$1" 2>&1; echo $?); }
run_tests() { (cd "$wt" && PYTHONPATH="$wt" timeout 3000 /venv/bin/python -m pytest -q -p no:cacheprovider $tests 2>&1 | tail -40 > "$c/$1"; grep -E "^(FAILED|ERROR)" "$c/$1" | sed 's/ - .*//' | sort > "$c/$1.failed"; tail -1 "$c/$1"); }
d0=$(run_demo demo_clean.txt)
t0=$(run_tests tests_clean.txt)
if ! git -C "$wt" apply "$c/patch.diff"; then echo "$id PATCH-DOES-NOT-APPLY"; git -C /repo worktree remove --force "$wt"; exit 2; fi
imp=$(PYTHONPATH="$wt" /venv/bin/python -c "import gpytorch,sys; sys.exit(0 if gpytorch.__file__.startswith('$wt') else 3)" >/dev/null 2>&1; echo $?)
d1=$(run_demo demo_patched.txt)
t1=$(run_tests tests_patched.txt)
newfail=$(comm -13 "$c/tests_clean.txt.failed" "$c/tests_patched.txt.failed" | tr '\n' ' ')
git -C /repo worktree remove --force "$wt"
ok=0; [ "$imp" = 0 ] && [ "$d0" = 0 ] && [ "$d1" != 0 ] && [ -z "$newfail" ] && ok=1
python3 - "$c" "$id" "$imp" "$d0" "$d1" "$t0" "$t1" "$newfail" "$ok" "$tests" <<'EOF'
import json,sys
c,id_,imp,d0,d1,t0,t1,newfail,ok,tests=sys.argv[1:]
json.dump({"id":id_,"imports":imp=="0","demo_exit_clean":int(d0),"demo_exit_patched":int(d1),"tests":tests,
 "tests_clean":t0,"tests_patched":t1,"new_test_failures":newfail.split(),"confirmed":ok=="1"},open(c+"/vet.json","w"),indent=1)
EOF
echo "$id imports=$imp demo_clean=$d0 demo_patched=$d1 newfail=[$newfail] confirmed=$ok | clean: $t0 | patched: $t1"
if [ "$ok" = 1 ]; then
  mkdir -p /verif/seeded/$id; cp "$c/patch.diff" "$c/demo.py" "$c/meta.json" "$c/vet.json" /verif/seeded/$id/
  /verif/harness/try_seeded_iso.sh /verif/seeded/$id quick 0
fi

#!/bin/bash
# usage: harness/try_seeded_iso.sh <dir-with-patch.diff+meta.json> [tier] [seed]
# Like try_seeded.sh, but runs the check from a PRIVATE copy of /verif (so that concurrent work in /verif and other
# seeded runs do not race on Gen/*.lean or evidence/): copies /verif (incl. the lake build dir) to a scratch dir,
# applies the patch to a scratch worktree of /repo's HEAD, runs the property's check there through VERIF_REPO,
# writes <dir>/check_output.txt, prints the verdict lines, removes both scratch dirs.
set -u
d="$(realpath "$1")"; tier="${2:-quick}"; seed="${3:-0}"
pid=$(python3 -c "import json,sys;print(json.load(open('$d/meta.json'))['property'])")
wt=$(mktemp -d /tmp/seedwt.XXXXXX); rmdir "$wt"
vc=$(mktemp -d /tmp/seedvf.XXXXXX)
git -C /repo worktree add -q "$wt" HEAD || exit 2
cp /repo/gpytorch/version.py "$wt/gpytorch/" 2>/dev/null
if ! git -C "$wt" apply "$d/patch.diff"; then echo "PATCH-DOES-NOT-APPLY $d"; git -C /repo worktree remove --force "$wt"; rm -rf "$vc"; exit 2; fi
rsync -a --exclude .git --exclude seeded --exclude 'evidence/replays' /verif/ "$vc/"
cd "$vc"
VERIF_SEED="$seed" VERIF_REPO="$wt" timeout 3000 ./check "$pid" --tier "$tier" > "$d/check_output.txt" 2>&1
rc=$?
grep -E "^VIOLATION|^KNOWN-FINDING|tier=" "$d/check_output.txt" | cut -c1-300
# keep the first replay files next to the output (they live in the scratch copy)
mkdir -p "$d/replays"; for f in $(grep -oE "replay=[^ ]+" "$d/check_output.txt" | cut -d= -f2 | head -3); do cp "$vc/$f" "$d/replays/" 2>/dev/null || cp "$f" "$d/replays/" 2>/dev/null; done
rmdir "$d/replays" 2>/dev/null
echo "seeded=$d property=$pid rc=$rc"
cd /; git -C /repo worktree remove --force "$wt"; rm -rf "$vc"
exit 0

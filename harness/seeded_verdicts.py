#!/usr/bin/env python3
"""Verdict of the last recorded run of every seeded change (seeded/<id>/check_output.txt):
caught (VIOLATION with a concrete replay), unproved (only `no-failing-input-found`), missed (exit 0)."""
import glob, json, os, re, sys
def verdict(d):
    p = os.path.join(d, "check_output.txt")
    if not os.path.exists(p):
        return "not-run", ""
    t = open(p, errors="replace").read()
    v = [l for l in t.splitlines() if l.startswith("VIOLATION")]
    concrete = [l for l in v if "no-failing-input-found" not in l]
    last = [l for l in t.splitlines() if " tier=" in l and "exit=" in l]
    if concrete:
        return "caught", last[-1] if last else ""
    if v:
        return "unproved", last[-1] if last else ""
    if last and last[-1].rstrip().endswith("exit=0"):
        return "missed", last[-1]
    return "error", (last[-1] if last else t[-200:].replace("\n", " "))
if __name__ == "__main__":
    pat = sys.argv[1] if len(sys.argv) > 1 else "*"
    rows = []
    for d in sorted(glob.glob(f"/verif/seeded/{pat}"), key=lambda s: (s.split("/")[-1].split("-")[0], int(s.split("-")[-1]))):
        v, last = verdict(d)
        rows.append((os.path.basename(d), v))
        print(f"{os.path.basename(d):8s} {v:9s} {last[:110]}")
    from collections import Counter
    print(Counter(v for _, v in rows))

#!/bin/bash
# usage: harness/try_seeded.sh <seeded-dir> [tier]   — applies seeded/<id>/patch.diff to a scratch worktree of /repo's HEAD,
# runs the property's check against it (VERIF_REPO), prints the verdict, removes the worktree, regenerates Gen from /repo.
set -u
d="$1"; tier="${2:-quick}"
pid=$(python3 -c "import json,sys;print(json.load(open('$d/meta.json'))['property'])")
wt=$(mktemp -d /tmp/seedtest.XXXXXX); rmdir "$wt"
git -C /repo worktree add -q "$wt" HEAD || exit 2
cp /repo/gpytorch/version.py "$wt/gpytorch/" 2>/dev/null
if ! git -C "$wt" apply "$(realpath "$d/patch.diff")"; then echo "PATCH-DOES-NOT-APPLY $d"; git -C /repo worktree remove --force "$wt"; exit 2; fi
cd /verif
cp evidence/$pid.json /tmp/evidence_$pid.bak 2>/dev/null
VERIF_REPO="$wt" timeout 3000 ./check "$pid" --tier "$tier" > "$d/check_output.txt" 2>&1
rc=$?
grep -E "^VIOLATION|^KNOWN-FINDING|tier=" "$d/check_output.txt" | cut -c1-300
echo "seeded=$d property=$pid rc=$rc"
git -C /repo worktree remove --force "$wt"
cp /tmp/evidence_$pid.bak /verif/evidence/$pid.json 2>/dev/null
# restore generated files to the unchanged tree's version
/venv/bin/python /verif/harness/regen.py "$pid" >/dev/null 2>&1
exit 0

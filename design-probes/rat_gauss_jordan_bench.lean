abbrev Mat := Array (Array Rat)

def mmul (A B : Mat) : Mat :=
  A.map fun row => (List.range (B[0]!.size)).toArray.map fun j =>
    (List.range row.size).foldl (fun acc k => acc + row[k]! * (B[k]!)[j]!) 0

def identity (n : Nat) : Mat := (List.range n).toArray.map fun i => (List.range n).toArray.map fun j => if i = j then 1 else 0

-- Gauss-Jordan inverse with partial (first nonzero) pivoting
def inv? (A : Mat) : Option Mat := Id.run do
  let n := A.size
  let mut M : Mat := (List.range n).toArray.map fun i => A[i]! ++ (identity n)[i]!
  for c in [0:n] do
    -- find pivot
    let mut p := n
    for r in [c:n] do
      if p == n && (M[r]!)[c]! != 0 then p := r
    if p == n then return none
    let tmp := M[c]!
    M := M.set! c M[p]!
    M := M.set! p tmp
    let piv := (M[c]!)[c]!
    M := M.set! c (M[c]!.map (· / piv))
    for r in [0:n] do
      if r != c then
        let f := (M[r]!)[c]!
        if f != 0 then
          let rowc := M[c]!
          M := M.set! r ((M[r]!).zipWith (fun a b => a - f * b) rowc)
  return some (M.map fun row => row.extract n (2*n))

def mkA (n : Nat) : Mat :=
  (List.range n).toArray.map fun (i : Nat) => (List.range n).toArray.map fun (j : Nat) =>
    let d : Int := (i : Int) - (j : Int)
    (mkRat (9007199254740993 - 1234567 * (d*d) - 77 * (i : Int) * (j : Int)) 9007199254740992) / ((1 + d*d : Int) : Rat) + (if i = j then 1 else 0)

def main (args : List String) : IO Unit := do
  let n := args[0]!.toNat!
  let A := mkA n
  match inv? A with
  | none => IO.println "singular"
  | some X =>
    let P := mmul A X
    IO.println s!"check={P == identity n} num bits of X[0][0] num: {(X[0]!)[0]!.num.natAbs.log2}"

import Mathlib.Analysis.Matrix.PosDef
import Mathlib.Analysis.Matrix.Spectrum
import Mathlib.Analysis.SpecialFunctions.Log.Basic
import Mathlib.Tactic

open Matrix

-- C15 spectral lemma: log det X ≤ tr X − n for real symmetric PD X
theorem logdet_le_trace_sub {n : Type} [Fintype n] [DecidableEq n]
    (X : Matrix n n ℝ) (hX : X.PosDef) :
    Real.log X.det ≤ X.trace - Fintype.card n := by
  have hH := hX.isHermitian
  have hdet : X.det = ∏ i, hH.eigenvalues i := by
    have := hH.det_eq_prod_eigenvalues
    simpa using this
  have htr : X.trace = ∑ i, hH.eigenvalues i := by
    have := hH.trace_eq_sum_eigenvalues
    simpa using this
  have hpos : ∀ i, 0 < hH.eigenvalues i := fun i => hX.eigenvalues_pos i
  rw [hdet, htr, Real.log_prod (fun i _ => (hpos i).ne')]
  have : ∑ i, Real.log (hH.eigenvalues i) ≤ ∑ i, (hH.eigenvalues i - 1) :=
    Finset.sum_le_sum fun i _ => Real.log_le_sub_one_of_pos (hpos i)
  simpa [Finset.sum_sub_distrib] using this

#print axioms logdet_le_trace_sub

import Mathlib.Probability.Distributions.Gaussian.Real
import Mathlib.Probability.Moments.Variance
import Mathlib.Tactic

open MeasureTheory ProbabilityTheory
open scoped NNReal

-- E_{f ~ N(m,v)} (y - f)^2 = (y - m)^2 + v   (core of the Gaussian expected_log_prob closed form)
theorem gaussian_sq_dev (y m : ℝ) (v : ℝ≥0) :
    ∫ x, (y - x) ^ 2 ∂(gaussianReal m v) = (y - m) ^ 2 + v := by
  have hmean : ∫ x, x ∂(gaussianReal m v) = m := integral_id_gaussianReal
  have hvar : Var[fun x => x; gaussianReal m v] = v := variance_fun_id_gaussianReal
  have hL2 : MemLp (fun x : ℝ => x) 2 (gaussianReal m v) := by
    have h := memLp_id_gaussianReal (μ := m) (v := v) 2
    exact h
  have hint1 : Integrable (fun x : ℝ => x) (gaussianReal m v) := hL2.integrable (by norm_num)
  have hintsq : Integrable (fun x : ℝ => (x - m) ^ 2) (gaussianReal m v) := by
    have : MemLp (fun x : ℝ => x - m) 2 (gaussianReal m v) := hL2.sub (memLp_const m)
    simpa using this.integrable_sq
  have hv2 : ∫ x, (x - m) ^ 2 ∂(gaussianReal m v) = v := by
    rw [variance_eq_integral (by fun_prop)] at hvar
    simpa [hmean] using hvar
  have e : ∀ x : ℝ, (y - x) ^ 2 = (y - m) ^ 2 - 2 * (y - m) * (x - m) + (x - m) ^ 2 := by
    intro x; ring
  rw [show (fun x : ℝ => (y - x) ^ 2) = fun x => (y - m) ^ 2 - 2 * (y - m) * (x - m) + (x - m) ^ 2 from funext e]
  have hlin : Integrable (fun x : ℝ => 2 * (y - m) * (x - m)) (gaussianReal m v) :=
    (hint1.sub (integrable_const m)).const_mul _
  have hA : Integrable (fun x : ℝ => (y - m) ^ 2 - 2 * (y - m) * (x - m)) (gaussianReal m v) :=
    (integrable_const _).sub hlin
  have h1 := integral_add (μ := gaussianReal m v) hA hintsq
  have h2 := integral_sub (μ := gaussianReal m v) (integrable_const ((y - m) ^ 2)) hlin
  have h3 := integral_const_mul (μ := gaussianReal m v) (2 * (y - m)) (fun x : ℝ => x - m)
  have h4 := integral_sub (μ := gaussianReal m v) hint1 (integrable_const m)
  simp only [integral_const, smul_eq_mul] at h2 h4
  have hone : (gaussianReal m v).real Set.univ = 1 := by simp
  rw [h1, h2, h3, h4, hmean, hv2, hone]
  ring

#print axioms gaussian_sq_dev

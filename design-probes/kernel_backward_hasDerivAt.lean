import Mathlib.Analysis.SpecialFunctions.ExpDeriv
import Mathlib.Analysis.Calculus.Deriv.Inv
import Mathlib.Analysis.Calculus.Deriv.Pow
import Mathlib.Analysis.Calculus.Deriv.Mul
import Mathlib.Tactic

theorem hasDerivAt_scaled (c ℓ : ℝ) (hℓ : ℓ ≠ 0) :
    HasDerivAt (fun l : ℝ => c / l) (-(c / ℓ) / ℓ) ℓ := by
  have h := (hasDerivAt_inv hℓ).const_mul c
  have e : (fun l : ℝ => c / l) = fun l => c * l⁻¹ := by funext l; rw [div_eq_mul_inv]
  rw [e]
  exact h.congr_deriv (by field_simp)

theorem rbf_backward_hasDerivAt (D ℓ : ℝ) (hℓ : ℓ ≠ 0) :
    HasDerivAt (fun l : ℝ => Real.exp (-(D / l ^ 2) / 2))
      ((D / ℓ ^ 2) * Real.exp (-(D / ℓ ^ 2) / 2) / ℓ) ℓ := by
  have hp : HasDerivAt (fun l : ℝ => l ^ 2) (2 * ℓ) ℓ :=
    (hasDerivAt_pow (n := 2) ℓ).congr_deriv (by norm_num)
  have hinv : HasDerivAt (fun l : ℝ => (l ^ 2)⁻¹) (-(2 * ℓ) / (ℓ ^ 2) ^ 2) ℓ :=
    hp.inv (pow_ne_zero 2 hℓ)
  have h1 : HasDerivAt (fun l : ℝ => -(D / l ^ 2) / 2) ((D / ℓ ^ 2) / ℓ) ℓ := by
    have h := ((hinv.const_mul D).neg).div_const 2
    have e : (fun l : ℝ => -(D / l ^ 2) / 2) = fun l => -(D * (l ^ 2)⁻¹) / 2 := by
      funext l; rw [div_eq_mul_inv D]
    rw [e]
    exact h.congr_deriv (by field_simp)
  exact h1.exp.congr_deriv (by ring)

theorem matern52_backward_hasDerivAt (c ℓ : ℝ) (hℓ : ℓ ≠ 0) :
    HasDerivAt (fun l : ℝ => (1 + c / l + (c / l) ^ 2 / 3) * Real.exp (-(c / l)))
      ((1 + c / ℓ) * ((c / ℓ) ^ 2 / 3) * Real.exp (-(c / ℓ)) / ℓ) ℓ := by
  have hs := hasDerivAt_scaled c ℓ hℓ
  have hpoly : HasDerivAt (fun l : ℝ => 1 + c / l + (c / l) ^ 2 / 3)
      (-(c / ℓ) / ℓ + 2 * (c / ℓ) * (-(c / ℓ) / ℓ) / 3) ℓ :=
    ((hs.const_add 1).add ((hs.pow 2).div_const 3)).congr_deriv (by ring)
  have hexp : HasDerivAt (fun l : ℝ => Real.exp (-(c / l))) (Real.exp (-(c / ℓ)) * (-(-(c / ℓ) / ℓ))) ℓ :=
    (hs.neg).exp
  exact (hpoly.mul hexp).congr_deriv (by ring)

#print axioms rbf_backward_hasDerivAt
#print axioms matern52_backward_hasDerivAt

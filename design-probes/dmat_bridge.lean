import Mathlib.LinearAlgebra.Matrix.NonsingularInverse

open Matrix

structure DMat (n m : Nat) (α : Type) where
  arr : Array (Array α)
  hn : arr.size = n
  hm : ∀ i (h : i < arr.size), (arr[i]).size = m

namespace DMat
variable {n m k : Nat} {α : Type}

def ofMatrix (M : Matrix (Fin n) (Fin m) α) : DMat n m α where
  arr := Array.ofFn fun i => Array.ofFn fun j => M i j
  hn := by simp
  hm := by intro i h; simp

def toMatrix (A : DMat n m α) : Matrix (Fin n) (Fin m) α :=
  fun i j => (A.arr[i.1]'(by rw [A.hn]; exact i.2))[j.1]'(by rw [A.hm]; exact j.2)

@[simp] theorem toMatrix_ofMatrix (M : Matrix (Fin n) (Fin m) α) : (ofMatrix M).toMatrix = M := by
  funext i j; simp [toMatrix, ofMatrix]

def mul [Mul α] [AddCommMonoid α] (A : DMat n m α) (B : DMat m k α) : DMat n k α :=
  ofMatrix (A.toMatrix * B.toMatrix)

@[simp] theorem toMatrix_mul [Mul α] [AddCommMonoid α] (A : DMat n m α) (B : DMat m k α) :
    (A.mul B).toMatrix = A.toMatrix * B.toMatrix := by simp [mul]

end DMat

def mkA (n : Nat) : DMat n n ℚ := DMat.ofMatrix fun i j =>
  let d : Int := (i.1 : Int) - (j.1 : Int)
  (mkRat (9007199254740993 - 1234567 * (d*d)) 9007199254740992) / ((1 + d*d : Int) : ℚ) + (if i = j then 1 else 0)

def main (args : List String) : IO Unit := do
  let n := args[0]!.toNat!
  let A := mkA n
  let P := (A.mul A).mul A
  IO.println s!"{((P.arr[0]!)[0]!).num.natAbs.log2}"

import GPVerif.Gen.ExactCall
import GPVerif.Gen.ExactAlgebra
import GPVerif.Bridge.ExactCall

namespace C01
open Bcast Bcast.T ExactCall

section callgen
open Gen.ExactCall

theorem gen_call_modes_eq_model (c : CallCfg) : callMode c = callSpec c := by
  rcases c with ⟨a, b, c, d, e, f, g⟩
  cases a <;> cases b <;> cases c <;> cases d <;> cases e <;> cases f <;> cases g <;> rfl

theorem gen_posterior_branch_iff (c : CallCfg) :
    (∃ w, callMode c = Outcome.posterior w) ↔
      (c.training = false ∧ c.priorMode = false ∧ c.hasInputs = true ∧ c.hasTargets = true ∧
        (c.debug = true → c.outputIsMVN = true)) := by
  rcases c with ⟨a, b, c, d, e, f, g⟩
  cases a <;> cases b <;> cases c <;> cases d <;> cases e <;> cases f <;> cases g <;> simp [callMode]

theorem gen_training_branch (c : CallCfg) (h : c.training = true) (hi : c.hasInputs = true)
    (hd : c.debug = true → c.inputsEqual = true) : callMode c = Outcome.priorAtInputs := by
  rcases c with ⟨a, b, c, d, e, f, g⟩
  cases a <;> cases b <;> cases c <;> cases d <;> cases e <;> cases f <;> cases g <;> simp_all [callMode]

theorem gen_prior_branch (c : CallCfg) (h : c.training = false)
    (hp : c.priorMode = true ∨ c.hasInputs = false ∨ c.hasTargets = false)
    (hd : c.debug = true → c.outputIsMVN = true) : callMode c = Outcome.priorAtArgs := by
  rcases c with ⟨a, b, c, d, e, f, g⟩
  cases a <;> cases b <;> cases c <;> cases d <;> cases e <;> cases f <;> cases g <;> simp_all [callMode]

theorem gen_detach_follows_setting (p : ExactGP.Policy) (on : Bool) :
    meanCacheDetached p on = detachSpec on ∧ covarCacheDetached on = detachSpec on ∧
      solveOperandDetached on = detachSpec on := by
  cases p <;> cases on <;> simp [meanCacheDetached, covarCacheDetached, solveOperandDetached, detachSpec]

end callgen
end C01

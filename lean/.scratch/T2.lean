import GPVerif.Gen.ExactCall
import GPVerif.Gen.ExactAlgebra
import GPVerif.Bridge.ExactCall

namespace C01
open Bcast Bcast.T ExactCall

section callgen2
open Gen.ExactCall

/-- values do not depend on detach -/
theorem gen_detach_value_invariant {n s k : Nat} {α : Type} [Field α] [DecidableEq α] (cfg : Gen.ExactAlgebra.Cfg)
    (b : Bool) (J : DMat (n + s) (n + s) α) (mj : DMat (n + s) 1 α) (A : DMat n n α) (mx y : DMat n 1 α)
    (R : DMat n k α) (obs : Fin n → Bool) (c : α) :
    Gen.ExactAlgebra.mean_cache_ignore { cfg with detach := b } A mx y = Gen.ExactAlgebra.mean_cache_ignore cfg A mx y ∧
    Gen.ExactAlgebra.mean_cache_mask { cfg with detach := b } A mx y obs = Gen.ExactAlgebra.mean_cache_mask cfg A mx y obs ∧
    Gen.ExactAlgebra.mean_cache_fill { cfg with detach := b } A mx y obs c = Gen.ExactAlgebra.mean_cache_fill cfg A mx y obs c ∧
    Gen.ExactAlgebra.exact_prediction { cfg with detach := b } J mj A mx y R obs c =
      Gen.ExactAlgebra.exact_prediction cfg J mj A mx y R obs c := by
  refine ⟨rfl, rfl, rfl, rfl⟩

theorem gen_multitask_reshape_eq_model {α : Type} (n s t : Nat) (f g : Nat → Nat → α) :
    numTrain [n, t] = n * t ∧ testShape [n + s, t] [n, t] = [s, t] ∧
    (∀ p τ, p < s → τ < t →
      (viewPredMean (testMean (interleaved f (n + s) t) [n, t]) [n + s, t] [n, t]).get [τ, p] = f (n + p) τ) ∧
    (∀ k, 0 < t → (k < numTrain [n, t] ↔ k / t < n)) ∧
    (∀ i τ, i < n → τ < t → (flattenLabels (table g n t) [n, t]).get [i * t + τ] = g i τ) := by
  refine ⟨by simp [numTrain], by simp [testShape], ?_, ?_, ?_⟩
  · intro p τ hp hτ
    have hlt := flat_lt_mul s t p τ hp hτ
    have hsz : (n + s) * t - n * t = s * t := by rw [Nat.add_mul]; omega
    obtain ⟨h1, h2⟩ := interleaved_div_mod n p t τ hτ
    simp [viewPredMean, testMean, testShape, numTrain, dropFirst, interleaved, T.view, ofTorch, flat, unflat, hsz,
      Nat.mod_eq_of_lt hlt, h1, Nat.mod_eq_of_lt hτ]
  · intro k ht
    simp only [numTrain, List.foldl_cons, List.foldl_nil, one_mul]
    rw [Nat.div_lt_iff_lt_mul ht]
  · intro i τ hi hτ
    have ht : 0 < t := by omega
    have e1 : (i * t + τ) % t = τ := by rw [Nat.add_comm, Nat.add_mul_mod_self_right, Nat.mod_eq_of_lt hτ]
    have e2 : (i * t + τ) / t = i := by
      rw [Nat.add_comm, Nat.add_mul_div_right _ _ ht, Nat.div_eq_of_lt hτ]; omega
    simp [flattenLabels, table, T.view, ofTorch, flat, unflat, e1, e2, Nat.mod_eq_of_lt hi]

theorem gen_single_task_reshape {α : Type} (n s : Nat) (v : T α) (hv : v.shape = [n + s]) :
    numTrain [n] = n ∧ testShape [n + s] [n] = [s] ∧
    (∀ p, p < s → (viewPredMean (testMean v [n]) [n + s] [n]).get [p] = v.get [n + p]) := by
  refine ⟨by simp [numTrain], by simp [testShape], ?_⟩
  intro p hp
  simp [viewPredMean, testMean, testShape, numTrain, dropFirst, T.view, ofTorch, flat, unflat, hv,
    Nat.mod_eq_of_lt hp, Nat.add_comm]

end callgen2
end C01

import GPVerif.Gen.ExactCall
import GPVerif.Bridge.ExactCall

namespace C01
open Bcast Bcast.T ExactCall

section callgen3
open Gen.ExactCall

/-- two tensors agree: same shape, same entry at every valid index -/
def TEq {α : Type} (a b : T α) : Prop := a.shape = b.shape ∧ ∀ idx, InRange idx b.shape → a.get idx = b.get idx

theorem gen_concat_eq_model {α : Type} (tr te : T α) (n s : Nat) (bt bi : RShape)
    (htr : tr.shape = n :: bt) (hte : te.shape = s :: bi) :
    match catInputs tr te, concatSpec tr te with
    | some g, some m => TEq g m
    | none, none => True
    | _, _ => False := by
  by_cases h : bt = bi
  · subst h
    have hg : catInputs tr te = some (catRows tr te) := by
      simp [catInputs, htr, hte]
    rw [hg]
    simp only [concatSpec, htr, hte, List.tail_cons, bcastR_self, Option.map_some]
    refine ⟨by simp [catRows, htr, hte], ?_⟩
    intro idx hidx
    match idx, hidx with
    | i :: b, hidx =>
      obtain ⟨_, hb⟩ := hidx
      simp [catRows, htr, hte, bidxR_of_inRange hb]
  · cases hB : bcastR bt bi with
    | none =>
      have hg : catInputs tr te = none := by
        simp [catInputs, htr, hte, h, hB]
      simp [hg, concatSpec, htr, hte, hB]
    | some B =>
      have hg : catInputs tr te = some (catRows (tr.expand (n :: B)) (te.expand (s :: B))) := by
        simp [catInputs, htr, hte, h, hB, T.expand]
      rw [hg]
      simp only [concatSpec, htr, hte, List.tail_cons, hB, Option.map_some]
      refine ⟨by simp [catRows, T.expand], ?_⟩
      intro idx hidx
      match idx, hidx with
      | i :: b, hidx =>
        obtain ⟨hi, hb⟩ := hidx
        simp only [List.headD_cons] at hi
        by_cases hin : i < n
        · have : (if n = 1 then 0 else i) = i := by split <;> omega
          simp [catRows, T.expand, htr, hte, bidxR, hin, this]
        · have : (if s = 1 then 0 else i - n) = i - n := by split <;> omega
          simp [catRows, T.expand, htr, hte, bidxR, hin, this]

end callgen3
end C01

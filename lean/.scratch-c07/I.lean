import GPVerif.Bridge.JetProduct
import GPVerif.Bridge.RBF

open Matrix Filter Topology
open scoped MatrixOrder

set_option linter.unusedSectionVars false

namespace C07
variable {ι d : Type*} [Fintype ι] [Fintype d] [DecidableEq d]

noncomputable def expGrad (Z : Matrix ι d ℝ) : Matrix (ι × Option d) (ι × Option d) ℝ :=
  of fun u v => match u.2, v.2 with
    | none, none => Real.exp ((Z * Zᵀ) u.1 v.1)
    | none, some b => Real.exp ((Z * Zᵀ) u.1 v.1) * Z u.1 b
    | some a, none => Real.exp ((Z * Zᵀ) u.1 v.1) * Z v.1 a
    | some a, some b => Real.exp ((Z * Zᵀ) u.1 v.1) * (Z v.1 a * Z u.1 b + (if a = b then 1 else 0))

theorem expGrad_psd (Z : Matrix ι d ℝ) : (expGrad Z).PosSemidef := by sorry

/-- the matrix `RBFKernelGrad.forward` assembles (ARD lengthscales `ℓ_k`): with `k = exp(−½ Σ_k ((x_i−x_j)_k/ℓ_k)²)` and
`o_a = (x_i − x_j)_a / ℓ_a²`: `K11 = k`, `K12 = k·o_b`, `K21 = −k·o_a`, `K22 = k·(δ_ab/ℓ_a² − o_a o_b)`. -/
noncomputable def rbfGrad (X : Matrix ι d ℝ) (ℓ : d → ℝ) : Matrix (ι × Option d) (ι × Option d) ℝ :=
  of fun u v => match u.2, v.2 with
    | none, none => Real.exp (-(∑ k, ((X u.1 k - X v.1 k) / ℓ k) ^ 2) / 2)
    | none, some b => Real.exp (-(∑ k, ((X u.1 k - X v.1 k) / ℓ k) ^ 2) / 2) * ((X u.1 b - X v.1 b) / ℓ b ^ 2)
    | some a, none => -(Real.exp (-(∑ k, ((X u.1 k - X v.1 k) / ℓ k) ^ 2) / 2) * ((X u.1 a - X v.1 a) / ℓ a ^ 2))
    | some a, some b => Real.exp (-(∑ k, ((X u.1 k - X v.1 k) / ℓ k) ^ 2) / 2) *
        ((if a = b then 1 / ℓ a ^ 2 else 0) - (X u.1 a - X v.1 a) / ℓ a ^ 2 * ((X u.1 b - X v.1 b) / ℓ b ^ 2))

theorem rbfGrad_psd (X : Matrix ι d ℝ) (ℓ : d → ℝ) (hℓ : ∀ k, ℓ k ≠ 0) : (rbfGrad X ℓ).PosSemidef := by
  classical
  let Z : Matrix ι d ℝ := of fun i k => X i k / ℓ k
  let a : ι → ℝ := fun i => Real.exp (-(∑ k, Z i k ^ 2) / 2)
  let w : ι × Option d → ℝ := fun u => match u.2 with
    | none => a u.1
    | some c => -(Z u.1 c * a u.1)
  have hW : (vecMulVec w (star w)).PosSemidef := posSemidef_vecMulVec_self_star w
  have hM := jetProd_psd hW (expGrad_psd Z)
  let dv : ι × Option d → ℝ := fun u => match u.2 with
    | none => 1
    | some c => 1 / ℓ c
  have hK := hM.mul_mul_conjTranspose_same (diagonal dv)
  have hk : ∀ i j, a i * a j * Real.exp ((Z * Zᵀ) i j) = Real.exp (-(∑ k, ((X i k - X j k) / ℓ k) ^ 2) / 2) := by
    intro i j
    simp only [a]
    rw [← Real.exp_add, ← Real.exp_add]
    congr 1
    have h2 : ∑ k, ((X i k - X j k) / ℓ k) ^ 2 = ∑ k, Z i k ^ 2 + ∑ k, Z j k ^ 2 - 2 * ∑ k, Z i k * Z j k := by
      simp only [Z, of_apply, sub_div, sub_sq, Finset.sum_add_distrib, Finset.sum_sub_distrib, Finset.mul_sum]
      ring_nf
    rw [h2]
    simp only [Matrix.mul_apply, transpose_apply]
    ring
  convert hK using 1
  ext ⟨i, α⟩ ⟨j, β⟩
  rw [diagonal_conjTranspose, mul_diagonal, diagonal_mul]
  rcases α with _ | p <;> rcases β with _ | q
  · simp only [rbfGrad, of_apply, jetProd, jb, je, vecMulVec_apply, w, dv, expGrad, Pi.star_apply, star_trivial, ← hk i j]
    simp
  · simp only [rbfGrad, of_apply, jetProd, jb, je, vecMulVec_apply, w, dv, expGrad, Pi.star_apply, star_trivial, ← hk i j]
    have := hℓ q
    simp [Z]
    field_simp
    ring
  · simp only [rbfGrad, of_apply, jetProd, jb, je, vecMulVec_apply, w, dv, expGrad, Pi.star_apply, star_trivial, ← hk i j]
    have := hℓ p
    simp [Z]
    field_simp
    ring
  · simp only [rbfGrad, of_apply, jetProd, jb, je, vecMulVec_apply, w, dv, expGrad, Pi.star_apply, star_trivial, ← hk i j]
    have hp := hℓ p
    have hq := hℓ q
    by_cases hpq : p = q
    · subst hpq
      simp [Z]
      field_simp
      ring
    · simp [Z, hpq]
      field_simp
      ring

end C07

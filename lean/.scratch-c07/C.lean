import GPVerif.Bridge.RQ
import GPVerif.Bridge.Matern12

open Matrix MeasureTheory Set

namespace C07

variable {ι : Type*} [Fintype ι]

/-- one sequence position: `exp(−c·1[a_i ≠ a_j]) = e^{−c} + (1 − e^{−c})·1[a_i = a_j]`, a non-negative combination of the
constant matrix and the Gram matrix of the one-hot features. -/
theorem hamming_factor_psd {V : Type*} [DecidableEq V] (a : ι → V) {c : ℝ} (hc : 0 ≤ c) :
    (of fun i j => Real.exp (-c * (if a i = a j then 0 else 1)) : Matrix ι ι ℝ).PosSemidef := by
  classical
  have hE : (of fun i j => (if a i = a j then (1 : ℝ) else 0) : Matrix ι ι ℝ).PosSemidef := by
    refine PosSemidef.of_dotProduct_mulVec_nonneg ?_ fun v => ?_
    · ext i j; simp [conjTranspose_apply, eq_comm]
    · -- vᵀ E v = Σ_{w ∈ image a} (Σ_{i : a i = w} v i)²
      have key : star v ⬝ᵥ ((of fun i j => (if a i = a j then (1 : ℝ) else 0) : Matrix ι ι ℝ) *ᵥ v) =
          ∑ w ∈ Finset.univ.image a, (∑ i, if a i = w then v i else 0) ^ 2 := by
        simp only [dotProduct, mulVec, of_apply, star_trivial]
        have : ∀ w : V, (∑ i, if a i = w then v i else 0) ^ 2 =
            ∑ i, ∑ j, (if a i = w then v i else 0) * (if a j = w then v j else 0) := by
          intro w; rw [sq, Finset.sum_mul_sum]
        simp_rw [this]
        rw [Finset.sum_comm]
        refine Finset.sum_congr rfl fun i _ => ?_
        rw [Finset.mul_sum, Finset.sum_comm]
        refine Finset.sum_congr rfl fun j _ => ?_
        rw [Finset.sum_eq_single (a i)]
        · by_cases h : a i = a j <;> simp [h, eq_comm]
        · intro w _ hw; simp [Ne.symm hw]
        · intro h; exact absurd (Finset.mem_image_of_mem a (Finset.mem_univ i)) h
      rw [key]
      exact Finset.sum_nonneg fun w _ => sq_nonneg _
  have h1 : (0 : ℝ) ≤ Real.exp (-c) := (Real.exp_pos _).le
  have h2 : (0 : ℝ) ≤ 1 - Real.exp (-c) := by
    have : Real.exp (-c) ≤ 1 := Real.exp_le_one_iff.mpr (by linarith)
    linarith
  have := (constMat_psd (ι := ι) h1).add (hE.smul h2)
  convert this using 1
  ext i j
  by_cases h : a i = a j <;> simp [constMat, h]

/-- `exp(−c · d_Hamming)` is PSD for every `c ≥ 0`: product over the sequence positions. -/
theorem exp_neg_hamming_psd {T V : Type*} [Fintype T] [DecidableEq V] (seq : ι → T → V) {c : ℝ} (hc : 0 ≤ c) :
    (of fun i j => Real.exp (-c * ((Finset.univ.filter fun t => seq i t ≠ seq j t).card : ℝ)) : Matrix ι ι ℝ).PosSemidef := by
  classical
  have h := hprod_psd Finset.univ
    (fun t => (of fun i j => Real.exp (-c * (if seq i t = seq j t then 0 else 1)) : Matrix ι ι ℝ))
    (fun t _ => hamming_factor_psd (fun i => seq i t) hc)
  convert h using 1
  ext i j
  simp only [of_apply]
  rw [← Real.exp_sum, ← Finset.mul_sum]
  congr 2
  rw [Finset.card_filter]
  push_cast
  refine Finset.sum_congr rfl fun t _ => ?_
  by_cases h : seq i t = seq j t <;> simp [h]

/-- **`HammingIMQKernel`** on one-hot encoded sequences of any length `T` over any vocabulary `V`:
`((1 + α) / (α + d_Hamming(s_i, s_j)))^β`, `α, β > 0`, is PSD on every finite set of sequences (duplicates allowed). -/
theorem hamming_imq_gram_psd {T V : Type*} [Fintype T] [DecidableEq V] (seq : ι → T → V) {α β : ℝ} (hα : 0 < α) (hβ : 0 < β) :
    (of fun i j => ((1 + α) / (α + ((Finset.univ.filter fun t => seq i t ≠ seq j t).card : ℝ))) ^ β :
      Matrix ι ι ℝ).PosSemidef := by
  classical
  let D : Matrix ι ι ℝ := of fun i j => ((Finset.univ.filter fun t => seq i t ≠ seq j t).card : ℝ) / α
  have hD0 : ∀ i j, 0 ≤ D i j := fun i j => div_nonneg (Nat.cast_nonneg _) hα.le
  have hsym : ∀ i j, D i j = D j i := by
    intro i j
    simp only [D, of_apply]
    congr 3
    ext t; simp [ne_comm]
  have hD : ∀ s : ℝ, 0 ≤ s → (of fun i j => Real.exp (-s * D i j) : Matrix ι ι ℝ).PosSemidef := by
    intro s hs
    have := exp_neg_hamming_psd seq (c := s / α) (div_nonneg hs hα.le)
    convert this using 1
    ext i j
    simp only [D, of_apply]
    congr 1
    field_simp
  have h := (rq_gram_psd_of_dist hD0 hsym hD hβ).smul (Real.rpow_nonneg (div_nonneg (by linarith) hα.le : 0 ≤ (1 + α) / α) β)
  convert h using 1
  ext i j
  rw [Matrix.smul_apply, smul_eq_mul]
  simp only [D, of_apply]
  set d : ℝ := ((Finset.univ.filter fun t => seq i t ≠ seq j t).card : ℝ) with hd
  have hd0 : 0 ≤ d := Nat.cast_nonneg _
  have e : (1 + α) / (α + d) = (1 + α) / α * (1 + d / α)⁻¹ := by
    field_simp
  rw [e, Real.mul_rpow (div_nonneg (by linarith) hα.le) (inv_nonneg.mpr (by positivity)),
    Real.inv_rpow (by positivity), Real.rpow_neg (by positivity)]

end C07

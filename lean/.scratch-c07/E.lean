import GPVerif.Bridge.RQ
import GPVerif.Bridge.Matern12

open Matrix MeasureTheory Set

namespace C07
variable {ι : Type*} [Fintype ι]

/-- `∫₀^∞ u^k e^{−2u} du = k! / 2^{k+1}` (and the integrand is integrable). -/
theorem integral_pow_mul_exp_neg_two (k : ℕ) :
    IntegrableOn (fun u : ℝ => u ^ k * Real.exp (-(2 * u))) (Ioi 0) ∧
    ∫ u in Ioi (0 : ℝ), u ^ k * Real.exp (-(2 * u)) = (k.factorial : ℝ) / 2 ^ (k + 1) := by
  have hk : (0 : ℝ) < (k : ℝ) + 1 := by positivity
  have h := Real.integral_rpow_mul_exp_neg_mul_Ioi hk (by norm_num : (0 : ℝ) < 2)
  have e : EqOn (fun t : ℝ => t ^ ((k : ℝ) + 1 - 1) * Real.exp (-(2 * t))) (fun u : ℝ => u ^ k * Real.exp (-(2 * u))) (Ioi 0) := by
    intro t _
    simp only [add_sub_cancel_right, Real.rpow_natCast]
  rw [setIntegral_congr_fun measurableSet_Ioi e] at h
  have hval : (1 / (2 : ℝ)) ^ ((k : ℝ) + 1) * Real.Gamma ((k : ℝ) + 1) = (k.factorial : ℝ) / 2 ^ (k + 1) := by
    rw [Real.Gamma_nat_eq_factorial]
    have : ((k : ℝ) + 1) = ((k + 1 : ℕ) : ℝ) := by push_cast; ring
    rw [this, Real.rpow_natCast, one_div, inv_pow]
    field_simp
  rw [hval] at h
  refine ⟨?_, h⟩
  apply Integrable.of_integral_ne_zero
  rw [h]
  positivity

/-- the causal profile `s ↦ s² e^{−s} 1[s > 0]` (its autocorrelation is the Matérn-5/2 covariance). -/
noncomputable def causal2 (s : ℝ) : ℝ := (Ioi (0 : ℝ)).indicator (fun s => s ^ 2 * Real.exp (-s)) s

theorem causal2_autocorr_of_le {a b : ℝ} (hab : a ≤ b) :
    Integrable (fun t => causal2 (t - a) * causal2 (t - b)) volume ∧
    ∫ t, causal2 (t - a) * causal2 (t - b) = 3 / 4 * (1 + (b - a) + (b - a) ^ 2 / 3) * Real.exp (-(b - a)) := by
  set δ : ℝ := b - a with hδ
  have hδ0 : 0 ≤ δ := by linarith
  let P : ℝ → ℝ := fun u => (u ^ 4 * Real.exp (-(2 * u)) + 2 * δ * (u ^ 3 * Real.exp (-(2 * u))) +
    δ ^ 2 * (u ^ 2 * Real.exp (-(2 * u)))) * Real.exp (-δ)
  let F : ℝ → ℝ := (Ioi (0 : ℝ)).indicator P
  have hfF : (fun t => causal2 (t - a) * causal2 (t - b)) = fun t => F (t - b) := by
    funext t
    simp only [causal2, F, P, indicator_apply, mem_Ioi]
    by_cases h : 0 < t - b
    · have h' : 0 < t - a := by linarith
      simp only [if_pos h, if_pos h']
      have ta : t - a = (t - b) + δ := by rw [hδ]; ring
      rw [ta]
      have : Real.exp (-((t - b) + δ)) * Real.exp (-(t - b)) = Real.exp (-(2 * (t - b))) * Real.exp (-δ) := by
        rw [← Real.exp_add, ← Real.exp_add]; congr 1; ring
      calc ((t - b) + δ) ^ 2 * Real.exp (-((t - b) + δ)) * ((t - b) ^ 2 * Real.exp (-(t - b)))
          = ((t - b) + δ) ^ 2 * (t - b) ^ 2 * (Real.exp (-((t - b) + δ)) * Real.exp (-(t - b))) := by ring
        _ = _ := by rw [this]; ring
    · simp only [if_neg h, mul_zero]
  have i4 := integral_pow_mul_exp_neg_two 4
  have i3 := integral_pow_mul_exp_neg_two 3
  have i2 := integral_pow_mul_exp_neg_two 2
  have hPint : IntegrableOn P (Ioi 0) :=
    (((i4.1.add (i3.1.const_mul (2 * δ))).add (i2.1.const_mul (δ ^ 2))).mul_const _)
  have hFint : Integrable F volume := by
    rw [integrable_indicator_iff measurableSet_Ioi]; exact hPint
  have hFval : ∫ t, F t = 3 / 4 * (1 + δ + δ ^ 2 / 3) * Real.exp (-δ) := by
    rw [integral_indicator measurableSet_Ioi]
    show ∫ u in Ioi (0 : ℝ), (u ^ 4 * Real.exp (-(2 * u)) + 2 * δ * (u ^ 3 * Real.exp (-(2 * u))) +
      δ ^ 2 * (u ^ 2 * Real.exp (-(2 * u)))) * Real.exp (-δ) = _
    have j3 : IntegrableOn (fun u : ℝ => 2 * δ * (u ^ 3 * Real.exp (-(2 * u)))) (Ioi 0) := i3.1.const_mul (2 * δ)
    have j2 : IntegrableOn (fun u : ℝ => δ ^ 2 * (u ^ 2 * Real.exp (-(2 * u)))) (Ioi 0) := i2.1.const_mul (δ ^ 2)
    have j43 : IntegrableOn (fun u : ℝ => u ^ 4 * Real.exp (-(2 * u)) + 2 * δ * (u ^ 3 * Real.exp (-(2 * u)))) (Ioi 0) :=
      i4.1.add j3
    rw [integral_mul_const,
      integral_add (f := fun u : ℝ => u ^ 4 * Real.exp (-(2 * u)) + 2 * δ * (u ^ 3 * Real.exp (-(2 * u))))
        (g := fun u : ℝ => δ ^ 2 * (u ^ 2 * Real.exp (-(2 * u)))) j43 j2,
      integral_add (f := fun u : ℝ => u ^ 4 * Real.exp (-(2 * u)))
        (g := fun u : ℝ => 2 * δ * (u ^ 3 * Real.exp (-(2 * u)))) i4.1 j3,
      integral_const_mul, integral_const_mul, i4.2, i3.2, i2.2]
    norm_num [Nat.factorial]
    ring
  rw [hfF]
  refine ⟨hFint.comp_sub_right b, ?_⟩
  rw [integral_sub_right_eq_self F b, hFval]

end C07

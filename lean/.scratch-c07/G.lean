import GPVerif.Bridge.PSD

open Matrix

namespace C07

variable {ι d : Type*} [Fintype ι] [Fintype d] [DecidableEq d]

/-- base point of a jet index `(i, α)`: the value component `(i, none)`. -/
def jb (u : ι × Option d) : ι × Option d := (u.1, none)

/-- `0` on value components, `1` on derivative components. -/
def je (u : ι × Option d) : ℝ := if u.2 = none then 0 else 1

/-- **jet product** of two "kernel with first derivatives" block matrices: the block matrix of the PRODUCT kernel
(Leibniz rule in each argument).  Index `(i, none)` = value at `x_i`, `(i, some a)` = partial derivative `∂/∂x_a` at `x_i`. -/
def jetProd (A B : Matrix (ι × Option d) (ι × Option d) ℝ) : Matrix (ι × Option d) (ι × Option d) ℝ :=
  of fun u v => A u v * B (jb u) (jb v) + je v * (A u (jb v) * B (jb u) v) + je u * (A (jb u) v * B u (jb v)) +
    je u * je v * (A (jb u) (jb v) * B u v)

private lemma sum_sum_mul {F G : Type*} [Fintype F] [Fintype G] (f g : F → ℝ) (f' g' : G → ℝ) :
    ∑ m, ∑ l, (f m * f' l) * (g m * g' l) = (∑ m, f m * g m) * (∑ l, f' l * g' l) := by
  rw [Finset.sum_mul_sum]
  exact Finset.sum_congr rfl fun m _ => Finset.sum_congr rfl fun l _ => by ring

/-- the jet product of two Gram matrices is the Gram matrix of the Leibniz-product features. -/
theorem jetProd_gram {F G : Type*} [Fintype F] [Fintype G] (C : Matrix F (ι × Option d) ℝ) (C' : Matrix G (ι × Option d) ℝ) :
    jetProd (Cᵀ * C) (C'ᵀ * C') =
      (of fun (ml : F × G) u => C ml.1 u * C' ml.2 (jb u) + je u * (C ml.1 (jb u) * C' ml.2 u))ᵀ *
      (of fun (ml : F × G) u => C ml.1 u * C' ml.2 (jb u) + je u * (C ml.1 (jb u) * C' ml.2 u)) := by
  ext u v
  simp only [jetProd, of_apply, mul_apply, transpose_apply, Fintype.sum_prod_type]
  have expand : ∀ m l, (C m u * C' l (jb u) + je u * (C m (jb u) * C' l u)) * (C m v * C' l (jb v) + je v * (C m (jb v) * C' l v)) =
      (C m u * C' l (jb u)) * (C m v * C' l (jb v)) + je v * ((C m u * C' l (jb u)) * (C m (jb v) * C' l v)) +
      je u * ((C m (jb u) * C' l u) * (C m v * C' l (jb v))) + je u * je v * ((C m (jb u) * C' l u) * (C m (jb v) * C' l v)) := by
    intro m l; ring
  simp_rw [expand, Finset.sum_add_distrib, ← Finset.mul_sum, sum_sum_mul]

/-- **the jet product preserves positive semidefiniteness.** -/
theorem jetProd_psd {A B : Matrix (ι × Option d) (ι × Option d) ℝ} (hA : A.PosSemidef) (hB : B.PosSemidef) :
    (jetProd A B).PosSemidef := by
  classical
  obtain ⟨C, rfl⟩ := posSemidef_iff_eq_conjTranspose_mul_self.mp hA
  obtain ⟨C', rfl⟩ := posSemidef_iff_eq_conjTranspose_mul_self.mp hB
  rw [conjTranspose_eq_transpose_of_trivial, conjTranspose_eq_transpose_of_trivial, jetProd_gram]
  have := posSemidef_conjTranspose_mul_self
    (of fun (ml : (ι × Option d) × (ι × Option d)) u => C ml.1 u * C' ml.2 (jb u) + je u * (C ml.1 (jb u) * C' ml.2 u))
  rwa [conjTranspose_eq_transpose_of_trivial] at this

end C07

import GPVerif.Bridge.JetProduct
import GPVerif.Bridge.RBF

open Matrix Filter Topology
open scoped MatrixOrder

set_option linter.unusedSectionVars false

namespace C07

theorem hasSum_exp0 (s : ℝ) : HasSum (fun k : ℕ => s ^ k / (k.factorial : ℝ)) (Real.exp s) := by
  have h := NormedSpace.expSeries_div_hasSum_exp (𝔸 := ℝ) s
  rwa [← Real.exp_eq_exp_ℝ] at h

theorem hasSum_exp1 (s : ℝ) : HasSum (fun k : ℕ => (k : ℝ) * s ^ (k - 1) / (k.factorial : ℝ)) (Real.exp s) := by
  rw [← hasSum_nat_add_iff' 1]
  simp only [Finset.range_one, Finset.sum_singleton, Nat.cast_zero, zero_mul, zero_div, sub_zero]
  have e : (fun n : ℕ => ((n + 1 : ℕ) : ℝ) * s ^ (n + 1 - 1) / ((n + 1).factorial : ℝ)) = fun k : ℕ => s ^ k / (k.factorial : ℝ) := by
    funext n
    rw [Nat.add_sub_cancel, Nat.factorial_succ]
    push_cast
    field_simp
  rw [e]; exact hasSum_exp0 s

theorem hasSum_exp2 (s : ℝ) :
    HasSum (fun k : ℕ => (k : ℝ) * ((k : ℝ) - 1) * s ^ (k - 2) / (k.factorial : ℝ)) (Real.exp s) := by
  rw [← hasSum_nat_add_iff' 2]
  simp only [Finset.sum_range_succ, Finset.range_zero, Finset.sum_empty, Nat.cast_zero, zero_mul, zero_div, Nat.cast_one,
    sub_self, mul_zero, zero_add, sub_zero]
  have e : (fun n : ℕ => ((n + 2 : ℕ) : ℝ) * (((n + 2 : ℕ) : ℝ) - 1) * s ^ (n + 2 - 2) / ((n + 2).factorial : ℝ)) =
      fun k : ℕ => s ^ k / (k.factorial : ℝ) := by
    funext n
    rw [Nat.add_sub_cancel, Nat.factorial_succ, Nat.factorial_succ]
    push_cast
    field_simp
    ring
  rw [e]; exact hasSum_exp0 s

variable {ι d : Type*} [Fintype ι] [Fintype d] [DecidableEq d]

/-- value / gradient blocks of `exp(⟨x, y⟩)`:
`[e^s, e^s x_i b; e^s x_j a, e^s (x_j a x_i b + δ_ab)]`, `s = ⟨x_i, x_j⟩`. -/
noncomputable def expGrad (Z : Matrix ι d ℝ) : Matrix (ι × Option d) (ι × Option d) ℝ :=
  of fun u v => match u.2, v.2 with
    | none, none => Real.exp ((Z * Zᵀ) u.1 v.1)
    | none, some b => Real.exp ((Z * Zᵀ) u.1 v.1) * Z u.1 b
    | some a, none => Real.exp ((Z * Zᵀ) u.1 v.1) * Z v.1 a
    | some a, some b => Real.exp ((Z * Zᵀ) u.1 v.1) * (Z v.1 a * Z u.1 b + (if a = b then 1 else 0))

/-- the jet version of `hexp_psd` for the linear kernel: the blocks of `exp(⟨x,y⟩)` are the entrywise limit of the PSD
matrices `∑_{k<N} blocks(⟨x,y⟩^k)/k!`. -/
theorem expGrad_psd (Z : Matrix ι d ℝ) : (expGrad Z).PosSemidef := by
  classical
  let P : ℕ → Matrix (ι × Option d) (ι × Option d) ℝ :=
    fun N => ∑ k ∈ Finset.range N, ((k.factorial : ℝ)⁻¹) • polyGrad Z 0 k
  have hP : ∀ N, (P N).PosSemidef := fun N =>
    posSemidef_sum _ fun k _ => (polyGrad_psd Z le_rfl k).smul (by positivity)
  have hlim : ∀ u v, Tendsto (fun N => P N u v) atTop (𝓝 (expGrad Z u v)) := by
    rintro ⟨i, α⟩ ⟨j, β⟩
    set s : ℝ := (Z * Zᵀ) i j with hs
    have h0 := (hasSum_exp0 s).tendsto_sum_nat
    have h1 := (hasSum_exp1 s).tendsto_sum_nat
    have h2 := (hasSum_exp2 s).tendsto_sum_nat
    rcases α with _ | a <;> rcases β with _ | b
    · have e : (fun N => P N (i, none) (j, none)) = fun N => ∑ k ∈ Finset.range N, s ^ k / (k.factorial : ℝ) := by
        funext N
        simp only [P, Matrix.sum_apply, Matrix.smul_apply, polyGrad, of_apply, smul_eq_mul, add_zero]
        exact Finset.sum_congr rfl fun k _ => by rw [div_eq_inv_mul]
      rw [e]; simpa [expGrad] using h0
    · have e : (fun N => P N (i, none) (j, some b)) =
          fun N => (∑ k ∈ Finset.range N, (k : ℝ) * s ^ (k - 1) / (k.factorial : ℝ)) * Z i b := by
        funext N
        simp only [P, Matrix.sum_apply, Matrix.smul_apply, polyGrad, of_apply, smul_eq_mul, add_zero, Finset.sum_mul]
        exact Finset.sum_congr rfl fun k _ => by rw [div_eq_inv_mul]; ring
      rw [e]; simpa [expGrad] using h1.mul_const (Z i b)
    · have e : (fun N => P N (i, some a) (j, none)) =
          fun N => (∑ k ∈ Finset.range N, (k : ℝ) * s ^ (k - 1) / (k.factorial : ℝ)) * Z j a := by
        funext N
        simp only [P, Matrix.sum_apply, Matrix.smul_apply, polyGrad, of_apply, smul_eq_mul, add_zero, Finset.sum_mul]
        exact Finset.sum_congr rfl fun k _ => by rw [div_eq_inv_mul]; ring
      rw [e]; simpa [expGrad] using h1.mul_const (Z j a)
    · have e : (fun N => P N (i, some a) (j, some b)) =
          fun N => (∑ k ∈ Finset.range N, (k : ℝ) * ((k : ℝ) - 1) * s ^ (k - 2) / (k.factorial : ℝ)) * (Z j a * Z i b) +
            (∑ k ∈ Finset.range N, (k : ℝ) * s ^ (k - 1) / (k.factorial : ℝ)) * (if a = b then 1 else 0) := by
        funext N
        simp only [P, Matrix.sum_apply, Matrix.smul_apply, polyGrad, of_apply, smul_eq_mul, add_zero, Finset.sum_mul,
          ← Finset.sum_add_distrib]
        refine Finset.sum_congr rfl fun k _ => ?_
        by_cases hab : a = b <;> simp only [hab, if_true, if_false] <;> rw [div_eq_inv_mul, div_eq_inv_mul] <;> ring
      rw [e]
      have := (h2.mul_const (Z j a * Z i b)).add (h1.mul_const (if a = b then (1 : ℝ) else 0))
      convert this using 2
      simp only [expGrad, of_apply]
      ring
  refine PosSemidef.of_dotProduct_mulVec_nonneg ?_ fun v => ?_
  · ext ⟨i, α⟩ ⟨j, β⟩
    have hsym : (Z * Zᵀ) j i = (Z * Zᵀ) i j := by simp [Matrix.mul_apply, mul_comm]
    rcases α with _ | a <;> rcases β with _ | b <;>
      simp [expGrad, conjTranspose_apply, hsym, mul_comm, eq_comm]
  · have ht : Tendsto (fun N => star v ⬝ᵥ (P N *ᵥ v)) atTop (𝓝 (star v ⬝ᵥ (expGrad Z *ᵥ v))) := by
      simp only [dotProduct, mulVec]
      exact tendsto_finsetSum _ fun u _ =>
        tendsto_const_nhds.mul (tendsto_finsetSum _ fun w _ => (hlim u w).mul tendsto_const_nhds)
    exact ge_of_tendsto' ht fun N => (hP N).dotProduct_mulVec_nonneg v

end C07

import GPVerif.Bridge.Matern12

open Matrix MeasureTheory Set

namespace C07

variable {ι : Type*} [Fintype ι]

/-- Gram matrix of finitely many functions under the `L²(μ)` pairing is PSD. -/
theorem integral_gram_psd {Ω : Type*} [MeasurableSpace Ω] (μ : Measure Ω) (φ : ι → Ω → ℝ)
    (hint : ∀ i j, Integrable (fun t => φ i t * φ j t) μ) :
    (of fun i j => ∫ t, φ i t * φ j t ∂μ : Matrix ι ι ℝ).PosSemidef := by
  classical
  refine PosSemidef.of_dotProduct_mulVec_nonneg ?_ fun v => ?_
  · ext i j; simp [conjTranspose_apply, mul_comm]
  · let F : ι → ι → Ω → ℝ := fun i j t => v i * (φ i t * φ j t) * v j
    have hF : ∀ i j, Integrable (F i j) μ := fun i j => ((hint i j).const_mul (v i)).mul_const (v j)
    have hrow : ∀ i, Integrable (fun t => ∑ j, F i j t) μ :=
      fun i => integrable_finsetSum Finset.univ fun j _ => hF i j
    have h1 : ∫ t, ∑ i, ∑ j, F i j t ∂μ = ∑ i, ∫ t, ∑ j, F i j t ∂μ :=
      integral_finsetSum Finset.univ (f := fun i t => ∑ j, F i j t) fun i _ => hrow i
    have h2 : ∀ i, ∫ t, ∑ j, F i j t ∂μ = ∑ j, ∫ t, F i j t ∂μ := fun i =>
      integral_finsetSum Finset.univ (f := fun j t => F i j t) fun j _ => hF i j
    have h3 : ∀ i j, ∫ t, F i j t ∂μ = v i * (∫ t, φ i t * φ j t ∂μ) * v j := by
      intro i j
      show ∫ t, v i * (φ i t * φ j t) * v j ∂μ = _
      rw [integral_mul_const, integral_const_mul]
    have key : star v ⬝ᵥ ((of fun i j => ∫ t, φ i t * φ j t ∂μ : Matrix ι ι ℝ) *ᵥ v) =
        ∫ t, ∑ i, ∑ j, F i j t ∂μ := by
      rw [h1]
      simp_rw [h2, h3]
      simp only [dotProduct, mulVec, of_apply, star_trivial, Finset.mul_sum]
      exact Finset.sum_congr rfl fun i _ => Finset.sum_congr rfl fun j _ => by ring
    rw [key]
    refine integral_nonneg fun t => ?_
    have e : ∑ i, ∑ j, F i j t = (∑ i, v i * φ i t) * (∑ j, v j * φ j t) := by
      rw [Finset.sum_mul_sum]
      refine Finset.sum_congr rfl fun i _ => Finset.sum_congr rfl fun j _ => ?_
      show v i * (φ i t * φ j t) * v j = _
      ring
    rw [e]
    exact mul_self_nonneg _

/-- **autocorrelation kernels**: `k(a,b) = ∫ g(t − a) g(t − b) dt` has a PSD Gram matrix on every finite point set. -/
theorem autocorr_gram_psd (g : ℝ → ℝ) (x : ι → ℝ)
    (hint : ∀ i j, Integrable (fun t => g (t - x i) * g (t - x j)) volume) :
    (of fun i j => ∫ t, g (t - x i) * g (t - x j) : Matrix ι ι ℝ).PosSemidef :=
  integral_gram_psd volume (fun i t => g (t - x i)) hint

end C07

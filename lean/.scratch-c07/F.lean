import GPVerif.Bridge.Autocorr

open Matrix MeasureTheory Set

namespace C07
variable {ι : Type*} [Fintype ι]

/-- `∫ g(t−a) g(t−b) dt = ¾ (1 + |a−b| + |a−b|²/3) e^{−|a−b|}` for `g(s) = s² e^{−s} 1[s > 0]`, all `a, b`. -/
theorem causal2_autocorr (a b : ℝ) :
    Integrable (fun t => causal2 (t - a) * causal2 (t - b)) volume ∧
    ∫ t, causal2 (t - a) * causal2 (t - b) = 3 / 4 * (1 + |a - b| + |a - b| ^ 2 / 3) * Real.exp (-|a - b|) := by
  rcases le_total a b with h | h
  · have := causal2_autocorr_of_le h
    rw [abs_of_nonpos (by linarith : a - b ≤ 0)]
    refine ⟨this.1, ?_⟩
    rw [this.2]; ring_nf
  · have := causal2_autocorr_of_le h
    rw [abs_of_nonneg (by linarith : 0 ≤ a - b)]
    have e : (fun t => causal2 (t - a) * causal2 (t - b)) = fun t => causal2 (t - b) * causal2 (t - a) := by
      funext t; ring
    rw [e]
    exact this

/-- **Matérn-5/2 kernel in dimension one**: `(1 + √5 r + 5r²/3) e^{−√5 r}`, `r = |x_i − x_j| / ℓ`, `ℓ > 0`. -/
theorem matern52_1d_gram_psd (x : ι → ℝ) {ℓ : ℝ} (hℓ : 0 < ℓ) :
    (of fun i j => (1 + Real.sqrt 5 * (|x i - x j| / ℓ) + 5 / 3 * (|x i - x j| / ℓ) ^ 2) *
      Real.exp (-(Real.sqrt 5 * (|x i - x j| / ℓ))) : Matrix ι ι ℝ).PosSemidef := by
  have h := (autocorr_gram_psd causal2 (fun i => Real.sqrt 5 * (x i / ℓ))
    (fun i j => (causal2_autocorr _ _).1)).smul (by norm_num : (0 : ℝ) ≤ 4 / 3)
  convert h using 1
  ext i j
  rw [Matrix.smul_apply, smul_eq_mul]
  simp only [of_apply]
  rw [(causal2_autocorr _ _).2]
  have e : |Real.sqrt 5 * (x i / ℓ) - Real.sqrt 5 * (x j / ℓ)| = Real.sqrt 5 * (|x i - x j| / ℓ) := by
    rw [← mul_sub, ← sub_div, abs_mul, abs_div, abs_of_nonneg (Real.sqrt_nonneg 5), abs_of_pos hℓ]
  rw [e]
  have h5 : Real.sqrt 5 ^ 2 = 5 := Real.sq_sqrt (by norm_num)
  have : (Real.sqrt 5 * (|x i - x j| / ℓ)) ^ 2 = 5 * (|x i - x j| / ℓ) ^ 2 := by rw [mul_pow, h5]
  rw [this]; ring

/-- box autocorrelation: `∫ 1_{(0,1]}(t−a) 1_{(0,1]}(t−b) dt = max(0, 1 − |a−b|)`. -/
theorem box_autocorr (a b : ℝ) :
    Integrable (fun t => (Ioc (0 : ℝ) 1).indicator (fun _ => (1 : ℝ)) (t - a) * (Ioc (0 : ℝ) 1).indicator (fun _ => (1 : ℝ)) (t - b)) volume ∧
    ∫ t, (Ioc (0 : ℝ) 1).indicator (fun _ => (1 : ℝ)) (t - a) * (Ioc (0 : ℝ) 1).indicator (fun _ => (1 : ℝ)) (t - b) =
      max 0 (1 - |a - b|) := by
  have e : (fun t => (Ioc (0 : ℝ) 1).indicator (fun _ => (1 : ℝ)) (t - a) * (Ioc (0 : ℝ) 1).indicator (fun _ => (1 : ℝ)) (t - b)) =
      (Ioc (max a b) (min (a + 1) (b + 1))).indicator (fun _ => (1 : ℝ)) := by
    funext t
    simp only [indicator_apply, mem_Ioc, max_lt_iff, le_min_iff]
    by_cases h1 : 0 < t - a ∧ t - a ≤ 1 <;> by_cases h2 : 0 < t - b ∧ t - b ≤ 1
    · rw [if_pos h1, if_pos h2, if_pos ⟨⟨by linarith [h1.1], by linarith [h2.1]⟩, ⟨by linarith [h1.2], by linarith [h2.2]⟩⟩]; ring
    · rw [if_pos h1, if_neg h2, if_neg]; · ring
      rintro ⟨⟨_, q1⟩, ⟨_, q2⟩⟩; exact h2 ⟨by linarith, by linarith⟩
    · rw [if_neg h1, if_pos h2, if_neg]; · ring
      rintro ⟨⟨q1, _⟩, ⟨q2, _⟩⟩; exact h1 ⟨by linarith, by linarith⟩
    · rw [if_neg h1, if_neg h2, if_neg]; · ring
      rintro ⟨⟨q1, _⟩, ⟨q2, _⟩⟩; exact h1 ⟨by linarith, by linarith⟩
  rw [e]
  refine ⟨(integrable_indicator_iff measurableSet_Ioc).mpr (integrableOn_const (by simp)), ?_⟩
  rw [integral_indicator measurableSet_Ioc, setIntegral_const]
  simp only [smul_eq_mul, mul_one, Measure.real, Real.volume_Ioc]
  rcases le_total a b with h | h
  · rw [max_eq_right h, min_eq_left (by linarith : a + 1 ≤ b + 1), abs_of_nonpos (by linarith : a - b ≤ 0)]
    rcases le_total (a + 1 - b) 0 with h0 | h0
    · rw [ENNReal.ofReal_of_nonpos h0, max_eq_left (by linarith)]; simp
    · rw [ENNReal.toReal_ofReal h0, max_eq_right (by linarith)]; ring
  · rw [max_eq_left h, min_eq_right (by linarith : b + 1 ≤ a + 1), abs_of_nonneg (by linarith : 0 ≤ a - b)]
    rcases le_total (b + 1 - a) 0 with h0 | h0
    · rw [ENNReal.ofReal_of_nonpos h0, max_eq_left (by linarith)]; simp
    · rw [ENNReal.toReal_ofReal h0, max_eq_right (by linarith)]; ring

/-- **`PiecewisePolynomialKernel(q = 0)` in dimension one** (`j = ⌊1/2⌋ + 0 + 1 = 1`): the triangle kernel
`max(0, 1 − |x_i − x_j| / ℓ)`, `ℓ > 0` — the autocorrelation of the indicator of `(0, 1]`. -/
theorem piecewise0_1d_gram_psd (x : ι → ℝ) {ℓ : ℝ} (hℓ : 0 < ℓ) :
    (of fun i j => max 0 (1 - |x i - x j| / ℓ) : Matrix ι ι ℝ).PosSemidef := by
  have h := autocorr_gram_psd ((Ioc (0 : ℝ) 1).indicator (fun _ => (1 : ℝ))) (fun i => x i / ℓ)
    (fun i j => (box_autocorr _ _).1)
  convert h using 1
  ext i j
  simp only [of_apply]
  rw [(box_autocorr _ _).2, ← sub_div, abs_div, abs_of_pos hℓ]

end C07

import GPVerif.Bridge.Matern12
import Mathlib.MeasureTheory.Integral.IntervalIntegral.Basic

open Matrix MeasureTheory Set

namespace C07
variable {ι : Type*} [Fintype ι]

theorem integral_exp_abs_mul_of_le {a b : ℝ} (hab : a ≤ b) :
    Integrable (fun t => Real.exp (-|t - a|) * Real.exp (-|t - b|)) volume ∧
    ∫ t, Real.exp (-|t - a|) * Real.exp (-|t - b|) = (1 + (b - a)) * Real.exp (-(b - a)) := by sorry

theorem autocorr_gram_psd (g : ℝ → ℝ) (x : ι → ℝ)
    (hint : ∀ i j, Integrable (fun t => g (t - x i) * g (t - x j)) volume) :
    (of fun i j => ∫ t, g (t - x i) * g (t - x j) : Matrix ι ι ℝ).PosSemidef := by sorry

/-- `∫ e^{−|t−a|} e^{−|t−b|} dt = (1 + |a − b|) e^{−|a − b|}` for all `a, b`. -/
theorem integral_exp_abs_mul (a b : ℝ) :
    Integrable (fun t => Real.exp (-|t - a|) * Real.exp (-|t - b|)) volume ∧
    ∫ t, Real.exp (-|t - a|) * Real.exp (-|t - b|) = (1 + |a - b|) * Real.exp (-|a - b|) := by
  rcases le_total a b with h | h
  · have := integral_exp_abs_mul_of_le h
    rw [abs_of_nonpos (by linarith : a - b ≤ 0)]
    refine ⟨this.1, ?_⟩
    rw [this.2]; ring_nf
  · have := integral_exp_abs_mul_of_le h
    rw [abs_of_nonneg (by linarith : 0 ≤ a - b)]
    have e : (fun t => Real.exp (-|t - a|) * Real.exp (-|t - b|)) =
        fun t => Real.exp (-|t - b|) * Real.exp (-|t - a|) := by funext t; ring
    rw [e]
    exact this

/-- **Matérn-3/2 kernel in dimension one**: `(1 + √3 r) e^{−√3 r}`, `r = |x_i − x_j| / ℓ`, `ℓ > 0`: the autocorrelation of
`s ↦ e^{−|s|}` at the rescaled points `√3 x / ℓ`. -/
theorem matern32_1d_gram_psd (x : ι → ℝ) {ℓ : ℝ} (hℓ : 0 < ℓ) :
    (of fun i j => (1 + Real.sqrt 3 * (|x i - x j| / ℓ)) * Real.exp (-(Real.sqrt 3 * (|x i - x j| / ℓ))) :
      Matrix ι ι ℝ).PosSemidef := by
  have h := autocorr_gram_psd (fun s => Real.exp (-|s|)) (fun i => Real.sqrt 3 * (x i / ℓ))
    (fun i j => (integral_exp_abs_mul _ _).1)
  convert h using 1
  ext i j
  simp only [of_apply]
  rw [(integral_exp_abs_mul _ _).2]
  have e : |Real.sqrt 3 * (x i / ℓ) - Real.sqrt 3 * (x j / ℓ)| = Real.sqrt 3 * (|x i - x j| / ℓ) := by
    rw [← mul_sub, ← sub_div, abs_mul, abs_div, abs_of_nonneg (Real.sqrt_nonneg 3), abs_of_pos hℓ]
  rw [e]

end C07

import GPVerif.Bridge.Matern12
import Mathlib.MeasureTheory.Integral.IntervalIntegral.Basic

open Matrix MeasureTheory Set

namespace C07

private lemma f_Iic {a b t : ℝ} (hab : a ≤ b) (ht : t ≤ a) :
    Real.exp (-|t - a|) * Real.exp (-|t - b|) = Real.exp (2 * t) * Real.exp (-(a + b)) := by
  rw [abs_of_nonpos (by linarith), abs_of_nonpos (by linarith), ← Real.exp_add, ← Real.exp_add]
  congr 1; ring

private lemma f_Ioc {a b t : ℝ} (h1 : a < t) (h2 : t ≤ b) :
    Real.exp (-|t - a|) * Real.exp (-|t - b|) = Real.exp (-(b - a)) := by
  rw [abs_of_nonneg (by linarith), abs_of_nonpos (by linarith), ← Real.exp_add]
  congr 1; ring

private lemma f_Ioi {a b t : ℝ} (hab : a ≤ b) (ht : b < t) :
    Real.exp (-|t - a|) * Real.exp (-|t - b|) = Real.exp (-2 * t) * Real.exp (a + b) := by
  rw [abs_of_nonneg (by linarith), abs_of_nonneg (by linarith), ← Real.exp_add, ← Real.exp_add]
  congr 1; ring

/-- `∫ e^{−|t−a|} e^{−|t−b|} dt = (1 + (b − a)) e^{−(b − a)}` for `a ≤ b`, and the integrand is integrable. -/
theorem integral_exp_abs_mul_of_le {a b : ℝ} (hab : a ≤ b) :
    Integrable (fun t => Real.exp (-|t - a|) * Real.exp (-|t - b|)) volume ∧
    ∫ t, Real.exp (-|t - a|) * Real.exp (-|t - b|) = (1 + (b - a)) * Real.exp (-(b - a)) := by
  set f : ℝ → ℝ := fun t => Real.exp (-|t - a|) * Real.exp (-|t - b|) with hf
  have e1 : EqOn (fun t => Real.exp (2 * t) * Real.exp (-(a + b))) f (Iic a) := fun t ht => (f_Iic hab ht).symm
  have e2 : EqOn (fun _ => Real.exp (-(b - a))) f (Ioc a b) := fun t ht => (f_Ioc ht.1 ht.2).symm
  have e3 : EqOn (fun t => Real.exp (-2 * t) * Real.exp (a + b)) f (Ioi b) := fun t ht => (f_Ioi hab ht).symm
  have i1 : IntegrableOn f (Iic a) :=
    IntegrableOn.congr_fun (f := fun t => Real.exp (2 * t) * Real.exp (-(a + b)))
      ((integrableOn_exp_mul_Iic (by norm_num : (0 : ℝ) < 2) a).mul_const _) e1 measurableSet_Iic
  have i2 : IntegrableOn f (Ioc a b) :=
    (integrableOn_const (by simp)).congr_fun e2 measurableSet_Ioc
  have i3 : IntegrableOn f (Ioi b) :=
    IntegrableOn.congr_fun (f := fun t => Real.exp (-2 * t) * Real.exp (a + b))
      ((integrableOn_exp_mul_Ioi (by norm_num : (-2 : ℝ) < 0) b).mul_const _) e3 measurableSet_Ioi
  have i23 : IntegrableOn f (Ioi a) := by
    rw [← Ioc_union_Ioi_eq_Ioi hab]; exact i2.union i3
  have iall : Integrable f volume := by
    rw [← integrableOn_univ, ← Iic_union_Ioi (a := a)]; exact i1.union i23
  refine ⟨iall, ?_⟩
  have s1 : ∫ t in Iic a, f t = Real.exp (2 * a) / 2 * Real.exp (-(a + b)) := by
    rw [← setIntegral_congr_fun measurableSet_Iic e1, integral_mul_const,
      integral_exp_mul_Iic (by norm_num : (0 : ℝ) < 2) a]
  have s2 : ∫ t in Ioc a b, f t = (b - a) * Real.exp (-(b - a)) := by
    rw [← setIntegral_congr_fun measurableSet_Ioc e2, setIntegral_const]
    simp [hab]
  have s3 : ∫ t in Ioi b, f t = -Real.exp (-2 * b) / (-2) * Real.exp (a + b) := by
    rw [← setIntegral_congr_fun measurableSet_Ioi e3, integral_mul_const,
      integral_exp_mul_Ioi (by norm_num : (-2 : ℝ) < 0) b]
  have s23 : ∫ t in Ioi a, f t = (∫ t in Ioc a b, f t) + ∫ t in Ioi b, f t := by
    rw [← Ioc_union_Ioi_eq_Ioi hab]
    exact setIntegral_union (Ioc_disjoint_Ioi le_rfl) measurableSet_Ioi i2 i3
  rw [← intervalIntegral.integral_Iic_add_Ioi i1 i23, s23, s1, s2, s3]
  have h1 : Real.exp (2 * a) * Real.exp (-(a + b)) = Real.exp (-(b - a)) := by
    rw [← Real.exp_add]; congr 1; ring
  have h3 : Real.exp (-2 * b) * Real.exp (a + b) = Real.exp (-(b - a)) := by
    rw [← Real.exp_add]; congr 1; ring
  have : Real.exp (2 * a) / 2 * Real.exp (-(a + b)) + ((b - a) * Real.exp (-(b - a)) +
      -Real.exp (-2 * b) / (-2) * Real.exp (a + b)) =
      (Real.exp (2 * a) * Real.exp (-(a + b))) / 2 + (b - a) * Real.exp (-(b - a)) +
      (Real.exp (-2 * b) * Real.exp (a + b)) / 2 := by ring
  rw [this, h1, h3]; ring

end C07

import GPVerif.Bridge.MVN
import GPVerif.Gen.MVN
import Mathlib.Tactic.Ring
import Mathlib.Tactic.Linarith

namespace C10
open Matrix MVN GenMVN

/-- Both generated argument lists are permutations of the axes `0 … d` (every axis is hit), for every rank — so
`PermReads` determines the multi-index that is read (`permReads_unique`). -/
theorem gen_rsample_perms_onto (d a : Nat) (ha : a < d + 1) :
    (∃ j, j < (rsamplePermIn d).length ∧ (rsamplePermIn d).getD j 0 = a) ∧
    (∃ j, j < (rsamplePermOut d).length ∧ (rsamplePermOut d).getD j 0 = a) := by
  constructor
  · unfold rsamplePermIn
    cases a with
    | zero => exact ⟨d, by simp, by simp [List.getD_eq_getElem?_getD]⟩
    | succ c =>
      refine ⟨c, by simp; omega, ?_⟩
      have hc : c < d := by omega
      simp [List.getD_eq_getElem?_getD, List.getElem?_append, hc]
      omega
  · unfold rsamplePermOut
    by_cases h : a = d
    · subst h; exact ⟨0, by simp, by simp [List.getD_eq_getElem?_getD]⟩
    · have hlt : a < d := by omega
      exact ⟨a + 1, by simp; omega, by simp [List.getD_eq_getElem?_getD, hlt]⟩

example : normDim 4 (Idx.slice (some 1) none 1) = some (Sel.keep [1, 2, 3]) := by decide +kernel
example : covSelPositionsRestEllipsis 4 (Idx.slice (some 1) none 1) (getitemCov (getitemDispatch 3 3 true Idx.ellipsis)) =
    some (Sel.keep [0, 1, 2, 3], Sel.keep [1, 2, 3]) := by decide +kernel

end C10

import GPVerif.Bridge.MVN
import GPVerif.Gen.MVN
import Mathlib.Tactic.Ring
import Mathlib.Tactic.Linarith

namespace C10
open Matrix MVN GenMVN

theorem getD_append_two_left (b : List Nat) (i s a : Nat) (h : a ≤ b.length) :
    (b ++ [i, s]).getD a 0 = (b ++ [i]).getD a 0 := by
  simp only [List.getD_eq_getElem?_getD, List.getElem?_append]
  by_cases hlt : a < b.length
  · simp [hlt]
  · have : a = b.length := by omega
    subst this; simp

/-- **Index map of the two generated `permute`s of `rsample`, for every batch rank.** -/
theorem gen_rsample_entry_map (b : List Nat) (s : Nat) :
    (∀ j, PermReads (rsamplePermIn (b.length + 1)) (b ++ [j, s]) (s :: (b ++ [j]))) ∧
    (∀ i, PermReads (rsamplePermOut (b.length + 1)) (s :: (b ++ [i])) (b ++ [i, s])) := by
  constructor
  · intro j
    refine ⟨by simp [rsamplePermIn], by simp [rsamplePermIn], ?_⟩
    intro a ha
    have hlen : (rsamplePermIn (b.length + 1)).length = b.length + 2 := by simp [rsamplePermIn]
    rw [hlen] at ha
    unfold rsamplePermIn
    by_cases hlast : a = b.length + 1
    · subst hlast
      simp [List.getD_eq_getElem?_getD, List.getElem?_append]
    · have ha' : a < b.length + 1 := by omega
      have h1 : ((List.range' 1 (b.length + 1 + 1 - 1)) ++ [0]).getD a 0 = a + 1 := by
        simp [List.getD_eq_getElem?_getD, List.getElem?_append, ha']
        omega
      rw [h1]
      rw [List.getD_cons_succ, getD_append_two_left b j s a (by omega)]
  · intro i
    refine ⟨by simp [rsamplePermOut], by simp [rsamplePermOut], ?_⟩
    intro a ha
    have hlen : (rsamplePermOut (b.length + 1)).length = b.length + 2 := by simp [rsamplePermOut]
    rw [hlen] at ha
    unfold rsamplePermOut
    cases a with
    | zero => simp [List.getD_eq_getElem?_getD, List.getElem?_append]
    | succ c =>
      have hc : c < b.length + 1 := by omega
      have h1 : ([(b.length + 1 + 1) - 1] ++ (List.range' 0 (b.length + 1 - 0))).getD (c + 1) 0 = c := by
        simp [List.getD_eq_getElem?_getD, hc]
      rw [h1, List.getD_cons_succ, getD_append_two_left b i s c (by omega)]

/-- `PermReads` determines the input multi-index when `perm` hits every axis. -/
theorem permReads_unique (perm o inp inp' : List Nat) (hp : ∀ a, a < perm.length → ∃ j, j < perm.length ∧ perm.getD j 0 = a)
    (h : PermReads perm o inp) (h' : PermReads perm o inp') : inp = inp' := by
  obtain ⟨l1, _, r1⟩ := h
  obtain ⟨l2, _, r2⟩ := h'
  apply List.ext_getElem (by omega)
  intro a ha ha'
  obtain ⟨j, hj, hja⟩ := hp a (by omega)
  have e1 := r1 j hj
  have e2 := r2 j hj
  rw [hja] at e1 e2
  simp only [List.getD_eq_getElem?_getD, List.getElem?_eq_getElem ha, List.getElem?_eq_getElem ha', Option.getD_some] at e1 e2
  rw [e1, e2]

example : PermReads (rsamplePermOut 3) [7, 1, 2, 5] [1, 2, 5, 7] := by decide

/-! ### `__init__` -/

theorem take_append_one (mb : List Nat) (n : Nat) : (mb ++ [n]).take ((mb ++ [n]).length - 1) = mb := by simp
theorem drop_append_one (mb : List Nat) (n : Nat) : (mb ++ [n]).drop ((mb ++ [n]).length - 1) = [n] := by simp
theorem take_append_two (cb : List Nat) (a c : Nat) : (cb ++ [a, c]).take ((cb ++ [a, c]).length - 2) = cb := by simp
theorem drop_append_two (cb : List Nat) (a c : Nat) : (cb ++ [a, c]).drop ((cb ++ [a, c]).length - 2) = [a, c] := by simp

/-- **`__init__` stores mean and covariance with the broadcast batch shape**, for every pair of batch shapes that broadcasts. -/
theorem gen_init_broadcast (mb cb bs : List Nat) (n n1 n2 : Nat) (hb : broadcastShapes mb cb = some bs) :
    initBatchShape (mb ++ [n]) (cb ++ [n1, n2]) = some bs ∧
    initShapes (mb ++ [n]) (cb ++ [n1, n2]) = some (bs ++ [n], bs ++ [n1, n2]) ∧
    initShapes (mb ++ [n]) (cb ++ [n1, n2]) = initShapesSpec (mb ++ [n]) (cb ++ [n1, n2]) ∧
    initDistBatch (mb ++ [n]) (cb ++ [n1, n2]) bs = bs := by
  have hB : initBatchShape (mb ++ [n]) (cb ++ [n1, n2]) = some bs := by
    unfold initBatchShape; rw [take_append_one, take_append_two, hb]
  have hS : initShapes (mb ++ [n]) (cb ++ [n1, n2]) = some (bs ++ [n], bs ++ [n1, n2]) := by
    unfold initShapes; rw [hB]
    simp only [Option.map_some, Option.some.injEq, Prod.mk.injEq]
    constructor
    · unfold initLocShape initEventShape
      rw [take_append_one, drop_append_one]
      by_cases h : mb = bs
      · subst h; simp
      · simp [h]
    · unfold initCovShape
      rw [take_append_two, drop_append_two]
      by_cases h : cb = bs
      · subst h; simp
      · simp [h]
  refine ⟨hB, hS, ?_, rfl⟩
  rw [hS]; unfold initShapesSpec
  rw [take_append_one, take_append_two, drop_append_one, drop_append_two, hb]; rfl

/-- when the batch shapes do not broadcast nothing is stored -/
theorem gen_init_reject (mb cb : List Nat) (n n1 n2 : Nat) (hb : broadcastShapes mb cb = none) :
    initShapes (mb ++ [n]) (cb ++ [n1, n2]) = none := by
  unfold initShapes initBatchShape; rw [take_append_one, take_append_two, hb]; rfl

example : broadcastShapes [3] [1] = some [3] := by decide
example : broadcastShapes [2, 3] [2, 1] = some [2, 3] := by decide
example : broadcastShapes [1, 3] [2, 1] = some [2, 3] := by decide
example : broadcastShapes [2] [3] = none := by decide
example : initShapes [3, 4] [1, 4, 4] = some ([3, 4], [3, 4, 4]) := by decide

end C10

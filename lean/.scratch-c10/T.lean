import GPVerif.Bridge.MVN
import GPVerif.Gen.MVN
import Mathlib.Tactic.Ring
import Mathlib.Tactic.Linarith

namespace C10
open Matrix MVN GenMVN

/-! ### known findings as theorems about the generated `__getitem__` -/

theorem gen_getitem_paired_advanced_except_known {α : Type} [OfNat α 0] (cov : Nat → Nat → Nat → α) (bs es : List Nat) :
    ∃ f, covSelPaired cov bs es (getitemCov Br.advanced) = some f ∧
      (∀ i j, f i j = cov (bs.getD i 0) (es.getD i 0) (es.getD j 0)) ∧
      (∀ i j, f i j = pairedMarginal cov bs es i j ↔
        (bs.getD i 0 = bs.getD j 0 ∨ cov (bs.getD i 0) (es.getD i 0) (es.getD j 0) = 0)) := by
  refine ⟨fun i j => cov (bs.getD i 0) (es.getD i 0) (es.getD j 0), rfl, fun _ _ => rfl, ?_⟩
  intro i j
  unfold pairedMarginal
  by_cases h : bs.getD i 0 = bs.getD j 0
  · rw [if_pos h]; exact ⟨fun _ => Or.inl h, fun _ => rfl⟩
  · rw [if_neg h]; exact ⟨fun hh => Or.inr hh, fun hh => hh.resolve_left h⟩

theorem gen_getitem_paired_advanced_counterexample :
    ∃ (cov : Nat → Nat → Nat → ℚ) (bs es : List Nat) (f : Nat → Nat → ℚ),
      (∀ b r c, cov b r c = cov b c r) ∧ bs.length = es.length ∧
      covSelPaired cov bs es (getitemCov Br.advanced) = some f ∧
      f 0 1 ≠ f 1 0 ∧ f 0 1 ≠ pairedMarginal cov bs es 0 1 := by
  refine ⟨fun b r c => if r = c then 2 else (b + 1 : ℚ), [0, 1], [1, 0], _, ?_, rfl, rfl, ?_, ?_⟩
  · intro b r c
    by_cases h : r = c
    · simp [h]
    · have h' : ¬ c = r := fun hh => h hh.symm
      simp [h, h']
  · norm_num
  · norm_num [pairedMarginal]

theorem gen_getitem_multiple_ellipsis_except_known (n l d ne : Nat) (x : Idx) (sel : Sel) (hl : l ≤ d)
    (hx : normDim n x = some sel) :
    getitemPre l d ne = some l ∧
    getitemDispatch l d true Idx.ellipsis = Br.ellipsis ∧
    covSelPositionsRestEllipsis n x (getitemCov (getitemDispatch l d true Idx.ellipsis)) =
      some (Sel.keep (List.range n), sel) ∧
    ((Sel.keep (List.range n), sel) = (sel, sel) ↔ sel = Sel.keep (List.range n)) := by
  refine ⟨?_, ?_, ?_, ?_⟩
  · unfold getitemPre
    have : ¬ (((l : Int) > (d : Int)) ∧ (ne > 0)) := by omega
    rw [if_neg this]
  · unfold getitemDispatch
    have h2 : ¬ ((l : Int) > (d : Int)) := by omega
    simp [h2, Idx.isInt, Idx.isSlice, Idx.isEllipsis]
  · have : getitemDispatch l d true Idx.ellipsis = Br.ellipsis := by
      unfold getitemDispatch
      have h2 : ¬ ((l : Int) > (d : Int)) := by omega
      simp [h2, Idx.isInt, Idx.isSlice, Idx.isEllipsis]
    rw [this]
    simp [getitemCov, covSelPositionsRestEllipsis, hx]
  · constructor
    · intro h; exact (Prod.mk.inj h).1.symm
    · intro h; rw [h]

end C10

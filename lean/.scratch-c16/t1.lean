import GPVerif.Model.ExactGP
open ExactGP
def Aex : DMat 3 3 ℚ := DMat.ofMatrix !![2, 1, 1; 1, 2, 1; 1, 1, 3]
def Ktsex : DMat 1 3 ℚ := DMat.ofMatrix !![1, 1, 1]
def rex : DMat 3 1 ℚ := DMat.ofMatrix !![1; 2; 3]
def mtex : DMat 1 1 ℚ := DMat.ofMatrix !![0]
def obsB : Fin 2 → Fin 3 → Bool := ![![true, true, true], ![true, false, true]]
#eval (predMeanFillBatch (fun _ => Aex) (fun _ => rex) (fun _ => mtex) (fun _ => Ktsex) obsB (-999) (-999) 0).map (·.arr)
#eval (predMeanFillBatch (fun _ => Aex) (fun _ => rex) (fun _ => mtex) (fun _ => Ktsex) obsB (-999) (-999) 1).map (·.arr)
#eval (predMeanMaskBatch (fun _ => Aex) (fun _ => rex) (fun _ => mtex) (fun _ => Ktsex) obsB 0).map (·.arr)
#eval (List.finRange 3).map (obsUnion obsB)
#eval ((meanCacheFill Aex rex (obsUnion obsB) (-999)).map fun a => predMeanFill mtex Ktsex (obsUnion obsB) a (-999)).map (·.arr)

import GPVerif.Model.LDL
import GPVerif.Model.Proto
open Proto

def step (line : String) : String :=
  match takeMat? (tokens line) with
  | some (r, c, rows, _) =>
    if h : r = c then
      let A : DMat r r Rat := DMat.ofRaw rows
      match DMat.inv? A, DMat.ldl? A with
      | some X, some (_, d) => showRows X.toRows ++ " | det " ++ showRat ((List.finRange r).foldl (fun acc i => acc * d i) 1)
      | _, _ => "singular"
    else "bad"
  | none => "bad"

def main : IO Unit := Proto.main step

import GPVerif.Model.StructuredDriver
/-!
Fallback C09 driver: the same protocol evaluated with the hand-written `Structured.*` model only (no
`Gen/StructuredAlgebra.lean`).  Used by the harness when `drivers/C09.lean` no longer builds, i.e. when the regenerated
algebra stopped type-checking against `GenOps` — the specification side of every comparison is unaffected.
-/
open StructuredDriver

def main : IO Unit := Proto.main (step modelOps)

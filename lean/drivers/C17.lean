import GPVerif.Model.ParamStore
import GPVerif.Gen.Priors
import GPVerif.Gen.InitDispatch
import GPVerif.Model.Proto
/-!
Line-protocol driver for C17 (Float instance of the generated constraint formulas / store model / prior
log-densities).  Doubles travel as their 64-bit patterns (decimal `UInt64`), so nothing is rounded in transit.

  T <kind> <l> <u> x…          -> transform(x)…            kind ∈ I G P L  (unused bounds: 0)
  V <kind> <l> <u> y…          -> inverse_transform(y)…
  C <kind> <l> <u> v…          -> check(v)…  (0/1)
  H <kind> <l> <u> <raw0> op…  -> per op  raised:read:raw   ops: S v | R r | D δ | A r | K kind l u
  X l1 u1 l2 u2                -> intersect lower upper
  P <prior> params… x          -> log density   (`sboxvec a b σ x1 … xd`: scalar smoothed box on a d-element value)
  N <#modules> {path isList}* <#leaves> {path p|r pid}* <#params> {kind l u raw0}* <#kwargs> {path value}*
                               -> `G raised {read:raw}* | S raised {read:raw}*`: one `Module.initialize(**kwargs)` on a
                                  module tree, run by the program REGENERATED from module.py (`G`) and by the
                                  specification `initFold` (`S`); paths are `.`-joined segment ids, `-` = the root
-/
open ParamStore Gen.Constraints ScalarFn

def fOf (s : String) : Option Float := s.toNat?.map fun n => Float.ofBits n.toUInt64
def fShow (x : Float) : String := toString x.toBits.toNat

def kindOf (k : String) (l u : Float) : Option (Kind Float) :=
  match k with
  | "I" => some (.interval l u)
  | "G" => some (.greaterThan l)
  | "P" => some .positive
  | "L" => some (.lessThan u)
  | _ => none

partial def runOps (s : Store Float) (ts : List String) (acc : List String) : Option (List String) :=
  let emit (r : Store Float × Bool) := s!"{if r.2 then 1 else 0}:{fShow (r.1.read 0)}:{fShow (r.1.raw 0)}"
  match ts with
  | [] => some acc.reverse
  | "S" :: v :: rest => do
      let v ← fOf v
      let r := s.apply (.set 0 v)
      runOps r.1 rest (emit r :: acc)
  | "R" :: v :: rest => do
      let v ← fOf v
      let r := s.apply (.initRaw 0 v)
      runOps r.1 rest (emit r :: acc)
  | "D" :: v :: rest => do
      let v ← fOf v
      let r := s.apply (.step 0 v)
      runOps r.1 rest (emit r :: acc)
  | "A" :: v :: rest => do
      let v ← fOf v
      let r := s.apply (.assignRaw 0 v)
      runOps r.1 rest (emit r :: acc)
  | "K" :: k :: l :: u :: rest => do
      let k ← kindOf k (← fOf l) (← fOf u)
      let r := s.apply (.register 0 k)
      runOps r.1 rest (emit r :: acc)
  | _ => none

/-! multi-name / dotted-name `initialize` on a module tree -/

def pathOf (s : String) : Option Path :=
  if s == "-" then some [] else (s.splitOn ".").mapM String.toNat?

/-- the tree described by its module paths (with the `nn.ModuleList` flag) and its plain names -/
def buildNode (mods : List (Path × Bool)) (leaves : List (Path × Target)) : Nat → Path → Node
  | 0, _ => .none
  | fuel + 1, pre =>
    match mods.lookup pre with
    | none => .none
    | some true => .list fun i => buildNode mods leaves fuel (pre ++ [i])
    | some false => .mod (fun x => leaves.lookup (pre ++ [x])) (fun x => buildNode mods leaves fuel (pre ++ [x]))

def takeN {β : Type} (n : Nat) (f : List String → Option (β × List String)) :
    Nat → List String → List β → Option (List β × List String)
  | 0, ts, acc => some (acc.reverse, ts)
  | k + 1, ts, acc => do
      let (b, ts) ← f ts
      takeN n f k ts (b :: acc)

def showStore (r : Store Float × Bool) (np : Nat) : String :=
  let cells := (List.range np).map fun p => s!"{fShow (r.1.read p)}:{fShow (r.1.raw p)}"
  s!"{if r.2 then 1 else 0} " ++ " ".intercalate cells

def runInit (ts : List String) : Option String := do
  let (nm :: ts) := ts | none
  let (mods, ts) ← takeN 0 (fun ts => match ts with
    | p :: f :: rest => do some ((← pathOf p, f == "1"), rest)
    | _ => none) (← nm.toNat?) ts []
  let (nl :: ts) := ts | none
  let (leaves, ts) ← takeN 0 (fun ts => match ts with
    | p :: t :: pid :: rest => do
        let pid ← pid.toNat?
        some ((← pathOf p, if t == "p" then Target.pub pid else Target.raw pid), rest)
    | _ => none) (← nl.toNat?) ts []
  let (np :: ts) := ts | none
  let np ← np.toNat?
  let (params, ts) ← takeN 0 (fun ts => match ts with
    | k :: l :: u :: r0 :: rest => do some ((← kindOf k (← fOf l) (← fOf u), ← fOf r0), rest)
    | _ => none) np ts []
  let (nk :: ts) := ts | none
  let (kws, ts) ← takeN 0 (fun ts => match ts with
    | p :: v :: rest => do some ((← pathOf p, ← fOf v), rest)
    | _ => none) (← nk.toNat?) ts []
  if !ts.isEmpty then none
  let depth := (mods.map fun m => m.1.length).foldl max 0
  let root := buildNode mods leaves (depth + 2) []
  let store : Store Float :=
    ⟨fun p => (params.getD p (Kind.positive, 0)).1, fun p => (params.getD p (Kind.positive, 0)).2⟩
  let g := Init.exec Gen.InitDispatch.initializeProg root store kws
  let sp := initFold root store kws
  some s!"G {showStore g np} | S {showStore sp np}"

def prior (name : String) (a : List Float) : Option Float :=
  match name, a with
  | "normal", [μ, σ, x] => some (Priors.normalLogProb μ σ x)
  | "halfnormal", [σ, x] => some (Priors.halfNormalLogProb σ x)
  | "lognormal", [μ, σ, x] => some (Priors.logNormalLogProb μ σ x)
  | "uniform", [a, b] => some (Priors.uniformLogProb a b)
  | "halfcauchy", [s, x] => some (Priors.halfCauchyLogProb s x)
  | "gamma", [a, b, lg, x] => some (Priors.gammaLogProb a b lg x)
  | "sbox", [a, b, σ, x] => some (Gen.Priors.smoothedBoxLogProb a b σ x)
  | "sboxvec", a :: b :: σ :: xs => some (Gen.Priors.smoothedBoxLogProbVec a b σ xs)
  | "horseshoe", [s, x] => some (Gen.Priors.horseshoeLogProb s x)
  | _, _ => none

def step (line : String) : String :=
  let r : Option String :=
    match Proto.tokens line with
    | "T" :: k :: l :: u :: xs => do
        let k ← kindOf k (← fOf l) (← fOf u)
        let xs ← xs.mapM fOf
        some (" ".intercalate (xs.map fun x => fShow (k.transform x)))
    | "V" :: k :: l :: u :: xs => do
        let k ← kindOf k (← fOf l) (← fOf u)
        let xs ← xs.mapM fOf
        some (" ".intercalate (xs.map fun x => fShow (k.inverse x)))
    | "C" :: k :: l :: u :: xs => do
        let k ← kindOf k (← fOf l) (← fOf u)
        let xs ← xs.mapM fOf
        some (" ".intercalate (xs.map fun x => if k.Check x then "1" else "0"))
    | "H" :: k :: l :: u :: r0 :: ops => do
        let k ← kindOf k (← fOf l) (← fOf u)
        let r0 ← fOf r0
        let out ← runOps ⟨fun _ => k, fun _ => r0⟩ ops []
        some (" ".intercalate out)
    | ["X", l1, u1, l2, u2] => do
        some s!"{fShow (intersectLower (← fOf l1) (← fOf l2))} {fShow (intersectUpper (← fOf u1) (← fOf u2))}"
    | "N" :: rest => runInit rest
    | "P" :: name :: args => do
        let a ← args.mapM fOf
        (prior name a).map fShow
    | _ => none
  r.getD "bad-request"

def main : IO Unit := Proto.main step

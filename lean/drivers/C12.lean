/-
C12 line-protocol driver over the definitions REGENERATED from the source (`GPVerif.Gen.NoiseModels`, translator G7;
proved equal to the specification `GPVerif.Model.Noise` in Props/C12.lean) (exact ℚ for operators and polynomial parts, `Float` for
the closed forms with `log`).  One reply line per request line.

  homo  n s  c [ν₁ … νₙ]                     → R            (c = 1: call-time noise follows)
  fixed n k stored₁…stored_k  l [s]  c [ν…]  → R            (l = 1: learned σ² follows)
  mt    n t il  (N | D d₁…d_t | R r F₁₁…F_tr)  (N | G s)   → R  (n·t × n·t; il = 1 interleaved)
  marg  <C as r c v…> <R as r c v…>          → C + R
  elp   y m v r                               → quad  bits(Float expectedLogProb)   (IEEE-754 bit pattern as a natural number)
  lm    y m v r                               → quad  v+r  bits(Float logMarginal)
  route (call|forward) nl na nn               → none | l:a:ν …   (nn = -1: no noise kwarg; N = no noise)
-/
import GPVerif.Model.Noise
import GPVerif.Gen.NoiseModels
import GPVerif.Model.Proto

open Proto Noise Gen.NoiseModels

def ratToFloat (q : Rat) : Float := Float.ofInt q.num / Float.ofNat q.den

def pi : Float := 3.141592653589793
def log2pi : Float := Float.log (2 * pi)

def vecOf (l : List Rat) (n : Nat) : Fin n → Rat := fun i => l.toArray[i.1]!

def showMat {n m : Nat} (A : DMat n m Rat) : String :=
  if n = 0 then "0 0 " else showRows A.toRows

/-- optional call-time noise: `0` | `1 ν₁ … νₙ` -/
def takeCall (n : Nat) (ts : List String) : Option (Option (Fin n → Rat) × List String) :=
  match ts with
  | "0" :: rest => some (none, rest)
  | "1" :: rest => do
      if rest.length < n then none else
      let vs ← parseRats? (rest.take n)
      some (some (vecOf vs n), rest.drop n)
  | _ => none

def stepHomo (ts : List String) : Option String := do
  match ts with
  | n :: s :: rest =>
    let n ← n.toNat?
    let s ← parseRat? s
    let (call, rest) ← takeCall n rest
    if rest ≠ [] then none else
    some (showMat (homoForward s n call))
  | _ => none

def stepFixed (ts : List String) : Option String := do
  match ts with
  | n :: k :: rest =>
    let n ← n.toNat?
    let k ← k.toNat?
    if rest.length < k then none else
    let stored ← parseRats? (rest.take k)
    let rest := rest.drop k
    let (learned, rest) ← (match rest with
      | "0" :: r => some (none, r)
      | "1" :: s :: r => (parseRat? s).map fun s => (some s, r)
      | _ => none : Option (Option Rat × List String))
    let (call, rest) ← takeCall n rest
    if rest ≠ [] then none else
    some (showMat (fixedShaped stored.toArray learned n call))
  | _ => none

def takeTask (t : Nat) (ts : List String) : Option (Option (TaskNoise t Rat) × List String) :=
  match ts with
  | "N" :: rest => some (none, rest)
  | "D" :: rest => do
      if rest.length < t then none else
      let d ← parseRats? (rest.take t)
      some (some (.diag (vecOf d t)), rest.drop t)
  | "R" :: r :: rest => do
      let r ← r.toNat?
      if rest.length < t * r then none else
      let f ← parseRats? (rest.take (t * r))
      let arr := f.toArray
      let F : DMat t r Rat := DMat.ofMatrix fun i j => arr[i.1 * r + j.1]!
      some (some (.root r F), rest.drop (t * r))
  | _ => none

def stepMT (ts : List String) : Option String := do
  match ts with
  | n :: t :: il :: rest =>
    let n ← n.toNat?
    let t ← t.toNat?
    let (task, rest) ← takeTask t rest
    let glob ← (match rest with
      | ["N"] => some none
      | ["G", s] => (parseRat? s).map some
      | _ => none : Option (Option Rat))
    let cfg : MTConfig t Rat := { task := task, global := glob }
    some (showMat (mtShaped cfg n (il == "1")))
  | _ => none

def stepMarg (ts : List String) : Option String := do
  let (r1, c1, C, rest) ← takeMat? ts
  let (r2, c2, R, rest) ← takeMat? rest
  if rest ≠ [] ∨ r1 ≠ c1 ∨ r2 ≠ c2 ∨ r1 ≠ r2 then none else
  let Cm : DMat r1 r1 Rat := DMat.ofRaw C
  let Rm : DMat r1 r1 Rat := DMat.ofRaw R
  some (showMat (marginalExpr Cm Rm))

def stepScalar (which : String) (ts : List String) : Option String := do
  match ← parseRats? ts with
  | [y, m, v, r] =>
    let (fy, fm, fv, fr) := (ratToFloat y, ratToFloat m, ratToFloat v, ratToFloat r)
    if which = "elp" then
      if r = 0 then none else
      some s!"{showRat (-2 * expectedLogProbExpr (fun _ => (0 : Rat)) 0 (1 / 2) y m v r)} {(expectedLogProbExpr Float.log log2pi 0.5 fy fm fv fr).toBits.toNat}"
    else
      if v + r = 0 then none else
      some s!"{showRat (-2 * logMarginalExpr (fun _ => (0 : Rat)) 0 (1 / 2) y m v r)} {showRat (v + r)} {(logMarginalExpr Float.log log2pi 0.5 fy fm fv fr).toBits.toNat}"
  | _ => none

def stepRoute (ts : List String) : Option String := do
  match ts with
  | [which, nl, na, nn] =>
    let nl ← nl.toNat?
    let na ← na.toNat?
    let nn ← nn.toInt?
    let noise : Option (List Nat) := if nn < 0 then none else some (List.range nn.toNat)
    match (if which = "forward" then listForwardRoute else listCallRoute) (List.range nl) (List.range na) noise with
    | none => some "none"
    | some out => some (" ".intercalate (out.map fun (l, a, ν) =>
        s!"{l}:{a}:{match ν with | none => "N" | some k => toString k}"))
  | _ => none

def step (line : String) : String :=
  let r := match tokens line with
    | "homo" :: ts => stepHomo ts
    | "fixed" :: ts => stepFixed ts
    | "mt" :: ts => stepMT ts
    | "marg" :: ts => stepMarg ts
    | "elp" :: ts => stepScalar "elp" ts
    | "lm" :: ts => stepScalar "lm" ts
    | "route" :: ts => stepRoute ts
    | _ => none
  r.getD "bad-request"

def main : IO Unit := Proto.main step

/-
C12 line-protocol driver over the definitions REGENERATED from the source (`GPVerif.Gen.NoiseModels`, translator G7;
proved equal to the specification `GPVerif.Model.Noise` in Props/C12.lean) (exact ℚ for operators and polynomial parts, `Float` for
the closed forms with `log`).  One reply line per request line.

  homo  n s  c [ν₁ … νₙ]                     → R            (c = 1: call-time noise follows)
  fixed n k stored₁…stored_k  l [s]  c [ν…]  → R            (l = 1: learned σ² follows)
  mt    n t il  (N | D d₁…d_t | R r F₁₁…F_tr)  (N | G s)   → R  (n·t × n·t; il = 1 interleaved)
  marg  <C as r c v…> <R as r c v…>          → C + R
  elp   y m v r                               → quad  bits(Float expectedLogProb)   (IEEE-754 bit pattern as a natural number)
  lm    y m v r                               → quad  v+r  bits(Float logMarginal)
  route (call|forward) nl na nn [mask]        → none | l:a:ν …   (nn = -1: no noise kwarg; N = no noise kwarg; mask char k = 0:
                                                 entry k of the noise list is `None` → `l:a:None`)
  getters                                     → Class.name:writes …   (regenerated table of property getters)
  hetero n lb c [ν…] μ₁…μₙ                     → bits(R₁₁) … bits(Rₙₙ) offdiag0   (Float; `lb` = lower bound of the constraint)
  heterotask t k lb idx… μ₁…μ_t               → bits of the k diagonal entries of one point
  heteroprotocol                              → mode protocol of HeteroskedasticNoise.forward
  dir eps c N labels…                         → N bits (noise row c) N bits (transformed targets row c)
  dirshaped eps epsD ncS ncI c N labels… l [s] n c [labels…] → rows  bits(diag R) offdiag0
  fixedapply k v₁…v_k                         → stored noise after a same-dtype / same-device move
  miss (elp|lm) (nan|y) m v r                 → -2·(polynomial part, 0 when missing)  bits(Float value)
-/
import GPVerif.Model.Noise
import GPVerif.Gen.NoiseModels
import GPVerif.Model.Proto

open Proto Noise Gen.NoiseModels

def ratToFloat (q : Rat) : Float := Float.ofInt q.num / Float.ofNat q.den

def pi : Float := 3.141592653589793
def log2pi : Float := Float.log (2 * pi)

def vecOf (l : List Rat) (n : Nat) : Fin n → Rat := fun i => l.toArray[i.1]!

def showMat {n m : Nat} (A : DMat n m Rat) : String :=
  if n = 0 then "0 0 " else showRows A.toRows

/-- optional call-time noise: `0` | `1 ν₁ … νₙ` -/
def takeCall (n : Nat) (ts : List String) : Option (Option (Fin n → Rat) × List String) :=
  match ts with
  | "0" :: rest => some (none, rest)
  | "1" :: rest => do
      if rest.length < n then none else
      let vs ← parseRats? (rest.take n)
      some (some (vecOf vs n), rest.drop n)
  | _ => none

def stepHomo (ts : List String) : Option String := do
  match ts with
  | n :: s :: rest =>
    let n ← n.toNat?
    let s ← parseRat? s
    let (call, rest) ← takeCall n rest
    if rest ≠ [] then none else
    some (showMat (homoForward s n call))
  | _ => none

def stepFixed (ts : List String) : Option String := do
  match ts with
  | n :: k :: rest =>
    let n ← n.toNat?
    let k ← k.toNat?
    if rest.length < k then none else
    let stored ← parseRats? (rest.take k)
    let rest := rest.drop k
    let (learned, rest) ← (match rest with
      | "0" :: r => some (none, r)
      | "1" :: s :: r => (parseRat? s).map fun s => (some s, r)
      | _ => none : Option (Option Rat × List String))
    let (call, rest) ← takeCall n rest
    if rest ≠ [] then none else
    some (showMat (fixedShaped stored.toArray learned n call))
  | _ => none

def takeTask (t : Nat) (ts : List String) : Option (Option (TaskNoise t Rat) × List String) :=
  match ts with
  | "N" :: rest => some (none, rest)
  | "D" :: rest => do
      if rest.length < t then none else
      let d ← parseRats? (rest.take t)
      some (some (.diag (vecOf d t)), rest.drop t)
  | "R" :: r :: rest => do
      let r ← r.toNat?
      if rest.length < t * r then none else
      let f ← parseRats? (rest.take (t * r))
      let arr := f.toArray
      let F : DMat t r Rat := DMat.ofMatrix fun i j => arr[i.1 * r + j.1]!
      some (some (.root r F), rest.drop (t * r))
  | _ => none

def stepMT (ts : List String) : Option String := do
  match ts with
  | n :: t :: il :: rest =>
    let n ← n.toNat?
    let t ← t.toNat?
    let (task, rest) ← takeTask t rest
    let glob ← (match rest with
      | ["N"] => some none
      | ["G", s] => (parseRat? s).map some
      | _ => none : Option (Option Rat))
    let cfg : MTConfig t Rat := { task := task, global := glob }
    some (showMat (mtShaped cfg n (il == "1")))
  | _ => none

def stepMarg (ts : List String) : Option String := do
  let (r1, c1, C, rest) ← takeMat? ts
  let (r2, c2, R, rest) ← takeMat? rest
  if rest ≠ [] ∨ r1 ≠ c1 ∨ r2 ≠ c2 ∨ r1 ≠ r2 then none else
  let Cm : DMat r1 r1 Rat := DMat.ofRaw C
  let Rm : DMat r1 r1 Rat := DMat.ofRaw R
  some (showMat (marginalExpr Cm Rm))

def stepScalar (which : String) (ts : List String) : Option String := do
  match ← parseRats? ts with
  | [y, m, v, r] =>
    let (fy, fm, fv, fr) := (ratToFloat y, ratToFloat m, ratToFloat v, ratToFloat r)
    if which = "elp" then
      if r = 0 then none else
      some s!"{showRat (-2 * expectedLogProbExpr (fun _ => (0 : Rat)) 0 (1 / 2) y m v r)} {(expectedLogProbExpr Float.log log2pi 0.5 fy fm fv fr).toBits.toNat}"
    else
      if v + r = 0 then none else
      some s!"{showRat (-2 * logMarginalExpr (fun _ => (0 : Rat)) 0 (1 / 2) y m v r)} {showRat (v + r)} {(logMarginalExpr Float.log log2pi 0.5 fy fm fv fr).toBits.toNat}"
  | _ => none

def stepRoute (ts : List String) : Option String := do
  match ts with
  | which :: nl :: na :: nn :: maskTs =>
    let nl ← nl.toNat?
    let na ← na.toNat?
    let nn ← nn.toInt?
    -- optional mask: character k is `0` when entry k of the noise list is `None`
    let mask : List Char := match maskTs with
      | [m] => m.toList
      | _ => []
    if maskTs.length > 1 then none else
    let entry (k : Nat) : Option Nat := if mask.getD k '1' = '0' then none else some k
    let noise : Option (List (Option Nat)) := if nn < 0 then none else some ((List.range nn.toNat).map entry)
    match (if which = "forward" then listForwardRoute else listCallRoute) (List.range nl) (List.range na) noise with
    | none => some "none"
    | some out => some (" ".intercalate (out.map fun (l, a, e) =>
        s!"{l}:{a}:{match e with | none => "N" | some none => "None" | some (some k) => toString k}"))
  | _ => none

/-- `getters` → the regenerated table of property getters: `Class.name:write,write …` -/
def stepGetters : Option String :=
  some (" ".intercalate (propertyGetters.map fun (g, ws) => s!"{g}:{",".intercalate (ws.map fun w => w.replace " " "")}"))

/-! ### second part: HeteroskedasticNoise, Dirichlet, missing observations (Float where a `log` / constraint transform is involved) -/

instance : Zero Float := ⟨0.0⟩
instance : One Float := ⟨1.0⟩

/-- `GreaterThan(lb).transform`: `softplus(x) + lb`. -/
def softplusLB (lb x : Float) : Float := Float.log (1 + Float.exp x) + lb

def bitsOf (x : Float) : String := toString x.toBits.toNat

def floatVec (l : List Rat) (n : Nat) : Fin n → Float := fun i => ratToFloat l.toArray[i.1]!

def natFn (l : List Nat) : Nat → Nat := fun i => l.toArray[i]!

/-- diagonal as bit patterns, then `1` when every off-diagonal entry is exactly zero -/
def showDiagF {n : Nat} (A : DMat n n Float) : String :=
  let rows := A.toRows
  let idx := List.range n
  let diag := idx.map fun i => bitsOf ((rows.getD i []).getD i 0.0)
  let off := idx.all fun i => idx.all fun j => i == j || ((rows.getD i []).getD j 0.0) == 0.0
  " ".intercalate (diag ++ [if off then "offdiag0" else "OFFDIAG-NONZERO"])

/-- `hetero n lb c [ν…] μ₁…μₙ` -/
def stepHetero (ts : List String) : Option String := do
  match ts with
  | n :: lb :: rest =>
    let n ← n.toNat?
    let lb ← parseRat? lb
    let (call, rest) ← takeCall n rest
    if rest.length ≠ n then none else
    let μ ← parseRats? rest
    let callF : Option (Fin n → Float) := call.map fun ν => fun i => ratToFloat (ν i)
    some (showDiagF (heteroForward (softplusLB (ratToFloat lb)) n (floatVec μ n) callF))
  | _ => none

/-- `heterotask t k lb idx₁…idx_k μ₁…μ_t` (one point of a multi-output noise model) -/
def stepHeteroTask (ts : List String) : Option String := do
  match ts with
  | t :: k :: lb :: rest =>
    let t ← t.toNat?
    let k ← k.toNat?
    let lb ← parseRat? lb
    if rest.length ≠ k + t then none else
    let idx ← (rest.take k).mapM String.toNat?
    if idx.any (· ≥ t) then none else
    let μ ← parseRats? (rest.drop k)
    if h : t = 0 then none else
    let idxF : Fin k → Fin t := fun a => ⟨idx.toArray[a.1]! % t, Nat.mod_lt _ (Nat.pos_of_ne_zero h)⟩
    let d := heteroTaskDiagGen (softplusLB (ratToFloat lb)) (floatVec μ t) idxF
    some (" ".intercalate ((List.finRange k).map fun a => bitsOf (d a)))
  | _ => none

/-- `dir eps c N l₁…l_N` → noise row `c` (N bit patterns) then transformed-target row `c` (N bit patterns) -/
def stepDir (ts : List String) : Option String := do
  match ts with
  | eps :: c :: N :: rest =>
    let eps ← parseRat? eps
    let c ← c.toNat?
    let N ← N.toNat?
    if rest.length ≠ N then none else
    let ls ← rest.mapM String.toNat?
    let e := ratToFloat eps
    let noise := (List.range N).map fun i => bitsOf (dirNoiseEntryGen Float.log 0.5 e (natFn ls) c i)
    let targ := (List.range N).map fun i => bitsOf (dirTargetEntryGen Float.log 0.5 e (natFn ls) c i)
    some (" ".intercalate (noise ++ targ))
  | _ => none

/-- `dirshaped eps epsDefault ncSelf ncInferred c N l₁…l_N  l [s]  n  c [m₁…mₙ]` → rows of the call-time noise, diagonal of `R`
(class `c`), off-diagonal flag -/
def stepDirShaped (ts : List String) : Option String := do
  match ts with
  | eps :: epsD :: ncS :: ncI :: c :: N :: rest =>
    let eps ← parseRat? eps
    let epsD ← parseRat? epsD
    let ncS ← ncS.toNat?
    let ncI ← ncI.toNat?
    let c ← c.toNat?
    let N ← N.toNat?
    if rest.length < N then none else
    let ls ← (rest.take N).mapM String.toNat?
    let rest := rest.drop N
    let (learned, rest) ← (match rest with
      | "0" :: r => some (none, r)
      | "1" :: s :: r => (parseRat? s).map fun s => (some (ratToFloat s), r)
      | _ => none : Option (Option Float × List String))
    match rest with
    | n :: rest =>
      let n ← n.toNat?
      let call ← (match rest with
        | ["0"] => some none
        | "1" :: ms => if ms.length = n then (ms.mapM String.toNat?).map some else none
        | _ => none : Option (Option (List Nat)))
      let R := dirichletShaped Float.log 0.5 (ratToFloat eps) (ratToFloat epsD) (natFn ls) N c learned n (call.map natFn)
      some s!"rows={dirCallNumClasses ncS ncI} {showDiagF R}"
    | _ => none
  | _ => none

/-- `miss (elp|lm) (nan|y) m v r` → exact polynomial part (as for `elp` / `lm`; `0` when missing) and the Float value -/
def stepMiss (ts : List String) : Option String := do
  match ts with
  | which :: y :: rest =>
    let yq ← (if y = "nan" then some none else (parseRat? y).map some : Option (Option Rat))
    match ← parseRats? rest with
    | [m, v, r] =>
      let (fm, fv, fr) := (ratToFloat m, ratToFloat v, ratToFloat r)
      let yf := yq.map ratToFloat
      let fill := missingFillValue
      if which = "elp" then
        if r = 0 then none else
        some s!"{showRat (-2 * missingElpGen (fun _ => (0 : Rat)) 0 (1 / 2) fill yq m v r)} {bitsOf (missingElpGen Float.log log2pi 0.5 (ratToFloat fill) yf fm fv fr)}"
      else
        if v + r = 0 then none else
        some s!"{showRat (-2 * missingLmGen (fun _ => (0 : Rat)) 0 (1 / 2) fill yq m v r)} {bitsOf (missingLmGen Float.log log2pi 0.5 (ratToFloat fill) yf fm fv fr)}"
    | _ => none
  | _ => none

/-- `fixedapply k v₁…v_k` → the stored noise after a move that keeps dtype and device (`fn = id`) -/
def stepFixedApply (ts : List String) : Option String := do
  match ts with
  | k :: rest =>
    let k ← k.toNat?
    if rest.length ≠ k then none else
    let v ← parseRats? rest
    some (" ".intercalate ((fixedApplyGen id (fun _ _ => (0 : Rat)) v.toArray).toList.map showRat))
  | _ => none

def step (line : String) : String :=
  let r := match tokens line with
    | "homo" :: ts => stepHomo ts
    | "fixed" :: ts => stepFixed ts
    | "mt" :: ts => stepMT ts
    | "marg" :: ts => stepMarg ts
    | "elp" :: ts => stepScalar "elp" ts
    | "lm" :: ts => stepScalar "lm" ts
    | "route" :: ts => stepRoute ts
    | ["getters"] => stepGetters
    | "hetero" :: ts => stepHetero ts
    | "heterotask" :: ts => stepHeteroTask ts
    | "dir" :: ts => stepDir ts
    | "dirshaped" :: ts => stepDirShaped ts
    | "miss" :: ts => stepMiss ts
    | "fixedapply" :: ts => stepFixedApply ts
    | ["heteroprotocol"] => some (" ".intercalate heteroProtocolGen)
    | _ => none
  r.getD "bad-request"

def main : IO Unit := Proto.main step

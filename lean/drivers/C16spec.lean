/-
Fall-back driver for C16: the hand-written, theorem-backed model only (no import of GPVerif/Gen), same protocol as
drivers/C16.lean (every generated value is reported as `nogen`).  Used by harness/props/c16.py when the regenerated
Gen/ExactAlgebra.lean no longer type-checks or the main driver dies, so that every case is still judged against the
specification and a faithfully regenerated but wrong source yields a concrete failing input.
-/
import GPVerif.Model.NanDriver

def main : IO Unit := Proto.main (NanDriver.step NanDriver.noGen)

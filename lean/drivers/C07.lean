import GPVerif.Gen.C07Constants
import GPVerif.Model.Proto
open Proto C07

/-!
Line protocol (one reply line per request line):

* `psd δ M`        — `M` symmetric rational `n×n`, `δ ≥ 0` rational.
                      reply `P0;Pδ` where `P0` is about `M` and `Pδ` about `M + δI`, each one of
                      `psd <min pivot>`            (certificate `L D Lᵀ`, `D ≥ 0`, checked exactly)
                      `neg <vᵀ(·)v> <n 1 v…>`      (a vector of negative curvature, checked exactly)
                      `und`                        (neither found — cannot happen for a symmetric matrix; reported, never hidden)
                      or `asym` when `M ≠ Mᵀ`.
* `quad δ M v`     — exact `vᵀ M v` and `vᵀ (M + δI) v` (`quadForm`): a negative value refutes PSD (`quad_neg_not_psd`);
                      used for matrices too large for the certificate, with `v` proposed by the float eigen-solver
* `var b v`        — `Clamp.run Gen.C07.varianceClamp v b`    (MultivariateNormal.variance)
* `fix b v`        — `Clamp.run Gen.C07.fixedNoiseClamp v b`  (FixedGaussianNoise.__init__)
* `noise l r…`     — `NExpr.eval Gen.C07.greaterThanTransform` at `Float`; all numbers are IEEE-754 bit
                      patterns (decimal `UInt64`); transform = `softplusT Float.exp Float.log 20`.
* `schur A B D`    — `posteriorCov? A B D` (rows) or `singular`
* `red A B`        — `reduction? A B`
* `vcov Kss B S`   — `variationalCov Kss B S`
* `const`          — the generated constants, `name=value` separated by `;`
-/

def minOf {n : Nat} (d : Fin n → Rat) : Rat :=
  (List.finRange n).foldl (fun acc i => if d i < acc then d i else acc) (if h : 0 < n then d ⟨0, h⟩ else 0)

def decide1 {n : Nat} (M : DMat n n Rat) : String :=
  match psdCert? M with
  | some (_, d) => s!"psd {showRat (minOf d)}"
  | none =>
    match negWitness? M with
    | some v => s!"neg {showRat (quadForm M v)} {n} 1 " ++ " ".intercalate ((List.finRange n).map fun i => showRat (v i))
    | none => "und"

def vecOf (rows : Array (Array Rat)) (n : Nat) : Fin n → Rat := fun i => (rows[i.1]?.getD #[])[0]?.getD 0

def showVec {n : Nat} (v : Fin n → Rat) : String :=
  s!"{n} 1 " ++ " ".intercalate ((List.finRange n).map fun i => showRat (v i))

def floatOfTok (s : String) : Option Float := s.toNat?.map fun k => Float.ofBits k.toUInt64

def softplusF : Float → Float := softplusT Float.exp Float.log 20.0

def step (line : String) : String :=
  match tokens line with
  | "psd" :: δ :: rest =>
    match parseRat? δ, takeMat? rest with
    | some δ, some (r, c, rows, _) =>
      if r = c then
        let M : DMat r r Rat := DMat.ofRaw rows
        if !isSymmB M then "asym" else
        decide1 M ++ ";" ++ decide1 (shift M δ)
      else "bad"
    | _, _ => "bad"
  | "quad" :: δ :: rest =>
    match parseRat? δ, takeMat? rest with
    | some δ, some (r, c, rows, rest) =>
      match takeMat? rest with
      | some (r', _, vr, _) =>
        if r = c ∧ r = r' then
          let M : DMat r r Rat := DMat.ofRaw rows
          if !isSymmB M then "asym" else
          let v := vecOf vr r
          s!"{showRat (quadForm M v)} {showRat (quadForm (shift M δ) v)}"
        else "bad"
      | none => "bad"
    | _, _ => "bad"
  | "var" :: b :: rest =>
    match parseRat? b, takeMat? rest with
    | some b, some (r, _, rows, _) => showVec (Gen.C07.varianceClamp.run (vecOf rows r) b)
    | _, _ => "bad"
  | "fix" :: b :: rest =>
    match parseRat? b, takeMat? rest with
    | some b, some (r, _, rows, _) => showVec (Gen.C07.fixedNoiseClamp.run (vecOf rows r) b)
    | _, _ => "bad"
  | "noise" :: l :: raws =>
    match floatOfTok l, raws.mapM floatOfTok with
    | some l, some rs =>
      " ".intercalate (rs.map fun r => toString (Gen.C07.greaterThanTransform.eval softplusF r l).toBits.toNat)
    | _, _ => "bad"
  | "schur" :: rest =>
    match takeMat? rest with
    | some (n, n', a, rest) =>
      match takeMat? rest with
      | some (n'', m, b, rest) =>
        match takeMat? rest with
        | some (m', m'', d, _) =>
          if n = n' ∧ n = n'' ∧ m = m' ∧ m = m'' then
            let A : DMat n n Rat := DMat.ofRaw a
            let B : DMat n m Rat := DMat.ofRaw b
            let D : DMat m m Rat := DMat.ofRaw d
            match posteriorCov? A B D with
            | some P => showRows P.toRows
            | none => "singular"
          else "bad"
        | none => "bad"
      | none => "bad"
    | none => "bad"
  | "red" :: rest =>
    match takeMat? rest with
    | some (n, n', a, rest) =>
      match takeMat? rest with
      | some (n'', m, b, _) =>
        if n = n' ∧ n = n'' then
          let A : DMat n n Rat := DMat.ofRaw a
          let B : DMat n m Rat := DMat.ofRaw b
          match reduction? A B with
          | some P => showRows P.toRows
          | none => "singular"
        else "bad"
      | none => "bad"
    | none => "bad"
  | "vcov" :: rest =>
    match takeMat? rest with
    | some (m, m', kss, rest) =>
      match takeMat? rest with
      | some (k, m'', b, rest) =>
        match takeMat? rest with
        | some (k', k'', s, _) =>
          if m = m' ∧ m = m'' ∧ k = k' ∧ k = k'' then
            let Kss : DMat m m Rat := DMat.ofRaw kss
            let B : DMat k m Rat := DMat.ofRaw b
            let S : DMat k k Rat := DMat.ofRaw s
            showRows (variationalCov Kss B S).toRows
          else "bad"
        | none => "bad"
      | none => "bad"
    | none => "bad"
  | ["const"] =>
    ";".intercalate [
      s!"minVarianceFloat={showRat Gen.C07.minVarianceFloat}",
      s!"minVarianceDouble={showRat Gen.C07.minVarianceDouble}",
      s!"minVarianceHalf={showRat Gen.C07.minVarianceHalf}",
      s!"minFixedNoiseFloat={showRat Gen.C07.minFixedNoiseFloat}",
      s!"minFixedNoiseDouble={showRat Gen.C07.minFixedNoiseDouble}",
      s!"minFixedNoiseHalf={showRat Gen.C07.minFixedNoiseHalf}",
      s!"homoskedasticNoiseLower={showRat Gen.C07.homoskedasticNoiseLower}",
      s!"heteroskedasticNoiseLower={showRat Gen.C07.heteroskedasticNoiseLower}",
      s!"multitaskNoiseLower={showRat Gen.C07.multitaskNoiseLower}"]
  | _ => "bad"

def main : IO Unit := Proto.main step

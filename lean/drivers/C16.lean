/-
Line-protocol driver for C16 (runs the NaN-policy definitions of GPVerif/Model/ExactGP.lean at ℚ and the GENERATED
`Gen.ExactAlgebra.exact_prediction` of translator G7 next to them).  The protocol (requests `nan`, `union`) is in
GPVerif/Model/NanDriver.lean; `drivers/C16spec.lean` is the same driver without the generated code.
-/
import GPVerif.Model.NanDriver
import GPVerif.Gen.ExactAlgebra
open ExactGP

/-- cfg bit mask: 1 fast, 2 skip, 4 detach, 8 eager, 16 ttDim2, 32 ttIsTensor. -/
def cfgOf (code : Nat) (pol : Policy) : Gen.ExactAlgebra.Cfg :=
  { fast := code % 2 == 1, skip := (code / 2) % 2 == 1, detach := (code / 4) % 2 == 1, eager := (code / 8) % 2 == 1,
    ttDim2 := (code / 16) % 2 == 1, ttIsTensor := (code / 32) % 2 == 1, cache4d := false, policy := pol }

def gen : NanDriver.GenFn := fun n _ code pol J mj A mx y obs c =>
  Gen.ExactAlgebra.exact_prediction (cfgOf code pol) J mj A mx y (DMat.zero : DMat n 1 Rat) obs c

def main : IO Unit := Proto.main (NanDriver.step gen)

/-
Line-protocol driver for C16 (runs the NaN-policy definitions of GPVerif/Model/ExactGP.lean at ℚ).

Request:
  nan n s  J[(n+s)×(n+s)] mj[(n+s)×1] S[n×n] y[n×1] obs[n×1 of 0/1] c[1×1] c'[1×1]
    (entries of y at missing positions are arbitrary placeholders; they are never read under mask and are
     overwritten by the fill value c under fill)
  -> ok cnt | meanMask | covarMask | meanFill | covarFill | covarIgnoringPolicy | quad | det
     where quad = r_oᵀ (A_oo)⁻¹ r_o and det = det(sym A_oo) (certified LDLᵀ; `nodet` when the certificate fails)
     (or `singular`)
-/
import GPVerif.Model.ExactGP
import GPVerif.Model.LDL
import GPVerif.Model.Proto
open Proto ExactGP

def takeD (n m : Nat) (ts : List String) : Option (DMat n m Rat × List String) := do
  let (r, c, rows, rest) ← takeMat? ts
  if r = n ∧ c = m then some (DMat.ofRaw rows, rest) else none

def showD {n m : Nat} (A : DMat n m Rat) : String := showRows A.toRows

def detStr {k : Nat} (A : DMat k k Rat) : String :=
  let Asym : DMat k k Rat := (A.add A.transpose).smul (1 / 2)
  match DMat.ldl? Asym with
  | some (_, d) => showRat ((List.finRange k).foldl (fun acc i => acc * d i) 1)
  | none => "nodet"

def stepNan (n s : Nat) (ts : List String) : Option String := do
  let (J, ts) ← takeD (n + s) (n + s) ts
  let (mj, ts) ← takeD (n + s) 1 ts
  let (S, ts) ← takeD n n ts
  let (y, ts) ← takeD n 1 ts
  let (o, ts) ← takeD n 1 ts
  let (c, ts) ← takeD 1 1 ts
  let (c', _) ← takeD 1 1 ts
  let obs : Fin n → Bool := fun i => o.toMatrix i 0 != 0
  match nanPosterior J mj S y obs (c.toMatrix 0 0) (c'.toMatrix 0 0) with
  | some P =>
    some ("ok " ++ " | ".intercalate [toString P.cnt, showD P.meanMask, showD P.covarMask, showD P.meanFill,
      showD P.covarFill, showD P.covarIgnoring, showRat P.quad,
      detStr (maskSub (marginal (trainBlock J) S) obs)])
  | none => some "singular"

def step (line : String) : String :=
  let r : Option String :=
    match tokens line with
    | "nan" :: n :: s :: ts => do stepNan (← n.toNat?) (← s.toNat?) ts
    | _ => none
  r.getD "bad-request"

def main : IO Unit := Proto.main step

/-
Line-protocol driver for C16 (runs the NaN-policy definitions of GPVerif/Model/ExactGP.lean at ℚ).

Request:
  nan n s  J[(n+s)×(n+s)] mj[(n+s)×1] S[n×n] y[n×1] obs[n×1 of 0/1] c[1×1] c'[1×1] cfg
    (entries of y at missing positions are arbitrary placeholders; they are never read under mask and are
     overwritten by the fill value c under fill)
  -> ok cnt | meanMask | covarMask | meanFill | covarFill | covarIgnoringPolicy | quad | det
        | gMeanMask | gCovarMask | gMeanFill | gCovarFill
     the g* from the GENERATED `Gen.ExactAlgebra.exact_prediction` (translator G7) under policy mask / fill and the
     branch configuration cfg (bit mask: 1 fast, 2 skip, 4 detach, 8 eager, 16 ttDim2), fill value c; `nogen` when
     the generated function returns none;
     where quad = r_oᵀ (A_oo)⁻¹ r_o and det = det(sym A_oo) (certified LDLᵀ; `nodet` when the certificate fails)
     (or `singular`)
-/
import GPVerif.Model.ExactGP
import GPVerif.Gen.ExactAlgebra
import GPVerif.Model.LDL
import GPVerif.Model.Proto
open Proto ExactGP

def takeD (n m : Nat) (ts : List String) : Option (DMat n m Rat × List String) := do
  let (r, c, rows, rest) ← takeMat? ts
  if r = n ∧ c = m then some (DMat.ofRaw rows, rest) else none

def showD {n m : Nat} (A : DMat n m Rat) : String := showRows A.toRows

def detStr {k : Nat} (A : DMat k k Rat) : String :=
  let Asym : DMat k k Rat := (A.add A.transpose).smul (1 / 2)
  match DMat.ldl? Asym with
  | some (_, d) => showRat ((List.finRange k).foldl (fun acc i => acc * d i) 1)
  | none => "nodet"

def cfgOf (code : Nat) (pol : Policy) : Gen.ExactAlgebra.Cfg :=
  { fast := code % 2 == 1, skip := (code / 2) % 2 == 1, detach := (code / 4) % 2 == 1, eager := (code / 8) % 2 == 1,
    ttDim2 := (code / 16) % 2 == 1, ttIsTensor := (code / 32) % 2 == 1, cache4d := false, policy := pol }

def stepNan (n s : Nat) (ts : List String) : Option String := do
  let (J, ts) ← takeD (n + s) (n + s) ts
  let (mj, ts) ← takeD (n + s) 1 ts
  let (S, ts) ← takeD n n ts
  let (y, ts) ← takeD n 1 ts
  let (o, ts) ← takeD n 1 ts
  let (c, ts) ← takeD 1 1 ts
  let (c', ts) ← takeD 1 1 ts
  let code := (ts.head?.bind String.toNat?).getD 24
  let obs : Fin n → Bool := fun i => o.toMatrix i 0 != 0
  let A := marginal (trainBlock J) S
  let gen (pol : Policy) : List String :=
    match Gen.ExactAlgebra.exact_prediction (cfgOf code pol) J mj A (splitMean mj).1 y (DMat.zero : DMat n 1 Rat) obs
            (c.toMatrix 0 0) with
    | some (m, C) => [showD m, showD C]
    | none => ["nogen", "nogen"]
  match nanPosterior J mj S y obs (c.toMatrix 0 0) (c'.toMatrix 0 0) with
  | some P =>
    some ("ok " ++ " | ".intercalate ([toString P.cnt, showD P.meanMask, showD P.covarMask, showD P.meanFill,
      showD P.covarFill, showD P.covarIgnoring, showRat P.quad,
      detStr (maskSub A obs)] ++ gen Policy.mask ++ gen Policy.fill))
  | none => some "singular"

def step (line : String) : String :=
  let r : Option String :=
    match tokens line with
    | "nan" :: n :: s :: ts => do stepNan (← n.toNat?) (← s.toNat?) ts
    | _ => none
  r.getD "bad-request"

def main : IO Unit := Proto.main step

import GPVerif.Model.ELBO
import GPVerif.Model.Proto
import GPVerif.Gen.NaturalGrad
import GPVerif.Gen.NaturalForward
import GPVerif.Gen.StrategyEnv
open DMat Variational ELBO

/-! Line protocol for C15 (same conventions as drivers/C14.lean; interactive, flushed per line). -/

abbrev P := StateT (List String) Option

def popNat : P Nat := do
  match (← get) with
  | t :: rest => set rest; (t.toNat? : Option Nat)
  | [] => failure

def popRat : P Rat := do
  match (← get) with
  | t :: rest => set rest; (Proto.parseRat? t : Option Rat)
  | [] => failure

def popStr : P String := do
  match (← get) with
  | t :: rest => set rest; pure t
  | [] => failure

def popMat (r c : Nat) : P (DMat r c Rat) := do
  match Proto.takeMat? (← get) with
  | some (r', c', rows, rest) =>
    if r' = r ∧ c' = c then do set rest; pure (DMat.ofRaw rows) else failure
  | none => failure

def popRats (k : Nat) : P (List Rat) := do
  let mut out := []
  for _ in [0:k] do
    out := out ++ [← popRat]
  pure out

def sh {r c : Nat} (A : DMat r c Rat) : String := Proto.showRows A.toRows
def shS (q : Rat) : String := s!"1 1 {Proto.showRat q}"
def shO (q : Option Rat) : String := match q with | some q => shS q | none => "0 0"
def reply (parts : List String) : String := "ok " ++ " ".intercalate parts

def colList {n : Nat} (v : DMat n 1 Rat) : List Rat := (List.finRange n).map fun i => v.toMatrix i 0

/-- objective value: `E kind n Y MU V s logs log2pi LOGVS B kl N beta k lps… j losses…` -/
def doE : P String := do
  let kind ← popStr
  let n ← popNat
  let Y ← popMat n 1; let MU ← popMat n 1; let V ← popMat n 1
  let Sv ← popMat n 1; let LS ← popMat n 1; let l2p ← popRat      -- per-point noise sᵢ and log sᵢ
  let LV ← popMat n 1
  let B ← popRat; let kl ← popRat; let N ← popRat; let β ← popRat
  let k ← popNat; let lps ← popRats k
  let j ← popNat; let losses ← popRats j
  let ys := colList Y; let μs := colList MU; let vs := colList V; let lvs := colList LV
  let ss := colList Sv; let lss := colList LS
  let pts := List.zip (List.zip ys μs) (List.zip (List.zip vs lvs) (List.zip ss lss))
  let terms : List Rat :=
    if kind = "elbo" then pts.map fun ((y, μ), ((v, _), (s, ls))) => gaussExpected y μ v s ls l2p
    else pts.map fun ((y, μ), ((v, lv), (s, _))) => gaussLogMarginal y μ v s lv l2p
  let t := terms.sum
  -- the separately returned terms (`combine_terms=False`), through the generated expressions
  let gll := Gen.ElboScaling.logLikelihood t B kl N β
  let gkl := Gen.ElboScaling.klTerm t B kl N β
  let glp := lps.foldl (fun acc lp => acc + Gen.ElboScaling.logPriorItem lp t B kl N β) 0
  let gal := losses.foldl (fun acc l => acc + Gen.ElboScaling.addedLossItem l t B kl N β) 0
  pure <| reply [shS (objective terms B kl N β lps losses), shS (objectiveSpec terms B kl N β lps losses),
    shS t, shS gll, shS gkl, shS glp, shS gal]

/-- pieces of the collapsed bound and exact marginal: `C M n Kzz Kzx Kxx r eps epsx s` -/
def doC : P String := do
  let M ← popNat; let n ← popNat
  let Kzz ← popMat M M; let Kzx ← popMat M n; let Kxx ← popMat n n; let r ← popMat n 1
  let ε ← popRat; let εx ← popRat; let s ← popRat
  match boundPieces? (addJitter Kzz ε) Kzx (addJitter Kxx εx) r s with
  | some (qA, A, trD, qC, Cm) => pure <| reply [shS qA, shO (det? A), shS trD, shS qC, shO (det? Cm)]
  | none => pure "fail singular"

/-- optimal q: `OPT M n L Kzx r s` -/
def doOPT : P String := do
  let M ← popNat; let n ← popNat
  let L ← popMat M M; let Kzx ← popMat M n; let r ← popMat n 1; let s ← popRat
  match inv? L with
  | some Li =>
    let B := Li.mul Kzx
    let (e1, e2) := optNatural B r s
    match optWhitened? B r s with
    | some (mw, Sw) =>
      let (d, S) := unwhiten L mw Sw
      pure <| reply [sh e1, sh e2, sh mw, sh Sw, sh d, sh S]
    | none => pure "fail singular-opt"
  | none => pure "fail singular"

/-- expectation-parameter gradient of the loss: `G M n L Kzx r s N eta1 eta2` -/
def doG : P String := do
  let M ← popNat; let n ← popNat
  let L ← popMat M M; let Kzx ← popMat M n; let r ← popMat n 1; let s ← popRat; let N ← popRat
  let e1 ← popMat M 1; let e2 ← popMat M M
  match inv? L with
  | some Li =>
    let (g1, g2) := lossGradExpectation (Li.mul Kzx) r s N e1 e2
    pure <| reply [sh g1, sh g2]
  | none => pure "fail singular"

/-- NGD update: `S a b P G lr N` -/
def doS : P String := do
  let a ← popNat; let b ← popNat
  let Pm ← popMat a b; let G ← popMat a b; let lr ← popRat; let N ← popRat
  pure <| reply [sh (ngdStepMat Pm G lr N)]

/-- generated `_NaturalToMuVarSqrt._backward`: `NB M gMu gL mu L C` -/
def doNB : P String := do
  let M ← popNat
  let gMu ← popMat M 1; let gL ← popMat M M; let mu ← popMat M 1; let L ← popMat M M; let C ← popMat M M
  let (o1, o2) := Gen.NaturalGrad.naturalBackward gMu gL mu L C
  pure <| reply [sh o1, sh o2]

/-- the theorem's upstream pair and what the generated `_backward` makes of it:
`NBT M n Lk Kzx r s N eta1 eta2 mu L` — `(b, A) = lossGradExpectation`, upstream `(b + 2Aμ, 2AL)`, `C = L⁻¹` exact;
replies `gMu gL out1 out2 b A` (theorem `natural_backward_elbo_gradient`: `out = (b, A)`). -/
def doNBT : P String := do
  let M ← popNat; let n ← popNat
  let Lk ← popMat M M; let Kzx ← popMat M n; let r ← popMat n 1; let s ← popRat; let N ← popRat
  let e1 ← popMat M 1; let e2 ← popMat M M; let mu ← popMat M 1; let L ← popMat M M
  match inv? Lk, inv? L with
  | some Li, some C =>
    let (b, A) := lossGradExpectation (Li.mul Kzx) r s N e1 e2
    let gMu := b.add ((A.mul mu).smul 2)
    let gL := (A.mul L).smul 2
    let (o1, o2) := Gen.NaturalGrad.naturalBackward gMu gL mu L C
    pure <| reply [sh gMu, sh gL, sh o1, sh o2, sh b, sh A]
  | _, _ => pure "fail singular"

def maxAbs {r c : Nat} (A : DMat r c Rat) : Rat :=
  (A.toRows.map fun row => (row.map fun v => if v < 0 then -v else v).foldl max 0).foldl max 0

/-- generated `_NaturalToMuVarSqrt._forward` / `NaturalVariationalDistribution.forward`: `NF M eta1 eta2 Linv Lc` with
the two Cholesky factors supplied by the harness (`Linv ≈ chol(−2η₂)`, `Lc ≈ chol(S)`), the triangular inverse exact;
replies `mu L cov |Linv Linvᵀ − (−2η₂)| |Lc Lcᵀ − S|` (contract residuals of the supplied factors). -/
def doNF : P String := do
  let M ← popNat
  let e1 ← popMat M 1; let e2 ← popMat M M; let Linv ← popMat M M; let Lc ← popMat M M
  let arg1 := e2.smul (-2)
  let chol : DMat M M Rat → DMat M M Rat := fun X => if X.toRows == arg1.toRows then Linv else Lc
  let triInv : DMat M M Rat → DMat M M Rat := fun X => (inv? X).getD X
  match inv? Linv with
  | some Lp =>
    let (mu, L) := Gen.NaturalForward.naturalForward chol triInv e1 e2
    let (_, cov) := Gen.NaturalForward.distForward chol triInv e1 e2
    let S := Lp.transpose.mul Lp
    pure <| reply [sh mu, sh L, sh cov, shS (maxAbs ((Linv.mul Linv.transpose).sub arg1)),
      shS (maxAbs ((Lc.mul Lc.transpose).sub S)),
      shS (if Gen.NaturalForward.savedAreOutputs && Gen.NaturalForward.backwardReadsSaved then 1 else 0)]
  | none => pure "fail singular"

/-- generated jitter resolution: `J <ctor: none | rational> <assigned: none | rational> settingAtCtor settingAtUse`
replies the jitter a float64 evaluation uses, and the memo-discipline fact -/
def doJ : P String := do
  let c ← popStr; let a ← popStr; let sc ← popRat; let su ← popRat
  let ctor : Option Rat := if c = "none" then none else Proto.parseRat? c
  let stored0 := Gen.StrategyEnv.storedJitter ctor sc
  let stored := if a = "none" then stored0 else
    match Proto.parseRat? a with | some v => Gen.StrategyEnv.jitterSetter v | none => stored0
  pure <| reply [shS (Gen.StrategyEnv.jitterVal stored su), shS (if Gen.StrategyEnv.trainingCallClearsMemo then 1 else 0)]

def step (line : String) : String :=
  match Proto.tokens line with
  | kind :: rest =>
    let p : Option (P String) := match kind with
      | "E" => some doE | "C" => some doC | "OPT" => some doOPT | "G" => some doG | "S" => some doS
      | "NB" => some doNB | "NBT" => some doNBT | "NF" => some doNF | "J" => some doJ | _ => none
    match p with
    | some p => match p.run rest with
      | some (s, []) => s
      | some (_, _) => "fail trailing-tokens"
      | none => "fail parse"
    | none => "fail unknown-kind"
  | [] => "fail empty"

partial def loop (i o : IO.FS.Stream) : IO Unit := do
  let line ← i.getLine
  if line.isEmpty then return ()
  o.putStrLn (step (String.ofList (line.toList.filter (fun c => c ≠ '\n' && c ≠ '\r'))))
  o.flush
  loop i o

def main : IO Unit := do
  loop (← IO.getStdin) (← IO.getStdout)

import GPVerif.Model.ELBO
import GPVerif.Model.Proto
open DMat Variational ELBO

/-! Line protocol for C15 (same conventions as drivers/C14.lean; interactive, flushed per line). -/

abbrev P := StateT (List String) Option

def popNat : P Nat := do
  match (← get) with
  | t :: rest => set rest; (t.toNat? : Option Nat)
  | [] => failure

def popRat : P Rat := do
  match (← get) with
  | t :: rest => set rest; (Proto.parseRat? t : Option Rat)
  | [] => failure

def popStr : P String := do
  match (← get) with
  | t :: rest => set rest; pure t
  | [] => failure

def popMat (r c : Nat) : P (DMat r c Rat) := do
  match Proto.takeMat? (← get) with
  | some (r', c', rows, rest) =>
    if r' = r ∧ c' = c then do set rest; pure (DMat.ofRaw rows) else failure
  | none => failure

def popRats (k : Nat) : P (List Rat) := do
  let mut out := []
  for _ in [0:k] do
    out := out ++ [← popRat]
  pure out

def sh {r c : Nat} (A : DMat r c Rat) : String := Proto.showRows A.toRows
def shS (q : Rat) : String := s!"1 1 {Proto.showRat q}"
def shO (q : Option Rat) : String := match q with | some q => shS q | none => "0 0"
def reply (parts : List String) : String := "ok " ++ " ".intercalate parts

def colList {n : Nat} (v : DMat n 1 Rat) : List Rat := (List.finRange n).map fun i => v.toMatrix i 0

/-- objective value: `E kind n Y MU V s logs log2pi LOGVS B kl N beta k lps… j losses…` -/
def doE : P String := do
  let kind ← popStr
  let n ← popNat
  let Y ← popMat n 1; let MU ← popMat n 1; let V ← popMat n 1
  let Sv ← popMat n 1; let LS ← popMat n 1; let l2p ← popRat      -- per-point noise sᵢ and log sᵢ
  let LV ← popMat n 1
  let B ← popRat; let kl ← popRat; let N ← popRat; let β ← popRat
  let k ← popNat; let lps ← popRats k
  let j ← popNat; let losses ← popRats j
  let ys := colList Y; let μs := colList MU; let vs := colList V; let lvs := colList LV
  let ss := colList Sv; let lss := colList LS
  let pts := List.zip (List.zip ys μs) (List.zip (List.zip vs lvs) (List.zip ss lss))
  let terms : List Rat :=
    if kind = "elbo" then pts.map fun ((y, μ), ((v, _), (s, ls))) => gaussExpected y μ v s ls l2p
    else pts.map fun ((y, μ), ((v, lv), (s, _))) => gaussLogMarginal y μ v s lv l2p
  let t := terms.sum
  -- the separately returned terms (`combine_terms=False`), through the generated expressions
  let gll := Gen.ElboScaling.logLikelihood t B kl N β
  let gkl := Gen.ElboScaling.klTerm t B kl N β
  let glp := lps.foldl (fun acc lp => acc + Gen.ElboScaling.logPriorItem lp t B kl N β) 0
  let gal := losses.foldl (fun acc l => acc + Gen.ElboScaling.addedLossItem l t B kl N β) 0
  pure <| reply [shS (objective terms B kl N β lps losses), shS (objectiveSpec terms B kl N β lps losses),
    shS t, shS gll, shS gkl, shS glp, shS gal]

/-- pieces of the collapsed bound and exact marginal: `C M n Kzz Kzx Kxx r eps epsx s` -/
def doC : P String := do
  let M ← popNat; let n ← popNat
  let Kzz ← popMat M M; let Kzx ← popMat M n; let Kxx ← popMat n n; let r ← popMat n 1
  let ε ← popRat; let εx ← popRat; let s ← popRat
  match boundPieces? (addJitter Kzz ε) Kzx (addJitter Kxx εx) r s with
  | some (qA, A, trD, qC, Cm) => pure <| reply [shS qA, shO (det? A), shS trD, shS qC, shO (det? Cm)]
  | none => pure "fail singular"

/-- optimal q: `OPT M n L Kzx r s` -/
def doOPT : P String := do
  let M ← popNat; let n ← popNat
  let L ← popMat M M; let Kzx ← popMat M n; let r ← popMat n 1; let s ← popRat
  match inv? L with
  | some Li =>
    let B := Li.mul Kzx
    let (e1, e2) := optNatural B r s
    match optWhitened? B r s with
    | some (mw, Sw) =>
      let (d, S) := unwhiten L mw Sw
      pure <| reply [sh e1, sh e2, sh mw, sh Sw, sh d, sh S]
    | none => pure "fail singular-opt"
  | none => pure "fail singular"

/-- expectation-parameter gradient of the loss: `G M n L Kzx r s N eta1 eta2` -/
def doG : P String := do
  let M ← popNat; let n ← popNat
  let L ← popMat M M; let Kzx ← popMat M n; let r ← popMat n 1; let s ← popRat; let N ← popRat
  let e1 ← popMat M 1; let e2 ← popMat M M
  match inv? L with
  | some Li =>
    let (g1, g2) := lossGradExpectation (Li.mul Kzx) r s N e1 e2
    pure <| reply [sh g1, sh g2]
  | none => pure "fail singular"

/-- NGD update: `S a b P G lr N` -/
def doS : P String := do
  let a ← popNat; let b ← popNat
  let Pm ← popMat a b; let G ← popMat a b; let lr ← popRat; let N ← popRat
  pure <| reply [sh (ngdStepMat Pm G lr N)]

def step (line : String) : String :=
  match Proto.tokens line with
  | kind :: rest =>
    let p : Option (P String) := match kind with
      | "E" => some doE | "C" => some doC | "OPT" => some doOPT | "G" => some doG | "S" => some doS | _ => none
    match p with
    | some p => match p.run rest with
      | some (s, []) => s
      | some (_, _) => "fail trailing-tokens"
      | none => "fail parse"
    | none => "fail unknown-kind"
  | [] => "fail empty"

partial def loop (i o : IO.FS.Stream) : IO Unit := do
  let line ← i.getLine
  if line.isEmpty then return ()
  o.putStrLn (step (String.ofList (line.toList.filter (fun c => c ≠ '\n' && c ≠ '\r'))))
  o.flush
  loop i o

def main : IO Unit := do
  loop (← IO.getStdin) (← IO.getStdout)

import GPVerif.Model.Variational
import GPVerif.Gen.VariationalAlgebra
import GPVerif.Model.Proto
open DMat Variational

/-! Line protocol for C14.  One request per line: `KIND dims… matrices…`; matrices travel as `r c v…`
(exact rationals).  Reply: `ok` followed by matrices (scalars as 1×1), or `fail <why>`. -/

abbrev P := StateT (List String) Option

def popNat : P Nat := do
  match (← get) with
  | t :: rest => set rest; (t.toNat? : Option Nat)
  | [] => failure

def popRat : P Rat := do
  match (← get) with
  | t :: rest => set rest; (Proto.parseRat? t : Option Rat)
  | [] => failure

def popMat (r c : Nat) : P (DMat r c Rat) := do
  match Proto.takeMat? (← get) with
  | some (r', c', rows, rest) =>
    if r' = r ∧ c' = c then do set rest; pure (DMat.ofRaw rows) else failure
  | none => failure

def popMats (k r c : Nat) : P (Array (DMat r c Rat)) := do
  let mut out := #[]
  for _ in [0:k] do
    out := out.push (← popMat r c)
  pure out

def sh {r c : Nat} (A : DMat r c Rat) : String := Proto.showRows A.toRows
def shS (q : Rat) : String := s!"1 1 {Proto.showRat q}"
def shO (q : Option Rat) : String := match q with | some q => shS q | none => "0 0"
def shV {n : Nat} (v : Fin n → Rat) : String :=
  s!"{n} 1 " ++ " ".intercalate ((List.finRange n).map fun i => Proto.showRat (v i))

def maxAbs {r c : Nat} (A : DMat r c Rat) : Rat :=
  A.toRows.foldl (fun acc row => row.foldl (fun a x => max a (if x < 0 then -x else x)) acc) 0

def getD {k r c : Nat} (a : Array (DMat r c Rat)) (i : Fin k) : DMat r c Rat := a[i.1]?.getD DMat.zero

def reply (parts : List String) : String := "ok " ++ " ".intercalate parts

/-- whitened strategy.  When `εx = ε` (VariationalStrategy and its wrappers) the code path is evaluated through the
definitions GENERATED from the source (`Gen.VariationalAlgebra`); CIQ (`εx = 2ε`, symmetric root) uses the hand-written
`whitenedFwd`. -/
def doW : P String := do
  let M ← popNat; let n ← popNat
  let Kzz ← popMat M M; let Kzx ← popMat M n; let Kxx ← popMat n n; let mX ← popMat n 1
  let ε ← popRat; let εx ← popRat
  let L ← popMat M M; let mw ← popMat M 1; let Sw ← popMat M M; let flag ← popNat
  let hasS := flag % 2          -- flag = hasS + 2·trace_mode
  let trace := flag / 2
  let Kt := addJitter Kzz ε
  match inv? L, inv? Kt with
  | some Li, some Ki =>
    let e : Gen.VariationalAlgebra.Env M n 1 Rat :=
      { Kzz := Kzz, Kzx := Kzx, Kxx := Kxx, mX := mX, mZ := DMat.zero, m := mw, S := Sw, R := DMat.zero,
        L := L, Li := Li, Ki := Ki, ε := ε, εd := 0 }
    let gen := εx = ε
    let code : QF n Rat :=
      if gen then
        (if trace = 1 then
          (if hasS = 1 then { mean := Gen.VariationalAlgebra.wMeanTrace e, cov := Gen.VariationalAlgebra.wCovTrace e }
           else { mean := Gen.VariationalAlgebra.wMeanTrace e, cov := Gen.VariationalAlgebra.wCovTraceDelta e })
         else
          (if hasS = 1 then { mean := Gen.VariationalAlgebra.wMean e, cov := Gen.VariationalAlgebra.wCov e }
           else { mean := Gen.VariationalAlgebra.wMeanDelta e, cov := Gen.VariationalAlgebra.wCovDelta e }))
      else whitenedFwd Kzx Kxx mX εx Li mw Sw
    let cholArg := if gen then Gen.VariationalAlgebra.wCholArg e else Kt
    let (d, S0) := unwhiten L mw Sw
    -- a point mass has no covariance: the strategy then uses middle term `−I`, i.e. `S = 0`
    let cf := closedForm Kzx (addJitter Kxx εx) mX Kt Ki d S0
    let resid := maxAbs ((L.mul L.transpose).sub cholArg)
    let detSw := if hasS = 1 then det? Sw else none
    let detS := if hasS = 1 then det? S0 else none
    pure <| reply [sh code.mean, sh code.cov, sh cf.mean, sh cf.cov, shS resid,
      shS (klRatWhitened mw Sw), shO detSw, shS (klRat Ki S0 d), shO detS, shO (det? Kt),
      shS (quadForm (one : DMat M M Rat) mw), shS (quadForm Ki d)]
  | _, _ => pure "fail singular"

/-- unwhitened strategy; code path through the GENERATED definitions (`uMean`, `uCov`, `uPriorCov`, `uCholArg`,
`uSolveMat`).  `U M n r Kzz Kzx Kxx mX mZ ε εx εp m R S hasS L εd`. -/
def doU : P String := do
  let M ← popNat; let n ← popNat; let r ← popNat
  let Kzz ← popMat M M; let Kzx ← popMat M n; let Kxx ← popMat n n; let mX ← popMat n 1; let mZ ← popMat M 1
  let ε ← popRat; let εx ← popRat; let εp ← popRat
  let m ← popMat M 1; let R ← popMat M r; let S ← popMat M M; let hasS ← popNat
  let L ← popMat M M; let εd ← popRat
  let Kt := addJitter Kzz ε
  let Pr := addJitter Kzz εp
  let d := m.sub mZ
  let e0 : Gen.VariationalAlgebra.Env M n r Rat :=
    { Kzz := Kzz, Kzx := Kzx, Kxx := Kxx, mX := mX, mZ := mZ, m := m, S := S, R := R,
      L := L, Li := DMat.zero, Ki := DMat.zero, ε := ε, εd := εd }
  let Pc := Gen.VariationalAlgebra.uPriorCov e0
  match inv? (Gen.VariationalAlgebra.uSolveMat e0), inv? Kt, inv? Pr, inv? Pc with
  | some Kis, some Ki, some Pi, some Pci =>
    let e := { e0 with Ki := Kis }
    let code : QF n Rat := { mean := Gen.VariationalAlgebra.uMean e, cov := Gen.VariationalAlgebra.uCov e }
    let cf := closedForm Kzx (addJitter Kxx εx) mX Kt Ki d S
    let resid := maxAbs ((R.mul R.transpose).sub S)
    let residL := maxAbs ((Gen.VariationalAlgebra.uSolveMat e).sub (Gen.VariationalAlgebra.uCholArg e))
    let tv := unwhitenedTrainVar Kzx Kxx Ki R
    -- the TRAINING-mode branch as generated from the source: mean and the diagonal of its covariance
    let tcov := Gen.VariationalAlgebra.uTrainCov e
    let tvGen : Fin n → Rat := fun i => tcov.toMatrix i i
    let dc := m.sub (Gen.VariationalAlgebra.uPriorMean e)
    pure <| reply [sh code.mean, sh code.cov, sh cf.mean, sh cf.cov, shS resid, shV tv,
      shS (klRat Pi S d), shO (if hasS = 1 then det? S else none), shO (det? Pr), shS (quadForm Pi d),
      shS (klRat Pci S dc), shO (det? Pc), shS (quadForm Pci dc), shS residL,
      shS (Gen.VariationalAlgebra.uPriorJitter e - Gen.VariationalAlgebra.uForwardJitter e),
      shV tvGen, sh (Gen.VariationalAlgebra.uTrainMean e)]
  | _, _, _, _ => pure "fail singular"

/-- generic KL parts of `N(m,S)` (or a point mass at `m`) against `N(μ, P)` -/
def doK : P String := do
  let M ← popNat
  let Pm ← popMat M M; let m ← popMat M 1; let μ ← popMat M 1; let S ← popMat M M; let hasS ← popNat
  match inv? Pm with
  | some Pi =>
    let d := m.sub μ
    pure <| reply [shS (klRat Pi S d), shO (if hasS = 1 then det? S else none), shO (det? Pm), shS (quadForm Pi d)]
  | none => pure "fail singular"

def doDC : P String := do
  let M ← popNat; let Pm ← popMat M M
  pure <| reply [sh (cholCov Pm), sh (tril Pm)]

def doDM : P String := do
  let M ← popNat; let s ← popMat M 1
  pure <| reply [sh (meanFieldCov s)]

def doDN : P String := do
  let M ← popNat; let e1 ← popMat M 1; let e2 ← popMat M M
  match natural? e1 e2 with
  | some (μ, S) =>
    match inv? S with
    | some Pi => let (b1, b2) := toNaturalOfInv Pi μ
                 pure <| reply [sh μ, sh S, sh b1, sh b2]
    | none => pure "fail singular-back"
  | none => pure "fail singular"

def doDT : P String := do
  let M ← popNat; let e1 ← popMat M 1; let Tm ← popMat M M
  match trilNatural? e1 Tm with
  | some (μ, S) => pure <| reply [sh μ, sh S]
  | none => pure "fail singular"

def doI : P String := do
  let n ← popNat; let M ← popNat
  let W ← popMat n M; let m ← popMat M 1; let S ← popMat M M
  let q := interpFwd W m S
  pure <| reply [sh q.mean, sh q.cov]

/-- grid interpolation through the GENERATED definitions (`gMean`, `gCov`, `gPriorMean`, `gPriorCov`).
`IG n M W m S Kzz mZ ε εd`. -/
def doIG : P String := do
  let n ← popNat; let M ← popNat
  let W ← popMat n M; let m ← popMat M 1; let S ← popMat M M; let Kzz ← popMat M M; let mZ ← popMat M 1
  let ε ← popRat; let εd ← popRat
  let e : Gen.VariationalAlgebra.EnvGrid M n Rat := { W := W, m := m, S := S, Kzz := Kzz, mZ := mZ, ε := ε, εd := εd }
  pure <| reply [sh (Gen.VariationalAlgebra.gMean e), sh (Gen.VariationalAlgebra.gCov e),
    sh (Gen.VariationalAlgebra.gPriorMean e), sh (Gen.VariationalAlgebra.gPriorCov e)]

/-- batch-decoupled strategy through the GENERATED definitions (`bdMean`, `bdCov`, `bdCholArg0/1`).
`BD M n Kzz0 Kzz1 Kzx0 Kzx1 Kxx0 Kxx1 mX0 mX1 ε L0 L1 m S`. -/
def doBD : P String := do
  let M ← popNat; let n ← popNat
  let Kzz0 ← popMat M M; let Kzz1 ← popMat M M; let Kzx0 ← popMat M n; let Kzx1 ← popMat M n
  let Kxx0 ← popMat n n; let Kxx1 ← popMat n n; let mX0 ← popMat n 1; let mX1 ← popMat n 1
  let ε ← popRat
  let L0 ← popMat M M; let L1 ← popMat M M; let m ← popMat M 1; let S ← popMat M M
  match inv? L0, inv? L1 with
  | some Li0, some Li1 =>
    let e : Gen.VariationalAlgebra.EnvBD M n Rat :=
      { Kzz0 := Kzz0, Kzz1 := Kzz1, Kzx0 := Kzx0, Kzx1 := Kzx1, Kxx0 := Kxx0, Kxx1 := Kxx1, mX0 := mX0, mX1 := mX1,
        L0 := L0, L1 := L1, Li0 := Li0, Li1 := Li1, m := m, S := S, ε := ε }
    pure <| reply [sh (Gen.VariationalAlgebra.bdMean e), sh (Gen.VariationalAlgebra.bdCov e),
      shS (maxAbs ((L0.mul L0.transpose).sub (Gen.VariationalAlgebra.bdCholArg0 e))),
      shS (maxAbs ((L1.mul L1.transpose).sub (Gen.VariationalAlgebra.bdCholArg1 e)))]
  | _, _ => pure "fail singular"

/-- orthogonally decoupled strategy through the GENERATED definitions (`oMean`, `oCov`, `oKLEval`, `oKLTrain`, priors).
`OG n M μx μz Cxx Cxz Czz ε m`; the KL terms are reported with base KL `0`. -/
def doOG : P String := do
  let n ← popNat; let M ← popNat
  let μx ← popMat n 1; let μz ← popMat M 1; let Cxx ← popMat n n; let Cxz ← popMat n M; let Czz ← popMat M M
  let ε ← popRat; let m ← popMat M 1
  let e : Gen.VariationalAlgebra.EnvOrth M n Rat :=
    { μx := μx, μz := μz, Cxx := Cxx, Cxz := Cxz, Czz := Czz, m := m, ε := ε }
  pure <| reply [sh (Gen.VariationalAlgebra.oMean e), sh (Gen.VariationalAlgebra.oCov e),
    shS (Gen.VariationalAlgebra.oKLEval e 0), shS (Gen.VariationalAlgebra.oKLTrain e 0),
    sh (Gen.VariationalAlgebra.oPriorMean e), sh (Gen.VariationalAlgebra.oPriorCov e),
    sh (Gen.VariationalAlgebra.oTrainPriorCov e)]

def doO : P String := do
  let n ← popNat; let M ← popNat
  let μx ← popMat n 1; let Cxx ← popMat n n; let Cxz ← popMat n M; let Czz ← popMat M M
  let ε ← popRat; let m ← popMat M 1
  let q := orthFwd μx Cxx Cxz m
  pure <| reply [sh q.mean, sh q.cov, shS (orthKLExtra Czz ε m)]

def doL : P String := do
  let Q ← popNat; let n ← popNat; let T ← popNat
  let ε ← popRat; let A ← popMat Q T
  let μs ← popMats Q n 1; let Cs ← popMats Q n n
  pure <| reply [sh (lmcMean (fun q : Fin Q => getD μs q) A), sh (lmcCov (fun q : Fin Q => getD Cs q) A ε)]

def doLI : P String := do
  let Q ← popNat; let n ← popNat; let T ← popNat
  if T = 0 then failure
  let ε ← popRat; let A ← popMat Q T
  let mut τs : Array Nat := #[]
  for _ in [0:n] do
    τs := τs.push (← popNat)
  let μs ← popMats Q n 1; let Cs ← popMats Q n n
  if h : 0 < T then
    let τ : Fin n → Fin T := fun i => ⟨(τs[i.1]?.getD 0) % T, Nat.mod_lt _ h⟩
    pure <| reply [sh (lmcMeanIdx (fun q : Fin Q => getD μs q) A τ), sh (lmcCovIdx (fun q : Fin Q => getD Cs q) A τ ε)]
  else failure

def doIN : P String := do
  let T ← popNat; let n ← popNat
  let μs ← popMats T n 1; let Cs ← popMats T n n
  pure <| reply [sh (indepMean (fun t : Fin T => getD μs t)), sh (indepCov (fun t : Fin T => getD Cs t))]

def step (line : String) : String :=
  match Proto.tokens line with
  | kind :: rest =>
    let p : Option (P String) := match kind with
      | "W" => some doW | "U" => some doU | "DC" => some doDC | "DM" => some doDM | "DN" => some doDN
      | "DT" => some doDT | "I" => some doI | "O" => some doO | "L" => some doL | "LI" => some doLI
      | "IN" => some doIN | "K" => some doK | "IG" => some doIG | "BD" => some doBD | "OG" => some doOG | _ => none
    match p with
    | some p => match p.run rest with
      | some (s, []) => s
      | some (_, _) => "fail trailing-tokens"
      | none => "fail parse"
    | none => "fail unknown-kind"
  | [] => "fail empty"

/-- interactive loop: one reply per request, flushed immediately (the harness asks dependent questions). -/
partial def loop (i o : IO.FS.Stream) : IO Unit := do
  let line ← i.getLine
  if line.isEmpty then return ()
  o.putStrLn (step (String.ofList (line.toList.filter (fun c => c ≠ '\n' && c ≠ '\r'))))
  o.flush
  loop i o

def main : IO Unit := do
  loop (← IO.getStdin) (← IO.getStdout)

import GPVerif.Gen.Settings
open Settings Gen.Settings

/-- tokens → program.  Grammar:  prog := item* ; item := "P" | "R" | "W" cid nargs (fid val)^nargs prog "E" -/
partial def parseProg (ts : List String) : Option (Prog × List String) :=
  match ts with
  | [] => some (.skip, [])
  | "E" :: _ => some (.skip, ts)
  | "P" :: rest => do
      let (q, r) ← parseProg rest
      some (.seq .probe q, r)
  | "R" :: rest => do
      let (q, r) ← parseProg rest
      some (.seq .raise q, r)
  | "W" :: cid :: nargs :: rest => do
      let cid ← cid.toNat?
      let n ← nargs.toNat?
      let d ← classes.find? (·.id = cid)
      let argToks := rest.take (2 * n)
      if argToks.length < 2 * n then none else
      let rec mk (l : List String) (acc : Frame) : Option Frame :=
        match l with
        | f :: v :: tl => do
            let f ← f.toNat?
            let v : Val ← if v = "N" then some none else v.toNat?.map some
            mk tl (setF acc f v)
        | [] => some acc
        | _ => none
      -- unspecified parameters take their declared defaults
      let base : Frame := fun p => match d.params.find? (·.1 = p) with
        | some (_, some dv) => dv
        | _ => none
      let args ← mk argToks base
      let (body, r) ← parseProg (rest.drop (2 * n))
      match r with
      | "E" :: r' => do
          let (q, r'') ← parseProg r'
          some (.seq (.withC d args body) q, r'')
      | _ => none
  | _ => none

def dump (σ : Store) : String :=
  ",".intercalate (classes.flatMap fun d => d.fields.map fun (f, _) =>
    match σ d.id f with | none => "N" | some k => toString k)

def step (line : String) : String :=
  -- first token: "S" (warnings escalated to errors) or "L" (lenient)
  let toks := (line.splitOn " ").filter (· ≠ "")
  let strict := toks.head? == some "S"
  match parseProg (toks.drop 1) with
  | some (p, []) =>
    let r := p.run strict (initialStore classes) []
    s!"raised={if r.raised then 1 else 0};final={dump r.store};trace=" ++ "|".intercalate (r.trace.reverse.map dump)
  | _ => "bad-program"

partial def loop (h : IO.FS.Stream) (o : IO.FS.Stream) : IO Unit := do
  let line ← h.getLine
  if line.isEmpty then return ()
  o.putStrLn (step (String.ofList (line.toList.filter (fun c => c ≠ '\n' && c ≠ '\r'))))
  loop h o

def main : IO Unit := do
  let o ← IO.getStdout
  loop (← IO.getStdin) o
  o.flush

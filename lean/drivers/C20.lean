import GPVerif.Gen.Settings
import GPVerif.Model.SettingsExt
open Settings Gen.Settings

/-- `nargs (fid val)^nargs` → the constructor's argument frame (unspecified parameters take their declared defaults) and
the remaining tokens. -/
def parseArgs (d : ClassDesc) (n : Nat) (rest : List String) : Option (Frame × List String) :=
  let argToks := rest.take (2 * n)
  if argToks.length < 2 * n then none else
  let rec mk (l : List String) (acc : Frame) : Option Frame :=
    match l with
    | f :: v :: tl => do
        let f ← f.toNat?
        let v : Val ← if v = "N" then some none else v.toNat?.map some
        mk tl (setF acc f v)
    | [] => some acc
    | _ => none
  let base : Frame := fun p => match d.params.find? (·.1 = p) with
    | some (_, some dv) => dv
    | _ => none
  do
    let args ← mk argToks base
    some (args, rest.drop (2 * n))

/-- tokens → program.  Grammar:  prog := item* ; item := "P" | "R" | "W" cid nargs (fid val)^nargs prog "E" -/
partial def parseProg (ts : List String) : Option (Prog × List String) :=
  match ts with
  | [] => some (.skip, [])
  | "E" :: _ => some (.skip, ts)
  | "P" :: rest => do
      let (q, r) ← parseProg rest
      some (.seq .probe q, r)
  | "R" :: rest => do
      let (q, r) ← parseProg rest
      some (.seq .raise q, r)
  | "W" :: cid :: nargs :: rest => do
      let cid ← cid.toNat?
      let n ← nargs.toNat?
      let d ← classes.find? (·.id = cid)
      let (args, rest') ← parseArgs d n rest
      let (body, r) ← parseProg rest'
      match r with
      | "E" :: r' => do
          let (q, r'') ← parseProg r'
          some (.seq (.withC d args body) q, r'')
      | _ => none
  | _ => none

/-- `k (cid nargs (fid val)^nargs)^k` → the items of a multi-manager `with` -/
partial def parseItems (k : Nat) (ts : List String) : Option (List (ClassDesc × Frame) × List String) :=
  match k with
  | 0 => some ([], ts)
  | k + 1 =>
    match ts with
    | cid :: nargs :: rest => do
        let cid ← cid.toNat?
        let n ← nargs.toNat?
        let d ← classes.find? (·.id = cid)
        let (args, rest') ← parseArgs d n rest
        let (more, r) ← parseItems k rest'
        some ((d, args) :: more, r)
    | _ => none

/-- extended grammar:  item := "P" | "R" | "W" cid nargs args prog "E" | "M" k (cid nargs args)^k prog "E"
  | "T" prog "E"   (try: prog / except: pass)
  | "X" prog "E"   (with ExitStack() as es: prog) | "C" cid nargs args   (es.enter_context(cid(args))) -/
partial def parseX (ts : List String) : Option (XProg × List String) :=
  match ts with
  | [] => some (.skip, [])
  | "E" :: _ => some (.skip, ts)
  | "P" :: rest => do
      let (q, r) ← parseX rest
      some (.seq .probe q, r)
  | "R" :: rest => do
      let (q, r) ← parseX rest
      some (.seq .raise q, r)
  | "C" :: cid :: nargs :: rest => do
      let cid ← cid.toNat?
      let n ← nargs.toNat?
      let d ← classes.find? (·.id = cid)
      let (args, rest') ← parseArgs d n rest
      let (q, r) ← parseX rest'
      some (.seq (.enterCtx d args) q, r)
  | "W" :: cid :: nargs :: rest => do
      let cid ← cid.toNat?
      let n ← nargs.toNat?
      let d ← classes.find? (·.id = cid)
      let (args, rest') ← parseArgs d n rest
      let (body, r) ← parseX rest'
      match r with
      | "E" :: r' => do
          let (q, r'') ← parseX r'
          some (.seq (.withC d args body) q, r'')
      | _ => none
  | "M" :: k :: rest => do
      let k ← k.toNat?
      let (items, rest') ← parseItems k rest
      let (body, r) ← parseX rest'
      match r with
      | "E" :: r' => do
          let (q, r'') ← parseX r'
          some (.seq (.withMany items body) q, r'')
      | _ => none
  | "T" :: rest => do
      let (body, r) ← parseX rest
      match r with
      | "E" :: r' => do
          let (q, r'') ← parseX r'
          some (.seq (.attempt body) q, r'')
      | _ => none
  | "X" :: rest => do
      let (body, r) ← parseX rest
      match r with
      | "E" :: r' => do
          let (q, r'') ← parseX r'
          some (.seq (.stack body) q, r'')
      | _ => none
  | _ => none

/-- thread events:  ev := "e" tid cid nargs args | "x" tid | "p" tid -/
partial def parseT (ts : List String) : Option (List TEv) :=
  match ts with
  | [] => some []
  | "p" :: t :: rest => do
      let t ← t.toNat?
      let q ← parseT rest
      some (.probe t :: q)
  | "x" :: t :: rest => do
      let t ← t.toNat?
      let q ← parseT rest
      some (.exit t :: q)
  | "e" :: t :: cid :: nargs :: rest => do
      let t ← t.toNat?
      let cid ← cid.toNat?
      let n ← nargs.toNat?
      let d ← classes.find? (·.id = cid)
      let (args, rest') ← parseArgs d n rest
      let q ← parseT rest'
      some (.enter t d args :: q)
  | _ => none

def slotList : List (Nat × Nat) := classes.flatMap fun d => d.fields.map fun (f, _) => (d.id, f)

def dump (slots : List (Nat × Nat)) (σ : Store) : String :=
  ",".intercalate (slots.map fun (c, f) => match σ c f with | none => "N" | some k => toString k)

def reply (slots : List (Nat × Nat)) (raised : Bool) (store : Store) (trace : List Store) : String :=
  s!"raised={if raised then 1 else 0};final={dump slots store};trace=" ++ "|".intercalate (trace.reverse.map (dump slots))

/-- `tab` = `tabOf 64 (initialStore classes)`, computed once in `main`; the initial store of every program is
`ofTable tab (initialStore classes)` = `initialStore classes` (`C20.ofTable_tabOf`). -/
def step (slots : List (Nat × Nat)) (tab : Array (Array Val)) (line : String) : String :=
  let σ0 : Store := ofTable tab (initialStore classes)
  -- first token: "S" (warnings escalated to errors) or "L" (lenient): single-manager programs, `Prog.run`;
  -- "XS"/"XL": extended programs, `XProg.run`;  "TS"/"TL": thread interleavings, `runThreads`
  let toks := (line.splitOn " ").filter (· ≠ "")
  match toks.head? with
  | some "XS" | some "XL" =>
    match parseX (toks.drop 1) with
    | some (p, []) =>
      let r := p.run (toks.head? == some "XS") σ0 [] []
      reply slots r.raised r.store r.trace ++ s!";pending={r.pend.length}"
    | _ => "bad-program"
  | some "TS" | some "TL" =>
    match parseT (toks.drop 1) with
    | some evs =>
      let s := runThreads (toks.head? == some "TS") evs σ0
      reply slots false s.store s.trace
    | none => "bad-program"
  | _ =>
    let strict := toks.head? == some "S"
    match parseProg (toks.drop 1) with
    | some (p, []) =>
      let r := p.run strict σ0 []
      reply slots r.raised r.store r.trace
    | _ => "bad-program"

partial def loop (slots : List (Nat × Nat)) (tab : Array (Array Val)) (h : IO.FS.Stream) (o : IO.FS.Stream) : IO Unit := do
  let line ← h.getLine
  if line.isEmpty then return ()
  o.putStrLn (step slots tab (String.ofList (line.toList.filter (fun c => c ≠ '\n' && c ≠ '\r'))))
  loop slots tab h o

def main : IO Unit := do
  let o ← IO.getStdout
  loop slotList (tabOf 64 (initialStore classes)) (← IO.getStdin) o
  o.flush

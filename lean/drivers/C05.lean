/-
C05 line-protocol driver: evaluates the `Spec` / `Impl` / generated (G5) kernel terms of
`GPVerif.Model.Kernels`, `GPVerif.Gen.Formulas` in Lean `Float` (results as IEEE bit patterns) or exactly
in `Rat` (polynomial kernels).  Numbers arrive as exact rationals; vectors as `n v…`, matrices as `r c v…`.

  K  <kern> <X1> <X2>                     Float kernel matrix of a kernel expression
  KR <kern> <X1> <X2>                     the same, exact in Rat (polynomial kernels only)
  G  rbfgrad|m52grad|rbfgradgrad <ls> <X1> <X2>      derivative-kernel matrix (interleaved layout)
  G  polygrad <c> <p> <X1> <X2>    (GR … = exact Rat)
  I  rbf <ls> <c> <X1> <X2> | I matern <nu2> <ls> <c> <X1> <X2> | I sqdist <c> <X1> <X2>     Impl route
  F  rbf <grad 0/1> <ℓ> <X1> <X2>         generated RBFCovariance.forward: out matrix (and saved matrix)
  F  matern <nu2> <grad 0/1> <ℓ> <mean> <X1> <X2>
  B  rbf|matern <go> <saved>              generated backward, elementwise
  P  <q> <j> <r…>                         generated _fmax·_get_cov  |  PS: the documented polynomial
  GK <family> <params…> <X1> <X2>         terms of Gen/KernelFormulas.lean (regenerated kernel forwards / sq_dist / dist)
  GA <family> <params…> <X1> <X2>         terms of Gen/KernelAxes.lean (axis-aware regenerated forwards: sm, hamming, gskl, arc, cyl;
                                          `…same` = x1 is x2 (diagonal entries use the on-diagonal term), `…diag` = 1×n row of diag=True;
                                          rbfgradm | m52gradm <ls> <X1> <X2> = the whole generated derivative-kernel matrix, shuffle included)
  NG <z> <s>                              Newton–Girard: coded recursion and defining recursion
  MT <n> (<kern> <B> <v>)ⁿ <X1> <X2>      Σ data-kernel ⊗ task-kernel (Multitask / LCM), interleaved layout
  IX <B> <v> <idx1> <idx2>                IndexKernel lookups (Rat)
-/
import GPVerif.Model.Kernels
import GPVerif.Gen.Formulas
import GPVerif.Gen.KernelFormulas
import GPVerif.Gen.KernelAxes
import GPVerif.Model.Proto

open Kernels Scalar

section parse
variable {α : Type} [Add α] [Sub α] [Mul α] [Div α] [Neg α] [Scalar α]

abbrev P (β : Type) := List String → Option (β × List String)

def pNat : P Nat
  | t :: ts => t.toNat?.map (·, ts)
  | [] => none

def pNum : P α
  | t :: ts => (Proto.parseRat? t).map fun q => (Scalar.ofRat q, ts)
  | [] => none

def pMany {β : Type} (p : P β) : Nat → P (List β)
  | 0, ts => some ([], ts)
  | n + 1, ts => do
      let (x, ts) ← p ts
      let (xs, ts) ← pMany p n ts
      some (x :: xs, ts)

def pVec : P (List α) := fun ts => do
  let (n, ts) ← pNat ts
  pMany pNum n ts

def pMat : P (List (List α)) := fun ts => do
  let (r, ts) ← pNat ts
  let (c, ts) ← pNat ts
  pMany (pMany pNum c) r ts

partial def pKern : P (Kern α)
  | "rbf" :: ts => do let (ls, ts) ← pVec ts; some (.rbf ls, ts)
  | "matern" :: ts => do let (n, ts) ← pNat ts; let (ls, ts) ← pVec ts; some (.matern n ls, ts)
  | "rq" :: ts => do let (ls, ts) ← pVec ts; let (al, ts) ← pNum ts; some (.rq ls al, ts)
  | "periodic" :: ts => do let (ls, ts) ← pVec ts; let (ps, ts) ← pVec ts; some (.periodic ls ps, ts)
  | "cosine" :: ts => do let (p, ts) ← pNum ts; some (.cosine p, ts)
  | "linear" :: ts => do let (v, ts) ← pVec ts; some (.linear v, ts)
  | "poly" :: ts => do let (c, ts) ← pNum ts; let (p, ts) ← pNat ts; some (.poly c p, ts)
  | "pp" :: ts => do let (q, ts) ← pNat ts; let (ls, ts) ← pVec ts; some (.pp q ls, ts)
  | "const" :: ts => do let (c, ts) ← pNum ts; some (.const c, ts)
  | "sm" :: ts => do
      let (w, ts) ← pVec ts; let (mus, ts) ← pMat ts; let (scs, ts) ← pMat ts; some (.sm w mus scs, ts)
  | "sdelta" :: ts => do let (ls, ts) ← pVec ts; let (Z, ts) ← pMat ts; some (.sdelta ls Z, ts)
  | "rff" :: ts => do let (ls, ts) ← pVec ts; let (W, ts) ← pMat ts; some (.rff ls W, ts)
  | "hamming" :: ts => do
      let (v, ts) ← pNat ts; let (al, ts) ← pNum ts; let (be, ts) ← pNum ts; some (.hamming v al be, ts)
  | "gskl" :: ts => do let (l, ts) ← pNum ts; some (.gskl l, ts)
  | "arc" :: ts => do
      let (k, ts) ← pKern ts; let (ls, ts) ← pVec ts; let (an, ts) ← pVec ts; let (ra, ts) ← pVec ts
      some (.arc k ls an ra, ts)
  | "arcm" :: ts => do
      let (k, ts) ← pKern ts; let (ls, ts) ← pVec ts; let (an, ts) ← pVec ts; let (ra, ts) ← pVec ts
      some (.arcm k ls an ra, ts)
  | "cyl" :: ts => do
      let (k, ts) ← pKern ts; let (w, ts) ← pVec ts; let (al, ts) ← pNum ts; let (be, ts) ← pNum ts
      let (e, ts) ← pNum ts; some (.cyl k w al be e, ts)
  | "scale" :: ts => do let (s, ts) ← pNum ts; let (k, ts) ← pKern ts; some (.scale s k, ts)
  | "add" :: ts => do let (a, ts) ← pKern ts; let (b, ts) ← pKern ts; some (.add a b, ts)
  | "mul" :: ts => do let (a, ts) ← pKern ts; let (b, ts) ← pKern ts; some (.mul a b, ts)
  | "active" :: ts => do
      let (n, ts) ← pNat ts; let (ds, ts) ← pMany pNat n ts; let (k, ts) ← pKern ts; some (.active ds k, ts)
  | "addstruct" :: ts => do let (n, ts) ← pNat ts; let (ks, ts) ← pMany pKern n ts; some (.addStruct ks, ts)
  | "prodstruct" :: ts => do let (n, ts) ← pNat ts; let (ks, ts) ← pMany pKern n ts; some (.prodStruct ks, ts)
  | "ng" :: ts => do
      let (n, ts) ← pNat ts; let (ks, ts) ← pMany pKern n ts; let (s, ts) ← pVec ts; some (.newtonGirard ks s, ts)
  | _ => none

end parse

def showF (x : Float) : String := toString x.toBits.toNat
def showMatF (m : List (List Float)) : String :=
  s!"{m.length} {(m.head?.map List.length).getD 0} " ++ " ".intercalate (m.flatten.map showF)
def showMatR (m : List (List Rat)) : String := Proto.showRows m

section run
variable {α : Type} [Add α] [Sub α] [Mul α] [Div α] [Neg α] [Scalar α]

def runK (ts : List String) : Option (List (List α)) := do
  let (k, ts) ← pKern (α := α) ts
  let (X1, ts) ← pMat ts
  let (X2, _) ← pMat ts
  some (kernMatrix k.eval X1 X2)

def runG (ts : List String) : Option (List (List α)) :=
  match ts with
  | "polygrad" :: ts => do
      let (c, ts) ← pNum (α := α) ts; let (p, ts) ← pNat ts
      let (X1, ts) ← pMat ts; let (X2, _) ← pMat ts
      let d := (X1.head?.map List.length).getD 0
      some (gradMatrix (polyGradEntry c p) (d + 1) X1 X2)
  | kind :: ts => do
      let (ls, ts) ← pVec (α := α) ts
      let (X1, ts) ← pMat ts; let (X2, _) ← pMat ts
      let d := (X1.head?.map List.length).getD 0
      let ls := bcast ls d
      match kind with
      | "rbfgrad" => some (gradMatrix (rbfGradEntry ls) (d + 1) X1 X2)
      | "m52grad" => some (gradMatrix (matern52GradEntry ls) (d + 1) X1 X2)
      | "rbfgradgrad" => some (gradMatrix (rbfGradGradEntry ls) (2 * d + 1) X1 X2)
      | _ => none
  | _ => none

def runMT (ts : List String) : Option (List (List α)) := do
  let (n, ts) ← pNat ts
  let one : P (Kern α × List (List α) × List α) := fun ts => do
    let (k, ts) ← pKern ts; let (B, ts) ← pMat ts; let (v, ts) ← pVec ts; some ((k, B, v), ts)
  let (parts, ts) ← pMany one n ts
  let (X1, ts) ← pMat ts; let (X2, _) ← pMat ts
  let T := ((parts.head?.map fun p => p.2.1.length).getD 0)
  some (gradMatrix (fun a b s t => Scalar.sum (parts.map fun (k, B, v) => k.eval a b * indexSpec B v s t)) T X1 X2)

end run

/-- generated kernel forwards (`Gen/KernelFormulas.lean`) with the Euclidean callbacks -/
def runGK (ts : List String) : Option (List (List Float)) :=
  let sqd : List Float → List Float → Float := Scalar.sqDist
  let dst : List Float → List Float → Float := Scalar.dist
  let fin (f : List Float → List Float → Float) (ts : List String) : Option (List (List Float)) := do
    let (X1, ts) ← pMat (α := Float) ts; let (X2, _) ← pMat ts
    some (kernMatrix f X1 X2)
  match ts with
  | "rbf" :: ts => do let (ls, ts) ← pVec ts; fin (fun a b => Gen.KernelFormulas.rbfGeneric sqd dst a b ls) ts
  | "rbfgen" :: ts => do
      let (ls, ts) ← pVec ts; let (c, ts) ← pVec ts
      fin (fun a b => Gen.KernelFormulas.rbfGeneric (fun u v => Gen.KernelFormulas.sqDistGen u v c) dst a b ls) ts
  | "matern" :: nu2 :: ts => do
      let (ls, ts) ← pVec ts; let (c, ts) ← pVec ts
      match nu2 with
      | "1" => fin (fun a b => Gen.KernelFormulas.matern12Generic sqd dst a b c ls) ts
      | "3" => fin (fun a b => Gen.KernelFormulas.matern32Generic sqd dst a b c ls) ts
      | "5" => fin (fun a b => Gen.KernelFormulas.matern52Generic sqd dst a b c ls) ts
      | _ => none
  | "rq" :: ts => do
      let (ls, ts) ← pVec ts; let (al, ts) ← pNum ts; fin (fun a b => Gen.KernelFormulas.rq sqd dst a b ls al) ts
  | "periodic" :: ts => do
      let (ls, ts) ← pVec ts; let (ps, ts) ← pVec ts; fin (fun a b => Gen.KernelFormulas.periodic sqd dst a b ls ps) ts
  | "cosine" :: ts => do let (p, ts) ← pNum ts; fin (fun a b => Gen.KernelFormulas.cosine sqd dst a b p) ts
  | "linear" :: ts => do let (v, ts) ← pVec ts; fin (fun a b => Gen.KernelFormulas.linear a b v) ts
  | "linearsame" :: ts => do let (v, ts) ← pVec ts; fin (fun a b => Gen.KernelFormulas.linearSame a b v) ts
  | "poly" :: ts => do
      let (c, ts) ← pNum ts; let (p, ts) ← pNat ts; fin (fun a b => Gen.KernelFormulas.polynomial a b c p) ts
  | "polyb" :: ts => do
      let (c, ts) ← pNum ts; let (p, ts) ← pNat ts; fin (fun a b => Gen.KernelFormulas.polynomialBatched a b c p) ts
  | "polyd" :: ts => do
      let (c, ts) ← pNum ts; let (p, ts) ← pNat ts; fin (fun a b => Gen.KernelFormulas.polynomialDiag a b c p) ts
  | "pp" :: q :: ts => do
      let (ls, ts) ← pVec ts
      match q with
      | "0" => fin (fun a b => Gen.KernelFormulas.piecewisePolynomial0 sqd dst a b ls) ts
      | "1" => fin (fun a b => Gen.KernelFormulas.piecewisePolynomial1 sqd dst a b ls) ts
      | "2" => fin (fun a b => Gen.KernelFormulas.piecewisePolynomial2 sqd dst a b ls) ts
      | "3" => fin (fun a b => Gen.KernelFormulas.piecewisePolynomial3 sqd dst a b ls) ts
      | _ => none
  | "const" :: ts => do let (c, ts) ← pNum ts; fin (fun a b => Gen.KernelFormulas.constantK a b c) ts
  | "sqdist" :: ts => do let (c, ts) ← pVec ts; fin (fun a b => Gen.KernelFormulas.sqDistGen a b c) ts
  | "sqdistsame" :: ts => do let (c, ts) ← pVec ts; fin (fun a b => Gen.KernelFormulas.sqDistGenSameOff a b c) ts
  | "dist" :: ts => do let (c, ts) ← pVec ts; fin (fun a b => Gen.KernelFormulas.distGen dst a b c) ts
  | "distsame" :: ts => do let (c, ts) ← pVec ts; fin (fun a b => Gen.KernelFormulas.distGenSameOff dst a b c) ts
  | _ => none

/-- axis-aware generated kernel forwards (`Gen/KernelAxes.lean`) -/
def runGA (ts : List String) : Option (List (List Float)) :=
  let fin (f : List Float → List Float → Float) (ts : List String) : Option (List (List Float)) := do
    let (X1, ts) ← pMat (α := Float) ts; let (X2, _) ← pMat ts
    some (kernMatrix f X1 X2)
  -- x1 is x2: entry (i, j) with i = j uses the on-diagonal term
  let finSame (foff fdiag : List Float → List Float → Float) (ts : List String) : Option (List (List Float)) := do
    let (X1, ts) ← pMat (α := Float) ts; let (X2, _) ← pMat ts
    some ((X1.zipIdx).map fun (a, i) => (X2.zipIdx).map fun (b, j) => if i == j then fdiag a b else foff a b)
  -- diag=True: 1 × n row, entry i from rows i of X1 and X2
  let finDiag (f : List Float → List Float → Float) (ts : List String) : Option (List (List Float)) := do
    let (X1, ts) ← pMat (α := Float) ts; let (X2, _) ← pMat ts
    some [(X1.zip X2).map fun (a, b) => f a b]
  let jit : Float → Float → Float := fun t e => if t == 0 then t + e else t
  let split (x : List Float) : List Float × List Float := (x.take (x.length / 2), x.drop (x.length / 2))
  let ts0 := ts.headD ""
  match ts with
  | "sm" :: ts => do
      let (w, ts) ← pVec ts; let (mu, ts) ← pMat ts; let (sc, ts) ← pMat ts
      fin (fun a b => Gen.KernelAxes.spectralMixture a b w mu sc) ts
  | "smdiag" :: ts => do
      let (w, ts) ← pVec ts; let (mu, ts) ← pMat ts; let (sc, ts) ← pMat ts
      finDiag (fun a b => Gen.KernelAxes.spectralMixtureDiag a b w mu sc) ts
  | "hamming" :: ts => do
      let (v, ts) ← pNat ts; let (al, ts) ← pNum ts; let (be, ts) ← pNum ts
      fin (fun a b => Gen.KernelAxes.hamming v a b al be) ts
  | "hammingsame" :: ts => do
      let (v, ts) ← pNat ts; let (al, ts) ← pNum ts; let (be, ts) ← pNum ts
      finSame (fun a b => Gen.KernelAxes.hammingSameOff v a b al be) (fun a b => Gen.KernelAxes.hammingSameDiag v a b al be) ts
  | "hammingdiagsame" :: ts => do
      let (v, ts) ← pNat ts; let (al, ts) ← pNum ts; let (be, ts) ← pNum ts
      finDiag (fun a b => Gen.KernelAxes.hammingDiagSame v a b al be) ts
  | "hammingdiagother" :: ts => do
      let (v, ts) ← pNat ts; let (al, ts) ← pNum ts; let (be, ts) ← pNum ts
      finDiag (fun a b => Gen.KernelAxes.hammingDiagOther v a b al be) ts
  | "gskl" :: ts => do let (l, ts) ← pNum ts; fin (fun a b => Gen.KernelAxes.gskl a b l) ts
  | "gskldiag" :: ts => do let (l, ts) ← pNum ts; finDiag (fun a b => Gen.KernelAxes.gsklDiag a b l) ts
  | "arc" :: ts => do
      let (k, ts) ← pKern (α := Float) ts; let (ls, ts) ← pVec ts; let (an, ts) ← pVec ts; let (ra, ts) ← pVec ts
      fin (fun a b => Gen.KernelAxes.arc k.eval a b (bcast ls a.length) (bcast an a.length) (bcast ra a.length)) ts
  | "arcdiag" :: ts => do
      let (k, ts) ← pKern (α := Float) ts; let (ls, ts) ← pVec ts; let (an, ts) ← pVec ts; let (ra, ts) ← pVec ts
      finDiag (fun a b => Gen.KernelAxes.arcDiag k.eval a b (bcast ls a.length) (bcast an a.length) (bcast ra a.length)) ts
  | "arcm" :: ts => do
      let (k, ts) ← pKern (α := Float) ts; let (ls, ts) ← pVec ts; let (an, ts) ← pVec ts; let (ra, ts) ← pVec ts
      fin (fun a b =>
        let (xa, ma) := split a; let (xb, mb) := split b
        Gen.KernelAxes.arcMasked k.eval xa xb ma mb (bcast ls xa.length) (bcast an xa.length) (bcast ra xa.length)) ts
  | "arcmdiag" :: ts => do
      let (k, ts) ← pKern (α := Float) ts; let (ls, ts) ← pVec ts; let (an, ts) ← pVec ts; let (ra, ts) ← pVec ts
      finDiag (fun a b =>
        let (xa, ma) := split a; let (xb, mb) := split b
        Gen.KernelAxes.arcMaskedDiag k.eval xa xb ma mb (bcast ls xa.length) (bcast an xa.length) (bcast ra xa.length)) ts
  | "cyl" :: ts => do
      let (k, ts) ← pKern (α := Float) ts; let (w, ts) ← pVec ts; let (al, ts) ← pNum ts; let (be, ts) ← pNum ts
      let (e, ts) ← pNum ts
      fin (fun a b => Gen.KernelAxes.cylindrical k.eval jit a b w al be e) ts
  | "rbfgradm" :: ts | "m52gradm" :: ts => do
      let (ls, ts) ← pVec (α := Float) ts
      let (X1, ts) ← pMat ts; let (X2, _) ← pMat ts
      let d := (X1.head?.map List.length).getD 0
      let ls := bcast ls d
      let (n1, n2) := (X1.length, X2.length)
      let f := if ts0 == "rbfgradm" then Gen.KernelAxes.rbfGradMatrix (α := Float) else Gen.KernelAxes.matern52GradMatrix
      some ((List.range (n1 * (d + 1))).map fun r => (List.range (n2 * (d + 1))).map fun c =>
        f Scalar.sqDist Scalar.dist n1 n2 d X1 X2 ls r c)
  | "mt" :: ts | "mtdiag" :: ts => do
      -- MultitaskKernel: <data kern> <KT> <X1> <X2>; the generated Kronecker layout (full matrix / 1 × nT diagonal)
      let (k, ts) ← pKern (α := Float) ts; let (KT, ts) ← pMat ts
      let (X1, ts) ← pMat ts; let (X2, _) ← pMat ts
      let d := (X1.head?.map List.length).getD 0
      let (n1, n2, T) := (X1.length, X2.length, KT.length)
      if ts0 == "mt" then
        some ((List.range (n1 * T)).map fun r => (List.range (n2 * T)).map fun c =>
          Gen.KernelAxes.multitaskMatrix k.eval n1 n2 d T X1 X2 KT r c)
      else some [(List.range (n1 * T)).map fun r => Gen.KernelAxes.multitaskDiag k.eval n1 n2 d T X1 X2 KT r]
  | "cyldiag" :: ts => do
      let (k, ts) ← pKern (α := Float) ts; let (w, ts) ← pVec ts; let (al, ts) ← pNum ts; let (be, ts) ← pNum ts
      let (e, ts) ← pNum ts
      finDiag (fun a b => Gen.KernelAxes.cylindricalDiag k.eval jit a b w al be e) ts
  | _ => none

def stepF (ts : List String) : Option String :=
  match ts with
  | "K" :: ts => (runK (α := Float) ts).map showMatF
  | "G" :: ts => (runG (α := Float) ts).map showMatF
  | "GK" :: ts => (runGK ts).map showMatF
  | "GA" :: ts => (runGA ts).map showMatF
  | "MT" :: ts => (runMT (α := Float) ts).map showMatF
  | "I" :: "rbf" :: ts => do
      let (ls, ts) ← pVec (α := Float) ts; let (c, ts) ← pVec ts
      let (X1, ts) ← pMat ts; let (X2, _) ← pMat ts
      let ls := bcast ls c.length
      some (showMatF (kernMatrix (rbfImpl ls (rowDiv c ls)) X1 X2))
  | "I" :: "matern" :: ts => do
      let (nu2, ts) ← pNat ts
      let (ls, ts) ← pVec (α := Float) ts; let (c, ts) ← pVec ts
      let (X1, ts) ← pMat ts; let (X2, _) ← pMat ts
      some (showMatF (kernMatrix (maternImpl nu2 (bcast ls c.length) c) X1 X2))
  | "I" :: "sqdist" :: ts => do
      let (c, ts) ← pVec (α := Float) ts
      let (X1, ts) ← pMat ts; let (X2, _) ← pMat ts
      some (showMatF (kernMatrix (sqDistImpl c) X1 X2))
  | "F" :: "rbf" :: g :: ts => do
      let (l, ts) ← pNum (α := Float) ts
      let (X1, ts) ← pMat ts; let (X2, _) ← pMat ts
      if g = "1" then
        some (showMatF (kernMatrix (fun a b => Gen.Formulas.rbfFwdGradOut sqDist a b l) X1 X2) ++ " ; " ++
              showMatF (kernMatrix (fun a b => Gen.Formulas.rbfFwdGradSaved sqDist a b l) X1 X2))
      else some (showMatF (kernMatrix (fun a b => Gen.Formulas.rbfFwdNoGradOut sqDist a b l) X1 X2))
  | "F" :: "matern" :: nu2 :: g :: ts => do
      let (l, ts) ← pNum (α := Float) ts
      let (c, ts) ← pVec ts
      let (X1, ts) ← pMat ts; let (X2, _) ← pMat ts
      let two (o s : List Float → List Float → Float) :=
        showMatF (kernMatrix o X1 X2) ++ " ; " ++ showMatF (kernMatrix s X1 X2)
      match nu2, g with
      | "1", "0" => some (showMatF (kernMatrix (fun a b => Gen.Formulas.matern12FwdNoGradOut dist a b c l) X1 X2))
      | "3", "0" => some (showMatF (kernMatrix (fun a b => Gen.Formulas.matern32FwdNoGradOut dist a b c l) X1 X2))
      | "5", "0" => some (showMatF (kernMatrix (fun a b => Gen.Formulas.matern52FwdNoGradOut dist a b c l) X1 X2))
      | "1", "1" => some (two (fun a b => Gen.Formulas.matern12FwdGradOut dist a b c l)
                              (fun a b => Gen.Formulas.matern12FwdGradSaved dist a b c l))
      | "3", "1" => some (two (fun a b => Gen.Formulas.matern32FwdGradOut dist a b c l)
                              (fun a b => Gen.Formulas.matern32FwdGradSaved dist a b c l))
      | "5", "1" => some (two (fun a b => Gen.Formulas.matern52FwdGradOut dist a b c l)
                              (fun a b => Gen.Formulas.matern52FwdGradSaved dist a b c l))
      | _, _ => none
  | "B" :: kind :: ts => do
      let (go, ts) ← pMat (α := Float) ts; let (sv, _) ← pMat ts
      let f := if kind = "rbf" then Gen.Formulas.rbfBwd (α := Float) else Gen.Formulas.maternBwd
      some (showMatF ((go.zip sv).map fun (r1, r2) => (r1.zip r2).map fun (x, y) => f x y))
  | "P" :: ts => do
      let (q, ts) ← pNat ts; let (j, ts) ← pNat ts; let (rs, _) ← pVec (α := Float) ts
      let cov : Float → Float := match q with
        | 0 => fun r => Gen.Formulas.ppCov0 r j
        | 1 => fun r => Gen.Formulas.ppCov1 r j
        | 2 => fun r => Gen.Formulas.ppCov2 r j
        | _ => fun r => Gen.Formulas.ppCov3 r j
      some (showMatF [rs.map fun r => Gen.Formulas.ppFmax r j q * cov r])
  | "PS" :: ts => do
      let (q, ts) ← pNat ts; let (j, ts) ← pNat ts; let (rs, _) ← pVec (α := Float) ts
      some (showMatF [rs.map fun r => ppOfDist q j r])
  | "NG" :: ts => do
      let (z, ts) ← pVec (α := Float) ts; let (s, _) ← pVec ts
      some (showMatF [[newtonGirardImpl z s, weightedEsymm (esymm z) s 1]])
  | _ => none

def stepR (ts : List String) : Option String :=
  match ts with
  | "KR" :: ts => (runK (α := Rat) ts).map showMatR
  | "GR" :: ts => (runG (α := Rat) ts).map showMatR
  | "IX" :: ts => do
      let (B, ts) ← pMat (α := Rat) ts; let (v, ts) ← pVec ts
      let (n1, ts) ← pNat ts; let (i1, ts) ← pMany pNat n1 ts
      let (n2, ts) ← pNat ts; let (i2, _) ← pMany pNat n2 ts
      some (showMatR (i1.map fun i => i2.map fun j => indexSpec B v i j))
  | _ => none

def step (line : String) : String :=
  let ts := Proto.tokens line
  match stepF ts with
  | some s => s
  | none => (stepR ts).getD "bad-request"

def main : IO Unit := Proto.main step

import GPVerif.Gen.Persistence
import GPVerif.Model.Proto
open Persist Gen.Persistence

/-!
Line protocol of C18 (one reply line per request line).

  tree  := "M" classId np (name payload)^np nb (name persistent payload)^nb nc (name populated payload)^nc
               nk (name tree)^nk
  SD tree                      → wf=<0|1>;sd=<k=p,…>
  RT cc treeT "|" treeU        → sd=<k=p,…>;live=<k,…>      (load (stateDict T) into U; cc = callsClear override:
                                                              "g" = the generated fact, "0"/"1" forced)
  COPY mech tree               → sd=<k=p,…>;live=<k,…>      mech = pickle | deepcopy

classId is the id of the nearest class of the object's MRO that occurs in the generated table (-1: none, e.g. a
plain torch module).  The cache tags are NOT sent by the harness: they are looked up in `Gen.Persistence.classes`
(clears / copyDrops / hooks) — so the reply reflects what the source says now.
-/

abbrev T := Tree String Int

def nameId (s : String) : Option Nat :=
  let i := names.idxOf s
  if i < names.length then some i else none

def tagFor (cls : Int) (cname : String) : CacheTag :=
  match (if cls < 0 then none else classes.find? (·.id = cls.toNat)), nameId cname with
  | some r, some a =>
    let popped := r.copyDrops.contains a
    { clearOnLoad := r.gp && r.clears.contains a
      dropOnPickle := popped
      dropOnDeepcopy := popped || (cname == "prediction_strategy" && strategyDeepcopyNone) }
  | _, _ => { clearOnLoad := false, dropOnPickle := false, dropOnDeepcopy := false }

/-- parse `cnt` repetitions of a fixed-arity group -/
def takeGroups (arity : Nat) : Nat → List String → Option (List (List String) × List String)
  | 0, ts => some ([], ts)
  | k + 1, ts =>
    if ts.length < arity then none else do
      let (gs, rest) ← takeGroups arity k (ts.drop arity)
      some (ts.take arity :: gs, rest)

partial def parseTree (ts : List String) : Option (T × List String) :=
  match ts with
  | "M" :: cls :: np :: rest => do
      let cls ← cls.toInt?
      let np ← np.toNat?
      let (ps, rest) ← takeGroups 2 np rest
      let (nb, rest) ← match rest with
        | nb :: r => nb.toNat?.map (·, r)
        | [] => none
      let (bs, rest) ← takeGroups 3 nb rest
      let (nc, rest) ← match rest with
        | nc :: r => nc.toNat?.map (·, r)
        | [] => none
      let (cs, rest) ← takeGroups 3 nc rest
      let (nk, rest) ← match rest with
        | nk :: r => nk.toNat?.map (·, r)
        | [] => none
      let rec kids (k : Nat) (ts : List String) : Option (List (String × T) × List String) :=
        match k, ts with
        | 0, ts => some ([], ts)
        | k + 1, n :: ts => do
            let (t, ts) ← parseTree ts
            let (more, ts) ← kids k ts
            some ((n, t) :: more, ts)
        | _, _ => none
      let (ks, rest) ← kids nk rest
      let ps ← ps.mapM fun g => match g with
        | [n, p] => p.toInt?.map (n, ·)
        | _ => none
      let bs ← bs.mapM fun g => match g with
        | [n, pers, p] => p.toInt?.map (n, pers == "1", ·)
        | _ => none
      let cs ← cs.mapM fun g => match g with
        | [n, pop, p] => p.toInt?.map (n, pop == "1", ·)
        | _ => none
      let t0 : T := ks.foldr (fun (n, s) acc => .child n s acc) .leaf
      let t1 : T := cs.foldr (fun (n, pop, p) acc => .cache (tagFor cls n) n (if pop then some p else none) acc) t0
      let t2 : T := bs.foldr (fun (n, pers, p) acc => .field (.buffer pers) n p acc) t1
      let t3 : T := ps.foldr (fun (n, p) acc => .field .param n p acc) t2
      some (t3, rest)
  | _ => none

def key (k : Key String) : String := ".".intercalate k
def showSD (d : Dict String Int) : String := ",".intercalate (d.map fun (k, v) => s!"{key k}={v}")
def showLive (d : Dict String Int) : String := ",".intercalate (d.map fun (k, _) => key k)

def step (line : String) : String :=
  match Proto.tokens line with
  | "SD" :: ts =>
    match parseTree ts with
    | some (t, []) => s!"wf={if t.wf then 1 else 0};sd={showSD t.stateDict}"
    | _ => "bad-tree"
  | "RT" :: cc :: ts =>
    match parseTree ts with
    | some (tT, "|" :: ts') =>
      match parseTree ts' with
      | some (tU, []) =>
        let cc := if cc == "g" then loadCallsClear else cc == "1"
        let r := tU.load cc tT.stateDict []
        s!"sd={showSD r.stateDict};live={showLive r.liveCaches}"
      | _ => "bad-tree"
    | _ => "bad-tree"
  | "COPY" :: m :: ts =>
    match parseTree ts with
    | some (t, []) =>
      let r := t.copy (if m == "pickle" then .pickle else .deepcopy)
      s!"sd={showSD r.stateDict};live={showLive r.liveCaches}"
    | _ => "bad-tree"
  | _ => "bad-request"

def main : IO Unit := Proto.main step

/-
Line-protocol driver for C17's matrix-valued priors (exact, `ℚ`; imports the model only).  One reply per request.

  M  L mu v            -> qtril=<q>;diag=<d1 .. dn>;quad=<q>;det=<q>;lower=<0/1>  | singular
       `MatrixPriors.mvnTrilParts? L mu v` (what MultivariateNormalPrior.log_prob computes from scale_tril) and the
       C10 pieces `MVN.logProbParts? (L Lᵀ) mu v`; matrices as `rows cols v11 v12 …`
  K  n eta d2 .. dn    -> exps=<e2 .. en>;t=<int|N>;dens=<q|N>
       LKJ-Cholesky exponent table `MatrixPriors.lkjCholExponents n eta`; when 2(eta-1) is an integer `t` also the
       unnormalised density `MatrixPriors.lkjCholUnnormZ n t` at the diagonal entries d2..dn
-/
import GPVerif.Model.MatrixPriors
import GPVerif.Model.Proto
open Proto MVN MatrixPriors

abbrev Q := Rat

def mat (r c : Nat) (rows : Array (Array Q)) : DMat r c Q := DMat.ofRaw rows

def isLower {n : Nat} (L : DMat n n Q) : Bool :=
  (List.finRange n).all fun i => (List.finRange n).all fun j => decide (i.val < j.val → L.toMatrix i j = 0)

def doMvn (ts : List String) : Option String := do
  let (n, c, L, r1) ← takeMat? ts
  let (n1, c1, mu, r2) ← takeMat? r1
  let (n2, c2, v, _) ← takeMat? r2
  if n ≠ c ∨ n1 ≠ n ∨ n2 ≠ n ∨ c1 ≠ 1 ∨ c2 ≠ 1 then none else
  let L' := mat n n L
  match mvnTrilParts? L' (mat n 1 mu) (mat n 1 v), logProbParts? (L'.mul L'.transpose) (mat n 1 mu) (mat n 1 v) with
  | some (qt, d), some (q, dt) =>
    let ds := " ".intercalate ((List.finRange n).map fun i => showRat (d i))
    some s!"qtril={showRat qt};diag={ds};quad={showRat q};det={showRat dt};lower={if isLower L' then 1 else 0}"
  | _, _ => some "singular"

def doLkj (ts : List String) : Option String :=
  match ts with
  | n :: eta :: ds => do
    let n ← n.toNat?
    let eta ← parseRat? eta
    let ds ← parseRats? ds
    if ds.length + 1 ≠ n then none else
    let exps := lkjCholExponents n eta
    let t2 : Q := 2 * (eta - 1)
    let diag : Nat → Q := fun k => ds.getD (k - 1) 1      -- k = 1 .. n-1 (0-based row index); row 0 is not used
    let (ts, dens) :=
      if t2.den = 1 ∧ ds.all (· ≠ 0) then (toString t2.num, showRat (lkjCholUnnormZ n t2.num diag)) else ("N", "N")
    some s!"exps={" ".intercalate (exps.map showRat)};t={ts};dens={dens}"
  | _ => none

def step (line : String) : String :=
  let r : Option String :=
    match tokens line with
    | "M" :: rest => doMvn rest
    | "K" :: rest => doLkj rest
    | _ => none
  r.getD "bad-request"

def main : IO Unit := Proto.main step

import GPVerif.Gen.MTIndex
import GPVerif.Model.Proto
open MTIndex

/-
Line protocol (one reply line per request line):

  G <inter 0|1> <n> <t> <IDX point> <IDX task>
      IDX := i <int> | s <start|N> <stop|N> <step|N> | l <k> <v1> … <vk>
      reply: gen=<RES>;spec=<RES>     RES := none | mvn:<p1,…> | mt0:<…> | mt1:<…>
      gen  = Gen.MTIndex.getitem (the translated `__getitem__`), spec = MTIndex.specGetitem
  D <inter> <n> <t>
      reply: data=<…>;task=<…>        (Gen.MTIndex.dataIndices / taskIndices of to_data_independent_dist)
  V <inter> <n> <t>
      reply: logprob=<…>;ctor=<…>;mean=<…>;variance=<…>;rsample=<…>;base=<…>
      logprob / ctor: the flat vector produced from the matrix value[i,a] = i·t + a   (Gen logProbArg / ctorLoc)
      mean … base:    the n × t matrix (row-major) read from the flat vector loc[p] = p (Gen meanView …)
  C   reply: fromBatchMvn=<op>/<inter>;fromIndependentMvns=…;fromRepeatedMvn=…;branches=<names>
-/

def optInt? (s : String) : Option (Option Int) :=
  if s = "N" then some none else s.toInt?.map some

def parseIdx (ts : List String) : Option (Idx × List String) :=
  match ts with
  | "i" :: v :: rest => do
      let v ← v.toInt?
      some (.int v, rest)
  | "s" :: a :: b :: c :: rest => do
      let a ← optInt? a
      let b ← optInt? b
      let c ← optInt? c
      some (.slice ⟨a, b, c⟩, rest)
  | "l" :: k :: rest => do
      let k ← k.toNat?
      if rest.length < k then none else
      let vs ← (rest.take k).mapM String.toInt?
      some (.list vs, rest.drop k)
  | _ => none

def showInts (l : List Int) : String := ",".intercalate (l.map toString)

def showRes : Option (OutKind × List Int) → String
  | none => "none"
  | some (.mvn, l) => "mvn:" ++ showInts l
  | some (.mt false, l) => "mt0:" ++ showInts l
  | some (.mt true, l) => "mt1:" ++ showInts l

def showOp : BlockOp × Bool → String
  | (.interleavedBlocks, b) => s!"interleavedBlocks/{if b then 1 else 0}"
  | (.diagBlocks, b) => s!"diagBlocks/{if b then 1 else 0}"

def step (line : String) : String :=
  match Proto.tokens line with
  | "G" :: inter :: n :: t :: rest =>
    match inter.toNat?, n.toInt?, t.toInt?, parseIdx rest with
    | some inter, some n, some t, some (r, rest') =>
      match parseIdx rest' with
      | some (c, []) =>
        let b := inter != 0
        s!"gen={showRes (Gen.MTIndex.getitem b n t r c)};spec={showRes (specGetitem b n t r c)}"
      | _ => "bad-request"
    | _, _, _, _ => "bad-request"
  | ["D", inter, n, t] =>
    match inter.toNat?, n.toInt?, t.toInt? with
    | some inter, some n, some t =>
      let b := inter != 0
      s!"data={showInts (Gen.MTIndex.dataIndices b n t)};task={showInts (Gen.MTIndex.taskIndices b n t)}"
    | _, _, _ => "bad-request"
  | ["V", inter, n, t] =>
    match inter.toNat?, n.toNat?, t.toNat? with
    | some inter, some n, some t =>
      let b := inter != 0
      let val : Int → Int → Int := fun i a => i * t + a
      let flatOf (f : Int → Int) : String := showInts ((List.range (n * t)).map fun (p : Nat) => f p)
      let matOf (M : Int → Int → Int) : String :=
        showInts ((List.range n).flatMap fun (i : Nat) => (List.range t).map fun (a : Nat) => M i a)
      s!"logprob={flatOf (Gen.MTIndex.logProbArg b n t val)};ctor={flatOf (Gen.MTIndex.ctorLoc b n t val)};" ++
      s!"mean={matOf (Gen.MTIndex.meanView b n t id)};variance={matOf (Gen.MTIndex.varianceView b n t id)};" ++
      s!"rsample={matOf (Gen.MTIndex.rsampleView b n t id)};base={matOf (Gen.MTIndex.baseSamplesView b n t id)}"
    | _, _, _ => "bad-request"
  | ["C"] =>
    s!"fromBatchMvn={showOp Gen.MTIndex.fromBatchMvn};fromIndependentMvns={showOp Gen.MTIndex.fromIndependentMvns};" ++
    s!"fromRepeatedMvn={showOp Gen.MTIndex.fromRepeatedMvn};branches={",".intercalate Gen.MTIndex.branchNames}"
  | _ => "bad-request"

def main : IO Unit := Proto.main step

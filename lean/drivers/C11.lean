import GPVerif.Gen.MTIndex
import GPVerif.Model.Proto
open MTIndex

/-
Line protocol (one reply line per request line):

  G <inter 0|1> <n> <t> <IDX point> <IDX task>
      IDX := i <int> | s <start|N> <stop|N> <step|N> | l <k> <v1> … <vk>
      reply: gen=<RES>;spec=<RES>     RES := none | mvn:<p1,…> | mt0:<…> | mt1:<…>
      gen  = Gen.MTIndex.getitem (the translated `__getitem__`), spec = MTIndex.specGetitem
  D <inter> <n> <t>
      reply: data=<…>;task=<…>        (Gen.MTIndex.dataIndices / taskIndices of to_data_independent_dist)
  V <inter> <n> <t>
      reply: logprob=<…>;ctor=<…>;mean=<…>;variance=<…>;rsample=<…>;base=<…>
      logprob / ctor: the flat vector produced from the matrix value[i,a] = i·t + a   (Gen logProbArg / ctorLoc)
      mean … base:    the n × t matrix (row-major) read from the flat vector loc[p] = p (Gen meanView …)
  C   reply: fromBatchMvn=<op>/<inter>;fromIndependentMvns=…;fromRepeatedMvn=…;branches=<names>
  R <num_tasks> <k> <b1> … <bk>
      reply: shape=<Gen fromRepeatedShape num_tasks [b1..bk]>;task_dim=<Gen fromRepeatedTaskDim>
  P <nbatch> <task_dim>
      reply: plan=<permutation of the mean, comma separated>/<block_dim> | plan=none     (Gen fromBatchMvnPlan nbatch (nbatch+1) task_dim)
  B <inter> <k> <b1> … <bk> <n> <t> <bare 0|1> <m> <COMP 1> … <COMP m>
      COMP := IDX | e                      (e = Ellipsis; `bare 1` = d[COMP] without a tuple, m = 1)
      reply: gen=<COV>;spec=<COV>     COV := none | <mvn|mt0|mt1>|<batch shape, comma separated>|<block>/<block>/…
      block = rows joined by `_`, a row = entries joined by `,`; an entry is the TAG of the source covariance entry
      (β, p, q): 1 + (flat(β)·N + p)·N + q, or 0 for a zero entry.
      gen  = the covariance selection of Gen.MTIndex.getitemFull (the whole translated `__getitem__`) evaluated by the
             model of LinearOperator indexing (CovSel.eval); spec = MTIndex.specGetitemB
-/

def optInt? (s : String) : Option (Option Int) :=
  if s = "N" then some none else s.toInt?.map some

def parseIdx (ts : List String) : Option (Idx × List String) :=
  match ts with
  | "i" :: v :: rest => do
      let v ← v.toInt?
      some (.int v, rest)
  | "s" :: a :: b :: c :: rest => do
      let a ← optInt? a
      let b ← optInt? b
      let c ← optInt? c
      some (.slice ⟨a, b, c⟩, rest)
  | "l" :: k :: rest => do
      let k ← k.toNat?
      if rest.length < k then none else
      let vs ← (rest.take k).mapM String.toInt?
      some (.list vs, rest.drop k)
  | _ => none

def showInts (l : List Int) : String := ",".intercalate (l.map toString)

def showRes : Option (OutKind × List Int) → String
  | none => "none"
  | some (.mvn, l) => "mvn:" ++ showInts l
  | some (.mt false, l) => "mt0:" ++ showInts l
  | some (.mt true, l) => "mt1:" ++ showInts l

def parseComps : Nat → List String → Option (List BIdx)
  | 0, [] => some []
  | 0, _ => none
  | m + 1, "e" :: rest => (parseComps m rest).map (BIdx.ellipsis :: ·)
  | m + 1, ts =>
    match parseIdx ts with
    | some (x, rest) => (parseComps m rest).map (BIdx.comp x :: ·)
    | none => none

def takeNats : Nat → List String → Option (List Nat × List String)
  | 0, ts => some ([], ts)
  | k + 1, t :: ts => do
      let v ← t.toNat?
      let (vs, rest) ← takeNats k ts
      some (v :: vs, rest)
  | _, [] => none

/-- row-major flat index of a batch element -/
def flatBatch (bs : List Nat) (β : List Int) : Int :=
  (bs.zip β).foldl (fun acc (b, x) => acc * (b : Int) + x) 0

def showEntry (bs : List Nat) (N : Int) : Entry → String
  | none => "0"
  | some (β, p, q) => toString (1 + (flatBatch bs β * N + p) * N + q)

def showCov (bs : List Nat) (N : Int) : Option (OutKind × CovRes) → String
  | none => "none"
  | some (k, c) =>
    let kind := match k with
      | .mvn => "mvn"
      | .mt false => "mt0"
      | .mt true => "mt1"
    let blocks := "/".intercalate (c.blocks.map fun blk =>
      "_".intercalate (blk.map fun row => ",".intercalate (row.map (showEntry bs N))))
    s!"{kind}|{",".intercalate (c.batch.map toString)}|{blocks}"

def stepB (ts : List String) : String :=
  match ts with
  | inter :: k :: rest =>
    match inter.toNat?, k.toNat? with
    | some inter, some k =>
      match takeNats k rest with
      | some (bs, n :: t :: bare :: m :: rest') =>
        match n.toNat?, t.toNat?, bare.toNat?, m.toNat? with
        | some n, some t, some bare, some m =>
          match parseComps m rest' with
          | some comps =>
            let e : Option IdxExpr := if bare = 0 then some (.tuple comps) else
              match comps with
              | [x] => some (.bare x)
              | _ => none
            match e with
            | some e =>
              let b := inter != 0
              let N : Int := (n : Int) * t
              let gen := evalResult bs N (Gen.MTIndex.getitemFull b ((bs.length : Int) + 2) n t e)
              s!"gen={showCov bs N gen};spec={showCov bs N (specGetitemB b bs n t e)}"
            | none => "bad-request"
          | none => "bad-request"
        | _, _, _, _ => "bad-request"
      | _ => "bad-request"
    | _, _ => "bad-request"
  | _ => "bad-request"

def showOp : BlockOp × Bool → String
  | (.interleavedBlocks, b) => s!"interleavedBlocks/{if b then 1 else 0}"
  | (.diagBlocks, b) => s!"diagBlocks/{if b then 1 else 0}"

def step (line : String) : String :=
  match Proto.tokens line with
  | "B" :: rest => stepB rest
  | "G" :: inter :: n :: t :: rest =>
    match inter.toNat?, n.toInt?, t.toInt?, parseIdx rest with
    | some inter, some n, some t, some (r, rest') =>
      match parseIdx rest' with
      | some (c, []) =>
        let b := inter != 0
        s!"gen={showRes (Gen.MTIndex.getitem b n t r c)};spec={showRes (specGetitem b n t r c)}"
      | _ => "bad-request"
    | _, _, _, _ => "bad-request"
  | ["D", inter, n, t] =>
    match inter.toNat?, n.toInt?, t.toInt? with
    | some inter, some n, some t =>
      let b := inter != 0
      s!"data={showInts (Gen.MTIndex.dataIndices b n t)};task={showInts (Gen.MTIndex.taskIndices b n t)}"
    | _, _, _ => "bad-request"
  | ["V", inter, n, t] =>
    match inter.toNat?, n.toNat?, t.toNat? with
    | some inter, some n, some t =>
      let b := inter != 0
      let val : Int → Int → Int := fun i a => i * t + a
      let flatOf (f : Int → Int) : String := showInts ((List.range (n * t)).map fun (p : Nat) => f p)
      let matOf (M : Int → Int → Int) : String :=
        showInts ((List.range n).flatMap fun (i : Nat) => (List.range t).map fun (a : Nat) => M i a)
      s!"logprob={flatOf (Gen.MTIndex.logProbArg b n t val)};ctor={flatOf (Gen.MTIndex.ctorLoc b n t val)};" ++
      s!"mean={matOf (Gen.MTIndex.meanView b n t id)};variance={matOf (Gen.MTIndex.varianceView b n t id)};" ++
      s!"rsample={matOf (Gen.MTIndex.rsampleView b n t id)};base={matOf (Gen.MTIndex.baseSamplesView b n t id)};" ++
      s!"basearg={flatOf (Gen.MTIndex.baseSamplesArg b n t val)}"
    | _, _, _ => "bad-request"
  | ["C"] =>
    s!"fromBatchMvn={showOp Gen.MTIndex.fromBatchMvn};fromIndependentMvns={showOp Gen.MTIndex.fromIndependentMvns};" ++
    s!"fromRepeatedMvn={showOp Gen.MTIndex.fromRepeatedMvn};branches={",".intercalate Gen.MTIndex.branchNames};" ++
    (let (sd, ud, cd, bd) := Gen.MTIndex.fromIndependentPlan
     s!"indep={sd},{ud},{cd},{bd};") ++
    s!"repeated={Gen.MTIndex.fromRepeatedTaskDim}/{showInts (Gen.MTIndex.fromRepeatedShape 7 [2, 3])};" ++
    s!"di={Gen.MTIndex.diRowTask 0 1},{Gen.MTIndex.diColTask 0 1}"
  | "R" :: nt :: k :: rest =>
    match nt.toInt?, k.toNat? with
    | some nt, some k =>
      match takeNats k rest with
      | some (bs, []) =>
        s!"shape={showInts (Gen.MTIndex.fromRepeatedShape nt (bs.map fun (b : Nat) => (b : Int)))};task_dim={Gen.MTIndex.fromRepeatedTaskDim}"
      | _ => "bad-request"
    | _, _ => "bad-request"
  | ["P", nb, td] =>
    match nb.toInt?, td.toInt? with
    | some nb, some td =>
      match Gen.MTIndex.fromBatchMvnPlan nb (nb + 1) td with
      | some (perm, bd) => s!"plan={showInts perm}/{bd}"
      | none => "plan=none"
    | _, _ => "bad-request"
  | _ => "bad-request"

def main : IO Unit := Proto.main step

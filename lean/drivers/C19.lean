/-
C19 line-protocol driver: the linear-algebra backward passes, exact in `Rat`.
(The kernel backward terms are generated definitions and are served by `drivers/C05.lean`: `F`, `B`.)

  NB <gMu n×1> <gSigma n×n> <mu n×1>        model naturalBackward: dout_deta1 (n×1) ; dout_deta2 (n×n)
  CB <dout n×n> <L n×n> <Linv n×n>          model choleskyBackward (n×n)
  NGD <k n×1> <m n×1> <gm> <gv>             model ngdExpecGrads: expec_vec_grad (n×1) ; expec_mat_grad (n×n)
wave 3 — the definitions REGENERATED from the Python source (`Gen/NaturalGrad.lean`) next to the model:
  GB <dout_dmu n×1> <dout_dL n×n> <mu n×1> <L n×n> <C n×n>
       gen naturalBackward.1 ; .2 ; gen trilBackward.1 ; .2  |  model dout_deta1 ; dout_deta2 ; trilTangent
  NGDX <K n×d> <natural_vec n×1> <natural_mat n×n> <gm d×1> <gv d×1> <gk>
       gen ngdForward (interp_mean ; interp_var) ; gen ngdBackward on the saved tensors (3 gradients)
       |  model interp_mean ; interp_var ; interp_term_grad ; expec_vec_grad ; expec_mat_grad
       (`linear_cg` is served by the certified exact inverse; `singular` when −2·natural_mat is not invertible)
-/
import GPVerif.Model.NaturalGradDriver
import GPVerif.Gen.NaturalGrad

open Proto NaturalGradDriver

def step (line : String) : String :=
  match stepOld line with
  | some r => r
  | none =>
  match tokens line with
  | "GB" :: ts => Id.run do
      let some (n, _, g, ts) := takeMat? ts | return "bad-request"
      let some (_, _, gL, ts) := takeMat? ts | return "bad-request"
      let some (_, _, mu, ts) := takeMat? ts | return "bad-request"
      let some (_, _, L, ts) := takeMat? ts | return "bad-request"
      let some (_, _, C, _) := takeMat? ts | return "bad-request"
      let (gMu, gL, mu, L, C) := (mk n 1 g, mk n n gL, mk n 1 mu, mk n n L, mk n n C)
      let a := Gen.NaturalGrad.naturalBackward gMu gL mu L C
      let b := Gen.NaturalGrad.trilBackward gMu gL mu L C
      return sh a.1 ++ " ; " ++ sh a.2 ++ " ; " ++ sh b.1 ++ " ; " ++ sh b.2 ++ " | " ++ gbModel gMu gL mu L C
  | "NGDX" :: ts => Id.run do
      let some (n, d, K, ts) := takeMat? ts | return "bad-request"
      let some (_, _, nv, ts) := takeMat? ts | return "bad-request"
      let some (_, _, Θ, ts) := takeMat? ts | return "bad-request"
      let some (_, _, gm, ts) := takeMat? ts | return "bad-request"
      let some (_, _, gv, ts) := takeMat? ts | return "bad-request"
      let [gk] := ts | return "bad-request"
      let some gk := parseRat? gk | return "bad-request"
      let (K, nv, Θ, gm, gv) := (mk n d K, mk n 1 nv, mk n n Θ, mk d 1 gm, mk d 1 gv)
      let some S := DMat.inv? (Θ.smul (-2)) | return "singular"
      let cg : DMat n n Rat → DMat n (1 + d) Rat → DMat n (1 + d) Rat :=
        fun P R => match DMat.inv? P with | some X => X.mul R | none => R
      let (im, iv, _, s0, s1, s2, s3, s4, s5) := Gen.NaturalGrad.ngdForward cg K nv Θ
      let (g1, g2, g3) := Gen.NaturalGrad.ngdBackward gm gv gk s0 s1 s2 s3 s4 s5
      return sh im ++ " ; " ++ sh iv ++ " ; " ++ sh g1 ++ " ; " ++ sh g2 ++ " ; " ++ sh g3 ++ " | " ++
        ngdxModel K nv Θ S gm gv gk
  | _ => "bad-request"

def main : IO Unit := Proto.main step

/-
C19 line-protocol driver: the linear-algebra backward passes of `GPVerif.Model.NaturalGrad`, exact in `Rat`.
(The kernel backward terms are generated definitions and are served by `drivers/C05.lean`: `F`, `B`.)

  NB <gMu n×1> <gSigma n×n> <mu n×1>        naturalBackward: dout_deta1 (n×1) ; dout_deta2 (n×n)
  CB <dout n×n> <L n×n> <Linv n×n>          choleskyBackward (n×n)
  NGD <k n×1> <m n×1> <gm> <gv>             ngdExpecGrads: expec_vec_grad (n×1) ; expec_mat_grad (n×n)
-/
import GPVerif.Model.NaturalGrad
import GPVerif.Model.Proto

open Proto

def mk (n m : Nat) (rows : Array (Array Rat)) : DMat n m Rat := DMat.ofRaw rows

def step (line : String) : String :=
  match tokens line with
  | "NB" :: ts => Id.run do
      let some (n, _, g, ts) := takeMat? ts | return "bad-request"
      let some (_, _, S, ts) := takeMat? ts | return "bad-request"
      let some (_, _, mu, _) := takeMat? ts | return "bad-request"
      let r := NaturalGrad.naturalBackward (mk n 1 g) (mk n n S) (mk n 1 mu)
      return showRows r.1.toRows ++ " ; " ++ showRows r.2.toRows
  | "CB" :: ts => Id.run do
      let some (n, _, d, ts) := takeMat? ts | return "bad-request"
      let some (_, _, L, ts) := takeMat? ts | return "bad-request"
      let some (_, _, Li, _) := takeMat? ts | return "bad-request"
      return showRows (NaturalGrad.choleskyBackward (mk n n d) (mk n n L) (mk n n Li)).toRows
  | "NGD" :: ts => Id.run do
      let some (n, _, k, ts) := takeMat? ts | return "bad-request"
      let some (_, _, m, ts) := takeMat? ts | return "bad-request"
      match ts with
      | [gm, gv] =>
        let some gm := parseRat? gm | return "bad-request"
        let some gv := parseRat? gv | return "bad-request"
        let r := NaturalGrad.ngdExpecGrads (mk n 1 k) (mk n 1 m) gm gv
        return showRows r.1.toRows ++ " ; " ++ showRows r.2.toRows
      | _ => return "bad-request"
  | _ => "bad-request"

def main : IO Unit := Proto.main step

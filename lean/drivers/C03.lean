import GPVerif.Gen.CacheTable
open CacheSM

/-!
Line protocol of the C03 driver (one reply line per request line).

  `<kind> <op> <op> …`   run the history on `Gen.CacheTable.table` from a freshly constructed model and print,
                          after each op, the observable cache state (and the answer description of calls)
  `X <kind> <depth> full|ops`  enumerate ALL histories up to `depth` on the model (26-symbol alphabet with fourteen
                          settings cells, or the 9 operation kinds) and check the executable invariant at every
                          state and `answer is current ∧ = answer of the rebuilt model` at every call

kinds: exact kiss sgpr svgp usvgp
ops:   P0..P5 P8 P9 (predict under a named exact-path settings cell), Q1 Q2 (predict under accuracy-degrading settings),
       C<mask> (predict under the settings cell `Cell.ofMask mask`: bit i = setting i of `CacheSM.settingNames`),
       R (prior-mode call), T, E, S, D Dt Di (set_train_data: both / targets only / inputs only),
       L Lo (load_state_dict: current / old-format dict without `updated_strategy`), B,
       Fo Fe Fc Fl (get_fantasy_model: ok / rejected early / raised inside deepcopy / rejected late)
-/

def T : Table := Gen.CacheTable.table

def parseKind : String → Option Kind
  | "exact" => some .exact | "kiss" => some .kiss | "sgpr" => some .sgpr
  | "svgp" => some .svgp | "usvgp" => some .usvgp | _ => none

def cells : List Cell := [.default, .fastPredVar, .eagerKernels, .cg, .noDetach, .skipVar, .degradedRoot, .degradedCG, .lazyJoint, .traceMode,
  .fastPredSamples, .fastPredBoth, .nanPolicyMask, .nanPolicyFill]

def parseOp : String → Option Op
  | "P0" => some (.predict .default) | "P1" => some (.predict .fastPredVar) | "P2" => some (.predict .eagerKernels)
  | "P3" => some (.predict .cg) | "P4" => some (.predict .noDetach) | "P5" => some (.predict .skipVar)
  | "Q1" => some (.predict .degradedRoot) | "Q2" => some (.predict .degradedCG)
  | "P8" => some (.predict .lazyJoint) | "P9" => some (.predict .traceMode)
  | "R" => some .priorPredict | "T" => some .train | "E" => some .eval | "S" => some .step
  | "D" => some (.setTrainData .both) | "Dt" => some (.setTrainData .targetsOnly) | "Di" => some (.setTrainData .inputsOnly)
  | "L" => some (.loadStateDict false) | "Lo" => some (.loadStateDict true) | "B" => some .backward
  | "Fo" => some (.fantasy .ok) | "Fe" => some (.fantasy .rejectedEarly)
  | "Fc" => some (.fantasy .raisedInCopy) | "Fl" => some (.fantasy .rejectedLate)
  | s =>
      match s.toList with
      | 'C' :: rest => (String.ofList rest).toNat?.map fun m => .predict (Cell.ofMask m)
      | _ => none

def slotName (s : Nat) : String := Gen.CacheTable.slotNames.getD s s!"slot{s}"
def className (c : Nat) : String := Gen.CacheTable.classNames.getD c s!"class{c}"

def live (s : State) (p : Nat → Bool) : List Nat :=
  (List.range 18).filter fun sl => p sl && (s.store sl).isSome

def showKeys (s : State) : String :=
  let ps := if s.kind.isExact then
      (match s.store sStrat with
       | some _ => className (stratClassOf s.kind s.stratDefault)
       | none => "None")
    else "-"
  let memo := ",".intercalate ((live s isMemo).map slotName)
  let attrs := ",".intercalate ((live s fun sl => sl == sKMat || sl == sKInvRoot).map slotName)
  s!"ps={ps};memo={memo};attrs={attrs};tr={if s.training then 1 else 0};v={s.pv}.{s.dv};conv={if s.converts then 1 else 0}"

def showAnswer (a : Answer) : String :=
  let used := ",".intercalate (a.used.map fun u => s!"{slotName u.slot}@{u.pv}.{u.dv}")
  s!"ans={if a.posterior then "post" else "prior"}:{className a.cls}:{a.pv}.{a.dv}:[{used}]:{if a.current then "current" else "STALE"}"

def showOut (before : State) (op : Op) (o : Out) : String :=
  let base := showKeys o.next
  let ans := match o.answer with | some a => ";" ++ showAnswer a | none => ""
  let fant := match op with
    | .fantasy _ => s!";exp={if fantasyAccepts T before then "acc" else "rej"}" ++
        (match o.fantasy with | some f => ";fant=" ++ showKeys f | none => "")
    | _ => ""
  base ++ ans ++ fant

def runLine (k : Kind) (ops : List Op) : String :=
  let rec go (s : State) (ops : List Op) (acc : List String) : List String :=
    match ops with
    | [] => acc.reverse
    | op :: rest =>
        let o := step T s op
        go o.next rest (showOut s op o :: acc)
  " | ".intercalate (go (init k) ops [])

/-! ### exhaustive enumeration on the model -/

/-- `full = true`: 14 predict cells + R T E S D L B + F (outcome the model expects) + F raising inside deepcopy
(26 symbols: + targets-only / inputs-only set_train_data, old-format load_state_dict); `full = false`: the 9 operation kinds with predict under default settings. -/
def alphabet (full : Bool) : List (State → Op) :=
  let fant : State → Op := fun s => .fantasy (if fantasyAccepts T s then .ok else .rejectedEarly)
  let base : List (State → Op) :=
    [fun _ => .priorPredict, fun _ => .train, fun _ => .eval, fun _ => .step, fun _ => .setTrainData .both,
     fun _ => .loadStateDict false, fun _ => .backward, fant]
  if full then (cells.map fun c => fun _ => Op.predict c) ++ base ++
    [fun _ => .fantasy .raisedInCopy, fun _ => .setTrainData .targetsOnly, fun _ => .setTrainData .inputsOnly,
     fun _ => .loadStateDict true]
  else (fun _ => Op.predict .default) :: base

structure Tally where
  nodes : Nat := 0
  answers : Nat := 0
  bad : Nat := 0
  firstBad : String := ""

def Tally.flag (t : Tally) (ok : Bool) (what : Unit → String) : Tally :=
  if ok then t else { t with bad := t.bad + 1, firstBad := if t.firstBad == "" then what () else t.firstBad }

/-- same state, store re-tabulated (keeps look-ups O(1) however long the history is) -/
def compact (s : State) : State :=
  let arr := (Array.range 18).map s.store
  { s with store := fun sl => arr.getD sl none }

partial def dfs (full : Bool) (s : State) (depth : Nat) (t : Tally) : Tally :=
  let s := compact s
  let t := { t with nodes := t.nodes + 1 }
  let t := t.flag (invB s) fun _ => "inv: " ++ showKeys s
  if depth = 0 then t else
    (alphabet full).foldl (fun t mk =>
      let op := mk s
      let o := step T s op
      let t := match o.answer with
        | some a =>
            -- the answer is computed from current versions and equals the answer of the rebuilt model
            let t := { t with answers := t.answers + 1 }
            t.flag (a.current && some a == (step T s.rebuilt op).answer) fun _ => "answer: " ++ showKeys s ++ " " ++ showAnswer a
        | none => t
      let t := match o.fantasy with
        | some f => t.flag (invB f) fun _ => "fantasy inv: " ++ showKeys f
        | none => t
      dfs full o.next (depth - 1) t) t

def step' (line : String) : String :=
  match (line.splitOn " ").filter (· ≠ "") with
  | ["X", k, d, full] =>
      match parseKind k, d.toNat? with
      | some k, some d =>
          let t := dfs (full == "full") (init k) d {}
          s!"nodes={t.nodes};answers={t.answers};bad={t.bad};first={t.firstBad}"
      | _, _ => "bad-request"
  | k :: ops =>
      match parseKind k, ops.mapM parseOp with
      | some k, some ops => runLine k ops
      | _, _ => "bad-request"
  | [] => "bad-request"

partial def loop (h : IO.FS.Stream) (o : IO.FS.Stream) : IO Unit := do
  let line ← h.getLine
  if line.isEmpty then return ()
  o.putStrLn (step' (String.ofList (line.toList.filter (fun c => c ≠ '\n' && c ≠ '\r'))))
  loop h o

def main : IO Unit := do
  let o ← IO.getStdout
  loop (← IO.getStdin) o
  o.flush

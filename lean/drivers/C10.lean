/-
Line-protocol driver of C10 (imports the model only).  One reply line per request line.

  logprob  S mu v                 -> quad=<q>;det=<q>
  kl       Sp mup Sq muq [R]      -> tr=;quad=;detratio=;detp=;detq=[;code=;rres=]
  index    k d1..dk | idx-tokens  -> sel per dimension:  D p | K len p1..plen , joined by ';'
  slice    n start stop step      -> lo hi len | p1 .. plen          (any non-zero step; N = None)
  marg     S mu k p1..pk          -> <mean rows> | <cov rows>
  rsample  mu L eps               -> <rows>
  affine   a b mu S               -> <mean rows> | <cov rows>          (a·X + b)
  sum      mu1 S1 mu2 S2          -> <mean rows> | <cov rows>
  jitter   e S                    -> <cov rows>
  conf     mu sd                  -> <lower rows> | <upper rows>
  bcast    k d1..dk | j c1..cj    -> factors f1..fk | ok=<0/1>   (ok: repeat reads what broadcasting reads)

  asmlp    q ld k log2pi          -> <rat>      generated `log_prob` assembly
  asmkl    ldq ldp tpq k          -> <rat>      generated `kl_mvn_mvn` assembly
  gcov     S | lenIdx meanDim ellInRest | idx-token(last)  -> br=<branch>;rows=..;cols=..;<sub-matrix rows>  (generated dispatch)
  varclamp floor n v1..vn         -> v1' .. vn'  generated variance clamp
  perm     d                      -> in: .. | out: .. | roundtrip=<0/1>   generated permute lists of rsample
  unsq     nb dim                 -> <int> | reject   generated unsqueeze dimension
  divf     c                      -> <rat>            generated `__truediv__` factor
  gpair    n b | S_0..S_{b-1} | k bs.. | k es..  -> <k x k rows>   generated advanced branch under paired index lists
  gell     S | lenIdx meanDim numEll | idx-token(x) -> pre=..;br=..;rows=..;cols=..;<rows>  generated handling of `(..., x, ...)`
  initshape k m1..mk | j c1..cj   -> loc: .. | cov: .. | batch: ..   generated `__init__` shapes (lazy branch)
  permidx  d | o_0..o_d           -> in: .. | out: ..   multi-index read through the generated permutes

All numeric requests (`logprob kl rsample affine sum jitter conf bcast` and the ones above) are evaluated through the
REGENERATED definitions of `Gen/MVN.lean` (namespace `GenMVN`); `index slice marg` through the hand-written model.
Matrices travel as `rows cols v11 v12 …` with exact rationals.
idx-tokens:  I i | S start stop step | E | L len i1..ilen      (N = None)
-/
import GPVerif.Model.MVN
import GPVerif.Model.MVNShape
import GPVerif.Gen.MVN
import GPVerif.Model.Proto
open Proto MVN

abbrev Q := Rat

def mat (r c : Nat) (rows : Array (Array Q)) : DMat r c Q := DMat.ofRaw rows

def optInt? (s : String) : Option (Option Int) :=
  if s = "N" then some none else (s.toInt?).map some

/-- Parse idx-tokens. -/
partial def parseIdx (ts : List String) : Option (List Idx) :=
  match ts with
  | [] => some []
  | "I" :: i :: rest => do
      let i ← i.toInt?
      let tl ← parseIdx rest
      some (Idx.int i :: tl)
  | "S" :: s :: e :: st :: rest => do
      let s ← optInt? s
      let e ← optInt? e
      let st ← optInt? st
      let tl ← parseIdx rest
      some (Idx.slice s e (st.getD 1) :: tl)
  | "E" :: rest => do
      let tl ← parseIdx rest
      some (Idx.ellipsis :: tl)
  | "L" :: k :: rest => do
      let k ← k.toNat?
      if rest.length < k then none else
      let is ← parseInts? (rest.take k)
      let tl ← parseIdx (rest.drop k)
      some (Idx.list is :: tl)
  | _ => none

def showSel : Sel → String
  | .drop p => s!"D {p}"
  | .keep ps => s!"K {ps.length}" ++ String.join (ps.map fun p => s!" {p}")

def showMat {r c : Nat} (A : DMat r c Q) : String :=
  s!"{r} {c} " ++ " ".intercalate (A.toRows.flatten.map showRat)

def maxAbs {r c : Nat} (A : DMat r c Q) : Q :=
  A.toRows.flatten.foldl (fun acc x => if acc < |x| then |x| else acc) 0

def splitBar (ts : List String) : List String × List String :=
  (ts.takeWhile (· ≠ "|"), (ts.dropWhile (· ≠ "|")).drop 1)

def doLogprob (ts : List String) : Option String := do
  let (n, c, S, r1) ← takeMat? ts
  let (n1, c1, mu, r2) ← takeMat? r1
  let (n2, c2, v, _) ← takeMat? r2
  if n ≠ c ∨ n1 ≠ n ∨ n2 ≠ n ∨ c1 ≠ 1 ∨ c2 ≠ 1 then none else
  match GenMVN.logProbInvQuad? (mat n n S) (mat n 1 v) (mat n 1 mu), det? (mat n n S) with
  | some q, some d => some s!"quad={showRat q};det={showRat d}"
  | _, _ => some "singular"

def doKl (ts : List String) : Option String := do
  let (n, c, Sp, r1) ← takeMat? ts
  let (n1, c1, mup, r2) ← takeMat? r1
  let (n2, c2, Sq, r3) ← takeMat? r2
  let (n3, c3, muq, r4) ← takeMat? r3
  if n ≠ c ∨ n1 ≠ n ∨ n2 ≠ n ∨ c2 ≠ n ∨ n3 ≠ n ∨ c1 ≠ 1 ∨ c3 ≠ 1 then none else
  let Sp' := mat n n Sp
  let Sq' := mat n n Sq
  let mup' := mat n 1 mup
  let muq' := mat n 1 muq
  match klClosedParts? Sp' Sq' mup' muq', det? Sp', det? Sq' with
  | some (tr, quad, ratio), some dp, some dq =>
    let base := s!"tr={showRat tr};quad={showRat quad};detratio={showRat ratio};detp={showRat dp};detq={showRat dq}"
    match takeMat? r4 with
    | some (n4, m, R, _) =>
      if n4 ≠ n then none else
      let R' := mat n m R
      match GenMVN.klTracePlusInvQuadForm? (fun sd => match sd with | Side.p => Sp' | Side.q => Sq') mup' muq' R' with
      | some code =>
        let res := maxAbs ((R'.mul R'.transpose).sub Sp')
        some (base ++ s!";code={showRat code};rres={showRat res}")
      | none => some "singular"
    | none => some base
  | _, _, _ => some "singular"

def doIndex (ts : List String) : Option String := do
  let (l, r) := splitBar ts
  match l with
  | k :: dims => do
    let k ← k.toNat?
    let shape ← parseNats? dims
    if shape.length ≠ k then none else
    let idx ← parseIdx r
    match normIndex shape idx with
    | some sels => some (";".intercalate (sels.map showSel))
    | none => some "reject"
  | _ => none

def doSlice (ts : List String) : Option String :=
  match ts with
  | [n, s, e, st] => do
    let n ← n.toNat?
    let s ← optInt? s
    let e ← optInt? e
    let st ← st.toInt?
    if st = 0 then some "reject" else
    let lh := sliceIndices n s e st
    let ps := slicePositions n s e st
    some (s!"{lh.1} {lh.2} {ps.length} |" ++ String.join (ps.map fun p => s!" {p}"))
  | _ => none

def doMarg (ts : List String) : Option String := do
  let (n, c, S, r1) ← takeMat? ts
  let (n1, c1, mu, r2) ← takeMat? r1
  if n ≠ c ∨ n1 ≠ n ∨ c1 ≠ 1 then none else
  match r2 with
  | k :: ps => do
    let k ← k.toNat?
    let ps ← parseNats? ps
    if ps.length ≠ k then none else
    match margMean? (mat n 1 mu) ps, margCov? (mat n n S) ps with
    | some m, some C => some (showMat m ++ " | " ++ showMat C)
    | _, _ => some "reject"
  | _ => none

def doRsample (ts : List String) : Option String := do
  let (n, c1, mu, r1) ← takeMat? ts
  let (n1, m, L, r2) ← takeMat? r1
  let (m1, c2, e, _) ← takeMat? r2
  if n1 ≠ n ∨ m1 ≠ m ∨ c1 ≠ 1 ∨ c2 ≠ 1 then none else
  some (showMat (GenMVN.rsampleCore (mat n 1 mu) (mat n m L) (mat m 1 e)))

def doAffine (ts : List String) : Option String :=
  match ts with
  | a :: b :: rest => do
    let a ← parseRat? a
    let b ← parseRat? b
    let (n, c1, mu, r1) ← takeMat? rest
    let (n1, c, S, _) ← takeMat? r1
    if n1 ≠ n ∨ c ≠ n ∨ c1 ≠ 1 then none else
    some (showMat (GenMVN.addScalarMean b (GenMVN.mulMean a (mat n 1 mu))) ++ " | " ++ showMat (GenMVN.addScalarCov (GenMVN.mulCov a (mat n n S))))
  | _ => none

def doSum (ts : List String) : Option String := do
  let (n, c1, mu1, r1) ← takeMat? ts
  let (n1, c, S1, r2) ← takeMat? r1
  let (n2, c2, mu2, r3) ← takeMat? r2
  let (n3, c3, S2, _) ← takeMat? r3
  if n1 ≠ n ∨ n2 ≠ n ∨ n3 ≠ n ∨ c ≠ n ∨ c3 ≠ n ∨ c1 ≠ 1 ∨ c2 ≠ 1 then none else
  some (showMat (GenMVN.addMean (mat n 1 mu1) (mat n 1 mu2)) ++ " | " ++ showMat (GenMVN.addCov (mat n n S1) (mat n n S2)))

def doJitter (ts : List String) : Option String :=
  match ts with
  | e :: rest => do
    let e ← parseRat? e
    let (n, c, S, _) ← takeMat? rest
    if c ≠ n then none else
    some (showMat (GenMVN.addJitterCov e (mat n n S)))
  | _ => none

def doConf (ts : List String) : Option String := do
  let (n, c1, mu, r1) ← takeMat? ts
  let (n1, c2, sd, _) ← takeMat? r1
  if n1 ≠ n ∨ c1 ≠ 1 ∨ c2 ≠ 1 then none else
  let mu' := mat n 1 mu
  let sd' := mat n 1 sd
  let cr := GenMVN.confidenceRegion (fun i => mu'.toMatrix i 0) (fun i => sd'.toMatrix i 0)
  some (showMat (colVec cr.1) ++ " | " ++ showMat (colVec cr.2))

def doBcast (ts : List String) : Option String := do
  let (l, r) := splitBar ts
  match l, r with
  | k :: ds, j :: cs => do
    let k ← k.toNat?
    let j ← j.toNat?
    let ds ← parseNats? ds
    let cs ← parseNats? cs
    if ds.length ≠ k ∨ cs.length ≠ j then none else
    let fs := (GenMVN.logProbRepeat ds cs).take (GenMVN.logProbRepeat ds cs).length.pred.pred   -- drop the trailing `1, 1`
    let pc := GenMVN.logProbPadded ds cs
    -- repeat produces the diff shape and reads what broadcasting reads, in every dimension
    let ok := (List.zip ds (List.zip pc fs)).all fun (d, c, f) =>
      f * c == d && (List.range d).all fun i => repeatSource c i == broadcastSource c i
    some ("factors" ++ String.join (fs.map fun f => s!" {f}") ++ s!" | ok={if ok && pc.length == ds.length then 1 else 0}")
  | _, _ => none

def showSelPos (sl : Sel) : String := " ".intercalate (sl.positions.map toString)

def brName : Br → String
  | .batchOnly => "batchOnly" | .tooMany => "tooMany" | .int => "int" | .slice => "slice"
  | .ellipsis => "ellipsis" | .advanced => "advanced"

def doAsmLp (ts : List String) : Option String := do
  match ← parseRats? ts with
  | [q, ld, k, l] => some (showRat (GenMVN.logProbRes q ld k l))
  | _ => none

def doAsmKl (ts : List String) : Option String := do
  match ← parseRats? ts with
  | [ldq, ldp, tpq, k] => some (showRat (GenMVN.klRes (fun sd => match sd with | Side.q => ldq | Side.p => ldp) tpq k))
  | _ => none

def doGcov (ts : List String) : Option String := do
  let (n, c, S, r1) ← takeMat? ts
  if n ≠ c then none else
  match r1 with
  | "|" :: l :: d :: e :: "|" :: rest => do
    let l ← l.toNat?
    let d ← d.toNat?
    let idx ← parseIdx rest
    match idx with
    | [last] =>
      let br := GenMVN.getitemDispatch l d (e == "1") last
      match covSelPositions n last (GenMVN.getitemCov br) with
      | some (rs, cs) =>
        match subMat? (mat n n S) rs.positions cs.positions with
        | some M => some s!"br={brName br};rows={showSelPos rs};cols={showSelPos cs};{showMat M}"
        | none => some s!"br={brName br};out-of-range"
      | none => some s!"br={brName br};nosel"
    | _ => none
  | _ => none

def doVarclamp (ts : List String) : Option String :=
  match ts with
  | fl :: n :: vs => do
    let fl ← parseRat? fl
    let n ← n.toNat?
    let vs ← parseRats? vs
    if vs.length ≠ n then none else
    let arr := vs.toArray
    let out := GenMVN.varianceClamp fl (fun (i : Fin n) => arr[i.1]!)
    some (" ".intercalate ((List.finRange n).map fun i => showRat (out i)))
  | _ => none

def doPerm (ts : List String) : Option String :=
  match ts with
  | [d] => do
    let d ← d.toNat?
    let pin := GenMVN.rsamplePermIn d
    let pout := GenMVN.rsamplePermOut d
    let ok := (List.range (d + 1)).all fun j => permSource pin (permSource pout j) == j
    some ("in: " ++ " ".intercalate (pin.map toString) ++ " | out: " ++ " ".intercalate (pout.map toString) ++
      s!" | roundtrip={if ok then 1 else 0}")
  | _ => none

def doUnsq (ts : List String) : Option String :=
  match ts with
  | [nb, dim] => do
    let nb ← nb.toNat?
    let dim ← dim.toInt?
    match GenMVN.unsqueezeDim nb dim with
    | some r => some (toString r)
    | none => some "reject"
  | _ => none

def doDivf (ts : List String) : Option String :=
  match ts with
  | [c] => do
    let c ← parseRat? c
    some (showRat (GenMVN.divFactor c))
  | _ => none

/-- Split a token list at every `|`. -/
def splitBars (ts : List String) : List (List String) :=
  ts.foldr (fun t acc => if t = "|" then [] :: acc else match acc with
    | [] => [[t]]
    | h :: r => (t :: h) :: r) [[]]

def showNats (l : List Nat) : String := " ".intercalate (l.map toString)

/-- `gpair n b | S_0 … S_{b-1} | k bs… | k es…`: the generated advanced branch under paired index lists. -/
def doGpair (ts : List String) : Option String :=
  match splitBars ts with
  | [[n, b], mats, bsT, esT] => do
    let n ← n.toNat?
    let b ← b.toNat?
    let rec take (k : Nat) (ts : List String) (acc : Array (DMat n n Q)) : Option (Array (DMat n n Q)) :=
      match k with
      | 0 => some acc
      | k + 1 => do
        let (r, c, S, rest) ← takeMat? ts
        if r ≠ n ∨ c ≠ n then none else take k rest (acc.push (mat n n S))
    let Ss ← take b mats #[]
    let bs ← parseNats? (bsT.drop 1)
    let es ← parseNats? (esT.drop 1)
    if bs.length ≠ es.length then none else
    let cov : Nat → Nat → Nat → Q := fun bi r c =>
      match Ss[bi]? with
      | some S => if h : r < n ∧ c < n then S.toMatrix ⟨r, h.1⟩ ⟨c, h.2⟩ else 0
      | none => 0
    match covSelPaired cov bs es (GenMVN.getitemCov Br.advanced) with
    | some f =>
      let k := bs.length
      let rows := (List.range k).map fun i => (List.range k).map fun j => showRat (f i j)
      some (s!"{k} {k} " ++ " ".intercalate rows.flatten)
    | none => some "nosel"
  | _ => none

/-- `gell S | lenIdx meanDim numEll | idx-token(x)`: the generated pre-pass / dispatch / ellipsis branch for `(..., x, ...)`. -/
def doGell (ts : List String) : Option String := do
  let (n, c, S, r1) ← takeMat? ts
  if n ≠ c then none else
  match r1 with
  | "|" :: l :: d :: ne :: "|" :: rest => do
    let l ← l.toNat?
    let d ← d.toNat?
    let ne ← ne.toNat?
    let idx ← parseIdx rest
    match idx with
    | [x] =>
      match GenMVN.getitemPre l d ne with
      | none => some "pre=reject"
      | some l' =>
        let br := GenMVN.getitemDispatch l' d true Idx.ellipsis
        match covSelPositionsRestEllipsis n x (GenMVN.getitemCov br) with
        | some (rs, cs) =>
          match subMat? (mat n n S) rs.positions cs.positions with
          | some M => some s!"pre={l'};br={brName br};rows={showSelPos rs};cols={showSelPos cs};{showMat M}"
          | none => some s!"pre={l'};br={brName br};out-of-range"
        | none => some s!"pre={l'};br={brName br};nosel"
    | _ => none
  | _ => none

/-- `initshape k m1..mk | j c1..cj`: generated `__init__` shapes. -/
def doInitShape (ts : List String) : Option String := do
  let (l, r) := splitBar ts
  match l, r with
  | _ :: ms, _ :: cs => do
    let ms ← parseNats? ms
    let cs ← parseNats? cs
    if ms.length < 1 ∨ cs.length < 2 then none else
    match GenMVN.initShapes ms cs, GenMVN.initBatchShape ms cs with
    | some (ls, vs), some bs => some s!"loc: {showNats ls} | cov: {showNats vs} | batch: {showNats (GenMVN.initDistBatch ms cs bs)}"
    | _, _ => some "reject"
  | _, _ => none

/-- `permidx d | o_0 … o_d`: the multi-indices read through the two generated `permute`s. -/
def doPermIdx (ts : List String) : Option String := do
  let (l, r) := splitBar ts
  match l with
  | [d] => do
    let d ← d.toNat?
    let o ← parseNats? r
    if o.length ≠ d + 1 then none else
    some ("in: " ++ showNats (permuteIdx (GenMVN.rsamplePermIn d) o) ++ " | out: " ++ showNats (permuteIdx (GenMVN.rsamplePermOut d) o))
  | _ => none

def step (line : String) : String :=
  match tokens line with
  | cmd :: ts =>
    let r := match cmd with
      | "logprob" => doLogprob ts
      | "kl" => doKl ts
      | "index" => doIndex ts
      | "slice" => doSlice ts
      | "marg" => doMarg ts
      | "rsample" => doRsample ts
      | "affine" => doAffine ts
      | "sum" => doSum ts
      | "jitter" => doJitter ts
      | "conf" => doConf ts
      | "bcast" => doBcast ts
      | "asmlp" => doAsmLp ts
      | "asmkl" => doAsmKl ts
      | "gcov" => doGcov ts
      | "varclamp" => doVarclamp ts
      | "perm" => doPerm ts
      | "unsq" => doUnsq ts
      | "divf" => doDivf ts
      | "gpair" => doGpair ts
      | "gell" => doGell ts
      | "initshape" => doInitShape ts
      | "permidx" => doPermIdx ts
      | _ => none
    r.getD "bad-request"
  | [] => "bad-request"

def main : IO Unit := Proto.main step

/-
C19 fallback driver: the hand-written model only (same line protocol as `drivers/C19.lean`; the generated half of a
`GB` / `NGDX` reply is the token `nogen`).  Used by `harness/props/c19.py` when `drivers/C19.lean` does not build or
run, i.e. when the regenerated `Gen/NaturalGrad.lean` is not valid, so that every case is still judged against the
specification.
-/
import GPVerif.Model.NaturalGradDriver

open Proto NaturalGradDriver

def step (line : String) : String :=
  match stepOld line with
  | some r => r
  | none =>
  match tokens line with
  | "GB" :: ts => Id.run do
      let some (n, _, g, ts) := takeMat? ts | return "bad-request"
      let some (_, _, gL, ts) := takeMat? ts | return "bad-request"
      let some (_, _, mu, ts) := takeMat? ts | return "bad-request"
      let some (_, _, L, ts) := takeMat? ts | return "bad-request"
      let some (_, _, C, _) := takeMat? ts | return "bad-request"
      return "nogen | " ++ gbModel (mk n 1 g) (mk n n gL) (mk n 1 mu) (mk n n L) (mk n n C)
  | "NGDX" :: ts => Id.run do
      let some (n, d, K, ts) := takeMat? ts | return "bad-request"
      let some (_, _, nv, ts) := takeMat? ts | return "bad-request"
      let some (_, _, Θ, ts) := takeMat? ts | return "bad-request"
      let some (_, _, gm, ts) := takeMat? ts | return "bad-request"
      let some (_, _, gv, ts) := takeMat? ts | return "bad-request"
      let [gk] := ts | return "bad-request"
      let some gk := parseRat? gk | return "bad-request"
      let Θ' : DMat n n Rat := mk n n Θ
      let some S := DMat.inv? (Θ'.smul (-2)) | return "singular"
      return "nogen | " ++ ngdxModel (mk n d K) (mk n 1 nv) Θ' S (mk d 1 gm) (mk d 1 gv) gk
  | _ => "bad-request"

def main : IO Unit := Proto.main step

import GPVerif.Model.StructuredDriver
import GPVerif.Gen.StructuredAlgebra
/-!
C09 driver: the protocol of `GPVerif/Model/StructuredDriver.lean` evaluated with the REGENERATED strategy algebra.
Imports Model/Gen only.
-/
open StructuredDriver Gen.StructuredAlgebra

def genOps : GenOps where
  sgprCovarCache := sgprCovarCache
  sgprPredictiveCovar := sgprPredictiveCovar
  defaultMeanCache := defaultMeanCache
  defaultPredictiveMean := defaultPredictiveMean
  rffCovarCache := rffCovarCache
  rffInnerTerm := rffInnerTerm
  rffPredictiveCovar := rffPredictiveCovar
  interpMeanCache := interpMeanCache
  interpPredictiveMean := interpPredictiveMean
  getCovarianceSame := getCovarianceSame
  getCovarianceCross := getCovarianceCross
  multitaskForward := multitaskForward
  indexCovarMatrix := indexCovarMatrix
  indexForward := indexForward
  lcmForward := lcmForward
  gridToeplitzFactors := gridToeplitzFactors
  gridForward := gridForward
  addedLoss := addedLoss
  wiskiFantasyStep := wiskiFantasyStep
  computeGridSource := computeGridSource
  computeGridPointDim := computeGridPointDim
  computeGridResultShape := computeGridResultShape
  gridForwardLastDimBatch := gridForwardLastDimBatch
  inducingDeepcopyArgs := inducingDeepcopyArgs

def main : IO Unit := Proto.main (step genOps)

import GPVerif.Model.Structured
import GPVerif.Model.LDL
import GPVerif.Gen.Interp
import GPVerif.Model.Proto
import Mathlib.Data.Rat.Floor
/-!
Line-protocol driver for C09.  One request per line: `<op> <matrix>*`, matrices as `rows cols v…` (exact
rationals); replies are matrices separated by ` | `.  Runs only `Structured.*`, `Interp.*`, `Gen.Interp.*`.
-/
open Proto Structured

abbrev RawMat := Nat × Nat × Array (Array Rat)

partial def parseMats (ts : List String) (acc : Array RawMat := #[]) : Option (Array RawMat) :=
  if ts.isEmpty then some acc else
  match takeMat? ts with
  | some (r, c, rows, rest) => parseMats rest (acc.push (r, c, rows))
  | none => none

def asMat (M : RawMat) (r c : Nat) : Option (DMat r c Rat) :=
  if M.1 = r ∧ M.2.1 = c then some (DMat.ofRaw M.2.2) else none

def sh {r c : Nat} (M : DMat r c Rat) : String := showRows M.toRows

def colFn {n : Nat} (v : DMat n 1 Rat) : Fin n → Rat := fun i => v.get i.1 0

def natOf (q : Rat) : Nat := q.num.toNat

def idxFn {n : Nat} (v : DMat n 1 Rat) (t : Nat) : Option (Fin n → Fin t) :=
  if h : 0 < t then
    if (List.finRange n).all (fun i => decide (natOf (v.get i.1 0) < t)) then
      some fun i => ⟨natOf (v.get i.1 0) % t, Nat.mod_lt _ h⟩
    else none
  else none

def normInf {r c : Nat} (M : DMat r c Rat) : Rat :=
  M.toRows.foldl (fun acc row => max acc (row.foldl (fun s v => s + |v|) 0)) 0

def joinOut (l : List String) : String := " | ".intercalate l

/-- kron A B -/
def opKron (ms : Array RawMat) : Option String := do
  let A ← ms[0]?; let B ← ms[1]?
  let a ← asMat A A.1 A.2.1; let b ← asMat B B.1 B.2.1
  pure (sh (kron a b))

/-- lcm A1 B1 A2 B2 … (all A's the same shape, all B's the same shape) -/
def opLcm (ms : Array RawMat) : Option String := do
  let A ← ms[0]?; let B ← ms[1]?
  let n := A.1; let m := A.2.1; let t := B.1; let s := B.2.1
  let rec pairs (i : Nat) (fuel : Nat) (acc : List (DMat n m Rat × DMat t s Rat)) :
      Option (List (DMat n m Rat × DMat t s Rat)) :=
    match fuel with
    | 0 => some acc.reverse
    | fuel + 1 =>
      if i + 1 < ms.size then do
        let a ← asMat ms[i]! n m; let b ← asMat ms[i+1]! t s
        pairs (i + 2) fuel ((a, b) :: acc)
      else some acc.reverse
  let ps ← pairs 0 ms.size []
  match ps with
  | hd :: tl => pure (sh (lcmKernel hd tl))
  | [] => none

/-- index F v i1 i2 [K]  — with K: Hadamard multitask kernel -/
def opIndex (ms : Array RawMat) : Option String := do
  let F ← ms[0]?; let V ← ms[1]?; let I1 ← ms[2]?; let I2 ← ms[3]?
  let t := F.1; let r := F.2.1; let n := I1.1; let m := I2.1
  let f ← asMat F t r; let v ← asMat V t 1; let i1 ← asMat I1 n 1; let i2 ← asMat I2 m 1
  let g1 ← idxFn i1 t; let g2 ← idxFn i2 t
  let B := indexCovar f (colFn v)
  match ms[4]? with
  | some K => do
      let k ← asMat K n m
      pure (joinOut [sh B, sh (hadamardTask k B g1 g2)])
  | none => pure (joinOut [sh B, sh (indexGather B g1 g2)])

def sqOf (M : RawMat) (toep : Bool) : Option (Sq Rat) :=
  if toep then
    (asMat M M.1 1).map fun c => ⟨M.1, toeplitz (colFn c)⟩
  else
    (asMat M M.1 M.1).map fun K => ⟨M.1, K⟩

/-- grid / gridrm: per-dimension factors (`T…`: first columns, Toeplitz; `D…`: dense) -/
def opGrid (toep rowMajor : Bool) (ms : Array RawMat) : Option String := do
  let Ks ← ms.toList.mapM (sqOf · toep)
  let R := if rowMajor then gridKronRowMajor Ks else gridKron Ks
  pure (sh R.2)

/-- cond K N Ksx Kss r -/
def opCond (ms : Array RawMat) : Option String := do
  let K ← ms[0]?; let N ← ms[1]?; let Ksx ← ms[2]?; let Kss ← ms[3]?; let R ← ms[4]?
  let n := K.1; let ns := Kss.1
  let k ← asMat K n n; let nn ← asMat N n n; let ksx ← asMat Ksx ns n; let kss ← asMat Kss ns ns; let r ← asMat R n 1
  let (mu, cov) ← conditional? k nn ksx kss r
  let Ainv ← DMat.inv? (k.add nn)
  pure (joinOut [sh mu, sh cov, showRat (normInf (k.add nn) * normInf Ainv)])

def boolOf (M : RawMat) : Bool := (M.2.2[0]?.bind (·[0]?)).getD 0 != 0

/-- sgpr corr kdiag Kxz Kzz Ksz Kss r noise R
replies: 0 Q | 1 Qs | 2 kernel_eval(R) | 3 cross(R) | 4 cache(R) | 5 mean(R) | 6 cov(R) |
7 titsias mean | 8 titsias cov | 9 represented-matrix mean | 10 represented-matrix cov |
11 ‖R Rᵀ − Kzz⁻¹‖∞ / ‖Kzz⁻¹‖∞ | 12 quad (titsias) | 13 det(Q+Σ) | 14 added loss | 15 cond(A_code) -/
def opSgpr (ms : Array RawMat) : Option String := do
  let C ← ms[0]?; let KD ← ms[1]?; let Kxz ← ms[2]?; let Kzz ← ms[3]?; let Ksz ← ms[4]?; let Kss ← ms[5]?
  let Rr ← ms[6]?; let Nz ← ms[7]?; let Rt ← ms[8]?
  let corr := boolOf C
  let n := Kxz.1; let m := Kxz.2.1; let ns := Ksz.1
  let kd ← asMat KD n 1; let kxz ← asMat Kxz n m; let kzz ← asMat Kzz m m; let ksz ← asMat Ksz ns m
  let kss ← asMat Kss ns ns; let r ← asMat Rr n 1; let nz ← asMat Nz n 1; let R ← asMat Rt m m
  let kzzInv ← DMat.inv? kzz
  -- dense meaning (certified inverse of Kzz)
  let Q := (kxz.mul kzzInv).mul kxz.transpose
  let Qs := (ksz.mul kzzInv).mul kxz.transpose
  let Sigma : DMat n n Rat := DMat.diagonal (colFn nz)
  let (mt, ct) ← conditional? Q Sigma Qs kss r
  let dcorr : Fin n → Rat := fun i => if corr then diagCorrection (colFn kd) Q i else 0
  let (mc, cc) ← conditional? (Q.add (DMat.diagonal dcorr)) Sigma Qs kss r
  let AcInv ← DMat.inv? ((Q.add (DMat.diagonal dcorr)).add Sigma)
  let condA := normInf ((Q.add (DMat.diagonal dcorr)).add Sigma) * normInf AcInv
  -- the code's algebra, given the root R it actually computed
  let Rx := nystromRoot kxz R
  let L := nystromRoot ksz R
  let Keval := nystromEval corr (colFn kd) kxz R
  let cross := nystromCross ksz kxz R
  let dd : Fin n → Rat := fun i => (if corr then diagCorrection (colFn kd) (lowRank Rx) i else 0) + colFn nz i
  let dinv : Fin n → Rat := fun i => (dd i)⁻¹
  let Minv ← DMat.inv? (sgprCapacitance Rx dinv)
  let cache := sgprCache Rx (sgprInverseExact Rx dinv Minv)
  let AinvR ← DMat.inv? (Keval.add Sigma)
  let meanR := sgprPredMean L Rx AinvR r
  let covR := sgprPredCovar kss L cache
  let resid := normInf ((R.mul R.transpose).sub kzzInv) / normInf kzzInv   -- relative
  -- Titsias bound pieces
  let At := Q.add Sigma
  let AtInv ← DMat.inv? At
  let quad := ((r.transpose.mul (AtInv.mul r)).get 0 0)
  let (_, dpiv) ← DMat.ldl? At
  let det := (List.finRange n).foldl (fun acc i => acc * dpiv i) (1 : Rat)
  let added := titsiasAddedLoss (colFn kd) Q.diag (colFn nz)
  pure (joinOut [sh Q, sh Qs, sh Keval, sh cross, sh cache, sh meanR, sh covR, sh mt, sh ct, sh mc, sh cc,
    showRat resid, showRat quad, showRat det, showRat added, showRat condA])

/-- rff c F Fs noise r
replies: K | Ksx | Kss | mean | cov (dense conditional) | inner | cov through rffPredCovarExact | cond -/
def opRff (ms : Array RawMat) : Option String := do
  let C ← ms[0]?; let F ← ms[1]?; let Fs ← ms[2]?; let Nz ← ms[3]?; let Rr ← ms[4]?
  let c : Rat := (C.2.2[0]?.bind (·[0]?)).getD 1
  let n := F.1; let k := F.2.1; let ns := Fs.1
  let f ← asMat F n k; let fs ← asMat Fs ns k; let nz ← asMat Nz n 1; let r ← asMat Rr n 1
  let K := (f.mul f.transpose).smul c
  let Ksx := (fs.mul f.transpose).smul c
  let Kss := (fs.mul fs.transpose).smul c
  let Sigma : DMat n n Rat := DMat.diagonal (colFn nz)
  let (mu, cov) ← conditional? K Sigma Ksx Kss r
  let Ainv ← DMat.inv? (K.add Sigma)
  let inner := rffInner c f Ainv
  let covR := rffPredCovarExact c fs inner
  pure (joinOut [sh K, sh Ksx, sh Kss, sh mu, sh cov, sh inner, sh covR, showRat (normInf (K.add Sigma) * normInf Ainv)])

/-- interp eps d grid_0 … grid_{d-1} X   (grids as G×1, X as npts×d; eps as 1×1, 0 = default)
replies: indices (npts × nc^d) | values -/
def opInterp (ms : Array RawMat) : Option String := do
  let E ← ms[0]?; let D ← ms[1]?
  let d := natOf ((D.2.2[0]?.bind (·[0]?)).getD 0)
  let e : Rat := (E.2.2[0]?.bind (·[0]?)).getD 0
  let eps : Rat := if e = 0 then Gen.Interp.defaultEps else e
  if ms.size ≠ d + 3 then none else
  let grids : List (Nat × (Nat → Rat)) := (List.range d).map fun i =>
    let G := ms[2 + i]!
    (G.1, fun k => ((G.2.2[k]?).bind (·[0]?)).getD 0)
  let X := ms[2 + d]!
  let rows := X.2.2.toList.map fun row => Interp.interpolate (Gen.Interp.spec eps) grids row.toList
  let idx := rows.map fun r => r.map fun p => ((p.1 : Int) : Rat)
  let val := rows.map fun r => r.map (·.2)
  pure (joinOut [showRows idx, showRows val])

/-- kiss W Ws Kuu noise r [Wf noisef rf]
replies: Kxx | Ksx | Kss | mean (through interpMeanCache) | cov | mean_cache | cond
with the fantasy triple additionally: updated P | updated resp | fantasy mean cache (exact form) |
fantasy mean | fantasy cov (dense conditional on the concatenated data) -/
def opKiss (ms : Array RawMat) : Option String := do
  let W ← ms[0]?; let Ws ← ms[1]?; let Kuu ← ms[2]?; let Nz ← ms[3]?; let Rr ← ms[4]?
  let n := W.1; let g := W.2.1; let ns := Ws.1
  let w ← asMat W n g; let ws ← asMat Ws ns g; let kuu ← asMat Kuu g g; let nz ← asMat Nz n 1; let r ← asMat Rr n 1
  let Kxx := interpKernel w kuu w
  let Ksx := interpKernel ws kuu w
  let Kss := interpKernel ws kuu ws
  let Sigma : DMat n n Rat := DMat.diagonal (colFn nz)
  let Ainv ← DMat.inv? (Kxx.add Sigma)
  let mc := interpMeanCache kuu w Ainv r
  let mean := interpApply ws mc
  let cov := condCovar Kss Ksx Ainv
  let base := [sh Kxx, sh Ksx, sh Kss, sh mean, sh cov, sh mc, showRat (normInf (Kxx.add Sigma) * normInf Ainv)]
  match ms[5]?, ms[6]?, ms[7]? with
  | some Wf, some Nf, some Rf => do
      let nf := Wf.1
      let wf ← asMat Wf nf g; let nzf ← asMat Nf nf 1; let rf ← asMat Rf nf 1
      let dinv : Fin n → Rat := fun i => (colFn nz i)⁻¹
      let dinvf : Fin nf → Rat := fun i => (colFn nzf i)⁻¹
      let (P, resp) := wiskiUpdate (wiskiInnerProd w dinv) (wiskiResponse w dinv r) wf dinvf rf
      -- the root-free exact fantasy mean cache needs a g×g rational inverse: only for small grids
      let (fmc, fmean) ← (if g ≤ 14 then do
          let Tinv ← DMat.inv? (wiskiT kuu P)
          let fmc := wiskiMeanCacheExact kuu Tinv resp
          pure (fmc, interpApply ws fmc)
        else pure (DMat.zero, DMat.zero) : Option (DMat g 1 Rat × DMat ns 1 Rat))
      -- dense conditional on the concatenated data
      let wall := vstack w wf
      let Kall := interpKernel wall kuu wall
      let Ksall := interpKernel ws kuu wall
      let SigAll : DMat (n + nf) (n + nf) Rat := DMat.diagonal (Fin.addCases (colFn nz) (colFn nzf))
      let (dm, dc) ← conditional? Kall SigAll Ksall Kss (vstack r rf)
      pure (joinOut (base ++ [sh P, sh resp, sh fmc, sh fmean, sh dm, sh dc]))
  | _, _, _ => pure (joinOut base)

def step (line : String) : String :=
  match tokens line with
  | op :: rest =>
    match parseMats rest with
    | none => "bad-matrices"
    | some ms =>
      let res := match op with
        | "kron" => opKron ms
        | "lcm" => opLcm ms
        | "index" => opIndex ms
        | "gridT" => opGrid true false ms
        | "gridD" => opGrid false false ms
        | "gridrmT" => opGrid true true ms
        | "gridrmD" => opGrid false true ms
        | "cond" => opCond ms
        | "sgpr" => opSgpr ms
        | "rff" => opRff ms
        | "interp" => opInterp ms
        | "kiss" => opKiss ms
        | _ => none
      res.getD "fail"
  | [] => "empty"

def main : IO Unit := Proto.main step

import GPVerif.Model.Quadrature
import GPVerif.Model.Proto
/-!
Line-protocol driver for C13.

  M m v K            (rationals)  -> exact Gaussian moments M_0 … M_K of N(m, v) in ℚ
  E m v c0 … cd      (rationals)  -> exact E_{N(m,v)} Σ c_k x^k in ℚ
  G n t1 w1 … tn wn m v c0 … cd   (double bit patterns) -> Float `ghApply` of the polynomial
  L z…               (bits) -> per z  tag:value:grad   tag ∈ N(ear zero) S(mall) O(rdinary; value/grad = NaN: Φ is a torch primitive)
  W z logphi         (bits) -> backward of the not-small branches given the forward value
  N s0 op…           (op = S n | B) -> node counts of the objects built by the construction history (`builtCounts`)
  B m v              (bits) -> Bernoulli link
  A f s              (bits) -> Beta concentrations alpha beta
  R k z logphi       (k nat; bits) -> gradient (per unit grad_output) returned by the k-th backward pass through one graph (k = 0 first)
  Q n t1 w1 … tn wn  (rationals) -> per k < 2n  `bound scale`: certified bound of the k-th moment-equation residual, and its scale
  P                  -> generated purity facts: ghqForwardStateWrites | likelihoodCallStateWrites… | bernoulliLabelGuardIsCurrentInput | forward/backward leave their inputs and saved state alone (checked at a probe point)
-/
open Quadrature Gen.Quadrature

def fOf (s : String) : Option Float := s.toNat?.map fun n => Float.ofBits n.toUInt64
def fShow (x : Float) : String := toString x.toBits.toNat

def nan : Float := 0.0 / 0.0

def pairs : List Float → List (Float × Float)
  | a :: b :: rest => (a, b) :: pairs rest
  | _ => []

def step (line : String) : String :=
  let r : Option String :=
    match Proto.tokens line with
    | "M" :: m :: v :: k :: [] => do
        let m ← Proto.parseRat? m
        let v ← Proto.parseRat? v
        let k ← k.toNat?
        some (" ".intercalate ((List.range (k + 1)).map fun i => Proto.showRat (gaussMomentFast m v i)))
    | "E" :: m :: v :: cs => do
        let m ← Proto.parseRat? m
        let v ← Proto.parseRat? v
        let cs ← Proto.parseRats? cs
        some (Proto.showRat (polyExpect cs m v))
    | "G" :: n :: rest => do
        let n ← n.toNat?
        let xs ← rest.mapM fOf
        if xs.length < 2 * n + 2 then none else
        let rule := pairs (xs.take (2 * n))
        let tail := xs.drop (2 * n)
        match tail with
        | m :: v :: cs => some (fShow (ghApply rule (polyEval cs) m v))
        | _ => none
    | "L" :: zs => do
        let zs ← zs.mapM fOf
        some (" ".intercalate (zs.map fun z =>
          if lncdfNearZeroMask z then s!"N:{fShow (lncdf (fun _ => nan) z)}:{fShow (lncdfGrad (fun _ => nan) z)}"
          else if lncdfSmallMask z then s!"S:{fShow (lncdf (fun _ => nan) z)}:{fShow (lncdfGrad (fun _ => nan) z)}"
          else s!"O:{fShow nan}:{fShow nan}"))
    | ["W", z, lp] => do
        some (fShow (lncdfBackwardNotSmall (← fOf z) (← fOf lp)))
    | "N" :: s0 :: ops => do
        let s0 ← s0.toNat?
        let rec parse : List String → Option (List BuildOp)
          | [] => some []
          | "S" :: n :: r => do let n ← n.toNat?; let t ← parse r; some (.setting n :: t)
          | "B" :: r => do let t ← parse r; some (.build :: t)
          | _ => none
        let ops ← parse ops
        some (" ".intercalate ((builtCounts s0 ops).map toString))
    | ["R", k, z, lp] => do
        let k ← k.toNat?
        let z ← fOf z
        some (fShow (lncdfBackwardNth k z (← fOf lp) (lncdfSmallNum z) (lncdfSmallDen z)))
    | "Q" :: n :: rest => do
        let n ← n.toNat?
        let xs ← Proto.parseRats? rest
        if xs.length != 2 * n then none else
        let rec prs : List Rat → List (Rat × Rat)
          | a :: b :: r => (a, b) :: prs r
          | _ => []
        let rule := prs xs
        some (" ".intercalate ((List.range (2 * n)).map fun k =>
          s!"{Proto.showRat (momentResidualBound rule k)} {Proto.showRat (momentAbsScale rule k)}"))
    | ["P"] =>
        let z : Float := -2.5
        let st := lncdfBackwardStateAfter z (-5.25) (3.5 : Float) (7.75) (1.25)
        let pureB := st.1 == z && st.2.1 == -5.25 && st.2.2.1 == 3.5 && st.2.2.2.1 == 7.75 && st.2.2.2.2 == 1.25
        let pureF := lncdfForwardInputAfter z == z
        some s!"{ghqForwardStateWrites} | {" ".intercalate (likelihoodCallStateWrites.map toString)} | {bernoulliLabelGuardIsCurrentInput} | {pureF} {pureB}"
    | ["B", m, v] => do
        some (fShow (bernoulliLink (← fOf m) (← fOf v)))
    | ["A", f, s] => do
        let f ← fOf f
        let s ← fOf s
        some s!"{fShow (betaAlpha f s)} {fShow (betaBeta f s)}"
    | _ => none
  r.getD "bad-request"

def main : IO Unit := Proto.main step

/-
C02 line-protocol driver (exact ℚ): certified `quad?` / `det?` / `inv?` / `looTrue` from `GPVerif.Model.MLL`, and the
ASSEMBLY definitions REGENERATED from the source (`GPVerif.Gen.MLLAssembly`, translator G7; proved equal to the model in
Props/C02.lean).  One reply line per request line.

  TERM  :=  j s₁…s_j  N v₁…v_N            (shape, row-major values)
  TERMS :=  c TERM×c
  mll k res₁…res_k b₁…b_k  <A: r c v…> <r: n 1 v…>  TERMS(prior) TERMS(added)  nd
        → quad det priorSum addedSum ratpart     | singular
        ratpart = mll (logNormal ½ 0 n quad 0) priors added nd   (add −½(log det + n log 2π)/nd outside)
  loo k res… b…  <A> <y: n 1 v…> <m: n 1 v…>  TERMS(prior) TERMS(added)
        → n  (μcode σ²code μtrue σ²true quad)×n  ratpart      | singular
        ratpart = looObjective ½ 0 [looTerm ½ 0 quadᵢ] priors added n   (add −½ Σ log σ²ᵢ / n − ½ log 2π outside)
  sum c m₁…m_c → sumMll
  grad 0  <A> <r: n 1 v…>  c (<D_k: n n v…> <dμ_k: n 1 v…>)×c
        → (rᵀA⁻¹D_kA⁻¹r  tr(A⁻¹D_k)  dμ_kᵀA⁻¹r  gradAssemble ½ ·)×c      | singular
        (`MLL.gradParts?`: the exact gradient of log N(y | μ, A) along (D_k, dμ_k) — `Props/C02.lean`
        `logNormal_gradient`, `gradParts_correct`)
  loograd 0  <A> <r>  c (<D_k> <dμ_k>)×c  → (MLL.looGrad? ½ A D_k r dμ_k)×c   | singular    (`loo_gradient`, `looGrad_correct`)
-/
import GPVerif.Model.MLL
import GPVerif.Gen.MLLAssembly
import GPVerif.Model.Proto

open Proto MLL

def takeNats (k : Nat) (ts : List String) : Option (List Nat × List String) :=
  if ts.length < k then none else do
    let v ← parseNats? (ts.take k)
    some (v, ts.drop k)

def takeNat (ts : List String) : Option (Nat × List String) :=
  match ts with
  | t :: rest => t.toNat?.map fun n => (n, rest)
  | [] => none

structure Term where
  shape : List Nat
  vals : Array Rat

def takeTerm (ts : List String) : Option (Term × List String) := do
  let (j, ts) ← takeNat ts
  let (shape, ts) ← takeNats j ts
  let (N, ts) ← takeNat ts
  if ts.length < N then none else
  let v ← parseRats? (ts.take N)
  some ({ shape := shape, vals := v.toArray }, ts.drop N)

def takeTerms (ts : List String) : Option (List Term × List String) := do
  let (c, ts) ← takeNat ts
  let rec go (c : Nat) (ts : List String) (acc : List Term) : Option (List Term × List String) :=
    match c with
    | 0 => some (acc.reverse, ts)
    | c + 1 => do
        let (t, ts) ← takeTerm ts
        go c ts (t :: acc)
  go c ts []

def colVec (n : Nat) (M : Array (Array Rat)) : Fin n → Rat := fun i => (M[i.1]!)[0]!

def reduceAll (res b : List Nat) (terms : List Term) : List Rat :=
  terms.map fun t => Gen.MLLAssembly.priorReduce res t.shape t.vals b

def stepMll (ts : List String) : Option String := do
  let (k, ts) ← takeNat ts
  let (res, ts) ← takeNats k ts
  let (b, ts) ← takeNats k ts
  let (n, c, A, ts) ← takeMat? ts
  let (n2, _, r, ts) ← takeMat? ts
  if n ≠ c ∨ n2 ≠ n then none else
  let (pri, ts) ← takeTerms ts
  let (add, ts) ← takeTerms ts
  let (nd, ts) ← takeNat ts
  if ts ≠ [] then none else
  let Am : DMat n n Rat := DMat.ofRaw A
  let rv := colVec n r
  let P := reduceAll res b pri
  let L := reduceAll res b add
  match quad? Am rv, det? Am with
  | some q, some d =>
    let rat := Gen.MLLAssembly.mllForward (logNormal (1 / 2 : Rat) 0 n q 0) P L nd
    some s!"{showRat q} {showRat d} {showRat P.sum} {showRat L.sum} {showRat rat}"
  | _, _ => some "singular"

def stepLoo (ts : List String) : Option String := do
  let (k, ts) ← takeNat ts
  let (res, ts) ← takeNats k ts
  let (b, ts) ← takeNats k ts
  let (n, c, A, ts) ← takeMat? ts
  let (n2, _, y, ts) ← takeMat? ts
  let (n3, _, m, ts) ← takeMat? ts
  if n ≠ c ∨ n2 ≠ n ∨ n3 ≠ n then none else
  let (pri, ts) ← takeTerms ts
  let (add, ts) ← takeTerms ts
  if ts ≠ [] then none else
  match n with
  | 0 => none
  | k + 1 =>
    let Am : DMat (k + 1) (k + 1) Rat := DMat.ofRaw A
    let yv := colVec (k + 1) y
    let mv := colVec (k + 1) m
    let P := reduceAll res b pri
    let L := reduceAll res b add
    match Am.inv? with
    | none => some "singular"
    | some X =>
    let code := fun i => (Gen.MLLAssembly.looMu Am.toMatrix X.toMatrix yv mv i, Gen.MLLAssembly.looSigma2 Am.toMatrix X.toMatrix i)
    let rows := (List.finRange (k + 1)).map fun i => (i, code i, looTrue Am yv mv i)
    if rows.any (fun x => x.2.2.isNone) then some "singular" else
    let items := rows.filterMap fun (i, c, t) =>
      match t with
      | some (μt, st) => some (c.1, c.2, μt, st, looQuad (yv i) c.1 c.2, yv i)
      | none => none
    let terms := items.map fun (μc, sc, _, _, _, yi) => Gen.MLLAssembly.looTermExpr (1 / 2 : Rat) 0 yi μc sc
    let rat := Gen.MLLAssembly.looReduce (1 / 2 : Rat) 0 terms P L (k + 1)
    let body := " ".intercalate (items.map fun (μc, sc, μt, st, q, _) =>
      s!"{showRat μc} {showRat sc} {showRat μt} {showRat st} {showRat q}")
    some s!"{k + 1} {body} {showRat rat}"

def stepSum (ts : List String) : Option String := do
  let (c, ts) ← takeNat ts
  if ts.length ≠ c then none else
  let ms ← parseRats? ts
  some (showRat (Gen.MLLAssembly.sumMllExpr ms))

def stepLooGrad (ts : List String) : Option String := do
  let (k, ts) ← takeNat ts
  if k ≠ 0 then none else
  let (n, c, A, ts) ← takeMat? ts
  let (n2, _, r, ts) ← takeMat? ts
  if n ≠ c ∨ n2 ≠ n then none else
  let (cnt, ts) ← takeNat ts
  let Am : DMat n n Rat := DMat.ofRaw A
  let rv := colVec n r
  let rec go (cnt : Nat) (ts : List String) (acc : List String) : Option (List String) :=
    match cnt with
    | 0 => if ts = [] then some acc.reverse else none
    | cnt + 1 => do
        let (a, b, D, ts) ← takeMat? ts
        let (a2, _, dm, ts) ← takeMat? ts
        if a ≠ n ∨ b ≠ n ∨ a2 ≠ n then none else
        let Dm : DMat n n Rat := DMat.ofRaw D
        match looGrad? (1 / 2 : Rat) Am Dm rv (colVec n dm) with
        | none => some ["singular"]
        | some g => go cnt ts (showRat g :: acc)
  let out ← go cnt ts []
  if out.contains "singular" then some "singular" else some (" ".intercalate out)

def stepGrad (ts : List String) : Option String := do
  let (k, ts) ← takeNat ts
  if k ≠ 0 then none else
  let (n, c, A, ts) ← takeMat? ts
  let (n2, _, r, ts) ← takeMat? ts
  if n ≠ c ∨ n2 ≠ n then none else
  let (cnt, ts) ← takeNat ts
  let Am : DMat n n Rat := DMat.ofRaw A
  let rv := colVec n r
  let rec go (cnt : Nat) (ts : List String) (acc : List String) : Option (List String) :=
    match cnt with
    | 0 => if ts = [] then some acc.reverse else none
    | cnt + 1 => do
        let (a, b, D, ts) ← takeMat? ts
        let (a2, _, dm, ts) ← takeMat? ts
        if a ≠ n ∨ b ≠ n ∨ a2 ≠ n then none else
        let Dm : DMat n n Rat := DMat.ofRaw D
        match gradParts? Am Dm rv (colVec n dm) with
        | none => some ["singular"]
        | some p =>
          go cnt ts (s!"{showRat p.1} {showRat p.2.1} {showRat p.2.2} {showRat (gradAssemble (1 / 2 : Rat) p)}" :: acc)
  let out ← go cnt ts []
  if out.contains "singular" then some "singular" else some (" ".intercalate out)

def step (line : String) : String :=
  let r := match tokens line with
    | "mll" :: ts => stepMll ts
    | "loo" :: ts => stepLoo ts
    | "sum" :: ts => stepSum ts
    | "grad" :: ts => stepGrad ts
    | "loograd" :: ts => stepLooGrad ts
    | _ => none
  r.getD "bad-request"

def main : IO Unit := Proto.main step

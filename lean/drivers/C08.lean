import GPVerif.Model.BatchOps
import GPVerif.Gen.BatchChoreo
import GPVerif.Model.BatchPipeline
import GPVerif.Model.Proto
open Bcast BatchOps Choreo

/-! Line protocol of the C08 driver.  Shapes are comma separated in torch order (`-` = scalar shape `()`),
arguments separated by `|`.  All tensors are `arange` tensors; replies list values in row-major order.

  bcast s | t            broadcast_shapes
  expand s | new         arange(s).expand(new)
  view s | new           arange(s).view(new)
  unsqueeze s | k        arange(s).unsqueeze(-(k+1))
  mT s                   arange(s).mT
  select s | k i         arange(s).select(-(k+1), i)
  repeat s | reps        arange(s).repeat(reps)
  map2 s | t             (a, b) pairs of a broadcasting binary op
  sumlast s | k          arange(s).view(*s[:r-k], -1).sum(-1)   (and the model's sum over inner multi-indices)
  scale K | os           ScaleKernel.forward choreography        (pairs)
  scalediag Kd | os      ScaleKernel.forward(diag=True)          (pairs)
  lsdiv x | ls           x.div(lengthscale)                      (pairs)
  noise nz | xb | n      _HomoskedasticNoiseBase.forward dense   (index into noise, -1 = structural zero)
  mean c | xn            ConstantMean.forward
  expandin x | bs        _expand_inputs
  replica pb | db        per result batch element: (param slice, data slice)
  summll v1 v2 …         SumMarginalLogLikelihood of member values (exact rationals)
  summllt s | v.. ; v..  the GENERATED SumMarginalLogLikelihood reduction on batched member values
  rq dist | alpha | diag the GENERATED RQKernel alpha alignment (pairs)
  norm w | target        the GENERATED normaliser (w = 0: LeaveOneOutPseudoLikelihood, 1: ExactMarginalLogLikelihood) for a
                         target of the given shape, and for the replica's target `(n,)`
  fillmask site | s | bits   the GENERATED 'fill' mask (site 0..3) on labels of shape s whose NaN pattern is `bits`
  mlhist k | events      the GENERATED IndependentModelList properties over a history (0 = read train_inputs,
                         1 = read train_targets, 100 + 10*i + m = models[i].set_train_data with m = 1 targets, 2 inputs, 3 both)
  compose pb | db        the expression tree (Model/BatchPipeline) `((x/ℓ)·os) + noise(σ, mean(c, x))` over the GENERATED
                         choreographies on provenance-coded arange tensors (x : (*db, 2, 2); ℓ, os, c, σ with batch pb):
                         the batched evaluation, and whether every batch element equals the replica evaluation `evalAt`
  (scale, scalediag, lsdiv, noise, mean, sumlast run the GENERATED op lists of Gen/BatchChoreo.lean)
-/

def commaNats (s : String) : Option (List Nat) :=
  let s := s.trimAscii.toString
  if s = "-" ∨ s = "" then some [] else (s.splitOn ",").mapM fun t => t.trimAscii.toString.toNat?

def showNats (l : List Nat) : String := if l.isEmpty then "-" else ",".intercalate (l.map toString)
def showInts (l : List Int) : String := if l.isEmpty then "-" else ",".intercalate (l.map toString)

def showT (t : T Nat) : String := s!"shape={showNats (toTorch t.shape)};flat={showNats t.toFlat}"
def showPairs (t : T (Nat × Nat)) : String :=
  s!"shape={showNats (toTorch t.shape)};a={showNats (t.toFlat.map (·.1))};b={showNats (t.toFlat.map (·.2))}"

def ar (s : List Nat) : T Nat := T.arange (ofTorch s)

def mlEvents (k : Nat) (codes : List Nat) : List (MLEvent Nat) :=
  (List.zip codes (List.range codes.length)).map fun (c, j) =>
    if c = 0 then MLEvent.read .trainInputs
    else if c = 1 then MLEvent.read .trainTargets
    else
      let i := ((c - 100) / 10) % (max k 1)
      let m := (c - 100) % 10
      let v := i * 1000 + j + 1
      MLEvent.setData i (if m = 2 ∨ m = 3 then some v else none) (if m = 1 ∨ m = 3 then some v else none)

/-- provenance-coded composition: `f a b = 100 a + b` (lengthscale), `g a b = 100 a + b` (outputscale), `h a b = 1000 a + b`
(noise; structural zeros are 999) -/
def composeExprs (pb db : List Nat) : Pipeline.BExpr Nat × Pipeline.BExpr Nat :=
  let x := ar (db ++ [2, 2])
  let ℓ := ar (pb ++ [1, 2])
  let os := ar pb
  let c := ar pb
  let σ := ar (pb ++ [1])
  let pair : Nat → Nat → Nat := fun a b => 100 * a + b
  let μ : Pipeline.BExpr Nat := .bin Pipeline.constMeanOp (.leaf c 0) (.leaf x 2)
  let K : Pipeline.BExpr Nat := .bin (Pipeline.scaleOp pair) (.bin (Pipeline.lsDivOp pair) (.leaf x 2) (.leaf ℓ 2)) (.leaf os 0)
  (.bin (Pipeline.ewOp 2 fun a b => 1000 * a + b) K (.bin (Pipeline.noiseOp 999) (.leaf σ 1) μ), μ)

/-- does every batch element of the batched evaluation equal the replica evaluation? -/
def replicasAgree (e : Pipeline.BExpr Nat) (k : Nat) (t : T Nat) : Bool :=
  (allIdx (t.shape.drop k)).all fun b => (Pipeline.elem k t b).toFlat == (e.evalAt b).toFlat && (Pipeline.elem k t b).shape == (e.evalAt b).shape

def step (line : String) : String :=
  let line := line.trimAscii.toString
  match line.splitOn " " with
  | [] => "bad-request"
  | op :: rest =>
    let args := ((" ".intercalate rest).splitOn "|").map commaNats
    match op, args with
    | "summll", _ =>
      match (Proto.tokens (" ".intercalate rest)).mapM Proto.parseRat? with
      | some vals =>
        Proto.showRat (sumMll (vals.map fun v (_ : Unit) (_ : Unit) => v) (vals.map fun _ => ()) (vals.map fun _ => ()))
      | none => "bad-request"
    | "summllt", _ =>
      -- summllt <shape> | r r r ; r r r ; …   (one rational list per member, row-major)
      match (" ".intercalate rest).splitOn "|" with
      | [sh, body] =>
        match commaNats sh, ((body.splitOn ";").mapM fun m => (Proto.tokens m).mapM Proto.parseRat?) with
        | some shape, some ms =>
          let rs := ofTorch shape
          let members : List (T Rat) := ms.map fun vals => T.ofFlat rs vals.toArray
          match runSumMll Gen.BatchChoreo.sumMllOps members with
          | some t => s!"shape={showNats (toTorch t.shape)};vals=" ++ " ".intercalate (t.toFlat.map Proto.showRat)
          | none => "none"
        | _, _ => "bad-request"
      | _ => "bad-request"
    | "bcast", [some s, some t] =>
      match broadcastShapes s t with
      | some r => s!"shape={showNats r}"
      | none => "none"
    | "expand", [some s, some n] =>
      if bcastR (ofTorch s) (ofTorch n) = some (ofTorch n) ∧ s.length ≤ n.length then showT ((ar s).expand (ofTorch n)) else "none"
    | "view", [some s, some n] =>
      if numel (ofTorch s) = numel (ofTorch n) then showT ((ar s).view (ofTorch n)) else "none"
    | "unsqueeze", [some s, some [k]] => if k ≤ s.length then showT ((ar s).unsqueeze k) else "none"
    | "mT", [some s] => if s.length ≥ 2 then showT (ar s).mT else "none"
    | "select", [some s, some [k, i]] =>
      if k < s.length ∧ i < (ofTorch s).getD k 0 then showT ((ar s).select k i) else "none"
    | "repeat", [some s, some r] => if r.length = s.length then showT ((ar s).repeat (ofTorch r)) else "none"
    | "map2", [some s, some t] =>
      match T.map2 Prod.mk (ar s) (ar t) with
      | some r => showPairs r
      | none => "none"
    -- from here on: the GENERATED op lists (Gen/BatchChoreo.lean) under the `Choreo` interpreter
    | "sumlast", [some s, some [k]] =>
      if k ≤ s.length then
        -- k trailing dims are reduced, i.e. n = rank - k leading dims are kept (`res_ndim`)
        match runParam Gen.BatchChoreo.exactPriorOps (ar s) [] [s.length - k],
              runParam Gen.BatchChoreo.approxPriorOps (ar s) [] [s.length - k] with
        | some a, some a' =>
          let b := (ar s).sumInner k
          s!"shape={showNats (toTorch a.shape)};flat={showNats a.toFlat};approx={showNats a'.toFlat};inner={showNats b.toFlat}"
        | _, _ => "none"
      else "none"
    | "scale", [some k, some o] =>
      match runBinary Gen.BatchChoreo.scaleFullOps Prod.mk (ar k) (ar o) [] [] with | some r => showPairs r | none => "none"
    | "scalediag", [some k, some o] =>
      match runBinary Gen.BatchChoreo.scaleDiagOps Prod.mk (ar k) (ar o) [] [] with | some r => showPairs r | none => "none"
    | "lsdiv", [some x, some l] =>
      match runBinary Gen.BatchChoreo.lengthscaleDivOps Prod.mk (ar x) (ar l) [] [] with | some r => showPairs r | none => "none"
    | "rq", [some d, some a, some [dg]] =>
      -- dist_mat shape | alpha shape | diag flag; the rank arguments are what the source may (wrongly) consult
      let kbRank := a.length - 1
      match runBinary (Gen.BatchChoreo.rqAlphaOps (dg != 0) false d.length kbRank) Prod.mk (ar d) (ar a) [] [] with
      | some r => showPairs r | none => "none"
    | "noise", [some nz, some xb, some [n]] =>
      let noise : T Int := ⟨ofTorch nz, fun idx => (flat (ofTorch nz) idx : Nat)⟩
      match runConstDiag Gen.BatchChoreo.homoNoiseOps (-1 : Int) noise [ofTorch xb] n with
      | some r => s!"shape={showNats (toTorch r.shape)};flat={showInts r.toFlat}"
      | none => "none"
    | "mean", [some c, some xn] =>
      match runParam Gen.BatchChoreo.constantMeanOps (ar c) [ofTorch xn] [] with | some r => showT r | none => "none"
    | "expandin", [some x, some bs] =>
      if x.length ≥ 2 ∧ (bcastR ((ofTorch x).drop 2) (ofTorch bs) = some (ofTorch bs)) then showT (expandInputs (ar x) (ofTorch bs)) else "none"
    | "compose", [some pb, some db] =>
      let (e, μ) := composeExprs pb db
      match e.eval, μ.eval with
      | some t, some m =>
        s!"shape={showNats (toTorch t.shape)};flat={showNats t.toFlat};mshape={showNats (toTorch m.shape)};mean={showNats m.toFlat};" ++
        s!"rep={if replicasAgree e 2 t && replicasAgree μ 1 m then 1 else 0}"
      | _, _ => "none"
    | "norm", [some [w], some tgt] =>
      let e := if w = 0 then Gen.BatchChoreo.looNormaliser else Gen.BatchChoreo.exactNormaliser
      let n := (ofTorch tgt).headD 1
      s!"n={e.eval (ofTorch tgt) [n]};r={e.eval [n] [n]}"
    | "fillmask", [some [site], some shape, some bits] =>
      let m := match site with
        | 0 => Gen.BatchChoreo.meanCacheFillMask
        | 1 => Gen.BatchChoreo.covarFillMask
        | 2 => Gen.BatchChoreo.elpFillMask
        | _ => Gen.BatchChoreo.logMarginalFillMask
      let rs := ofTorch shape
      let arr := bits.toArray
      let labels : T Bool := ⟨rs, fun idx => arr[flat rs idx]! != 0⟩
      s!"flat={showNats ((allIdx rs).map fun idx => if m.observedAt labels idx then 1 else 0)}"
    | "mlhist", [some [k], some codes] =>
      let st : MLState Nat := ⟨(List.range k).map fun i => (i * 1000, i * 1000), none, none⟩
      let h := mlEvents k codes
      let pI := Gen.BatchChoreo.modelListTrainInputs
      let pT := Gen.BatchChoreo.modelListTrainTargets
      let reads := (runHist pI pT st h).2
      s!"r={"/".intercalate (reads.map showNats)};fi={showNats (readAfter pI pT st h .trainInputs)};ft={showNats (readAfter pI pT st h .trainTargets)}"
    | "replica", [some pb, some db] =>
      match replicaTable (ofTorch pb) (ofTorch db) with
      | some (bs, l) => s!"shape={showNats (toTorch bs)};p={showNats (l.map (·.1))};d={showNats (l.map (·.2))}"
      | none => "none"
    | _, _ => "bad-request"

def main : IO Unit := Proto.main step

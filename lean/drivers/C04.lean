/-
C04 driver (line protocol, exact over ℚ).  Imports Model only.

Requests (matrices travel as `rows cols v11 v12 …`, exact rationals):

  fant k  A r  (U S rf)×k  Kt Ktt mt
      a chain of `k` fantasy steps on base data `(A, r)`; `Kt` (t×N), `Ktt` (t×t), `mt` (t×1) are the test blocks
      against the fully concatenated data (`N = n + Σ f`).
      reply:  ok eq=<5 bits> kappa <q> | mc | Kinv | pm | pc | pcr
        mc / Kinv  : incrementally updated mean cache and carried inverse (`Steps.fold?`)
        pm / pc    : predictive mean / covariance from the incremental caches
        eq bits    : [mc = scratch mc, Kinv = scratch Kinv, pm = scratch pm, pc = scratch pc,
                      J·mc = y (exact residual zero)]  — scratch = `Steps.scratch?` on the assembled system
        kappa      : ‖J‖∞ ‖J⁻¹‖∞ (exact)
      numbers in the reply are ⌊q·2¹⁰⁰⌋ (integers; divide by 2¹⁰⁰)

  root  L R U S G
      `cat_rows` on observed factors: reply  ok | Z | Rp | GGt-resid
        Z = rootUpdate L R U G, Rp = invRootUpdate R U G⁻¹

  wiski  W Dinv r  Wf Dfinv rf  K
      reply  ok eq=<2 bits> | P' | c'     (updated caches; bits: equal to recomputation from concatenated data)
-/
import GPVerif.Model.Fantasy
import GPVerif.Model.Proto
open Proto Fantasy

def scale : Int := 2 ^ 100

def showApprox (q : Rat) : String := toString ((q.num * scale) / (q.den : Int))

def showMat {n m : Nat} (A : DMat n m Rat) : String :=
  s!"{n} {m} " ++ " ".intercalate (A.toRows.flatten.map showApprox)

/-- typed matrix off the token list, with the dimensions checked against the expected ones -/
def takeD (n m : Nat) (ts : List String) : Option (DMat n m Rat × List String) := do
  let (r, c, rows, rest) ← takeMat? ts
  if r = n ∧ c = m then some (DMat.ofRaw rows, rest) else none

def peekDims (ts : List String) : Option (Nat × Nat) :=
  match ts with
  | r :: c :: _ => do some (← r.toNat?, ← c.toNat?)
  | _ => none

structure AnyChain where
  n : Nat
  c : Steps Rat n

def parseSteps : Nat → AnyChain → List String → Option (AnyChain × List String)
  | 0, ch, ts => some (ch, ts)
  | k + 1, ch, ts => do
    let (f, _) ← peekDims ts
    let (U, ts) ← takeD f ch.n ts
    let (S, ts) ← takeD f f ts
    let (rf, ts) ← takeD f 1 ts
    parseSteps k ⟨ch.n + f, .step ch.c U S rf⟩ ts

structure FantReq where
  ch : AnyChain
  t : Nat
  Kt : DMat t ch.n Rat
  Ktt : DMat t t Rat
  mt : DMat t 1 Rat

def parseFant (k : String) (ts : List String) : Option FantReq := do
  let k ← k.toNat?
  let (n, _) ← peekDims ts
  let (A, ts) ← takeD n n ts
  let (r, ts) ← takeD n 1 ts
  let (ch, ts) ← parseSteps k ⟨n, .base A r⟩ ts
  let (t, _) ← peekDims ts
  let (Kt, ts) ← takeD t ch.n ts
  let (Ktt, ts) ← takeD t t ts
  let (mt, _) ← takeD t 1 ts
  some ⟨ch, t, Kt, Ktt, mt⟩

def normInf {n m : Nat} (A : DMat n m Rat) : Rat :=
  A.toRows.foldl (fun acc row => max acc (row.foldl (fun s x => s + |x|) 0)) 0

def bit (b : Bool) : String := if b then "1" else "0"

def doFant (ts : List String) : String :=
  match ts with
  | k :: ts =>
    match parseFant k ts with
    | none => "bad"
    | some ⟨ch, _, Kt, Ktt, mt⟩ =>
      match ch.c.fold?, ch.c.scratch? with
      | none, _ => "singular-incremental"
      | _, none => "singular-scratch"
      | some st, some sc =>
        let J := ch.c.assemble.1
        let y := ch.c.assemble.2
        let pm := predMean mt Kt st.mean
        let pc := predCovarInv Ktt Kt st.Kinv
        let pm0 := predMean mt Kt sc.mean
        let pc0 := predCovarInv Ktt Kt sc.Kinv
        let e1 := decide (st.mean.arr = sc.mean.arr)
        let e2 := decide (st.Kinv.arr = sc.Kinv.arr)
        let e3 := decide (pm.arr = pm0.arr)
        let e4 := decide (pc.arr = pc0.arr)
        let e5 := decide ((J.mul st.mean).arr = y.arr)
        let kappa := normInf J * normInf sc.Kinv
        s!"ok eq={bit e1}{bit e2}{bit e3}{bit e4}{bit e5} kappa {showApprox kappa} | {showMat st.mean} | {showMat st.Kinv} | {showMat pm} | {showMat pc}"
  | _ => "bad"

def doRoot (ts : List String) : String :=
  match (do
    let (n, p) ← peekDims ts
    let (L, ts) ← takeD n p ts
    let (R, ts) ← takeD n p ts
    let (f, _) ← peekDims ts
    let (U, ts) ← takeD f n ts
    let (S, ts) ← takeD f f ts
    let (G, _) ← takeD f f ts
    some (⟨n, p, f, L, R, U, S, G⟩ :
      (n : Nat) × (p : Nat) × (f : Nat) × DMat n p Rat × DMat n p Rat × DMat f n Rat × DMat f f Rat × DMat f f Rat)) with
  | none => "bad"
  | some ⟨_, _, _, L, R, U, S, G⟩ =>
    match G.inv? with
    | none => "singular-G"
    | some Gi =>
      let Z := rootUpdate L R U G
      let Rp := invRootUpdate R U Gi
      let F := U.mul R
      let resid := (G.mul G.transpose).sub (S.sub (F.mul F.transpose))
      s!"ok | {showMat Z} | {showMat Rp} | {showMat resid}"

def doWiski (ts : List String) : String :=
  match (do
    let (m, n) ← peekDims ts
    let (W, ts) ← takeD m n ts
    let (Dinv, ts) ← takeD n n ts
    let (r, ts) ← takeD n 1 ts
    let (_, f) ← peekDims ts
    let (Wf, ts) ← takeD m f ts
    let (Dfinv, ts) ← takeD f f ts
    let (rf, _) ← takeD f 1 ts
    some (⟨m, n, f, W, Dinv, r, Wf, Dfinv, rf⟩ :
      (m : Nat) × (n : Nat) × (f : Nat) × DMat m n Rat × DMat n n Rat × DMat n 1 Rat × DMat m f Rat × DMat f f Rat ×
        DMat f 1 Rat)) with
  | none => "bad"
  | some ⟨_, _, _, W, Dinv, r, Wf, Dfinv, rf⟩ =>
    let P' := wiskiInnerUpdate (interpInnerProd W Dinv) Wf Dfinv
    let c' := wiskiResponseUpdate (interpResponse W Dinv r) Wf Dfinv rf
    let Dall := blocks Dinv DMat.zero DMat.zero Dfinv
    let P0 := interpInnerProd (hcat W Wf) Dall
    let c0 := interpResponse (hcat W Wf) Dall (vcat r rf)
    s!"ok eq={bit (decide (P'.arr = P0.arr))}{bit (decide (c'.arr = c0.arr))} | {showMat P'} | {showMat c'}"

def step (line : String) : String :=
  match tokens line with
  | "fant" :: ts => doFant ts
  | "root" :: ts => doRoot ts
  | "wiski" :: ts => doWiski ts
  | _ => "bad"

def main : IO Unit := Proto.main step

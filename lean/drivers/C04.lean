/-
C04 driver (line protocol, exact over ℚ).  Imports Model only.

Requests (matrices travel as `rows cols v11 v12 …`, exact rationals):

  fant k  A r  (U S rf)×k  Kt Ktt mt
      a chain of `k` fantasy steps on base data `(A, r)`; `Kt` (t×N), `Ktt` (t×t), `mt` (t×1) are the test blocks
      against the fully concatenated data (`N = n + Σ f`).
      reply:  ok eq=<6 bits> kappa <q> | mc | Kinv | pm | pc
        mc / Kinv / pm / pc : the closed form (`Steps.scratch?` on the assembled system) — the specification
        eq bits    : the incremental route, evaluated with the definitions **generated from the Python source**
                     (`Gen.FantasyAlgebra.defaultMeanCache? / defaultSchur / defaultFantSolve`, `genFold?` below):
                     [mc = scratch mc, Kinv = scratch Kinv, pm = scratch pm, pc = scratch pc, J·mc = y,
                      generated fold = hand-written `Steps.fold?`]
        kappa      : ‖J‖∞ ‖J⁻¹‖∞ (exact)
      numbers in the reply are ⌊q·2¹⁰⁰⌋ (integers; divide by 2¹⁰⁰)

  root  L R U S G
      `cat_rows` on observed factors: reply  ok | Z | Rp | GGt-resid
        Z = rootUpdate L R U G, Rp = invRootUpdate R U G⁻¹

  wiski  W Dinv r  Wf Dfinv rf  K
      reply  ok eq=<2 bits> | P' | c'     (updated caches; bits: equal to recomputation from concatenated data)
-/
import GPVerif.Model.Fantasy
import GPVerif.Gen.FantasyAlgebra
import GPVerif.Gen.FantasyShapes
import GPVerif.Model.Proto
open Proto Fantasy

def scale : Int := 2 ^ 100

def showApprox (q : Rat) : String := toString ((q.num * scale) / (q.den : Int))

def showMat {n m : Nat} (A : DMat n m Rat) : String :=
  s!"{n} {m} " ++ " ".intercalate (A.toRows.flatten.map showApprox)

/-- typed matrix off the token list, with the dimensions checked against the expected ones -/
def takeD (n m : Nat) (ts : List String) : Option (DMat n m Rat × List String) := do
  let (r, c, rows, rest) ← takeMat? ts
  if r = n ∧ c = m then some (DMat.ofRaw rows, rest) else none

def peekDims (ts : List String) : Option (Nat × Nat) :=
  match ts with
  | r :: c :: _ => do some (← r.toNat?, ← c.toNat?)
  | _ => none

structure AnyChain where
  n : Nat
  c : Steps Rat n

def parseSteps : Nat → AnyChain → List String → Option (AnyChain × List String)
  | 0, ch, ts => some (ch, ts)
  | k + 1, ch, ts => do
    let (f, _) ← peekDims ts
    let (U, ts) ← takeD f ch.n ts
    let (S, ts) ← takeD f f ts
    let (rf, ts) ← takeD f 1 ts
    parseSteps k ⟨ch.n + f, .step ch.c U S rf⟩ ts

structure FantReq where
  ch : AnyChain
  t : Nat
  Kt : DMat t ch.n Rat
  Ktt : DMat t t Rat
  mt : DMat t 1 Rat

def parseFant (k : String) (ts : List String) : Option FantReq := do
  let k ← k.toNat?
  let (n, _) ← peekDims ts
  let (A, ts) ← takeD n n ts
  let (r, ts) ← takeD n 1 ts
  let (ch, ts) ← parseSteps k ⟨n, .base A r⟩ ts
  let (t, _) ← peekDims ts
  let (Kt, ts) ← takeD t ch.n ts
  let (Ktt, ts) ← takeD t t ts
  let (mt, _) ← takeD t 1 ts
  some ⟨ch, t, Kt, Ktt, mt⟩

/-- The incremental route with the *generated* algebra: mean cache from `Gen.defaultMeanCache?`, carried inverse
from the generated `fant_solve` / `schur_complement`. -/
def genFold? : {n : Nat} → Steps Rat n → Option (FState n Rat)
  | _, .base A r => init? A r
  | _, .step c U S rf =>
    match genFold? c with
    | none => none
    | some st =>
      let z : DMat _ 1 Rat := DMat.zero
      match Gen.FantasyAlgebra.defaultMeanCache? st.Kinv st.mean U S rf z,
            (Gen.FantasyAlgebra.defaultSchur st.Kinv st.mean U S rf z).inv? with
      | some mc, some Sinv =>
        some { Kinv := invUpdate st.Kinv (Gen.FantasyAlgebra.defaultFantSolve st.Kinv st.mean U S rf z) Sinv, mean := mc }
      | _, _ => none

def normInf {n m : Nat} (A : DMat n m Rat) : Rat :=
  A.toRows.foldl (fun acc row => max acc (row.foldl (fun s x => s + |x|) 0)) 0

def bit (b : Bool) : String := if b then "1" else "0"

def doFant (ts : List String) : String :=
  match ts with
  | k :: ts =>
    match parseFant k ts with
    | none => "bad"
    | some ⟨ch, _, Kt, Ktt, mt⟩ =>
      match genFold? ch.c, ch.c.scratch? with
      | none, _ => "singular-incremental"
      | _, none => "singular-scratch"
      | some st, some sc =>
        let J := ch.c.assemble.1
        let y := ch.c.assemble.2
        let pm := predMean mt Kt st.mean
        let pc := predCovarInv Ktt Kt st.Kinv
        let pm0 := predMean mt Kt sc.mean
        let pc0 := predCovarInv Ktt Kt sc.Kinv
        let e1 := decide (st.mean.arr = sc.mean.arr)
        let e2 := decide (st.Kinv.arr = sc.Kinv.arr)
        let e3 := decide (pm.arr = pm0.arr)
        let e4 := decide (pc.arr = pc0.arr)
        let e5 := decide ((J.mul st.mean).arr = y.arr)
        let e6 := match ch.c.fold? with
          | some sm => decide (sm.mean.arr = st.mean.arr ∧ sm.Kinv.arr = st.Kinv.arr)
          | none => false
        let kappa := normInf J * normInf sc.Kinv
        s!"ok eq={bit e1}{bit e2}{bit e3}{bit e4}{bit e5}{bit e6} kappa {showApprox kappa} | {showMat sc.mean} | {showMat sc.Kinv} | {showMat pm0} | {showMat pc0}"
  | _ => "bad"

def doRoot (ts : List String) : String :=
  match (do
    let (n, p) ← peekDims ts
    let (L, ts) ← takeD n p ts
    let (R, ts) ← takeD n p ts
    let (f, _) ← peekDims ts
    let (U, ts) ← takeD f n ts
    let (S, ts) ← takeD f f ts
    let (G, _) ← takeD f f ts
    some (⟨n, p, f, L, R, U, S, G⟩ :
      (n : Nat) × (p : Nat) × (f : Nat) × DMat n p Rat × DMat n p Rat × DMat f n Rat × DMat f f Rat × DMat f f Rat)) with
  | none => "bad"
  | some ⟨_, _, _, L, R, U, S, G⟩ =>
    match G.inv? with
    | none => "singular-G"
    | some Gi =>
      let Z := Gen.FantasyAlgebra.defaultNewRoot L R G Gi U S
      let Rp := Gen.FantasyAlgebra.defaultCovarCache L R G Gi U S
      let F := U.mul R
      let resid := (G.mul G.transpose).sub (S.sub (F.mul F.transpose))
      s!"ok | {showMat Z} | {showMat Rp} | {showMat resid}"

structure WiskiReq where
  m : Nat
  n : Nat
  f : Nat
  W : DMat m n Rat
  Dinv : DMat n n Rat
  r : DMat n 1 Rat
  Wf : DMat m f Rat
  Dfinv : DMat f f Rat
  rf : DMat f 1 Rat
  Sq : DMat f f Rat
  K : DMat m m Rat
  p : Nat
  L : DMat m p Rat

def parseWiski (ts : List String) : Option WiskiReq := do
  let (m, n) ← peekDims ts
  let (W, ts) ← takeD m n ts
  let (Dinv, ts) ← takeD n n ts
  let (r, ts) ← takeD n 1 ts
  let (_, f) ← peekDims ts
  let (Wf, ts) ← takeD m f ts
  let (Dfinv, ts) ← takeD f f ts
  let (rf, ts) ← takeD f 1 ts
  let (Sq, ts) ← takeD f f ts
  let (K, ts) ← takeD m m ts
  let (_, p) ← peekDims ts
  let (L, _) ← takeD m p ts
  some ⟨m, n, f, W, Dinv, r, Wf, Dfinv, rf, Sq, K, p, L⟩

/-- `wiski W Dinv r Wf Dfinv rf Sq K L`: caches updated with the *generated* definitions (`Sq` = observed
`D_f^{-1/2}`, `L` = observed Cholesky root of the updated `interp_inner_prod`), recomputation from the full data,
and the generated `fantasy_mean_cache`.
reply: ok eq=<c' = recomputed> | P' | c' | P0 | mean cache -/
def doWiski (ts : List String) : String :=
  match parseWiski ts with
  | none => "bad"
  | some q =>
    let z : DMat q.f 1 Rat := DMat.zero
    let P := interpInnerProd q.W q.Dinv
    let c := interpResponse q.W q.Dinv q.r
    let P' := Gen.FantasyAlgebra.wiskiInnerProd P c q.Wf q.Dfinv q.Sq q.rf z
    let c' := Gen.FantasyAlgebra.wiskiResponseCache P c q.Wf q.Dfinv q.Sq q.rf z
    let Dall := blocks q.Dinv DMat.zero DMat.zero q.Dfinv
    let P0 := interpInnerProd (hcat q.W q.Wf) Dall
    let c0 := interpResponse (hcat q.W q.Wf) Dall (vcat q.r q.rf)
    match Gen.FantasyAlgebra.wiskiMeanCache? q.K q.L c' with
    | none => "singular-q"
    | some mc =>
      s!"ok eq={bit (decide (c'.arr = c0.arr))} | {showMat P'} | {showMat c'} | {showMat P0} | {showMat mc}"

/-- `noisecat old new`: generated fixed-noise concatenation, exact. -/
def doNoiseCat (ts : List String) : String :=
  match (do
    let (n, _) ← peekDims ts
    let (o, ts) ← takeD n 1 ts
    let (f, _) ← peekDims ts
    let (nw, _) ← takeD f 1 ts
    some (⟨n, f, o, nw⟩ : (n : Nat) × (f : Nat) × DMat n 1 Rat × DMat f 1 Rat)) with
  | none => "bad"
  | some ⟨_, _, o, nw⟩ =>
    let g := Gen.FantasyAlgebra.fixedNoiseConcat o nw
    s!"ok eq={bit (decide (g.arr = (Fantasy.fixedNoiseConcat o nw).arr))} | " ++ showRows g.toRows

/-- `routes hasNoise k e1 … ek` (`ei` = 1 when `noise[i]` is not None): generated per-member noise routing.
reply: ok eq=<generated = Route.memberKwargs> | r1 … rk   with ri = index of the noise entry member i receives, or `-` -/
def doRoutes (ts : List String) : String :=
  match ts.mapM String.toNat? with
  | some (h :: k :: es) =>
    let noise : Option (List (Option Nat)) :=
      if h = 1 then some (es.zipIdx.map fun (e, i) => if e = 1 then some i else none) else none
    let g := Gen.FantasyAlgebra.modelListKwargs [] noise k
    let spec := Route.memberKwargs [] noise k
    let shw (kw : Route.Kw) : String := match kw.find? (·.1 = Route.noiseKey) with
      | some (_, some v) => toString v
      | some (_, none) => "None"
      | none => "-"
    let calls := Gen.FantasyAlgebra.modelListCalls (List.range k) ((List.range k).map (· + 100)) g
    let okc := decide (calls = Route.memberCalls (List.range k) ((List.range k).map (· + 100)) g)
    s!"ok eq={bit (decide (g = spec))}{bit okc} | " ++ " ".intercalate (g.map shw)
  | _ => "bad"

/-! ### batch-shape choreography (`Gen/FantasyShapes.lean`) on position-tagged tensors

  fshape mb | ib | tb | kb      shapes comma separated in torch order (`-` = scalar shape)
      reply: ok gen=<0/1> spec=<0/1> | <reg> gshape=<s> sshape=<s> gen=<p;p;…> spec=<p;p;…> | …
        gen  = the GENERATED program (`Gen.FantasyShapes.fantasyProgram`) run on tensors whose element `i` of input
               register `r` is the tag `r.i`; an element-level primitive returns the union of its arguments' tags
        spec = `FShapes.Accepts`, the specified output shapes and `elemFantasy` on the slices `bidxR · e`
        p    = tags `r.i+r.i+…` of one output element (row-major order)
  fnoise nb | kb                the same for `FixedNoiseGaussianLikelihood.get_fantasy_likelihood`
-/

namespace ShapeDriver
open Bcast FShapes

abbrev Tags := List (Nat × Nat)

def insertTag (t : Nat × Nat) : Tags → Tags
  | [] => [t]
  | x :: xs => if t = x then x :: xs else if t.1 < x.1 ∨ (t.1 = x.1 ∧ t.2 < x.2) then t :: x :: xs else x :: insertTag t xs

def union (a b : Tags) : Tags := b.foldl (fun acc t => insertTag t acc) a

/-- every primitive returns the tags of everything it reads -/
def tagI (_ : Nat) (args : List Tags) : Tags := args.foldl union []

def tagged (r : Nat) (s : RShape) : T Tags := ⟨s, fun idx => [(r, flat s idx)]⟩

def commaNats (s : String) : Option (List Nat) :=
  let s := s.trimAscii.toString
  if s = "-" ∨ s = "" then some [] else (s.splitOn ",").mapM fun t => t.trimAscii.toString.toNat?

def showNats (l : List Nat) : String := if l.isEmpty then "-" else ",".intercalate (l.map toString)
def showTags (t : Tags) : String := "+".intercalate (t.map fun p => s!"{p.1}.{p.2}")
def showT (t : T Tags) : String := ";".intercalate (t.toFlat.map showTags)
def bit (b : Bool) : String := if b then "1" else "0"

def outputs : List (Nat × (RShape → RShape → RShape → RShape) × (ElemOut Tags → Tags)) :=
  [(Reg.outTrainX, outXShape, (·.trainX)), (Reg.outTrainY, fun mb _ tb => adj mb tb, (·.trainY)),
   (Reg.sTrainX, stratShape, (·.sTrainX)), (Reg.sMean, stratShape, (·.sMean)), (Reg.sCovar, stratShape, (·.sCovar)),
   (Reg.sLabels, fun mb _ tb => adj mb tb, (·.sLabels)), (Reg.sRoot, stratShape, (·.sRoot)),
   (Reg.sInvRoot, fun mb ib _ => adj mb ib, (·.sInvRoot)), (Reg.outMeanCache, cacheShape, (·.meanCache)),
   (Reg.outCovarCache, fun mb ib _ => adj mb ib, (·.covarCache))]

def doShape (mb ib tb kb : RShape) : String :=
  let tX := tagged Reg.trainX mb; let tY := tagged Reg.trainY mb; let xf := tagged Reg.xf ib; let yf := tagged Reg.yf tb
  let th := tagged Reg.theta mb; let lt := tagged Reg.ltt mb; let mc := tagged Reg.meanCache mb; let kw := tagged Reg.kw kb
  let r := run tagI Gen.FantasyShapes.fantasyProgram (fantasyEnv Gen.FantasyShapes.nShapes tX tY xf yf th lt mc kw)
  let acc := decide (Accepts mb ib tb kb)
  let el (e : RIdx) : ElemOut Tags :=
    elemFantasy tagI (tX.get (bidxR mb e)) (tY.get (bidxR mb e)) (xf.get (bidxR ib e)) (yf.get (bidxR tb e))
      (th.get (bidxR mb e)) (lt.get (bidxR mb e)) (mc.get (bidxR mb e)) (kw.get (bidxR kb e))
  let head := s!"ok gen={bit r.isSome} spec={bit acc}"
  let body := outputs.map fun (o, shp, field) =>
    let ss := shp mb ib tb
    let spec : T Tags := ⟨ss, fun e => field (el e)⟩
    let g := match r.bind (·.ten o) with
      | some t => s!"gshape={showNats (toTorch t.shape)} gen={showT t}"
      | none => "gshape=none gen="
    let sp := if acc then s!"sshape={showNats (toTorch ss)} spec={showT spec}" else "sshape=none spec="
    s!"{o} {g} {sp}"
  " | ".intercalate (head :: body)

def doNoise (nb kb : RShape) : String :=
  let o := tagged Reg.oldNoise nb; let n := tagged Reg.newNoise kb
  let r := run tagI Gen.FantasyShapes.fixedNoiseProgram (noiseEnv Gen.FantasyShapes.fixedNoiseNShapes o n)
  let acc := decide (AcceptsNoise nb kb)
  let spec : T Tags := ⟨kb, fun e => tagI (Prim.cat 1) [o.get (bidxR nb e), n.get (bidxR kb e)]⟩
  let g := match r.bind (·.ten Reg.outNoise) with
    | some t => s!"gshape={showNats (toTorch t.shape)} gen={showT t}"
    | none => "gshape=none gen="
  let sp := if acc then s!"sshape={showNats (toTorch kb)} spec={showT spec}" else "sshape=none spec="
  s!"ok gen={bit r.isSome} spec={bit acc} | {Reg.outNoise} {g} {sp}"

def handle (rest : List String) (noise : Bool) : String :=
  match ((" ".intercalate rest).splitOn "|").mapM commaNats with
  | some [mb, ib, tb, kb] => if noise then "bad" else doShape (ofTorch mb) (ofTorch ib) (ofTorch tb) (ofTorch kb)
  | some [nb, kb] => if noise then doNoise (ofTorch nb) (ofTorch kb) else "bad"
  | _ => "bad"

end ShapeDriver

def step (line : String) : String :=
  match tokens line with
  | "fshape" :: ts => ShapeDriver.handle ts false
  | "fnoise" :: ts => ShapeDriver.handle ts true
  | "fant" :: ts => doFant ts
  | "root" :: ts => doRoot ts
  | "wiski" :: ts => doWiski ts
  | "noisecat" :: ts => doNoiseCat ts
  | "routes" :: ts => doRoutes ts
  | _ => "bad"

def main : IO Unit := Proto.main step
